// Executable mirrors for lightning/src/chain/package.rs (on-chain claim fee bumping)
use super::*;
include!("/verif/hooks/common.rs");
use crate::util::logger::{Logger, Record};

pub struct FixedEst(pub u32);
impl FeeEstimator for FixedEst {
	fn get_est_sat_per_1000_weight(&self, _t: ConfirmationTarget) -> u32 {
		self.0
	}
}
pub struct NoLog;
impl Logger for NoLog {
	fn log(&self, _r: Record) {}
}

// u07/feerate_bump: fees are raised monotonically; a real bump respects BIP-125 rules 3-4 and never goes into dust
pub fn contract_feerate_bump(w: u64, input: u64, dust: u64, prev: u64, strat: u8, est: u32) -> Outcome {
	if w < 100 || w > 4_000_000 || input > 21_000_000_0000_0000 || prev < 1 || prev > u32::MAX as u64 || dust < 1 {
		return Outcome::Vacuous;
	}
	let s = match strat % 3 {
		0 => FeerateStrategy::RetryPrevious,
		1 => FeerateStrategy::HighestOfPreviousOrNew,
		_ => FeerateStrategy::ForceBump,
	};
	let fe = LowerBoundedFeeEstimator::new(FixedEst(est));
	match feerate_bump(w, input, dust, prev, &s, ConfirmationTarget::UrgentOnChainSweep, &fe, &NoLog) {
		None => Outcome::Holds,
		Some((fee, rate)) => {
			let prev_fee = prev as u128 * w as u128 / 1000;
			let mut ok = rate >= prev && fee as u128 >= prev_fee;
			if rate > prev {
				ok = ok && fee as u128 >= prev_fee + 253 * w as u128 / 1000 && fee <= input && input - fee >= dust;
			}
			if ok { Outcome::Holds } else { Outcome::Violated }
		},
	}
}
pub fn replay(name: &str, a: &[u128]) -> Option<Outcome> {
	Some(match name {
		"feerate_bump" => contract_feerate_bump(a[0] as u64, a[1] as u64, a[2] as u64, a[3] as u64, a[4] as u8, a[5] as u32),
		"feerate_bump_norm" => contract_feerate_bump(100 + (a[0] % 3_999_901) as u64, (a[1] % 21_000_000_0000_0000) as u64, 1 + (a[2] % 100_000) as u64,
			1 + (a[3] % u32::MAX as u128) as u64, a[4] as u8, a[5] as u32),
		_ => return None,
	})
}
