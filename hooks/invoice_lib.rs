// Kani harness for lightning-invoice/src/lib.rs: the amount field (msat -> raw amount + SI prefix -> pico-BTC)
use super::*;
include!("/verif/hooks/common.rs");

// (P C18) amount round trip: InvoiceBuilder::amount_milli_satoshis(a) then RawBolt11Invoice::amount_pico_btc()
// gives back a * 10 pico-BTC, using the largest SI prefix that divides; amounts whose pico value overflows are refused
pub fn contract_amount_roundtrip(a: u64) -> Outcome {
	let b = InvoiceBuilder::new(Currency::Bitcoin).amount_milli_satoshis(a);
	if a > u64::MAX / 10 {
		return if b.error == Some(CreationError::InvalidAmount) { Outcome::Holds } else { Outcome::Violated };
	}
	if b.error.is_some() {
		return Outcome::Violated;
	}
	let (amt, si) = match (b.amount, b.si_prefix) {
		(Some(x), Some(s)) => (x, s),
		_ => return Outcome::Violated,
	};
	let pico = a * 10;
	// largest prefix that divides
	let largest_ok = match si {
		SiPrefix::Milli => true,
		SiPrefix::Micro => pico % 1_000_000_000 != 0,
		SiPrefix::Nano => pico % 1_000_000 != 0,
		SiPrefix::Pico => pico % 1_000 != 0,
	};
	let raw = RawBolt11Invoice {
		hrp: RawHrp { currency: Currency::Bitcoin, raw_amount: Some(amt), si_prefix: Some(si) },
		data: RawDataPart { timestamp: PositiveTimestamp(core::time::Duration::from_secs(0)), tagged_fields: Vec::new() },
	};
	if largest_ok && raw.amount_pico_btc() == Some(pico) {
		Outcome::Holds
	} else {
		Outcome::Violated
	}
}
pub fn replay(name: &str, a: &[u128]) -> Option<Outcome> {
	Some(match name {
		"amount_roundtrip" => contract_amount_roundtrip(a[0] as u64),
		_ => return None,
	})
}
#[cfg(kani)]
mod harnesses {
	use super::*;
	#[kani::proof]
	#[kani::unwind(6)]
	fn h_amount_roundtrip() {
		let o = contract_amount_roundtrip(kani::any());
		kani::cover!(o == Outcome::Holds);
		assert!(o != Outcome::Violated);
	}
}
