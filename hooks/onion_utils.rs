// Kani harnesses for lightning/src/ln/onion_utils.rs: AttributionData::{shift_right, shift_left}
use super::*;
include!("/verif/hooks/common.rs");

// start (in HMAC slots) of the block of HMACs added by hop position h: 20 + 19 + .. slots before it
fn row(h: usize) -> usize {
	h * MAX_HOPS - (h * (h.wrapping_sub(1))) / 2
}

// (P C14) shift_right moves hold time i to i+1 and every HMAC to its BOLT position one hop further
// (block h, column c+1  ->  block h+1, column c);
// checked at one symbolic position (h, c, b) / i, i.e. for every position
pub fn contract_shift_right(hold: [u8; MAX_HOPS * HOLD_TIME_LEN], hmacs: [u8; HMAC_LEN * HMAC_COUNT], h: u8, c: u8, b: u8, i: u8) -> Outcome {
	let (h, c, b, i) = (h as usize, c as usize, b as usize, i as usize);
	if h >= MAX_HOPS - 1 || c >= MAX_HOPS - 1 - h || b >= HMAC_LEN || i >= (MAX_HOPS - 1) * HOLD_TIME_LEN {
		return Outcome::Vacuous;
	}
	let mut a = AttributionData { hold_times: hold, hmacs };
	a.shift_right();
	// the block added by hop h+1 holds, at column c, what hop h had at column c+1 (one more downstream hop)
	let src = (row(h) + c + 1) * HMAC_LEN + b;
	let dst = (row(h + 1) + c) * HMAC_LEN + b;
	if a.hmacs[dst] == hmacs[src] && a.hold_times[i + HOLD_TIME_LEN] == hold[i] {
		Outcome::Holds
	} else {
		Outcome::Violated
	}
}

// (P C14) shift_left undoes shift_right on everything that survives (the last hop's data falls off)
pub fn contract_shift_left_inverse(hold: [u8; MAX_HOPS * HOLD_TIME_LEN], hmacs: [u8; HMAC_LEN * HMAC_COUNT], h: u8, c: u8, b: u8, i: u8) -> Outcome {
	let (h, c, b, i) = (h as usize, c as usize, b as usize, i as usize);
	if h >= MAX_HOPS - 1 || c >= MAX_HOPS - 1 - h || b >= HMAC_LEN || i >= (MAX_HOPS - 1) * HOLD_TIME_LEN {
		return Outcome::Vacuous;
	}
	let mut a = AttributionData { hold_times: hold, hmacs };
	a.shift_right();
	a.shift_left();
	// survivors: every column but the first of each block (column 0 is the slot the next hop fills in)
	let pos = (row(h) + c + 1) * HMAC_LEN + b;
	if a.hmacs[pos] == hmacs[pos] && a.hold_times[i] == hold[i] {
		Outcome::Holds
	} else {
		Outcome::Violated
	}
}

pub fn replay(name: &str, a: &[u128]) -> Option<Outcome> {
	const HL: usize = MAX_HOPS * HOLD_TIME_LEN;
	const ML: usize = HMAC_LEN * HMAC_COUNT;
	if a.len() < HL + ML + 4 {
		return None;
	}
	let mut hold = [0u8; HL];
	let mut hm = [0u8; ML];
	for k in 0..HL {
		hold[k] = a[k] as u8;
	}
	for k in 0..ML {
		hm[k] = a[HL + k] as u8;
	}
	let t = &a[HL + ML..];
	Some(match name {
		"shift_right" => contract_shift_right(hold, hm, t[0] as u8, t[1] as u8, t[2] as u8, t[3] as u8),
		"shift_left_inverse" => contract_shift_left_inverse(hold, hm, t[0] as u8, t[1] as u8, t[2] as u8, t[3] as u8),
		_ => return None,
	})
}

#[cfg(kani)]
mod harnesses {
	use super::*;
	#[kani::proof]
	#[kani::unwind(21)]
	fn h_shift_right() {
		let o = contract_shift_right(kani::any(), kani::any(), kani::any(), kani::any(), kani::any(), kani::any());
		kani::cover!(o == Outcome::Holds);
		assert!(o != Outcome::Violated);
	}
	#[kani::proof]
	#[kani::unwind(21)]
	fn h_shift_left_inverse() {
		let o = contract_shift_left_inverse(kani::any(), kani::any(), kani::any(), kani::any(), kani::any(), kani::any());
		kani::cover!(o == Outcome::Holds);
		assert!(o != Outcome::Violated);
	}
}
