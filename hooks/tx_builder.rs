// Executable mirrors of the Verus contracts of unit u01 (lightning/src/sign/tx_builder.rs), used for
// counterexample search / native replay when a Verus obligation fails, and as bounded Kani harnesses.
use super::*;
include!("/verif/hooks/common.rs");

pub fn ct(kind: u8) -> ChannelTypeFeatures {
	match kind % 3 {
		0 => ChannelTypeFeatures::only_static_remote_key(),
		1 => ChannelTypeFeatures::anchors_zero_htlc_fee_and_dependencies(),
		_ => ChannelTypeFeatures::anchors_zero_fee_commitments(),
	}
}
fn base_weight(c: &ChannelTypeFeatures) -> u128 {
	if c.supports_anchors_zero_fee_htlc_tx() { 1124 } else { 724 }
}
fn fee_spec(feerate: u128, n: u128, c: &ChannelTypeFeatures) -> u128 {
	feerate * (base_weight(c) + n * 172) / 1000
}
fn anchors_spec(c: &ChannelTypeFeatures) -> u128 {
	if c.supports_anchors_zero_fee_htlc_tx() { 660 } else { 0 }
}

// u01/checked_sub_from_funder: exactly the funder's side decreases, Err <=> funder < v
pub fn contract_checked_sub_from_funder(ob: bool, h: u64, c: u64, s: u64) -> Outcome {
	match checked_sub_from_funder(ob, h, c, s) {
		Ok((h2, c2)) => {
			let ok = if ob { h >= s && h2 == h - s && c2 == c } else { c >= s && c2 == c - s && h2 == h };
			if ok { Outcome::Holds } else { Outcome::Violated }
		},
		Err(()) => if (if ob { h < s } else { c < s }) { Outcome::Holds } else { Outcome::Violated },
	}
}

// u01/has_output
pub fn contract_has_output(ob: bool, h: u64, c: u64, feerate: u32, n: u16, dust: u64, kind: u8) -> Outcome {
	if dust > 21_000_000_0000_0000 || n > 2000 {
		return Outcome::Vacuous;
	}
	let t = ct(kind);
	let r = has_output(ob, h, c, feerate, n as usize, dust, &t);
	let fee = fee_spec(feerate as u128, n as u128, &t) * 1000;
	let h2 = if ob { (h as u128).saturating_sub(fee) } else { h as u128 };
	let c2 = if ob { c as u128 } else { (c as u128).saturating_sub(fee) };
	let spec = !(h2 < dust as u128 * 1000 && c2 < dust as u128 * 1000 && n == 0 && !t.supports_anchor_zero_fee_commitments());
	if r == spec { Outcome::Holds } else { Outcome::Violated }
}

fn mk_htlcs(a: &[(u64, bool)]) -> Vec<HTLCAmountDirection> {
	a.iter().map(|(amt, ob)| HTLCAmountDirection { outbound: *ob, amount_msat: *amt }).collect()
}

// u01/get_next_commitment_stats: conservation -- every pending HTLC exactly once, funder pays anchors and fee
pub fn contract_stats_conservation(
	local: bool, ob: bool, cv: u64, vth: u64, h1: u64, o1: bool, h2: u64, o2: bool, h3: u64, o3: bool, nh: u8, addl: u8,
	feerate: u32, spike: bool, dust: u64, kind: u8,
) -> Outcome {
	let t = ct(kind);
	if cv > 21_000_000_0000_0000 || dust > 21_000_000_0000_0000 || addl > 2 || (t.supports_anchor_zero_fee_commitments() && feerate != 0) {
		return Outcome::Vacuous;
	}
	let all = [(h1, o1), (h2, o2), (h3, o3)];
	let n = (nh % 4) as usize;
	let htlcs = mk_htlcs(&all[..n]);
	let total: u128 = htlcs.iter().map(|h| h.amount_msat as u128).sum();
	if total > 21_000_000_0000_0000_000 {
		return Outcome::Vacuous;
	}
	match get_next_commitment_stats(local, ob, cv, vth, &htlcs, addl as usize, feerate, spike, None, dust, &t) {
		Err(()) => Outcome::Holds,
		Ok(st) => {
			let sp: u128 = if spike && !t.supports_anchors_zero_fee_htlc_tx() { (feerate as u128 * 2).min(u32::MAX as u128) } else { feerate as u128 };
			let nd = htlcs.iter().filter(|h| !h.is_dust(local, feerate, dust, &t)).count() as u128 + addl as u128;
			let fee = fee_spec(sp, nd, &t);
			let lhs = st.holder_balance_msat as u128 + st.counterparty_balance_msat as u128 + total + 1000 * anchors_spec(&t) + 1000 * fee;
			let inn: u128 = htlcs.iter().filter(|h| !h.outbound).map(|h| h.amount_msat as u128).sum();
			let out: u128 = htlcs.iter().filter(|h| h.outbound).map(|h| h.amount_msat as u128).sum();
			let nonfunder_ok = if ob {
				st.counterparty_balance_msat as u128 + inn + vth as u128 == cv as u128 * 1000
			} else {
				st.holder_balance_msat as u128 + out == vth as u128
			};
			if lhs == cv as u128 * 1000 && nonfunder_ok { Outcome::Holds } else { Outcome::Violated }
		},
	}
}

// u01 end-to-end (theorem_send_window_sound): an amount inside the reported window gives a valid next commitment
// on both sides with the counterparty-selected reserve kept
pub fn contract_send_window(
	ob: bool, cv: u64, vth: u64, h1: u64, o1: bool, h2: u64, o2: bool, nh: u8, feerate: u32, hdust: u64, cdust: u64, cres: u64, hres: u64,
	max_dust: u64, frac: u16, kind: u8,
) -> Outcome {
	let t = ct(kind);
	if cv > 21_000_000_0000_0000 || cv == 0 || vth as u128 > cv as u128 * 1000 || hdust == 0 || cdust == 0 || hdust > 10_000_000 || cdust > 10_000_000
		|| cres > cv || hres > cv || (t.supports_anchor_zero_fee_commitments() && feerate != 0)
	{
		return Outcome::Vacuous;
	}
	let all = [(h1, o1), (h2, o2)];
	let htlcs = mk_htlcs(&all[..(nh % 3) as usize]);
	let total: u128 = htlcs.iter().map(|h| h.amount_msat as u128).sum();
	if total > cv as u128 * 1000 {
		return Outcome::Vacuous;
	}
	let cc = ChannelConstraints {
		holder_dust_limit_satoshis: hdust,
		counterparty_selected_channel_reserve_satoshis: cres,
		counterparty_dust_limit_satoshis: cdust,
		holder_selected_channel_reserve_satoshis: hres,
		counterparty_htlc_minimum_msat: 1,
		counterparty_max_htlc_value_in_flight_msat: u64::MAX,
		counterparty_max_accepted_htlcs: 483,
	};
	// the current state must be valid on both commitments (hypothesis of the theorem)
	if get_next_commitment_stats(true, ob, cv, vth, &htlcs, 0, feerate, false, None, hdust, &t).is_err()
		|| get_next_commitment_stats(false, ob, cv, vth, &htlcs, 0, feerate, false, None, cdust, &t).is_err()
	{
		return Outcome::Vacuous;
	}
	let b = get_available_balances(ob, cv, vth, &htlcs, feerate, None, max_dust, cc, &t);
	let (lo, hi) = (b.next_outbound_htlc_minimum_msat.max(1), b.next_outbound_htlc_limit_msat);
	if lo > hi {
		return Outcome::Vacuous;
	}
	// pick an amount inside the window
	let a = lo + ((hi - lo) as u128 * frac as u128 / 65535) as u64;
	let mut with = mk_htlcs(&all[..(nh % 3) as usize]);
	with.push(HTLCAmountDirection { outbound: true, amount_msat: a });
	let l = get_next_commitment_stats(true, ob, cv, vth, &with, 0, feerate, false, None, hdust, &t);
	let r = get_next_commitment_stats(false, ob, cv, vth, &with, 0, feerate, false, None, cdust, &t);
	match (l, r) {
		(Ok(l), Ok(r)) => {
			if l.holder_balance_msat as u128 >= cres as u128 * 1000 && r.holder_balance_msat as u128 >= cres as u128 * 1000 {
				Outcome::Holds
			} else {
				Outcome::Violated
			}
		},
		_ => Outcome::Violated,
	}
}

pub fn replay(name: &str, a: &[u128]) -> Option<Outcome> {
	let b = |i: usize| a[i] != 0;
	Some(match name {
		"checked_sub_from_funder" => contract_checked_sub_from_funder(b(0), a[1] as u64, a[2] as u64, a[3] as u64),
		"has_output" => contract_has_output(b(0), a[1] as u64, a[2] as u64, a[3] as u32, a[4] as u16, a[5] as u64, a[6] as u8),
		"stats_conservation" => contract_stats_conservation(b(0), b(1), a[2] as u64, a[3] as u64, a[4] as u64, b(5), a[6] as u64, b(7), a[8] as u64, b(9),
			a[10] as u8, a[11] as u8, a[12] as u32, b(13), a[14] as u64, a[15] as u8),
		"send_window" => contract_send_window(b(0), a[1] as u64, a[2] as u64, a[3] as u64, b(4), a[5] as u64, b(6), a[7] as u8, a[8] as u32, a[9] as u64,
			a[10] as u64, a[11] as u64, a[12] as u64, a[13] as u64, a[14] as u16, a[15] as u8),
		// search-oriented entry points: raw random words are folded into the valid domain instead of being rejected
		"stats_conservation_norm" => {
			let cv = (a[2] % 21_000_000_0000_0000) as u64;
			let cvm = cv as u128 * 1000;
			let vth = (a[3] % (cvm + 1)) as u64;
			let amt = |x: u128| (x % (cvm / 2 + 2)) as u64;
			let kind = a[15] as u8;
			let feerate = if kind % 3 == 2 { 0 } else { a[12] as u32 };
			contract_stats_conservation(b(0), b(1), cv, vth, amt(a[4]), b(5), amt(a[6]), b(7), amt(a[8]), b(9), a[10] as u8, (a[11] % 3) as u8, feerate, b(13),
				(a[14] % 100_000) as u64, kind)
		},
		"send_window_norm" => {
			let cv = 1 + (a[1] % 16_777_215_000) as u64; // up to the non-wumbo cap x 1000
			let cvm = cv as u128 * 1000;
			let vth = (a[2] % (cvm + 1)) as u64;
			let amt = |x: u128| (x % (cvm / 3 + 2)) as u64;
			let kind = a[15] as u8;
			let feerate = if kind % 3 == 2 { 0 } else { (a[8] % 200_000) as u32 };
			contract_send_window(b(0), cv, vth, amt(a[3]), b(4), amt(a[5]), b(6), a[7] as u8, feerate, 1 + (a[9] % 3000) as u64, 1 + (a[10] % 3000) as u64,
				(a[11] % (cv as u128 / 10 + 1)) as u64, (a[12] % (cv as u128 / 10 + 1)) as u64, a[13] as u64, a[14] as u16, kind)
		},
		_ => return None,
	})
}

#[cfg(kani)]
mod harnesses {
	use super::*;
	#[kani::proof]
	fn h_checked_sub_from_funder() {
		let o = contract_checked_sub_from_funder(kani::any(), kani::any(), kani::any(), kani::any());
		kani::cover!(o == Outcome::Holds);
		assert!(o != Outcome::Violated);
	}
}
