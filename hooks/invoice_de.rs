// Kani harnesses for lightning-invoice: numeric fields (amount, expiry, timestamp, CLTV) round trip
use super::*;
include!("/verif/hooks/common.rs");
use crate::ser::verif_contracts::{encode_u64, size_u64};

// (P C18) parse_u64_be(encode_int_be_base32(x)) == Some(x), with exactly the predicted number of digits and no leading zero digit
pub fn contract_int_roundtrip(x: u64) -> Outcome {
	let (digits, n) = encode_u64(x);
	if n != size_u64(x) || n > 13 {
		return Outcome::Violated;
	}
	if n > 0 && Into::<u8>::into(digits[0]) == 0 {
		return Outcome::Violated;
	}
	match parse_u64_be(&digits[..n]) {
		Some(y) => {
			if y == x {
				Outcome::Holds
			} else {
				Outcome::Violated
			}
		},
		None => Outcome::Violated,
	}
}
// (P C18) u16 fields (tagged-field lengths): three digits always parse; the value is the big-endian base-32 number
pub fn contract_u16_parse(a: u8, b: u8, c: u8) -> Outcome {
	if a >= 32 || b >= 32 || c >= 32 {
		return Outcome::Vacuous;
	}
	let ds = [Fe32::try_from(a).unwrap(), Fe32::try_from(b).unwrap(), Fe32::try_from(c).unwrap()];
	match parse_u16_be(&ds[..]) {
		Some(v) => {
			if v as u32 == (a as u32) * 1024 + (b as u32) * 32 + c as u32 {
				Outcome::Holds
			} else {
				Outcome::Violated
			}
		},
		None => Outcome::Violated,
	}
}
pub fn replay(name: &str, a: &[u128]) -> Option<Outcome> {
	Some(match name {
		"int_roundtrip" => contract_int_roundtrip(a[0] as u64),
		"u16_parse" => contract_u16_parse(a[0] as u8, a[1] as u8, a[2] as u8),
		_ => return None,
	})
}
#[cfg(kani)]
mod harnesses {
	use super::*;
	#[kani::proof]
	#[kani::unwind(15)]
	fn h_int_roundtrip() {
		let o = contract_int_roundtrip(kani::any());
		kani::cover!(o == Outcome::Holds);
		assert!(o != Outcome::Violated);
	}
	#[kani::proof]
	#[kani::unwind(5)]
	fn h_u16_parse() {
		let o = contract_u16_parse(kani::any(), kani::any(), kani::any());
		kani::cover!(o == Outcome::Holds);
		assert!(o != Outcome::Violated);
	}
}
