// lightning-invoice/src/ser.rs: exposes the private base-32 integer encoder to the de.rs harness
use super::*;
include!("/verif/hooks/common.rs");

/// Calls the real (private) encoder and collects its digits.
pub fn encode_u64(int: u64) -> ([Fe32; 13], usize) {
	let mut out = [Fe32::Q; 13];
	let mut n = 0;
	for d in encode_int_be_base32(int) {
		out[n] = d;
		n += 1;
	}
	(out, n)
}
pub fn size_u64(int: u64) -> usize {
	encoded_int_be_base32_size(int)
}
pub fn replay(_name: &str, _a: &[u128]) -> Option<Outcome> {
	None
}
