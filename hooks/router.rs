// Executable mirrors for lightning/src/routing/router.rs
use super::*;
include!("/verif/hooks/common.rs");

// u16/compute_fees == advertised policy formula
pub fn contract_compute_fees(amount: u64, base: u32, prop: u32) -> Outcome {
	let spec = base as u128 + amount as u128 * prop as u128 / 1_000_000;
	let overflow = amount as u128 * prop as u128 > u64::MAX as u128 || spec > u64::MAX as u128;
	match compute_fees(amount, RoutingFees { base_msat: base, proportional_millionths: prop }) {
		Some(f) => if !overflow && f as u128 == spec { Outcome::Holds } else { Outcome::Violated },
		None => if overflow { Outcome::Holds } else { Outcome::Violated },
	}
}
pub fn replay(name: &str, a: &[u128]) -> Option<Outcome> {
	Some(match name {
		"compute_fees" => contract_compute_fees(a[0] as u64, a[1] as u32, a[2] as u32),
		_ => return None,
	})
}
#[cfg(kani)]
mod harnesses {
	use super::*;
}
