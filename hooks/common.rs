// Shared by every hook file (included with include!): outcome type and a fixed-size writer that
// avoids heap allocation under CBMC.
#[derive(Debug, PartialEq, Eq, Clone, Copy)]
pub enum Outcome {
	Vacuous,
	Holds,
	Violated,
}
