// harnesses for this file are added below
use super::*;
include!("/verif/hooks/common.rs");
pub fn replay(_name: &str, _a: &[u128]) -> Option<Outcome> { None }
