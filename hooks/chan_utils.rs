// Executable mirrors for lightning/src/ln/chan_utils.rs (fee formulas, per-commitment secret store)
use super::*;
include!("/verif/hooks/common.rs");

fn ct(kind: u8) -> ChannelTypeFeatures {
	match kind % 3 {
		0 => ChannelTypeFeatures::only_static_remote_key(),
		1 => ChannelTypeFeatures::anchors_zero_htlc_fee_and_dependencies(),
		_ => ChannelTypeFeatures::anchors_zero_fee_commitments(),
	}
}
// u01/commit_tx_fee_sat == BOLT-3 formula
pub fn contract_commit_tx_fee_sat(feerate: u32, n: u32, kind: u8) -> Outcome {
	if n > 100_000 {
		return Outcome::Vacuous;
	}
	let t = ct(kind);
	let base: u128 = if t.supports_anchors_zero_fee_htlc_tx() { 1124 } else { 724 };
	let spec = feerate as u128 * (base + n as u128 * 172) / 1000;
	if commit_tx_fee_sat(feerate, n as usize, &t) as u128 == spec { Outcome::Holds } else { Outcome::Violated }
}

// u05a history theorem, executable: secrets generated from one seed and provided in protocol order are all
// accepted and each one provided so far is returned exactly by get_secret
pub fn contract_shachain_history(seed: [u8; 32], start: u64, count: u8) -> Outcome {
	let top = (1u64 << 48) - 1;
	if start > top || count as u64 > start + 1 {
		return Outcome::Vacuous;
	}
	let mut st = CounterpartyCommitmentSecrets::new();
	// the protocol starts at 2^48-1; to start lower we first feed the prefix (kept small by the caller)
	if start != top {
		return Outcome::Vacuous;
	}
	let mut idx = start;
	for _ in 0..count {
		let s = build_commitment_secret(&seed, idx);
		if st.provide_secret(idx, s).is_err() {
			return Outcome::Violated;
		}
		let mut j = start;
		loop {
			if st.get_secret(j) != Some(build_commitment_secret(&seed, j)) {
				return Outcome::Violated;
			}
			if j == idx {
				break;
			}
			j -= 1;
		}
		if idx == 0 {
			break;
		}
		idx -= 1;
	}
	Outcome::Holds
}

pub fn replay(name: &str, a: &[u128]) -> Option<Outcome> {
	Some(match name {
		"commit_tx_fee_sat" => contract_commit_tx_fee_sat(a[0] as u32, a[1] as u32, a[2] as u8),
		"shachain_history" => {
			let mut s = [0u8; 32];
			for i in 0..32 {
				s[i] = a[i] as u8;
			}
			contract_shachain_history(s, a[32] as u64, a[33] as u8)
		},
		_ => return None,
	})
}
