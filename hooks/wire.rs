// Kani harnesses for lightning/src/ln/wire.rs
use super::*;
include!("/verif/hooks/common.rs");

// (P C13) a message type is "even" (must be understood) exactly when its low bit is clear
pub fn contract_is_even_unknown(t: u16) -> Outcome {
	let m: Message<core::convert::Infallible> = Message::Unknown(t);
	if m.is_even() == (t % 2 == 0) && m.type_id() == t {
		Outcome::Holds
	} else {
		Outcome::Violated
	}
}

pub fn replay(name: &str, a: &[u128]) -> Option<Outcome> {
	Some(match name {
		"is_even_unknown" => contract_is_even_unknown(a[0] as u16),
		_ => return None,
	})
}

#[cfg(kani)]
mod harnesses {
	use super::*;
	#[kani::proof]
	fn h_is_even_unknown() {
		let o = contract_is_even_unknown(kani::any());
		kani::cover!(o == Outcome::Holds);
		assert!(o != Outcome::Violated);
	}
}
