// Kani harness for lightning/src/ln/inbound_payment.rs: the authenticated payment metadata codec
use super::*;
include!("/verif/hooks/common.rs");

// (P C04) encode/decode inverse of the metadata that `verify` authenticates and then trusts:
// construct_info_bytes(..) == Ok(b)  ==>  decoding b with the masks `verify` uses yields
// (method, min.unwrap_or(0), now + delta + 7200, cltv);  Err <=> min > MAX_VALUE_MSAT or the expiry does not fit 48 bits
pub fn contract_info_bytes(method: u8, has_min: bool, min: u64, delta_secs: u32, now: u64, has_cltv: bool, cltv: u16) -> Outcome {
	if method > 4 || now > (1u64 << 62) {
		return Outcome::Vacuous;
	}
	let m = match Method::from_bits(method) {
		Ok(m) => m,
		Err(_) => return Outcome::Violated,
	};
	let min_o = if has_min { Some(min) } else { None };
	let cltv_o = if has_cltv { Some(cltv) } else { None };
	let expiry = calculate_absolute_expiry(now, delta_secs);
	if expiry != now + delta_secs as u64 + 7200 {
		return Outcome::Violated;
	}
	let should_fail = (has_min && min > MAX_VALUE_MSAT) || (has_cltv && expiry > (1u64 << 48) - 1);
	match construct_info_bytes(min_o, m, delta_secs, now, cltv_o) {
		Err(()) => {
			if should_fail {
				Outcome::Holds
			} else {
				Outcome::Violated
			}
		},
		Ok(info) => {
			if should_fail {
				return Outcome::Violated;
			}
			// decode exactly as `verify` does
			let method_bits = (info[0] & 0b1110_0000) >> METHOD_TYPE_OFFSET;
			let mut amt = [0u8; AMT_MSAT_LEN];
			let mut exp = [0u8; INFO_LEN - AMT_MSAT_LEN];
			amt.copy_from_slice(&info[..AMT_MSAT_LEN]);
			exp.copy_from_slice(&info[AMT_MSAT_LEN..]);
			amt[0] &= 0b0001_1111;
			let mut dec_cltv = None;
			if has_cltv {
				dec_cltv = Some(min_final_cltv_expiry_delta_from_info(info));
				exp[0] &= 0;
				exp[1] &= 0;
			}
			let dec_amt = u64::from_be_bytes(amt);
			let dec_exp = u64::from_be_bytes(exp);
			if method_bits == method && dec_amt == if has_min { min } else { 0 } && dec_exp == expiry && dec_cltv == cltv_o {
				Outcome::Holds
			} else {
				Outcome::Violated
			}
		},
	}
}

pub fn replay(name: &str, a: &[u128]) -> Option<Outcome> {
	Some(match name {
		"info_bytes" => contract_info_bytes(a[0] as u8, a[1] != 0, a[2] as u64, a[3] as u32, a[4] as u64, a[5] != 0, a[6] as u16),
		_ => return None,
	})
}

#[cfg(kani)]
mod harnesses {
	use super::*;
	#[kani::proof]
	#[kani::unwind(18)]
	fn h_info_bytes() {
		let o = contract_info_bytes(kani::any(), kani::any(), kani::any(), kani::any(), kani::any(), kani::any(), kani::any());
		kani::cover!(o == Outcome::Holds);
		assert!(o != Outcome::Violated);
	}
}
