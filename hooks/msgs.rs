// Kani harnesses + contract functions for lightning/src/ln/msgs.rs: the real impl_writeable_msg! codecs.
use super::*;
use crate::util::ser::{LengthReadable, Writeable, Writer};
include!("/verif/hooks/common.rs");

pub struct ArrW80 {
	pub buf: [u8; 80],
	pub len: usize,
	pub overflow: bool,
}
impl ArrW80 {
	pub fn new() -> Self {
		ArrW80 { buf: [0; 80], len: 0, overflow: false }
	}
}
impl Writer for ArrW80 {
	fn write_all(&mut self, b: &[u8]) -> Result<(), io::Error> {
		let mut i = 0;
		while i < b.len() {
			if self.len >= 80 {
				self.overflow = true;
				return Ok(());
			}
			self.buf[self.len] = b[i];
			self.len += 1;
			i += 1;
		}
		Ok(())
	}
}

// (P C13) a message survives encode -> decode unchanged, and the decoder consumes exactly the encoding
pub fn contract_rt_update_fee(cid: [u8; 32], feerate_per_kw: u32) -> Outcome {
	let m = UpdateFee { channel_id: ChannelId(cid), feerate_per_kw };
	let mut w = ArrW80::new();
	if m.write(&mut w).is_err() || w.overflow || w.len != 36 {
		return Outcome::Violated;
	}
	let mut rd: &[u8] = &w.buf[..w.len];
	match <UpdateFee as LengthReadable>::read_from_fixed_length_buffer(&mut rd) {
		Ok(y) => {
			if y.channel_id.0 == cid && y.feerate_per_kw == feerate_per_kw && rd.len() == 0 {
				Outcome::Holds
			} else {
				Outcome::Violated
			}
		},
		Err(_) => Outcome::Violated,
	}
}

pub fn contract_rt_update_fail_malformed(cid: [u8; 32], htlc_id: u64, sha: [u8; 32], failure_code: u16) -> Outcome {
	let m = UpdateFailMalformedHTLC { channel_id: ChannelId(cid), htlc_id, sha256_of_onion: sha, failure_code };
	let mut w = ArrW80::new();
	if m.write(&mut w).is_err() || w.overflow || w.len != 74 {
		return Outcome::Violated;
	}
	let mut rd: &[u8] = &w.buf[..w.len];
	match <UpdateFailMalformedHTLC as LengthReadable>::read_from_fixed_length_buffer(&mut rd) {
		Ok(y) => {
			if y.channel_id.0 == cid && y.htlc_id == htlc_id && y.sha256_of_onion == sha && y.failure_code == failure_code && rd.len() == 0 {
				Outcome::Holds
			} else {
				Outcome::Violated
			}
		},
		Err(_) => Outcome::Violated,
	}
}

pub fn contract_rt_stfu(cid: [u8; 32], initiator: bool) -> Outcome {
	let m = Stfu { channel_id: ChannelId(cid), initiator };
	let mut w = ArrW80::new();
	if m.write(&mut w).is_err() || w.overflow || w.len != 33 {
		return Outcome::Violated;
	}
	let mut rd: &[u8] = &w.buf[..w.len];
	match <Stfu as LengthReadable>::read_from_fixed_length_buffer(&mut rd) {
		Ok(y) => {
			if y.channel_id.0 == cid && y.initiator == initiator && rd.len() == 0 {
				Outcome::Holds
			} else {
				Outcome::Violated
			}
		},
		Err(_) => Outcome::Violated,
	}
}

pub fn contract_rt_tx_remove_input(cid: [u8; 32], serial_id: u64) -> Outcome {
	let m = TxRemoveInput { channel_id: ChannelId(cid), serial_id };
	let mut w = ArrW80::new();
	if m.write(&mut w).is_err() || w.overflow || w.len != 40 {
		return Outcome::Violated;
	}
	let mut rd: &[u8] = &w.buf[..w.len];
	match <TxRemoveInput as LengthReadable>::read_from_fixed_length_buffer(&mut rd) {
		Ok(y) => if y.channel_id.0 == cid && y.serial_id == serial_id && rd.len() == 0 { Outcome::Holds } else { Outcome::Violated },
		Err(_) => Outcome::Violated,
	}
}
pub fn contract_rt_tx_complete(cid: [u8; 32]) -> Outcome {
	let m = TxComplete { channel_id: ChannelId(cid) };
	let mut w = ArrW80::new();
	if m.write(&mut w).is_err() || w.overflow || w.len != 32 {
		return Outcome::Violated;
	}
	let mut rd: &[u8] = &w.buf[..w.len];
	match <TxComplete as LengthReadable>::read_from_fixed_length_buffer(&mut rd) {
		Ok(y) => if y.channel_id.0 == cid && rd.len() == 0 { Outcome::Holds } else { Outcome::Violated },
		Err(_) => Outcome::Violated,
	}
}
pub fn contract_rt_gossip_timestamp_filter(chain: [u8; 32], first_timestamp: u32, timestamp_range: u32) -> Outcome {
	let m = GossipTimestampFilter { chain_hash: ChainHash::from(chain), first_timestamp, timestamp_range };
	let mut w = ArrW80::new();
	if m.write(&mut w).is_err() || w.overflow || w.len != 40 {
		return Outcome::Violated;
	}
	let mut rd: &[u8] = &w.buf[..w.len];
	match <GossipTimestampFilter as LengthReadable>::read_from_fixed_length_buffer(&mut rd) {
		Ok(y) => {
			if y.chain_hash == ChainHash::from(chain) && y.first_timestamp == first_timestamp && y.timestamp_range == timestamp_range && rd.len() == 0 {
				Outcome::Holds
			} else {
				Outcome::Violated
			}
		},
		Err(_) => Outcome::Violated,
	}
}

// (P C13) decoding is total on the fixed part and canonical: every 36-byte buffer decodes, and re-encodes to itself
pub fn contract_canon_update_fee(b: [u8; 36]) -> Outcome {
	let mut rd: &[u8] = &b[..];
	match <UpdateFee as LengthReadable>::read_from_fixed_length_buffer(&mut rd) {
		Ok(v) => {
			let mut w = ArrW80::new();
			if v.write(&mut w).is_err() || w.overflow || w.len != 36 || rd.len() != 0 {
				return Outcome::Violated;
			}
			let mut i = 0;
			while i < 36 {
				if w.buf[i] != b[i] {
					return Outcome::Violated;
				}
				i += 1;
			}
			Outcome::Holds
		},
		Err(_) => Outcome::Violated,
	}
}

// (P C13) "it's OK to be odd": an unknown TLV record after the fixed fields is skipped when its type is odd and
// rejected when it is even (single-byte type < 0xfd, empty value)
pub fn contract_update_fee_unknown_tlv(feerate: u32, t: u8) -> Outcome {
	if t >= 0xfd {
		return Outcome::Vacuous;
	}
	let mut fixed = [0u8; 36];
	let fb = feerate.to_be_bytes();
	fixed[32] = fb[0];
	fixed[33] = fb[1];
	fixed[34] = fb[2];
	fixed[35] = fb[3];
	let mut b = [0u8; 38];
	let mut i = 0;
	while i < 36 {
		b[i] = fixed[i];
		i += 1;
	}
	b[36] = t;
	b[37] = 0;
	let mut rd: &[u8] = &b[..];
	let r = <UpdateFee as LengthReadable>::read_from_fixed_length_buffer(&mut rd);
	let odd = t & 1 == 1;
	match r {
		Ok(v) => {
			if odd && v.feerate_per_kw == u32::from_be_bytes([fixed[32], fixed[33], fixed[34], fixed[35]]) {
				Outcome::Holds
			} else {
				Outcome::Violated
			}
		},
		Err(_) => {
			if !odd {
				Outcome::Holds
			} else {
				Outcome::Violated
			}
		},
	}
}

// (bounded) Ping: payload length <= 3
pub fn contract_rt_ping(ponglen: u16, byteslen: u16) -> Outcome {
	if byteslen > 3 {
		return Outcome::Vacuous;
	}
	let m = Ping { ponglen, byteslen };
	let mut w = ArrW80::new();
	if m.write(&mut w).is_err() || w.overflow || w.len != 4 + byteslen as usize {
		return Outcome::Violated;
	}
	let mut rd: &[u8] = &w.buf[..w.len];
	match <Ping as LengthReadable>::read_from_fixed_length_buffer(&mut rd) {
		Ok(y) => {
			if y.ponglen == ponglen && y.byteslen == byteslen && rd.len() == 0 {
				Outcome::Holds
			} else {
				Outcome::Violated
			}
		},
		Err(_) => Outcome::Violated,
	}
}

fn arr<const N: usize>(a: &[u128], off: usize) -> [u8; N] {
	let mut b = [0u8; N];
	for i in 0..N {
		b[i] = a[off + i] as u8;
	}
	b
}
pub fn replay(name: &str, a: &[u128]) -> Option<Outcome> {
	Some(match name {
		"rt_update_fee" => contract_rt_update_fee(arr::<32>(a, 0), a[32] as u32),
		"rt_update_fail_malformed" => contract_rt_update_fail_malformed(arr::<32>(a, 0), a[32] as u64, arr::<32>(a, 33), a[65] as u16),
		"rt_stfu" => contract_rt_stfu(arr::<32>(a, 0), a[32] != 0),
		"rt_tx_remove_input" => contract_rt_tx_remove_input(arr::<32>(a, 0), a[32] as u64),
		"rt_tx_complete" => contract_rt_tx_complete(arr::<32>(a, 0)),
		"rt_gossip_timestamp_filter" => contract_rt_gossip_timestamp_filter(arr::<32>(a, 0), a[32] as u32, a[33] as u32),
		"canon_update_fee" => contract_canon_update_fee(arr::<36>(a, 0)),
		"update_fee_unknown_tlv" => contract_update_fee_unknown_tlv(a[0] as u32, a[1] as u8),
		"rt_ping" => contract_rt_ping(a[0] as u16, a[1] as u16),
		_ => return None,
	})
}

#[cfg(kani)]
mod harnesses {
	use super::*;
	#[kani::proof]
	#[kani::unwind(82)]
	fn h_rt_update_fee() {
		let o = contract_rt_update_fee(kani::any(), kani::any());
		kani::cover!(o == Outcome::Holds);
		assert!(o != Outcome::Violated);
	}
	#[kani::proof]
	#[kani::unwind(82)]
	fn h_rt_update_fail_malformed() {
		let o = contract_rt_update_fail_malformed(kani::any(), kani::any(), kani::any(), kani::any());
		kani::cover!(o == Outcome::Holds);
		assert!(o != Outcome::Violated);
	}
	#[kani::proof]
	#[kani::unwind(82)]
	fn h_rt_stfu() {
		let o = contract_rt_stfu(kani::any(), kani::any());
		kani::cover!(o == Outcome::Holds);
		assert!(o != Outcome::Violated);
	}
	#[kani::proof]
	#[kani::unwind(82)]
	fn h_rt_tx_remove_input() {
		let o = contract_rt_tx_remove_input(kani::any(), kani::any());
		kani::cover!(o == Outcome::Holds);
		assert!(o != Outcome::Violated);
	}
	#[kani::proof]
	#[kani::unwind(82)]
	fn h_rt_tx_complete() {
		let o = contract_rt_tx_complete(kani::any());
		kani::cover!(o == Outcome::Holds);
		assert!(o != Outcome::Violated);
	}
	#[kani::proof]
	#[kani::unwind(82)]
	fn h_rt_gossip_timestamp_filter() {
		let o = contract_rt_gossip_timestamp_filter(kani::any(), kani::any(), kani::any());
		kani::cover!(o == Outcome::Holds);
		assert!(o != Outcome::Violated);
	}
	#[kani::proof]
	#[kani::unwind(82)]
	fn h_canon_update_fee() {
		let o = contract_canon_update_fee(kani::any());
		kani::cover!(o == Outcome::Holds);
		assert!(o != Outcome::Violated);
	}
	#[kani::proof]
	#[kani::unwind(82)]
	fn h_update_fee_unknown_tlv() {
		let o = contract_update_fee_unknown_tlv(kani::any(), kani::any());
		kani::cover!(o == Outcome::Holds);
		assert!(o != Outcome::Violated);
	}
}
