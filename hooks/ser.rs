// Kani harnesses + contract functions for lightning/src/util/ser.rs (child module: sees private items).
// Every `contract_*` is a plain function: the Kani harness feeds it kani::any(); the native replay
// binary (cfg(ldk_verif)) feeds it the concrete counterexample.
use super::*;
include!("/verif/hooks/common.rs");

/// Fixed-capacity writer (no heap) used instead of VecWriter under CBMC.
pub struct ArrW {
	pub buf: [u8; 16],
	pub len: usize,
	pub overflow: bool,
}
impl ArrW {
	pub fn new() -> Self {
		ArrW { buf: [0; 16], len: 0, overflow: false }
	}
}
impl Writer for ArrW {
	fn write_all(&mut self, b: &[u8]) -> Result<(), io::Error> {
		let mut i = 0;
		while i < b.len() {
			if self.len >= 16 {
				self.overflow = true;
				return Ok(());
			}
			self.buf[self.len] = b[i];
			self.len += 1;
			i += 1;
		}
		Ok(())
	}
}

fn prefix_eq(a: &[u8; 16], b: &[u8], n: usize) -> bool {
	let mut i = 0;
	while i < n {
		if a[i] != b[i] {
			return false;
		}
		i += 1;
	}
	true
}

// ---- (P C12/C13) read(write(x)) == x, consuming exactly the written bytes -------------------------
macro_rules! roundtrip_contract {
	($name:ident, $ty:ty, $mk:expr, $get:expr, $arg:ty) => {
		pub fn $name(x: $arg) -> Outcome {
			let v: $ty = $mk(x);
			let mut w = ArrW::new();
			if v.write(&mut w).is_err() || w.overflow {
				return Outcome::Violated;
			}
			let mut rd: &[u8] = &w.buf[..w.len];
			match <$ty as Readable>::read(&mut rd) {
				Ok(y) => {
					if $get(&y) == x && rd.len() == 0 {
						Outcome::Holds
					} else {
						Outcome::Violated
					}
				},
				Err(_) => Outcome::Violated,
			}
		}
	};
}
roundtrip_contract!(contract_rt_u16, u16, |x: u16| x, |y: &u16| *y, u16);
roundtrip_contract!(contract_rt_u32, u32, |x: u32| x, |y: &u32| *y, u32);
roundtrip_contract!(contract_rt_u64, u64, |x: u64| x, |y: &u64| *y, u64);
roundtrip_contract!(contract_rt_i64, i64, |x: i64| x, |y: &i64| *y, i64);
roundtrip_contract!(contract_rt_u8, u8, |x: u8| x, |y: &u8| *y, u8);
roundtrip_contract!(contract_rt_bool, bool, |x: bool| x, |y: &bool| *y, bool);
roundtrip_contract!(contract_rt_bigsize, BigSize, |x: u64| BigSize(x), |y: &BigSize| y.0, u64);
roundtrip_contract!(contract_rt_collection_length, CollectionLength, |x: u64| CollectionLength(x), |y: &CollectionLength| y.0, u64);
roundtrip_contract!(
	contract_rt_hzbd_u64,
	HighZeroBytesDroppedBigSize<u64>,
	|x: u64| HighZeroBytesDroppedBigSize(x),
	|y: &HighZeroBytesDroppedBigSize<u64>| y.0,
	u64
);
roundtrip_contract!(
	contract_rt_hzbd_u32,
	HighZeroBytesDroppedBigSize<u32>,
	|x: u32| HighZeroBytesDroppedBigSize(x),
	|y: &HighZeroBytesDroppedBigSize<u32>| y.0,
	u32
);

pub fn contract_rt_u48(x: u64) -> Outcome {
	if x >= (1 << 48) {
		return Outcome::Vacuous;
	}
	let mut w = ArrW::new();
	if U48(x).write(&mut w).is_err() || w.overflow || w.len != 6 {
		return Outcome::Violated;
	}
	let mut rd: &[u8] = &w.buf[..w.len];
	match <U48 as Readable>::read(&mut rd) {
		Ok(y) => {
			if y.0 == x && rd.len() == 0 {
				Outcome::Holds
			} else {
				Outcome::Violated
			}
		},
		Err(_) => Outcome::Violated,
	}
}

// ---- (P C13) canonical decoding: whatever a buffer decodes to re-encodes to exactly the consumed prefix
// (non-minimal length prefixes are rejected), and nothing beyond the buffer is read.
macro_rules! canonical_contract {
	($name:ident, $ty:ty, $n:expr) => {
		pub fn $name(b: [u8; $n]) -> Outcome {
			let mut rd: &[u8] = &b[..];
			match <$ty as Readable>::read(&mut rd) {
				Ok(v) => {
					let consumed = $n - rd.len();
					let mut w = ArrW::new();
					if v.write(&mut w).is_err() || w.overflow {
						return Outcome::Violated;
					}
					if w.len == consumed && prefix_eq(&w.buf, &b, consumed) {
						Outcome::Holds
					} else {
						Outcome::Violated
					}
				},
				Err(_) => Outcome::Holds,
			}
		}
	};
}
canonical_contract!(contract_canon_bigsize, BigSize, 9);
canonical_contract!(contract_canon_collection_length, CollectionLength, 10);
canonical_contract!(contract_canon_bool, bool, 1);

/// HighZeroBytesDroppedBigSize reads to the end of its (length-delimited) reader: a buffer of n <= 8
/// bytes decodes iff it has no leading zero byte, and re-encodes to itself.
pub fn contract_canon_hzbd_u64(b: [u8; 8], n: u8) -> Outcome {
	if n > 8 {
		return Outcome::Vacuous;
	}
	let n = n as usize;
	let mut rd: &[u8] = &b[..n];
	match <HighZeroBytesDroppedBigSize<u64> as Readable>::read(&mut rd) {
		Ok(v) => {
			let mut w = ArrW::new();
			if v.write(&mut w).is_err() || w.overflow {
				return Outcome::Violated;
			}
			// accepted => minimal (no leading zero) and identical re-encoding
			if w.len == n && prefix_eq(&w.buf, &b, n) && (n == 0 || b[0] != 0) {
				Outcome::Holds
			} else {
				Outcome::Violated
			}
		},
		Err(_) => {
			// rejected => it was padded with a leading zero byte
			if n > 0 && b[0] == 0 {
				Outcome::Holds
			} else {
				Outcome::Violated
			}
		},
	}
}

// ---- (P C13) FixedLengthReader never reads past the declared length --------------------------------
pub fn contract_fixed_length_reader(total: u8, ask1: u8, ask2: u8) -> Outcome {
	let data = [7u8; 24];
	if total as usize > 16 || ask1 as usize > 20 || ask2 as usize > 20 {
		return Outcome::Vacuous;
	}
	let mut inner: &[u8] = &data[..];
	let before = inner.len();
	let consumed;
	{
		let mut flr = FixedLengthReader::new(&mut inner, total as u64);
		let mut dest = [0u8; 20];
		let r1 = flr.read(&mut dest[..ask1 as usize]).unwrap_or(0);
		let r2 = flr.read(&mut dest[..ask2 as usize]).unwrap_or(0);
		if r1 > ask1 as usize || r2 > ask2 as usize {
			return Outcome::Violated;
		}
		consumed = r1 + r2;
		if flr.bytes_remain() != (consumed < total as usize) {
			return Outcome::Violated;
		}
	}
	if consumed > total as usize || before - inner.len() != consumed {
		return Outcome::Violated;
	}
	Outcome::Holds
}

pub fn replay(name: &str, a: &[u128]) -> Option<Outcome> {
	let arr8 = |a: &[u128]| {
		let mut b = [0u8; 8];
		for i in 0..8 {
			b[i] = a[i] as u8;
		}
		b
	};
	Some(match name {
		"rt_u8" => contract_rt_u8(a[0] as u8),
		"rt_u16" => contract_rt_u16(a[0] as u16),
		"rt_u32" => contract_rt_u32(a[0] as u32),
		"rt_u64" => contract_rt_u64(a[0] as u64),
		"rt_i64" => contract_rt_i64(a[0] as i64),
		"rt_bool" => contract_rt_bool(a[0] != 0),
		"rt_bigsize" => contract_rt_bigsize(a[0] as u64),
		"rt_collection_length" => contract_rt_collection_length(a[0] as u64),
		"rt_hzbd_u64" => contract_rt_hzbd_u64(a[0] as u64),
		"rt_hzbd_u32" => contract_rt_hzbd_u32(a[0] as u32),
		"rt_u48" => contract_rt_u48(a[0] as u64),
		"canon_bigsize" => {
			let mut b = [0u8; 9];
			for i in 0..9 {
				b[i] = a[i] as u8;
			}
			contract_canon_bigsize(b)
		},
		"canon_collection_length" => {
			let mut b = [0u8; 10];
			for i in 0..10 {
				b[i] = a[i] as u8;
			}
			contract_canon_collection_length(b)
		},
		"canon_bool" => contract_canon_bool([a[0] as u8]),
		"canon_hzbd_u64" => contract_canon_hzbd_u64(arr8(a), a[8] as u8),
		"fixed_length_reader" => contract_fixed_length_reader(a[0] as u8, a[1] as u8, a[2] as u8),
		_ => return None,
	})
}

#[cfg(kani)]
mod harnesses {
	use super::*;
	macro_rules! h {
		($h:ident, $c:ident, $($t:ty),*) => {
			#[kani::proof]
			#[kani::unwind(18)]
			fn $h() {
				let o = $c($(kani::any::<$t>()),*);
				kani::cover!(o == Outcome::Holds);
				assert!(o != Outcome::Violated);
			}
		};
	}
	h!(h_rt_u8, contract_rt_u8, u8);
	h!(h_rt_u16, contract_rt_u16, u16);
	h!(h_rt_u32, contract_rt_u32, u32);
	h!(h_rt_u64, contract_rt_u64, u64);
	h!(h_rt_i64, contract_rt_i64, i64);
	h!(h_rt_bool, contract_rt_bool, bool);
	h!(h_rt_bigsize, contract_rt_bigsize, u64);
	h!(h_rt_collection_length, contract_rt_collection_length, u64);
	h!(h_rt_hzbd_u64, contract_rt_hzbd_u64, u64);
	h!(h_rt_hzbd_u32, contract_rt_hzbd_u32, u32);
	h!(h_rt_u48, contract_rt_u48, u64);
	h!(h_canon_bigsize, contract_canon_bigsize, [u8; 9]);
	h!(h_canon_collection_length, contract_canon_collection_length, [u8; 10]);
	h!(h_canon_bool, contract_canon_bool, [u8; 1]);
	h!(h_canon_hzbd_u64, contract_canon_hzbd_u64, [u8; 8], u8);
	#[kani::proof]
	#[kani::unwind(26)]
	fn h_fixed_length_reader() {
		let o = contract_fixed_length_reader(kani::any(), kani::any(), kani::any());
		kani::cover!(o == Outcome::Holds);
		assert!(o != Outcome::Violated);
	}
}
