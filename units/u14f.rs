//! unit: u14f
//! properties: C14
//! note: create_payment_onion_internal (whole; create_payment_onion is the call with no overrides, extracted too): how the pieces of a payment onion are put together. The outer packet is built from the payloads build_onion_payloads returns for THIS path at this height, with the keys derived from this path and the caller's session key, the caller's seed for the filler, and the payment hash as associated data - and the amount and expiry handed back for the first HTLC are the ones those payloads were computed with. For a path ending in trampoline hops, the inner packet is built first (trampoline payloads for the blinded tail, keys from the tail and from the session key's hash - or the override -, the same payment hash), and the outer onion then carries that packet and speaks to the trampoline entry point with the recipient's payment secret as MPP identifier, the total the trampoline payloads ask for, and neither metadata nor custom records; without trampoline hops the recipient's fields are used as given. Payment metadata cannot be sent to a blinded recipient (refused)
//! trusted: env: every callee is an external_body stub returning an uninterpreted function of its arguments (build_onion_payloads, build_trampoline_onion_payloads, construct_onion_keys, construct_trampoline_onion_keys, construct_onion_packet, construct_trampoline_onion_packet, compute_trampoline_session_priv; their own contracts are u14 / u14b / u14e) and failing when an uninterpreted predicate says so; Path / BlindedTail / RecipientOnionFields field skeletons (lists as opaque ids, `is_empty` their flag); secp context, keys, seeds, hashes opaque copyable values; R8: the deferred `let a; let b; (a, b) = E;` is `let (a, b) = E;`, `X.unwrap_or_else(|| E)` / `X.unwrap_or(E)` on the two overrides are matches, error strings are an opaque text, the map_err closures get their parameter type; the debug assertion on the total CLTV delta is an obligation discharged from the stub's contract
//! trusted: assume_specification for core::cmp::max / core::cmp::min (std definitions): present in every unit so that a change that introduces them is verified instead of being rejected by the tool
use vstd::prelude::*;
verus! {
use vstd::std_specs::cmp::*;
use core::cmp;
pub assume_specification<T: core::cmp::Ord>[core::cmp::max::<T>](a: T, b: T) -> (r: T)
    ensures T::obeys_cmp_spec() ==> r == (if b.cmp_spec(&a) == core::cmp::Ordering::Less { a } else { b });
pub assume_specification<T: core::cmp::Ord>[core::cmp::min::<T>](a: T, b: T) -> (r: T)
    ensures T::obeys_cmp_spec() ==> r == (if b.cmp_spec(&a) == core::cmp::Ordering::Less { b } else { a });
pub struct Secp {}
#[derive(Clone, Copy, PartialEq, Eq)] pub struct SecretKey(pub u64);
#[derive(Clone, Copy, PartialEq, Eq)] pub struct PaymentHash(pub u64);
#[derive(Clone, Copy, PartialEq, Eq)] pub struct PaymentSecret(pub u64);
#[derive(Clone, Copy, PartialEq, Eq)] pub struct PaymentPreimage(pub u64);
#[derive(Clone, Copy, PartialEq, Eq)] pub struct Seed(pub u64);
pub struct InvoiceRequest { pub id: u64 }
pub struct Text {}
pub enum APIError { InvalidRoute { err: Text }, Other }
#[derive(PartialEq, Eq)] pub struct Bytes { pub id: u64 }
#[derive(PartialEq, Eq)] pub struct Tlvs { pub id: u64, pub empty: bool }
impl Tlvs { pub fn new() -> (r: Tlvs) ensures r == (Tlvs { id: 0, empty: true }) { Tlvs { id: 0, empty: true } } }
pub struct RecipientOnionFields { pub payment_secret: Option<PaymentSecret>, pub payment_metadata: Option<Bytes>, pub custom_tlvs: Tlvs, pub total_mpp_amount_msat: u64 }
pub struct HopList { pub id: u64, pub empty: bool }
impl HopList { pub fn is_empty(&self) -> (r: bool) ensures r == self.empty { self.empty } }
pub struct BlindedTail { pub trampoline_hops: HopList, pub hops: HopList, pub id: u64 }
pub struct Path { pub hops: HopList, pub blinded_tail: Option<BlindedTail> }
pub uninterp spec fn total_delta(p: Path) -> u32;
impl Path { #[verifier::external_body] pub fn total_cltv_expiry_delta(&self) -> (r: u32) ensures r == total_delta(*self) { unimplemented!() } }
pub struct TrampolinePayloads { pub id: u64 }
pub struct OnionPayloads { pub id: u64 }
pub struct OnionKeys { pub id: u64 }
pub struct OnionPacket { pub id: u64 }
pub struct TrampolineOnionPacket { pub id: u64 }
// the callees, uninterpreted
pub uninterp spec fn tramp_payloads_of(t: BlindedTail, r: RecipientOnionFields, h: u32, k: Option<PaymentPreimage>) -> Option<(TrampolinePayloads, u64)>;
pub uninterp spec fn payloads_of(p: Path, outer: RecipientOnionFields, h: u32, k: Option<PaymentPreimage>, inv: Option<u64>, tp: Option<TrampolineOnionPacket>) -> Option<(OnionPayloads, u64, u32)>;
pub uninterp spec fn keys_of(p: Path, s: SecretKey) -> OnionKeys;
pub uninterp spec fn tramp_keys_of(t: BlindedTail, s: SecretKey) -> OnionKeys;
pub uninterp spec fn packet_of(p: OnionPayloads, k: OnionKeys, seed: Seed, ad: PaymentHash) -> Option<OnionPacket>;
pub uninterp spec fn tramp_packet_of(p: TrampolinePayloads, k: OnionKeys, seed: Seed, ad: PaymentHash) -> Option<TrampolineOnionPacket>;
pub uninterp spec fn hash_of_key(s: SecretKey) -> SecretKey;
#[verifier::external_body] pub fn build_trampoline_onion_payloads(blinded_tail: &BlindedTail, recipient_onion: &RecipientOnionFields, cur_block_height: u32, keysend_preimage: &Option<PaymentPreimage>) -> (r: Result<(TrampolinePayloads, u64), APIError>)
    ensures (r is Ok) == (tramp_payloads_of(*blinded_tail, *recipient_onion, cur_block_height, *keysend_preimage) is Some), r is Ok ==> Some(r->Ok_0) == tramp_payloads_of(*blinded_tail, *recipient_onion, cur_block_height, *keysend_preimage) { unimplemented!() }
pub open spec fn inv_id(inv: Option<&InvoiceRequest>) -> Option<u64> { match inv { Some(i) => Some(i.id), None => None } }
#[verifier::external_body] pub fn build_onion_payloads(path: &Path, recipient_onion: &RecipientOnionFields, cur_block_height: u32, keysend_preimage: &Option<PaymentPreimage>, invoice_request: Option<&InvoiceRequest>, trampoline_packet: Option<TrampolineOnionPacket>) -> (r: Result<(OnionPayloads, u64, u32), APIError>)
    ensures (r is Ok) == (payloads_of(*path, *recipient_onion, cur_block_height, *keysend_preimage, inv_id(invoice_request), trampoline_packet) is Some),
        r is Ok ==> Some(r->Ok_0) == payloads_of(*path, *recipient_onion, cur_block_height, *keysend_preimage, inv_id(invoice_request), trampoline_packet) && r->Ok_0.2 >= cur_block_height && r->Ok_0.2 - cur_block_height == total_delta(*path) { unimplemented!() }
#[verifier::external_body] pub fn construct_onion_keys(secp_ctx: &&Secp, path: &&Path, session_priv: &SecretKey) -> (r: OnionKeys) ensures r == keys_of(**path, *session_priv) { unimplemented!() }
#[verifier::external_body] pub fn construct_trampoline_onion_keys(secp_ctx: &&Secp, blinded_tail: &&BlindedTail, session_priv: &SecretKey) -> (r: OnionKeys) ensures r == tramp_keys_of(**blinded_tail, *session_priv) { unimplemented!() }
#[verifier::external_body] pub fn construct_onion_packet(payloads: OnionPayloads, onion_keys: OnionKeys, prng_seed: Seed, associated_data: &PaymentHash) -> (r: Result<OnionPacket, ()>)
    ensures (r is Ok) == (packet_of(payloads, onion_keys, prng_seed, *associated_data) is Some), r is Ok ==> Some(r->Ok_0) == packet_of(payloads, onion_keys, prng_seed, *associated_data) { unimplemented!() }
#[verifier::external_body] pub fn construct_trampoline_onion_packet(payloads: TrampolinePayloads, onion_keys: OnionKeys, prng_seed: Seed, associated_data: &PaymentHash, length: Option<u16>) -> (r: Result<TrampolineOnionPacket, ()>)
    ensures (r is Ok) == (tramp_packet_of(payloads, onion_keys, prng_seed, *associated_data) is Some), r is Ok ==> Some(r->Ok_0) == tramp_packet_of(payloads, onion_keys, prng_seed, *associated_data) { unimplemented!() }
#[verifier::external_body] pub fn compute_trampoline_session_priv(outer_onion_session_priv: &SecretKey) -> (r: SecretKey) ensures r == hash_of_key(*outer_onion_session_priv) { unimplemented!() }
// what the outer onion says to its last clear hop
pub open spec fn outer_onion_of(path: Path, recipient_onion: RecipientOnionFields, h: u32, k: Option<PaymentPreimage>) -> RecipientOnionFields {
    if path.blinded_tail is Some && !path.blinded_tail->Some_0.trampoline_hops.empty && tramp_payloads_of(path.blinded_tail->Some_0, recipient_onion, h, k) is Some {
        RecipientOnionFields { payment_secret: recipient_onion.payment_secret, payment_metadata: None, custom_tlvs: Tlvs { id: 0, empty: true }, total_mpp_amount_msat: tramp_payloads_of(path.blinded_tail->Some_0, recipient_onion, h, k)->Some_0.1 }
    } else { recipient_onion } }
//@extract lightning/src/ln/onion_utils.rs :: fn create_payment_onion_internal
//@strip msgs
//@rw R5
    <T: secp256k1::Signing>
//@with

//@rw R5
    &Secp256k1<T>
//@with
    &Secp
//@rw * R5
    [u8; 32]
//@with
    Seed
//@rw R5
    custom_tlvs: Vec::new(),
//@with
    custom_tlvs: Tlvs::new(),
//@rw R8
    let trampoline_payloads; let outer_total_msat; (trampoline_payloads, outer_total_msat) = $e:seq;
//@with
    let (trampoline_payloads, outer_total_msat) = $e;
//@rw R8
    trampoline_session_priv_override .unwrap_or_else(|| $e:seq)
//@with
    (match trampoline_session_priv_override { Some(__v) => __v, None => $e })
//@rw R8
    trampoline_prng_seed_override.unwrap_or(prng_seed)
//@with
    (match trampoline_prng_seed_override { Some(__v) => __v, None => prng_seed })
//@rw * R9
    .map_err(|_| APIError::InvalidRoute { err: $s:lit.to_owned(), })
//@with
    .map_err(|_e: ()| -> (o: APIError) { APIError::InvalidRoute { err: Text {} } })
//@rw * R8
    err: $s:lit.to_owned(),
//@with
    err: Text {},
//@ret r
//@ensures P C14 the-outer-packet-is-built-from-this-paths-payloads-and-keys-the-callers-seed-and-the-payment-hash-and-for-trampoline-paths-carries-the-inner-packet-built-from-the-tail-under-the-hashed-session-key
    ({ let tail = path.blinded_tail; let tramp = tail is Some && !tail->Some_0.trampoline_hops.empty;
       let tpl = tramp_payloads_of(tail->Some_0, *recipient_onion, cur_block_height, *keysend_preimage);
       let tkey = match trampoline_session_priv_override { Some(k) => k, None => hash_of_key(*session_priv) };
       let tseed = match trampoline_prng_seed_override { Some(x) => x, None => prng_seed };
       let tpacket = if tramp && tpl is Some { tramp_packet_of(tpl->Some_0.0, tramp_keys_of(tail->Some_0, tkey), tseed, *payment_hash) } else { None };
       let outer = outer_onion_of(*path, *recipient_onion, cur_block_height, *keysend_preimage);
       let pl = payloads_of(*path, outer, cur_block_height, *keysend_preimage, inv_id(invoice_request), tpacket);
       &&& (tail is Some && recipient_onion.payment_metadata is Some ==> r is Err)
       &&& (tramp && (tpl is None || tpacket is None) ==> r is Err)
       &&& (r is Ok ==> pl is Some && packet_of(pl->Some_0.0, keys_of(*path, *session_priv), prng_seed, *payment_hash) == Some(r->Ok_0.0) && r->Ok_0.1 == pl->Some_0.1 && r->Ok_0.2 == pl->Some_0.2)
       &&& (r is Ok ==> r->Ok_0.2 >= cur_block_height && r->Ok_0.2 - cur_block_height == total_delta(*path)) }),
//@mutant outer_keys_derived_from_the_trampoline_session_key
    let onion_keys = construct_onion_keys(&secp_ctx, &path, session_priv);
//@with
    let onion_keys = construct_onion_keys(&secp_ctx, &path, &compute_trampoline_session_priv(session_priv));
//@mutant trampoline_entry_point_told_the_recipients_total_instead_of_the_trampoline_payloads
    trampoline_outer_onion.total_mpp_amount_msat = outer_total_msat;
//@with
    trampoline_outer_onion.total_mpp_amount_msat = recipient_onion.total_mpp_amount_msat;
//@mutant inner_packet_built_under_the_outer_session_key
    .unwrap_or_else(|| compute_trampoline_session_priv(session_priv))
//@with
    .unwrap_or_else(|| *session_priv)
//@mutant metadata_allowed_for_a_blinded_recipient
    if recipient_onion.payment_metadata.is_some() {
//@with
    if false {
//@end
}
fn main() {}
