//! unit: u02d
//! properties: C02 C09
//! note: claim path of a forwarded HTLC (channelmanager.rs claim_funds_from_htlc_forward_hop / claim_mpp_part): what is to happen once the upstream claim's monitor update is durable frees the DOWNSTREAM channel of the blocker derived from the upstream hop (never another channel, never another blocker) and carries the forwarding event; a duplicate claim replayed during start-up frees nothing now; the completion action of a new claim is queued under the claiming channel, behind those already there, and the callback is told the value claimed; a duplicate claim's action waits while any monitor update of the channel is in flight; the preimage update for a closed channel takes the id right after the last one the manager gave out for that channel and carries exactly this preimage
//! trusted: R15 (deep slices): claim_funds_from_htlc_forward_hop: the completion closure's body verbatim as a function of its two parameters and the captured values (the blocker expression is captured from the top of the function; the cfg(test) block is dropped by R2); claim_mpp_part: NewClaim arm (the call of the callback and the statement tracking its action), the in-flight test of the DuplicateClaim arm, the closed-channel statements that number and build the preimage update; make_payment_forwarded_event / completion_action are generic FnOnce parameters specified by their own requires/ensures
//! trusted: R15 (deep slice): handle_monitor_update_completion_actions: the EmitEventOptionAndFreeOtherChannel and FreeDuplicateClaimImmediately arms verbatim inside a match over the extracted enum; the manager is a recorder (queue_event stands for pending_events.lock().unwrap().push_back, handle_monitor_update_release logs its arguments; `&self` written `&mut self`)
//! trusted: R16: `&events::Event::PaymentForwarded { .. }` inside matches! written without the `&`; env: the HashMap<ChannelId, Vec<MonitorUpdateCompletionAction>> is an environment type whose entry API carries the std contracts, written with Verus' mutable-reference prophecy (as in u02b); struct EventUnblockedChannel and enum MonitorUpdateCompletionAction are extracted over skeleton field types
//! trusted: assume_specification for core::cmp::max / core::cmp::min (std definitions): present in every unit so that a change that introduces them is verified instead of being rejected by the tool
use vstd::prelude::*;
verus! {
use vstd::std_specs::cmp::*;
use core::cmp;
pub assume_specification<T: core::cmp::Ord>[core::cmp::max::<T>](a: T, b: T) -> (r: T)
    ensures T::obeys_cmp_spec() ==> r == (if b.cmp_spec(&a) == core::cmp::Ordering::Less { a } else { b });
pub assume_specification<T: core::cmp::Ord>[core::cmp::min::<T>](a: T, b: T) -> (r: T)
    ensures T::obeys_cmp_spec() ==> r == (if b.cmp_spec(&a) == core::cmp::Ordering::Less { b } else { a });
#[derive(Clone, Copy)] pub struct ChannelId(pub [u8; 32]);
#[derive(Clone, Copy)] pub struct PublicKey(pub u64);
#[derive(Clone, Copy)] pub struct OutPoint { pub id: u64 }
#[derive(Clone, Copy)] pub struct PaymentHash(pub [u8; 32]);
#[derive(Clone, Copy)] pub struct PaymentPreimage(pub [u8; 32]);
pub struct PendingMPPClaimPointer { pub opaque: u64 }
pub struct HTLCPreviousHopData { pub opaque: u64 }
pub struct RAAMonitorUpdateBlockingAction { pub opaque: u64 }
pub uninterp spec fn blocker_of(h: HTLCPreviousHopData) -> RAAMonitorUpdateBlockingAction;
impl RAAMonitorUpdateBlockingAction {
    #[verifier::external_body] pub fn from_prev_hop_data(prev_hop: &HTLCPreviousHopData) -> (r: Self) ensures r == blocker_of(*prev_hop) { unimplemented!() }
}
pub enum Event { PaymentForwarded { opaque: u64 }, Other { opaque: u64 } }
//@extract lightning/src/ln/channelmanager.rs :: struct EventUnblockedChannel
//@strip events
//@end
//@extract lightning/src/ln/channelmanager.rs :: enum MonitorUpdateCompletionAction
//@strip events
//@end

// ---- what completes with the upstream claim's monitor update ----
//@extract lightning/src/ln/channelmanager.rs :: impl ChannelManager :: fn claim_funds_from_htlc_forward_hop
//@strip events
//@capture R15
    let completed_blocker = $cb:seq;
//@slice R15
    |htlc_claim_value_msat, definitely_duplicate| { $body:any },
//@with
    fn completion_action_of_a_forwarded_claim<F: FnOnce(Option<u64>) -> Option<Event>>(htlc_claim_value_msat: Option<u64>, definitely_duplicate: bool, startup_replay: bool,
        next_channel_counterparty_node_id: PublicKey, next_channel_outpoint: OutPoint, next_channel_id: ChannelId, hop_data: HTLCPreviousHopData, make_payment_forwarded_event: F)
        -> (Option<MonitorUpdateCompletionAction>, Option<RAAMonitorUpdateBlockingAction>) {
        let completed_blocker = $cb;
        $body
    }
//@rw R16 ?
    &Event::PaymentForwarded { .. }
//@with
    Event::PaymentForwarded { .. }
//@ret r
//@requires
    make_payment_forwarded_event.requires((htlc_claim_value_msat,)),
    forall|e: Option<Event>| make_payment_forwarded_event.ensures((htlc_claim_value_msat,), e) ==> (e is None || e->Some_0 is PaymentForwarded),
//@ensures P C02,C09 once-the-upstream-claim-is-durable-exactly-the-downstream-channel-is-freed-of-the-blocker-of-the-upstream-hop-and-the-forwarding-event-is-the-one-computed-for-the-value-claimed
    r.1 is None,
    definitely_duplicate && startup_replay ==> r.0 is None,
    definitely_duplicate && !startup_replay ==> r.0 == Some(MonitorUpdateCompletionAction::FreeDuplicateClaimImmediately {
        downstream_counterparty_node_id: next_channel_counterparty_node_id, blocking_action: blocker_of(hop_data), downstream_channel_id: next_channel_id }),
    !definitely_duplicate ==> (r.0 matches Some(MonitorUpdateCompletionAction::EmitEventOptionAndFreeOtherChannel { event, downstream_counterparty_and_funding_outpoint })
        && make_payment_forwarded_event.ensures((htlc_claim_value_msat,), event)
        && downstream_counterparty_and_funding_outpoint == (EventUnblockedChannel { counterparty_node_id: next_channel_counterparty_node_id, funding_txo: next_channel_outpoint, channel_id: next_channel_id, blocking_action: blocker_of(hop_data) })),
//@mutant duplicate_claim_frees_the_downstream_channel_during_startup_replay
    if definitely_duplicate && startup_replay {
//@with
    if definitely_duplicate && !startup_replay {
//@mutant freed_channel_is_named_by_the_wrong_id
    downstream_channel_id: chan_to_release.channel_id,
//@with
    downstream_channel_id: ChannelId([0; 32]),
//@end


// ---- running the action once the upstream claim is durable (handle_monitor_update_completion_actions) ----
pub struct ManagerStub { pub events: Ghost<Seq<(Event, Option<u64>)>>, pub released: Ghost<Seq<(PublicKey, ChannelId, Option<RAAMonitorUpdateBlockingAction>)>> }
impl ManagerStub {
    #[verifier::external_body] pub fn queue_event(&mut self, e: (Event, Option<u64>))
        ensures final(self).events@ == old(self).events@.push(e), final(self).released@ == old(self).released@ { unimplemented!() }
    #[verifier::external_body] pub fn handle_monitor_update_release(&mut self, counterparty_node_id: PublicKey, channel_id: ChannelId, completed_blocker: Option<RAAMonitorUpdateBlockingAction>)
        ensures final(self).released@ == old(self).released@.push((counterparty_node_id, channel_id, completed_blocker)), final(self).events@ == old(self).events@ { unimplemented!() }
//@extract lightning/src/ln/channelmanager.rs :: impl ChannelManager :: fn handle_monitor_update_completion_actions
//@strip events
//@slice R15
    MonitorUpdateCompletionAction::EmitEventOptionAndFreeOtherChannel { event, downstream_counterparty_and_funding_outpoint, } => { $a:any }, MonitorUpdateCompletionAction::FreeDuplicateClaimImmediately { downstream_counterparty_node_id, downstream_channel_id, blocking_action, } => { $b:any },
//@with
    fn run_the_action_of_a_durable_forwarded_claim(&mut self, action: MonitorUpdateCompletionAction) {
        match action {
            MonitorUpdateCompletionAction::PaymentClaimed { .. } => {},
            MonitorUpdateCompletionAction::EmitEventOptionAndFreeOtherChannel { event, downstream_counterparty_and_funding_outpoint, } => { $a },
            MonitorUpdateCompletionAction::FreeDuplicateClaimImmediately { downstream_counterparty_node_id, downstream_channel_id, blocking_action, } => { $b },
        }
    }
//@rw R5
    self.pending_events.lock().unwrap().push_back((event, None));
//@with
    self.queue_event((event, None));
//@requires
    !(action is PaymentClaimed),
//@ensures P C02,C09 once-the-upstream-claim-is-durable-the-forwarding-event-is-queued-and-the-downstream-channel-named-in-the-action-is-released-of-exactly-the-blocker-named-in-it
    action matches MonitorUpdateCompletionAction::EmitEventOptionAndFreeOtherChannel { event, downstream_counterparty_and_funding_outpoint: d } ==> (
        final(self).events@ == (if event is Some { old(self).events@.push((event->Some_0, None::<u64>)) } else { old(self).events@ })
        && final(self).released@ == old(self).released@.push((d.counterparty_node_id, d.channel_id, Some(d.blocking_action)))),
    action matches MonitorUpdateCompletionAction::FreeDuplicateClaimImmediately { downstream_counterparty_node_id, blocking_action, downstream_channel_id } ==> (
        final(self).events@ == old(self).events@
        && final(self).released@ == old(self).released@.push((downstream_counterparty_node_id, downstream_channel_id, Some(blocking_action)))),
//@mutant downstream_channel_released_without_naming_the_blocker
    Some(downstream_counterparty_and_funding_outpoint.blocking_action),
//@with
    None,
//@end
}
// ---- the per-channel list of completion actions (monitor_update_blocked_actions) ----
pub type Actions = Seq<MonitorUpdateCompletionAction>;
pub struct ActionMap { pub m: Ghost<Map<ChannelId, Actions>> }
pub struct Entry<'a> { pub slot: &'a mut Option<Vec<MonitorUpdateCompletionAction>> }
pub open spec fn getm(m: Map<ChannelId, Actions>, k: ChannelId) -> Option<Actions> { if m.contains_key(k) { Some(m[k]) } else { None } }
pub open spec fn optv(o: Option<Vec<MonitorUpdateCompletionAction>>) -> Option<Actions> { match o { Some(v) => Some(v@), None => None } }
pub open spec fn listed(m: Map<ChannelId, Actions>, k: ChannelId) -> Actions { if m.contains_key(k) { m[k] } else { Seq::empty() } }
impl ActionMap {
    #[verifier::external_body]
    pub fn entry<'a>(&'a mut self, k: ChannelId) -> (e: Entry<'a>)
        ensures optv(*e.slot) == getm(old(self).m@, k),
            final(self).m@ == (match optv(*final(e.slot)) { Some(v) => old(self).m@.insert(k, v), None => old(self).m@.remove(k) }),
    { unimplemented!() }
}
impl<'a> Entry<'a> {
    #[verifier::external_body]
    pub fn or_insert_with<F: FnOnce() -> Vec<MonitorUpdateCompletionAction>>(self, f: F) -> (r: &'a mut Vec<MonitorUpdateCompletionAction>)
        requires f.requires(()),
        ensures (*old(self.slot)) is Some ==> *r == (*old(self.slot))->Some_0,
            (*old(self.slot)) is None ==> f.ensures((), *r),
            *final(self.slot) == Some(*final(r)),
    { unimplemented!() }
    #[verifier::external_body]
    pub fn or_insert(self, v: Vec<MonitorUpdateCompletionAction>) -> (r: &'a mut Vec<MonitorUpdateCompletionAction>)
        ensures (*old(self.slot)) is Some ==> *r == (*old(self.slot))->Some_0,
            (*old(self.slot)) is None ==> *r == v,
            *final(self.slot) == Some(*final(r)),
    { unimplemented!() }
    #[verifier::external_body]
    pub fn or_default(self) -> (r: &'a mut Vec<MonitorUpdateCompletionAction>)
        ensures (*old(self.slot)) is Some ==> *r == (*old(self.slot))->Some_0,
            (*old(self.slot)) is None ==> r@ == Seq::<MonitorUpdateCompletionAction>::empty(),
            *final(self.slot) == Some(*final(r)),
    { unimplemented!() }
}
pub struct PeerState { pub monitor_update_blocked_actions: ActionMap }
// the lists `n` after `a` was queued for channel `k` on top of `m`: k's list is the old one with a at the end (actions run in the order queued), every other list as before
pub open spec fn is_queued(n: Map<ChannelId, Actions>, m: Map<ChannelId, Actions>, k: ChannelId, a: MonitorUpdateCompletionAction) -> bool {
    n.dom() =~= m.dom().insert(k) && (forall|o: ChannelId| m.contains_key(o) && o != k ==> #[trigger] n[o] == m[o]) && n[k] =~= listed(m, k).push(a)
}
//@extract lightning/src/ln/channelmanager.rs :: impl ChannelManager :: fn claim_mpp_part
//@slice R15
    UpdateFulfillCommitFetch::NewClaim { htlc_value_msat, monitor_update } => { let (action_opt, raa_blocker_opt) = completion_action($args:seq); if let Some(action) = action_opt { $track:straight } if let Some(raa_blocker) = raa_blocker_opt {
//@with
    fn track_the_action_of_a_new_claim<F: FnOnce(Option<u64>, bool) -> (Option<MonitorUpdateCompletionAction>, Option<RAAMonitorUpdateBlockingAction>)>(
        peer_state: &mut PeerState, chan_id: ChannelId, htlc_value_msat: u64, completion_action: F) -> (Ghost<Option<MonitorUpdateCompletionAction>>, Option<RAAMonitorUpdateBlockingAction>) {
        let (action_opt, raa_blocker_opt) = completion_action($args);
        let ghost told = action_opt;
        if let Some(action) = action_opt { $track }
        (Ghost(told), raa_blocker_opt)
    }
//@ret r
//@requires
    completion_action.requires((Some(htlc_value_msat), false)),
    forall|x: (Option<u64>, bool)| x != (Some(htlc_value_msat), false) ==> !completion_action.requires(x),
//@ensures P C02,C09 the-callback-of-a-new-claim-is-told-the-value-claimed-and-that-it-is-no-duplicate-and-its-action-is-queued-under-the-claiming-channel-behind-those-already-there
    completion_action.ensures((Some(htlc_value_msat), false), (r.0@, r.1)),
    r.0@ is Some ==> is_queued(final(peer_state).monitor_update_blocked_actions.m@, old(peer_state).monitor_update_blocked_actions.m@, chan_id, r.0@->Some_0),
    r.0@ is None ==> final(peer_state).monitor_update_blocked_actions.m@ =~= old(peer_state).monitor_update_blocked_actions.m@,
//@mutant new_claim_reported_to_the_callback_as_a_duplicate
    completion_action(Some(htlc_value_msat), false)
//@with
    completion_action(Some(htlc_value_msat), true)
//@mutant action_of_a_new_claim_replaces_the_queued_ones
    .or_insert(Vec::new()) .push(action); } if let Some(raa_blocker)
//@with
    .or_insert(Vec::new()); } if let Some(raa_blocker)
//@end
//@extract lightning/src/ln/channelmanager.rs :: impl ChannelManager :: fn claim_mpp_part
//@slice R15
    if let Some(action) = action_opt { $track:straight } if let Some(actions) = self.handle_post_close_monitor_update(
//@with
    fn track_the_action_of_a_claim_on_a_closed_channel(peer_state: &mut PeerState, chan_id: ChannelId, action_opt: Option<MonitorUpdateCompletionAction>) {
        if let Some(action) = action_opt { $track }
    }
//@ensures P C02,C09 the-action-of-a-claim-against-a-closed-channel-is-queued-under-that-channel-behind-those-already-there-before-the-preimage-update-is-handed-out
    action_opt is Some ==> is_queued(final(peer_state).monitor_update_blocked_actions.m@, old(peer_state).monitor_update_blocked_actions.m@, chan_id, action_opt->Some_0),
    action_opt is None ==> final(peer_state).monitor_update_blocked_actions.m@ =~= old(peer_state).monitor_update_blocked_actions.m@,
//@mutant action_of_a_closed_channel_claim_dropped
    .or_insert(Vec::new()) .push(action); } if let Some(actions)
//@with
    .or_insert(Vec::new()); } if let Some(actions)
//@end

// ---- a duplicate claim's action waits while any update of the channel is in flight ----
pub struct ChannelMonitorUpdate { pub update_id: u64, pub updates: Vec<ChannelMonitorUpdateStep>, pub channel_id: Option<ChannelId> }
pub struct PaymentClaimDetails { pub opaque: u64 }
pub enum ChannelMonitorUpdateStep { PaymentPreimage { payment_preimage: PaymentPreimage, payment_info: Option<PaymentClaimDetails> }, Other { opaque: u64 } }
//@extract lightning/src/ln/channelmanager.rs :: impl ChannelManager :: fn claim_mpp_part
//@slice R15
    let in_flight_mons = peer_state.in_flight_monitor_updates.get(&chan_id); if $c:cond {
//@with
    fn duplicate_claims_action_waits_for_in_flight_updates(in_flight_mons: Option<&(OutPoint, Vec<ChannelMonitorUpdate>)>) -> bool { if $c { true } else { false } }
//@rw R9
    |(_, mons)| !mons.is_empty()
//@with
    |x: &(OutPoint, Vec<ChannelMonitorUpdate>)| -> (b: bool) ensures b == (x.1@.len() > 0) { !x.1.is_empty() }
//@ret r
//@ensures P C02,C09 the-action-of-a-duplicate-claim-is-not-run-while-a-monitor-update-of-the-channel-is-still-in-flight
    r == (in_flight_mons is Some && in_flight_mons->Some_0.1@.len() > 0),
//@mutant duplicate_claims_action_run_with_updates_in_flight
    .unwrap_or(false)
//@with
    .unwrap_or(false) && false
//@end

// ---- the preimage update of a closed channel ----
pub struct HopId { pub channel_id: ChannelId }
//@extract lightning/src/ln/channelmanager.rs :: impl ChannelManager :: fn claim_mpp_part
//@slice R15
    let update_id = if let Some(latest_update_id) = peer_state.closed_channel_monitor_update_ids.get_mut(&chan_id) { $bump:any } else { $panic:any }; let preimage_update = ChannelMonitorUpdate { $fields:any };
//@with
    fn preimage_update_for_a_closed_channel(latest_update_id: &mut u64, prev_hop: &HopId, payment_preimage: PaymentPreimage, payment_info: Option<PaymentClaimDetails>) -> ChannelMonitorUpdate {
        let update_id = { $bump };
        ChannelMonitorUpdate { $fields }
    }
//@ret r
//@ensures P C02,C09 the-preimage-update-for-a-closed-channel-takes-the-id-after-the-last-one-given-out-for-that-channel-which-the-manager-remembers-and-carries-exactly-this-preimage
    *final(latest_update_id) == (if *old(latest_update_id) == u64::MAX { u64::MAX } else { (*old(latest_update_id) + 1) as u64 }),
    r.update_id == *final(latest_update_id), r.channel_id == Some(prev_hop.channel_id),
    r.updates@ =~= seq![ChannelMonitorUpdateStep::PaymentPreimage { payment_preimage, payment_info }],
//@mutant closed_channel_update_id_not_remembered
    *latest_update_id = latest_update_id.saturating_add(1); *latest_update_id
//@with
    latest_update_id.saturating_add(1)
//@end
}
fn main() {}
