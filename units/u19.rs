//! unit: u19
//! properties: C19
//! note: MonitorUpdatingPersisterAsync clean-up: every KVStore::remove of an incremental update is for an id <= the latest_update_id of the full monitor read from the store (trace property written as the precondition of the external remove())
//! trusted: R15 (deep slice + capture): update_persisted_channel: the expression deciding whether only the update or the whole monitor is written (with the function-local const LEGACY_CLOSED_CHANNEL_UPDATE_ID), verbatim as a function of the update id and the configured interval
//! trusted: R5: MonitorUpdatingPersisterAsyncInner<K,..> self skeleton {kv_store}; KVStore is a stub with async list/remove (remove carries the trace precondition); UpdateName is a skeleton (u64, String) whose new()/from()/as_str() are external_body with the id/name correspondence (id_of_name uninterpreted: the name determines the id); MonitorName opaque with from_str/to_key external_body (to_key(from_str(k)) == k assumed); maybe_read_monitor is external_body: the monitor it returns is the stored one, i.e. its latest_update_id == stored_latest(key) (definition of stored_latest)
//! plemma: C19 call-site precondition of KVStore::remove in cleanup_stale_updates / cleanup_stale_updates_for_monitor_to / cleanup_in_range and of both clean-up calls after the consolidating write in update_persisted_channel: id_of_name(key) <= stored_latest(monitor key) -- clean-up never deletes an update that recovery still needs
//! trusted: R13: `for x in a..=b` rewritten into an explicit loop over the inclusive range
//! trusted: R15 (deep slice): update_persisted_channel builds its result from async-move blocks (impl Future, outside the verifier); the unit extracts the body of the block that runs after the consolidating full-monitor write verbatim as an async fn of (monitor_name, latest_update_id, write_status), together with the function-local const LEGACY_CLOSED_CHANNEL_UPDATE_ID; its precondition is the meaning of a successful write: the stored full monitor then is the one just written (stored_latest == its latest_update_id); the decision update-vs-full-monitor and the writes themselves are dropped and not claimed
//! trusted: R15 (deep slice): maybe_read_channel_monitor_with_updates joins futures and iterator adapters; the unit extracts the filter predicate that selects the updates to replay verbatim; and the statement(s) between collecting the listed names and filtering them (the sort) verbatim as a function of the list; `updates` is an environment type standing for Vec<UpdateName> whose sort / sort_unstable / sort_by_key / sort_unstable_by_key / reverse carry the std contracts (permutation; ordered by Ord / by the key; a key closure `|u| E`, which Verus gives no specification, is rewritten into the closure returning `(E) as i128` with that as its postcondition, so only integer keys of at most 64 bits are understood, anything else is a tool error), and the derived Ord of UpdateName is taken to be the lexicographic order on (id, name) (trusted: #[derive(Ord)] on a tuple struct); reading and applying the updates in iteration order (MultiResultFuturePoller keeps the order of its futures) are dropped and not claimed
//! trusted: R15 (deep slice): maybe_read_channel_monitor_with_updates: the statement that turns the listing into update names, verbatim as a function of the listing's result; R6: `V.into_iter().map(|name| UpdateName::new(name)).collect()` is the wrapper collect_update_names (all names parse: the names in order; otherwise an error), `R.into_iter().flatten()` on a Result is the wrapper result_into_iter_flatten (std semantics: the Ok value's elements, or none)
//! trusted: async_archive: MonitorUpdatingPersisterAsyncInner::archive_persisted_channel extracted whole against an async store stub whose `remove` carries the (P) obligation as its precondition (the live monitor of a key goes only once the bytes recovery would rebuild for that key are in the archive under the same key); read_channel_monitor_with_updates is its own contract's summary (the monitor it returns encodes to those bytes)
//! trusted: R15 (deep slice): maybe_read_channel_monitor_with_updates: the body of the loop that applies the stored updates, verbatim as a function of one read result and the monitor (update_monitor records the update in a ghost log and succeeds iff the uninterpreted applies_cleanly; its PANIC on an update that is not the next one is its precondition: finding F16); R8: a `break` of the loop is the function returning `false` (no further stored update is looked at), its normal end `true`; R9: the map_err closure gets its parameter type, its log statement is dropped by R3
//! plemma: C19 call-site precondition of KVStoreSync::remove in the blanket Persist impl's archive_persisted_channel: the live copy of a monitor is deleted only after the very bytes read from it were accepted by the archive namespace
//! trusted: sync_persist: the three methods of `impl<K: KVStoreSync> Persist for K` are verified as inherent methods of a Store stub whose write reports its result through the uninterpreted write_ok, whose read of the live namespace returns live_value(key), and whose remove carries the archive precondition; ChannelMonitor::encode / MonitorName::to_key uninterpreted; enum ChannelMonitorUpdateStatus extracted; R5: the signer type parameter is dropped
//! trusted: read_channel_monitors: the test that refuses a monitor stored under a key other than its own persistence key is sliced (keys compare by identity); listing, reading and decoding are dropped and not claimed
//! assume: nobody else deletes from the archive namespace and the live value of the key does not change while archive_persisted_channel runs
//! assume: stored_latest(key) is stable for the duration of the functions (no concurrent writer replaces the full monitor with an older one)
//! trusted: assume_specification for core::cmp::max / core::cmp::min (std definitions): present in every unit so that a change that introduces them is verified instead of being rejected by the tool
use vstd::prelude::*;
use vstd::std_specs::cmp::*;
verus! {
use core::cmp;
pub assume_specification<T: core::cmp::Ord>[core::cmp::max::<T>](a: T, b: T) -> (r: T)
    ensures T::obeys_cmp_spec() ==> r == (if b.cmp_spec(&a) == core::cmp::Ordering::Less { a } else { b });
pub assume_specification<T: core::cmp::Ord>[core::cmp::min::<T>](a: T, b: T) -> (r: T)
    ensures T::obeys_cmp_spec() ==> r == (if b.cmp_spec(&a) == core::cmp::Ordering::Less { b } else { a });
pub struct Error {}
//@extract lightning/src/util/persist.rs :: const CHANNEL_MONITOR_PERSISTENCE_PRIMARY_NAMESPACE
//@rw R1
    : &str
//@with
    : &'static str
//@end
//@extract lightning/src/util/persist.rs :: const CHANNEL_MONITOR_PERSISTENCE_SECONDARY_NAMESPACE
//@rw R1
    : &str
//@with
    : &'static str
//@end
//@extract lightning/src/util/persist.rs :: const CHANNEL_MONITOR_UPDATE_PERSISTENCE_PRIMARY_NAMESPACE
//@rw R1
    : &str
//@with
    : &'static str
//@end
// abstract on-disk fact: latest_update_id of the full monitor stored under this key
pub uninterp spec fn stored_latest(monitor_key: Seq<char>) -> u64;
// the textual name of an update determines its id (UpdateName::new parses it)
pub uninterp spec fn id_of_name(name: Seq<char>) -> u64;
pub struct UpdateName(pub u64, pub String);
impl UpdateName {
    #[verifier::external_body]
	pub fn new(name: String) -> (r: Result<Self, Error>) ensures r is Ok ==> r->Ok_0.0 == id_of_name(name@) && r->Ok_0.1@ == name@ { unimplemented!() }
    #[verifier::external_body]
	pub fn from(id: u64) -> (r: Self) ensures r.0 == id, id_of_name(r.1@) == id { unimplemented!() }
    #[verifier::external_body]
	pub fn as_str(&self) -> (r: &str) ensures r@ == self.1@ { unimplemented!() }
}
pub struct KVStoreStub {}
impl KVStoreStub {
    #[verifier::external_body]
	pub async fn list(&self, primary: &str, secondary: &str) -> (r: Result<Vec<String>, Error>) { unimplemented!() }
    // (P) the obligation every caller must discharge: an incremental update may only be deleted if the stored full monitor already includes it
    #[verifier::external_body]
	pub async fn remove(&self, primary: &str, secondary: &str, key: &str, lazy: bool) -> (r: Result<(), Error>)
        requires primary@ == CHANNEL_MONITOR_UPDATE_PERSISTENCE_PRIMARY_NAMESPACE@ ==> id_of_name(key@) <= stored_latest(secondary@)
    { unimplemented!() }
}
pub struct MonitorName {}
impl MonitorName {
    pub uninterp spec fn key(&self) -> Seq<char>;
    #[verifier::external_body]
	fn from_str(monitor_key: &str) -> (r: Result<Self, Error>) ensures r is Ok ==> r->Ok_0.key() == monitor_key@ { unimplemented!() }
    #[verifier::external_body]
	fn to_key(&self) -> (r: String) ensures r@ == self.key() { unimplemented!() }
}
pub struct BlockLocator {}
pub struct ChannelMonitor { pub latest: u64 }
impl ChannelMonitor {
    #[verifier::external_body]
    pub fn get_latest_update_id(&self) -> (r: u64) ensures r == self.latest { unimplemented!() }
}
pub struct UpdateIdOnly { pub update_id: u64 }
pub struct MonitorUpdatingPersisterAsyncInner { pub kv_store: KVStoreStub, pub maximum_pending_updates: u64 }
impl MonitorUpdatingPersisterAsyncInner {
    // the monitor with every stored incremental update replayed on top: at least as new as the stored full monitor (environment
    // completeness: present so that a change that reads through it is verified, not rejected by the tool)
    #[verifier::external_body]
	async fn maybe_read_channel_monitor_with_updates(&self, monitor_key: &str) -> (r: Result<Option<(BlockLocator, ChannelMonitor)>, Error>)
        ensures r is Ok && r->Ok_0 is Some ==> r->Ok_0->Some_0.1.latest >= stored_latest(monitor_key@)
    { unimplemented!() }
    #[verifier::external_body]
	async fn maybe_read_monitor(&self, monitor_name: &MonitorName, monitor_key: &str) -> (r: Result<Option<(BlockLocator, ChannelMonitor)>, Error>)
        ensures r is Ok && r->Ok_0 is Some ==> r->Ok_0->Some_0.1.latest == stored_latest(monitor_key@)
    { unimplemented!() }

//@extract lightning/src/util/persist.rs :: impl MonitorUpdatingPersisterAsyncInner :: fn cleanup_stale_updates
//@strip io
//@ret r
//@ensures A
    true
//@loop 1
    invariant true
//@mutant cleans_up_to_a_later_id_than_the_stored_monitor
    let latest_update_id = current_monitor.get_latest_update_id();
//@with
    let latest_update_id = current_monitor.get_latest_update_id().saturating_add(1);
//@end

//@extract lightning/src/util/persist.rs :: impl MonitorUpdatingPersisterAsyncInner :: fn cleanup_stale_updates_for_monitor_to
//@strip io
//@ret r
//@requires
    latest_update_id <= stored_latest(monitor_key@)
//@ensures A
    true
//@loop 1
    invariant latest_update_id <= stored_latest(monitor_key@)
//@mutant deletes_newer_updates
    if update_name.0 <= latest_update_id {
//@with
    if update_name.0 >= latest_update_id {
//@end

//@extract lightning/src/util/persist.rs :: impl MonitorUpdatingPersisterAsyncInner :: fn cleanup_in_range
//@requires
    end <= stored_latest(monitor_name.key()), end < u64::MAX
//@rw R13
    for $x:ident in $a:ident..=$b:ident { $body:any }
//@with
    let mut __cur = $a;
    let mut __done = $a > $b;
    while !__done
        invariant $b <= stored_latest(monitor_name.key()), $b < u64::MAX, !__done ==> __cur <= $b, monitor_key@ == monitor_name.key(),
        decreases (if __done { 0int } else { $b - __cur + 1 })
    {
        let $x = __cur;
        if __cur == $b { __done = true; } else { __cur = __cur + 1; }
        $body
    }
//@mutant range_end_plus_one
    let update_name = UpdateName::from(update_id);
//@with
    let update_name = UpdateName::from(update_id + 1);
//@end

// ---- what happens after the consolidating full-monitor write (deep R15 slice of update_persisted_channel) ----
//@extract lightning/src/util/persist.rs :: impl MonitorUpdatingPersisterAsyncInner :: fn update_persisted_channel
//@capture R15
    const LEGACY_CLOSED_CHANNEL_UPDATE_ID: u64 = $legacy;
//@slice R15
    let persist_update = $e:seq; if persist_update {
//@with
    fn only_the_update_is_written(&self, update: &UpdateIdOnly) -> bool { const LEGACY_CLOSED_CHANNEL_UPDATE_ID: u64 = $legacy; let persist_update = $e; persist_update }
//@ret r
//@ensures P C19 the-full-monitor-is-written-for-every-update-whose-id-is-a-multiple-of-the-configured-interval-for-a-legacy-closed-channel-update-and-always-when-the-interval-is-zero-otherwise-only-the-update
    r == (update.update_id != u64::MAX && self.maximum_pending_updates != 0 && update.update_id % self.maximum_pending_updates != 0),
//@mutant consolidation_interval_off_by_one
    update.update_id % self.maximum_pending_updates != 0;
//@with
    update.update_id % self.maximum_pending_updates != 1;
//@end
//@extract lightning/src/util/persist.rs :: impl MonitorUpdatingPersisterAsyncInner :: fn update_persisted_channel
//@strip io
//@capture R15
    const LEGACY_CLOSED_CHANNEL_UPDATE_ID: u64 = $legacy;
//@slice R15
    res_b = Some(async move { let write_status = write_fut.await; $body:any write_status });
//@with
    async fn after_full_monitor_write(&self, monitor_name: MonitorName, latest_update_id: u64, write_status: Result<(), Error>) -> Result<(), Error> {
        const LEGACY_CLOSED_CHANNEL_UPDATE_ID: u64 = $legacy;
        $body
        write_status
    }
//@ret r
//@requires
    write_status is Ok ==> stored_latest(monitor_name.key()) == latest_update_id,
//@ensures A the-write-result-is-reported
    write_status is Err ==> r is Err,
//@mutant clean_up_even_when_the_full_write_failed
    if let Ok(()) = write_status {
//@with
    if true {
//@mutant clean_up_one_past_the_written_monitor
    let end = latest_update_id;
//@with
    let end = latest_update_id + 1;
//@end

// ---- recovery: which stored updates are replayed on top of the stored full monitor (deep R15 slice) ----
//@extract lightning/src/util/persist.rs :: impl MonitorUpdatingPersisterAsyncInner :: fn maybe_read_channel_monitor_with_updates
//@slice R15
    let updates_to_load = updates.iter().filter(|update| $pred);
//@with
    fn update_is_replayed(update: &UpdateName, current_update_id: u64) -> bool { $pred }
//@ret r
//@ensures P C19 recovery-replays-exactly-the-stored-updates-above-the-stored-monitors-own-update-id
    r == (update.0 > current_update_id),
//@mutant update_already_in_the_monitor_replayed
    update.0 > current_update_id
//@with
    update.0 >= current_update_id
//@end
}
// ---- recovery: the order in which the stored updates are replayed ---------------------------------
// `updates` stands for the Vec<UpdateName> of the source: a list whose sorting methods carry the std contracts
// (the result is a permutation of the input, ordered by the element order / by the key), and UpdateName's derived
// Ord is the lexicographic order on (id, name).
pub uninterp spec fn str_le(a: Seq<char>, b: Seq<char>) -> bool;
pub open spec fn name_le(a: UpdateName, b: UpdateName) -> bool { a.0 < b.0 || (a.0 == b.0 && str_le(a.1@, b.1@)) }
pub struct Updates { pub v: Vec<UpdateName> }
impl Updates {
    #[verifier::external_body]
    pub fn sort_unstable(&mut self)
        ensures final(self).v@.to_multiset() == old(self).v@.to_multiset(), final(self).v@.len() == old(self).v@.len(),
            forall|i: int, j: int| 0 <= i < j < final(self).v@.len() ==> name_le(#[trigger] final(self).v@[i], #[trigger] final(self).v@[j]),
    { unimplemented!() }
    #[verifier::external_body]
    pub fn sort(&mut self)
        ensures final(self).v@.to_multiset() == old(self).v@.to_multiset(), final(self).v@.len() == old(self).v@.len(),
            forall|i: int, j: int| 0 <= i < j < final(self).v@.len() ==> name_le(#[trigger] final(self).v@[i], #[trigger] final(self).v@[j]),
    { unimplemented!() }
    // keys are integer expressions, compared as i128 (order-preserving for every integer type up to 64 bits); see the rw below
    #[verifier::external_body]
    pub fn sort_unstable_by_key<F: Fn(&UpdateName) -> i128>(&mut self, f: F)
        requires forall|u: &UpdateName| f.requires((u,)),
        ensures final(self).v@.to_multiset() == old(self).v@.to_multiset(), final(self).v@.len() == old(self).v@.len(),
            forall|i: int, j: int| #![trigger final(self).v@[i], final(self).v@[j]] 0 <= i < j < final(self).v@.len() ==> exists|ki: i128, kj: i128|
                #![trigger f.ensures((&final(self).v@[i],), ki), f.ensures((&final(self).v@[j],), kj)]
                f.ensures((&final(self).v@[i],), ki) && f.ensures((&final(self).v@[j],), kj) && ki <= kj,
    { unimplemented!() }
    #[verifier::external_body]
    pub fn sort_by_key<F: Fn(&UpdateName) -> i128>(&mut self, f: F)
        requires forall|u: &UpdateName| f.requires((u,)),
        ensures final(self).v@.to_multiset() == old(self).v@.to_multiset(), final(self).v@.len() == old(self).v@.len(),
            forall|i: int, j: int| #![trigger final(self).v@[i], final(self).v@[j]] 0 <= i < j < final(self).v@.len() ==> exists|ki: i128, kj: i128|
                #![trigger f.ensures((&final(self).v@[i],), ki), f.ensures((&final(self).v@[j],), kj)]
                f.ensures((&final(self).v@[i],), ki) && f.ensures((&final(self).v@[j],), kj) && ki <= kj,
    { unimplemented!() }
    #[verifier::external_body]
    pub fn reverse(&mut self)
        ensures final(self).v@ == old(self).v@.reverse(),
    { unimplemented!() }
}
//@extract lightning/src/util/persist.rs :: impl MonitorUpdatingPersisterAsyncInner :: fn maybe_read_channel_monitor_with_updates
//@slice R15
    let mut updates = updates?; $sort:straight let updates_to_load = updates.iter().filter(
//@with
    fn order_updates(updates: &mut Updates) { $sort }
//@rw ? R10
    .sort_unstable_by_key(|$p:ident| $e:seq)
//@with
    .sort_unstable_by_key(|$p: &UpdateName| -> (k: i128) ensures k == ($e) as i128 { ($e) as i128 })
//@rw ? R10
    .sort_by_key(|$p:ident| $e:seq)
//@with
    .sort_by_key(|$p: &UpdateName| -> (k: i128) ensures k == ($e) as i128 { ($e) as i128 })
//@ensures P C19 recovery-replays-the-stored-updates-in-ascending-update-id-order-and-drops-none
    final(updates).v@.to_multiset() == old(updates).v@.to_multiset(),
    forall|i: int, j: int| 0 <= i < j < final(updates).v@.len() ==> (#[trigger] final(updates).v@[i]).0 <= (#[trigger] final(updates).v@[j]).0,
//@mutant updates_not_sorted
    updates.sort_unstable();
//@with
    
//@mutant sorted_by_truncated_id
    updates.sort_unstable();
//@with
    updates.sort_unstable_by_key(|update| update.0 as u32);
//@mutant sorted_descending
    updates.sort_unstable();
//@with
    updates.sort_unstable(); updates.reverse();
//@end

// ---- recovery: a stored update that cannot be read or applied fails the whole read (no partially replayed monitor is returned) ----
pub mod replay {
use vstd::prelude::*;
pub struct IoError {}
pub enum ErrorKind { Other, NotFound }
impl IoError { #[verifier::external_body] pub fn new(kind: ErrorKind, msg: &str) -> (r: IoError) { unimplemented!() } }
pub struct Update { pub update_id: u64 }
pub struct UpdateName {}
pub struct Broadcaster {} pub struct FeeEstimator {} pub struct Logger {}
// ghost log of the updates handed to update_monitor, in order
pub struct Monitor { pub applied: Ghost<Seq<Update>>, pub latest_update_id: u64 }
pub uninterp spec fn applies_cleanly(m: Monitor, u: Update) -> bool;
impl Monitor {
    // ChannelMonitorImpl::update_monitor PANICS on an update that is not the next one ("Attempted to apply ChannelMonitorUpdates out of order"), the legacy closing id excepted: that is its precondition here
    #[verifier::external_body] pub fn update_monitor(&mut self, update: &Update, broadcaster: &Broadcaster, fee_estimator: &FeeEstimator, logger: &Logger) -> (r: Result<(), ()>)
        requires update.update_id == u64::MAX || update.update_id as int == old(self).latest_update_id + 1
        ensures final(self).applied@ == old(self).applied@.push(*update), r is Ok == applies_cleanly(*old(self), *update) { unimplemented!() }
    pub fn get_latest_update_id(&self) -> (r: u64) ensures r == self.latest_update_id { self.latest_update_id }
}
impl UpdateName { #[verifier::external_body] pub fn as_str(&self) -> (r: &str) { unimplemented!() } }
// the names the store listed become the updates to look at: a listing that failed, or a name that is not an update name, fails the read
pub struct ListedName { pub id: Ghost<Option<u64>> }
pub struct ParsedName { pub id: u64 }
impl ParsedName { #[verifier::external_body] pub fn new(name: ListedName) -> (r: Result<ParsedName, IoError>) ensures r is Ok == name.id@ is Some, r matches Ok(p) ==> Some(p.id) == name.id@ { unimplemented!() } }
pub open spec fn all_parse(names: Seq<ListedName>) -> bool { forall|k: int| 0 <= k < names.len() ==> (#[trigger] names[k]).id@ is Some }
// R6: `V.into_iter().map(|name| UpdateName::new(name)).collect::<Result<Vec<_>, _>>()`: the parsed names in order, or the first error
#[verifier::external_body] pub fn collect_update_names(names: Vec<ListedName>) -> (r: Result<Vec<ParsedName>, IoError>)
    ensures r is Ok == all_parse(names@), r matches Ok(v) ==> v@.len() == names@.len() && forall|k: int| 0 <= k < v@.len() ==> Some((#[trigger] v@[k]).id) == names@[k].id@ { unimplemented!() }
// R6: `R.into_iter().flatten()` on a Result<Vec<_>, _> (std: Result::into_iter yields the Ok value once or nothing): the elements of the Ok value, none for an Err
#[verifier::external_body] pub fn result_into_iter_flatten(r: Result<Vec<ListedName>, IoError>) -> (v: Vec<ListedName>)
    ensures r matches Ok(l) ==> v@ == l@, r is Err ==> v@.len() == 0 { unimplemented!() }
pub struct Persister { pub broadcaster: Broadcaster, pub fee_estimator: FeeEstimator, pub logger: Logger }
impl Persister {
//@extract lightning/src/util/persist.rs :: impl MonitorUpdatingPersisterAsyncInner :: fn maybe_read_channel_monitor_with_updates
//@slice R15
    let updates: Result<Vec<_>, _> = $e:seq; let mut updates = updates?;
//@with
    fn updates_named_by_the_listing(list_res: Result<Vec<ListedName>, IoError>) -> Result<Vec<ParsedName>, IoError> {
        let updates: Result<Vec<ParsedName>, IoError> = $e; let updates = updates?; Ok(updates) }
//@rw R6 ?
    $x:ident.into_iter().flatten()
//@with
    result_into_iter_flatten($x).into_iter()
//@rw R6
    = $src:seq.into_iter().map(|name| UpdateName::new(name)).collect()
//@with
    = collect_update_names($src)
//@ret r
//@ensures P C19 recovery-looks-at-every-update-the-store-lists-and-fails-when-the-listing-fails-or-a-name-is-not-an-update-name
    list_res is Err ==> r is Err,
    list_res matches Ok(l) ==> (r is Ok) == all_parse(l@) && (r matches Ok(v) ==> v@.len() == l@.len() && forall|k: int| 0 <= k < v@.len() ==> Some((#[trigger] v@[k]).id) == l@[k].id@),
//@mutant failed_listing_read_as_no_updates
    list_res?.into_iter()
//@with
    list_res.into_iter().flatten()
//@end
//@extract lightning/src/util/persist.rs :: impl MonitorUpdatingPersisterAsyncInner :: fn maybe_read_channel_monitor_with_updates
//@slice R15
    for (update_name, update_res) in MultiResultFuturePoller::new(update_futures).await { $body:any } Ok(Some((best_block, monitor)))
//@with
    fn replay_one_stored_update(&self, monitor: &mut Monitor, monitor_key: &str, update_name: &UpdateName, update_res: Result<Update, IoError>) -> Result<bool, IoError> { $body Ok(true) }
//@rw R8 ?
    break;
//@with
    return Ok(false);    // (leaving the loop: no further stored update is looked at)
//@rw R9
    .map_err(|e| { io::Error::new(io::ErrorKind::Other, "Monitor update failed") })
//@with
    .map_err(|e: ()| -> (o: IoError) { IoError::new(ErrorKind::Other, "Monitor update failed") })
//@ret r
//@requires
    old(monitor).latest_update_id < u64::MAX,
//@ensures P C19 recovery-applies-a-stored-update-only-as-the-next-one-stops-at-the-first-gap-without-failing-and-fails-as-a-whole-when-an-update-cannot-be-read-or-does-not-apply
    update_res is Err ==> r is Err && final(monitor).applied@ == old(monitor).applied@,
    update_res matches Ok(u) ==> (if u.update_id == u64::MAX || u.update_id as int == old(monitor).latest_update_id + 1 {
            final(monitor).applied@ == old(monitor).applied@.push(u) && (r is Ok) == applies_cleanly(*old(monitor), u) && (r is Ok ==> r->Ok_0)
        } else { r == Ok::<bool, IoError>(false) && final(monitor).applied@ == old(monitor).applied@ }),
//@mutant update_that_does_not_apply_is_skipped
    io::Error::new(io::ErrorKind::Other, "Monitor update failed") })?;
//@with
    io::Error::new(io::ErrorKind::Other, "Monitor update failed") }).ok();
//@mutant update_after_a_gap_handed_to_the_monitor
    && update.update_id != monitor.get_latest_update_id() + 1
//@with
    && update.update_id < monitor.get_latest_update_id() + 1
//@mutant unreadable_update_is_skipped
    let update = update_res?;
//@with
    let update = match update_res { Ok(u) => u, Err(_) => return Ok(true) };
//@end
}
}
// ---- the updating persister's archiving: the live monitor goes only once the monitor as recovery would rebuild it (stored monitor + its stored updates) is in the archive ----
pub mod async_archive {
use vstd::prelude::*;
pub struct Error {}
//@extract lightning/src/util/persist.rs :: const CHANNEL_MONITOR_PERSISTENCE_PRIMARY_NAMESPACE
//@rw R1
    : &str
//@with
    : &'static str
//@end
//@extract lightning/src/util/persist.rs :: const CHANNEL_MONITOR_PERSISTENCE_SECONDARY_NAMESPACE
//@rw R1
    : &str
//@with
    : &'static str
//@end
//@extract lightning/src/util/persist.rs :: const ARCHIVED_CHANNEL_MONITOR_PERSISTENCE_PRIMARY_NAMESPACE
//@rw R1
    : &str
//@with
    : &'static str
//@end
//@extract lightning/src/util/persist.rs :: const ARCHIVED_CHANNEL_MONITOR_PERSISTENCE_SECONDARY_NAMESPACE
//@rw R1
    : &str
//@with
    : &'static str
//@end
pub uninterp spec fn write_ok(primary: Seq<char>, secondary: Seq<char>, key: Seq<char>, value: Seq<u8>) -> bool;
// what recovery rebuilds for a key from the stored monitor and its stored updates (read_channel_monitor_with_updates), serialized
pub uninterp spec fn recovered_bytes(key: Seq<char>) -> Seq<u8>;
pub open spec fn archived(key: Seq<char>, value: Seq<u8>) -> bool { write_ok(ARCHIVED_CHANNEL_MONITOR_PERSISTENCE_PRIMARY_NAMESPACE@, ARCHIVED_CHANNEL_MONITOR_PERSISTENCE_SECONDARY_NAMESPACE@, key, value) }
pub struct BlockLocator {}
pub struct ChannelMonitor { pub bytes: Ghost<Seq<u8>> }
impl ChannelMonitor { #[verifier::external_body] pub fn encode(&self) -> (r: Vec<u8>) ensures r@ == self.bytes@ { unimplemented!() } }
pub struct Store {}
impl Store {
    #[verifier::external_body] pub async fn write(&self, primary: &str, secondary: &str, key: &str, value: Vec<u8>) -> (r: Result<(), Error>)
        ensures (r is Ok) == write_ok(primary@, secondary@, key@, value@) { unimplemented!() }
    // (P) the obligation the caller must discharge: the live monitor may only be deleted once what recovery would rebuild from it is in the archive
    #[verifier::external_body] pub async fn remove(&self, primary: &str, secondary: &str, key: &str, lazy: bool) -> (r: Result<(), Error>)
        requires primary@ == CHANNEL_MONITOR_PERSISTENCE_PRIMARY_NAMESPACE@ ==> archived(key@, recovered_bytes(key@)) { unimplemented!() }
}
pub struct MonitorName {}
impl MonitorName {
    pub uninterp spec fn key(&self) -> Seq<char>;
    #[verifier::external_body] pub fn to_key(&self) -> (r: String) ensures r@ == self.key() { unimplemented!() }
}
pub struct Inner { pub kv_store: Store }
impl Inner {
    #[verifier::external_body] pub async fn read_channel_monitor_with_updates(&self, monitor_key: &str) -> (r: Result<(BlockLocator, ChannelMonitor), Error>)
        ensures r is Ok ==> r->Ok_0.1.bytes@ == recovered_bytes(monitor_key@) { unimplemented!() }
//@extract lightning/src/util/persist.rs :: impl MonitorUpdatingPersisterAsyncInner :: fn archive_persisted_channel
//@mutant live_monitor_removed_even_if_archiving_failed
    Err(_e) => return,
//@with
    Err(_e) => {},
//@mutant archive_written_under_the_live_namespace
    let primary = ARCHIVED_CHANNEL_MONITOR_PERSISTENCE_PRIMARY_NAMESPACE; let secondary = ARCHIVED_CHANNEL_MONITOR_PERSISTENCE_SECONDARY_NAMESPACE;
//@with
    let primary = CHANNEL_MONITOR_PERSISTENCE_PRIMARY_NAMESPACE; let secondary = ARCHIVED_CHANNEL_MONITOR_PERSISTENCE_SECONDARY_NAMESPACE;
//@end
}
}
// ---- the blanket Persist impl for KVStoreSync: what "Completed" means, and archiving -------------------------
pub mod sync_persist {
use vstd::prelude::*;
pub struct Error {}
//@extract lightning/src/util/persist.rs :: const CHANNEL_MONITOR_PERSISTENCE_PRIMARY_NAMESPACE
//@rw R1
    : &str
//@with
    : &'static str
//@end
//@extract lightning/src/util/persist.rs :: const CHANNEL_MONITOR_PERSISTENCE_SECONDARY_NAMESPACE
//@rw R1
    : &str
//@with
    : &'static str
//@end
//@extract lightning/src/util/persist.rs :: const ARCHIVED_CHANNEL_MONITOR_PERSISTENCE_PRIMARY_NAMESPACE
//@rw R1
    : &str
//@with
    : &'static str
//@end
//@extract lightning/src/util/persist.rs :: const ARCHIVED_CHANNEL_MONITOR_PERSISTENCE_SECONDARY_NAMESPACE
//@rw R1
    : &str
//@with
    : &'static str
//@end
//@extract lightning/src/chain/mod.rs :: enum ChannelMonitorUpdateStatus
//@strip chain
//@end
// facts about the store learned from the results of its operations (timeless: nobody else deletes from the archive, and the live
// value of a key does not change during archive_persisted_channel)
pub uninterp spec fn write_ok(primary: Seq<char>, secondary: Seq<char>, key: Seq<char>, value: Seq<u8>) -> bool;
pub uninterp spec fn live_value(key: Seq<char>) -> Seq<u8>;
pub open spec fn archived(key: Seq<char>, value: Seq<u8>) -> bool { write_ok(ARCHIVED_CHANNEL_MONITOR_PERSISTENCE_PRIMARY_NAMESPACE@, ARCHIVED_CHANNEL_MONITOR_PERSISTENCE_SECONDARY_NAMESPACE@, key, value) }
pub struct Store {}
impl Store {
    #[verifier::external_body] pub fn write(&self, primary: &str, secondary: &str, key: &str, value: Vec<u8>) -> (r: Result<(), Error>)
        ensures (r is Ok) == write_ok(primary@, secondary@, key@, value@) { unimplemented!() }
    #[verifier::external_body] pub fn read(&self, primary: &str, secondary: &str, key: &str) -> (r: Result<Vec<u8>, Error>)
        ensures r is Ok && primary@ == CHANNEL_MONITOR_PERSISTENCE_PRIMARY_NAMESPACE@ ==> r->Ok_0@ == live_value(key@) { unimplemented!() }
    // (P) the obligation the caller must discharge: the live copy of a monitor may only be deleted once the very same bytes are in the archive
    #[verifier::external_body] pub fn remove(&self, primary: &str, secondary: &str, key: &str, lazy: bool) -> (r: Result<(), Error>)
        requires primary@ == CHANNEL_MONITOR_PERSISTENCE_PRIMARY_NAMESPACE@ ==> archived(key@, live_value(key@)) { unimplemented!() }
}
pub struct MonitorName {}
impl MonitorName {
    pub uninterp spec fn key(&self) -> Seq<char>;
    #[verifier::external_body] pub fn to_key(&self) -> (r: String) ensures r@ == self.key() { unimplemented!() }
}
pub struct ChannelMonitor {}
impl ChannelMonitor {
    pub uninterp spec fn bytes(&self) -> Seq<u8>;
    #[verifier::external_body] pub fn encode(&self) -> (r: Vec<u8>) ensures r@ == self.bytes() { unimplemented!() }
}
pub struct ChannelMonitorUpdate {}
pub struct MonKey { pub id: u64 }
impl vstd::std_specs::cmp::PartialEqSpecImpl for MonKey { open spec fn obeys_eq_spec() -> bool { true } open spec fn eq_spec(&self, other: &MonKey) -> bool { self.id == other.id } }
impl PartialEq for MonKey { fn eq(&self, o: &MonKey) -> (r: bool) { self.id == o.id } }
pub struct LoadedMonitor { pub key: MonKey }
impl LoadedMonitor { #[verifier::external_body] pub fn persistence_key(&self) -> (r: MonKey) ensures r.id == self.key.id { unimplemented!() } }
//@extract lightning/src/util/persist.rs :: fn read_channel_monitors
//@slice R15
    let monitor_name = MonitorName::from_str(&stored_key)?; if $c:cond { return Err($e:any); }
//@with
    fn monitor_is_refused_for_its_key(channel_monitor: &LoadedMonitor, monitor_name: MonKey) -> bool { $c }
//@ret r
//@ensures P C19 a-monitor-read-from-the-store-is-accepted-only-under-the-key-it-would-itself-be-persisted-under
    r == (channel_monitor.key.id != monitor_name.id),
//@end
impl Store {
//@extract lightning/src/util/persist.rs :: impl Sized Persist for K :: fn persist_new_channel
//@strip chain
//@rw R5
    monitor: &ChannelMonitor<ChannelSigner>,
//@with
    monitor: &ChannelMonitor,
//@ret r
//@ensures P C19 a-new-monitor-is-reported-persisted-exactly-when-the-store-accepted-the-full-monitor-under-its-own-key
    (r is Completed) == write_ok(CHANNEL_MONITOR_PERSISTENCE_PRIMARY_NAMESPACE@, CHANNEL_MONITOR_PERSISTENCE_SECONDARY_NAMESPACE@, monitor_name.key(), monitor.bytes()),
    !(r is InProgress),
//@end
//@extract lightning/src/util/persist.rs :: impl Sized Persist for K :: fn update_persisted_channel
//@strip chain
//@rw R5
    monitor: &ChannelMonitor<ChannelSigner>,
//@with
    monitor: &ChannelMonitor,
//@ret r
//@ensures P C19 an-update-is-reported-persisted-exactly-when-the-store-accepted-the-full-updated-monitor-under-its-own-key
    (r is Completed) == write_ok(CHANNEL_MONITOR_PERSISTENCE_PRIMARY_NAMESPACE@, CHANNEL_MONITOR_PERSISTENCE_SECONDARY_NAMESPACE@, monitor_name.key(), monitor.bytes()),
    !(r is InProgress),
//@mutant failed_write_reported_as_completed
    Err(_) => chain::ChannelMonitorUpdateStatus::UnrecoverableError,
//@with
    Err(_) => chain::ChannelMonitorUpdateStatus::Completed,
//@end
//@extract lightning/src/util/persist.rs :: impl Sized Persist for K :: fn archive_persisted_channel
//@mutant live_copy_removed_even_if_archiving_failed
    Err(_e) => return,
//@with
    Err(_e) => {},
//@end
}
}
}
fn main() {}
