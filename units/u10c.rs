//! unit: u10c
//! properties: C10
//! note: FundedChannel::is_awaiting_initial_mon_persist, the question start-up asks about a channel of the stored manager for which no ChannelMonitor was handed in (may it be discarded because its first monitor never reached the disk?): the branch for a channel on which only the first commitment was exchanged, whose three production assertions are obligations here. Reading the manager must succeed for every state the manager can have been written in (C10 "deserialization succeeds"); an assertion that can fail stops the node while it reads its state (finding F10: an inbound channel whose first persistence was still in progress when the peer sent `shutdown` gets here without a held channel_ready and with update id 1)
//! trusted: R15 (deep slice): the body of the second `if` of the function verbatim as a function of the channel skeleton; the condition in front of it (commitment numbers of both sides at their first value, a monitor update in progress, the first test of the function not taken) is all that is known on entry
//! assume: a channel we funded keeps its funding transaction until it is confirmed (the first of the three assertions; not examined)
//! trusted: assume_specification for core::cmp::max / core::cmp::min (std definitions): present in every unit so that a change that introduces them is verified instead of being rejected by the tool
use vstd::prelude::*;
verus! {
use vstd::std_specs::cmp::*;
use core::cmp;
pub assume_specification<T: core::cmp::Ord>[core::cmp::max::<T>](a: T, b: T) -> (r: T)
    ensures T::obeys_cmp_spec() ==> r == (if b.cmp_spec(&a) == core::cmp::Ordering::Less { a } else { b });
pub assume_specification<T: core::cmp::Ord>[core::cmp::min::<T>](a: T, b: T) -> (r: T)
    ensures T::obeys_cmp_spec() ==> r == (if b.cmp_spec(&a) == core::cmp::Ordering::Less { b } else { a });
pub struct Transaction {}
pub struct Funding { pub outbound: bool, pub funding_transaction: Option<Transaction> }
impl Funding { #[verifier::external_body] pub fn is_outbound(&self) -> (r: bool) ensures r == self.outbound { unimplemented!() } }
pub struct ChannelContext { pub monitor_pending_channel_ready: bool, pub latest_monitor_update_id: u64 }
pub struct FundedChannel { pub context: ChannelContext, pub funding: Funding }
impl FundedChannel {
//@extract lightning/src/ln/channel.rs :: impl FundedChannel :: fn is_awaiting_initial_mon_persist
//@slice R15
    self.context.counterparty_next_commitment_transaction_number == INITIAL_COMMITMENT_NUMBER - 1 { $body:any } false }
//@with
    fn only_the_first_commitment_was_exchanged_and_an_update_is_in_progress(&self) -> bool { $body }
//@ret r
//@requires
    self.funding.outbound ==> self.funding.funding_transaction is Some,
//@ensures P C10 asking-whether-a-channel-without-a-monitor-still-awaits-its-first-persistence-never-stops-the-node-reading-its-state
    r,
//@end
}
}
fn main() {}
