//! unit: u08c
//! properties: C08 C02 C07
//! note: the macro fail_unbroadcast_htlcs! of channelmonitor.rs (run when a commitment transaction confirms): an outbound HTLC known from an unrevoked counterparty commitment is failed back upstream exactly when the confirmed transaction has no non-dust output for it - matched by its source, or for HTLCs recorded without a source by payment hash and amount - and the failure is an HTLCUpdate event for THIS HTLC (its source, hash and amount in sat, no output index) dated at the confirming block, so that it matures only ANTI_REORG_DELAY later
//! trusted: R15 (deep slices of a macro_rules item; R18: metavariables `$x` become identifiers `m_x` bound as parameters): (a) the test inside the loop over the confirmed commitment's HTLCs that sets matched_htlc, (b) the OnchainEventEntry that is pushed, each verbatim as a function; the surrounding loops, the skip for HTLCs the counterparty already fulfilled and the retain that removes an earlier entry of the same source are outside
//! trusted: R16: the loop variables are bound `ref` from a tuple (`for (ref broadcast_htlc, ref broadcast_source) in ..`): they are references to the tuple's members (one more `&` than the iterator's items), which the parameters reproduce; `Some(&**source) == *broadcast_source` compares sources by value (HTLCSource: PartialEq stub with the derived meaning)
//! trusted: assume_specification for core::cmp::max / core::cmp::min (std definitions): present in every unit so that a change that introduces them is verified instead of being rejected by the tool
use vstd::prelude::*;
verus! {
use vstd::std_specs::cmp::*;
use core::cmp;
pub assume_specification<T: core::cmp::Ord>[core::cmp::max::<T>](a: T, b: T) -> (r: T)
    ensures T::obeys_cmp_spec() ==> r == (if b.cmp_spec(&a) == core::cmp::Ordering::Less { a } else { b });
pub assume_specification<T: core::cmp::Ord>[core::cmp::min::<T>](a: T, b: T) -> (r: T)
    ensures T::obeys_cmp_spec() ==> r == (if b.cmp_spec(&a) == core::cmp::Ordering::Less { b } else { a });
#[derive(Copy)] pub struct Txid(pub u64);
impl Clone for Txid { #[verifier::external_body] fn clone(&self) -> (r: Self) ensures r == *self { unimplemented!() } }
#[derive(Copy)] pub struct BlockHash(pub u64);
impl Clone for BlockHash { #[verifier::external_body] fn clone(&self) -> (r: Self) ensures r == *self { unimplemented!() } }
#[derive(Copy)] pub struct PaymentHash(pub u64);
impl Clone for PaymentHash { #[verifier::external_body] fn clone(&self) -> (r: Self) ensures r == *self { unimplemented!() } }
impl vstd::std_specs::cmp::PartialEqSpecImpl for PaymentHash { open spec fn obeys_eq_spec() -> bool { true } open spec fn eq_spec(&self, other: &PaymentHash) -> bool { self.0 == other.0 } }
impl PartialEq for PaymentHash { #[verifier::external_body] fn eq(&self, o: &PaymentHash) -> (r: bool) { self.0 == o.0 } }
#[derive(Copy)] pub struct HTLCSource { pub id: u64 }
impl Clone for HTLCSource { #[verifier::external_body] fn clone(&self) -> (r: Self) ensures r == *self { unimplemented!() } }
pub struct Transaction { pub id: u64 }
impl Clone for Transaction { #[verifier::external_body] fn clone(&self) -> (r: Self) ensures r == *self { unimplemented!() } }
pub struct HTLCOutputInCommitment { pub offered: bool, pub amount_msat: u64, pub cltv_expiry: u32, pub payment_hash: PaymentHash, pub transaction_output_index: Option<u32> }
// `Some(&**source) == *broadcast_source`
#[verifier::external_body] pub fn same_source(a: Option<&HTLCSource>, b: Option<&HTLCSource>) -> (r: bool)
    ensures r == (match (a, b) { (Some(x), Some(y)) => x.id == y.id, (None, None) => true, _ => false }) { unimplemented!() }
pub enum OnchainEvent { HTLCUpdate { source: HTLCSource, payment_hash: PaymentHash, htlc_value_satoshis: u64, commitment_tx_output_idx: Option<u32> }, Other }
pub struct OnchainEventEntry { pub txid: Txid, pub height: u32, pub block_hash: Option<BlockHash>, pub event: OnchainEvent, pub transaction: Option<Transaction> }
//@extract lightning/src/chain/channelmonitor.rs :: macro_rules fail_unbroadcast_htlcs
//@metavars
//@slice R15
    for (ref broadcast_htlc, ref broadcast_source) in confirmed_htlcs_iter { if $c:cond { matched_htlc = true; break; } }
//@with
    fn confirmed_commitment_has_an_output_for_this_htlc(broadcast_htlc: &&HTLCOutputInCommitment, broadcast_source: &Option<&HTLCSource>, htlc: &HTLCOutputInCommitment, source: &Box<HTLCSource>) -> bool { $c }
//@rw R8
    Some(&**source) == *broadcast_source
//@with
    same_source(Some(&**source), *broadcast_source)
//@ret r
//@ensures P C08,C02,C07 an-outbound-htlc-counts-as-present-in-the-confirmed-commitment-only-if-that-commitment-has-a-non-dust-output-for-it-matched-by-source-or-for-sourceless-records-by-hash-and-amount
    r == (broadcast_htlc.transaction_output_index is Some
          && ((*broadcast_source matches Some(s) && s.id == source.id)
              || (*broadcast_source is None && broadcast_htlc.payment_hash.0 == htlc.payment_hash.0 && broadcast_htlc.amount_msat == htlc.amount_msat))),
//@mutant dust_htlc_of_the_confirmed_commitment_counts_as_present
    if broadcast_htlc.transaction_output_index.is_some() && (
//@with
    if true && (
//@mutant sourceless_record_matched_by_hash_alone
    broadcast_htlc.payment_hash == htlc.payment_hash && broadcast_htlc.amount_msat == htlc.amount_msat
//@with
    broadcast_htlc.payment_hash == htlc.payment_hash
//@end
//@extract lightning/src/chain/channelmonitor.rs :: macro_rules fail_unbroadcast_htlcs
//@metavars
//@slice R15
    let entry = $e:seq; m_self.onchain_events_awaiting_threshold_conf.push(entry);
//@with
    fn failure_recorded_for_an_htlc_missing_from_the_confirmed_commitment(htlc: &HTLCOutputInCommitment, source: &Box<HTLCSource>, m_commitment_txid_confirmed: Txid, m_commitment_tx_confirmed: &Transaction,
        m_commitment_tx_conf_height: u32, m_commitment_tx_conf_hash: &BlockHash) -> OnchainEventEntry { let entry = $e; entry }
//@ret r
//@ensures P C08,C02,C07 the-failure-recorded-for-a-missing-htlc-names-that-htlc-and-is-dated-at-the-block-that-confirmed-the-commitment
    r.txid == m_commitment_txid_confirmed, r.height == m_commitment_tx_conf_height, r.block_hash == Some(*m_commitment_tx_conf_hash), r.transaction == Some(*m_commitment_tx_confirmed),
    r.event == (OnchainEvent::HTLCUpdate { source: **source, payment_hash: htlc.payment_hash, htlc_value_satoshis: htlc.amount_msat / 1000, commitment_tx_output_idx: None }),
//@mutant failure_dated_one_block_before_the_confirmation
    height: m_commitment_tx_conf_height,
//@with
    height: m_commitment_tx_conf_height - 1,
//@end
}
fn main() {}
