//! unit: u07d
//! properties: C07 C06 C11
//! note: what the monitor reports as claimable for one HTLC output of a confirmed commitment (channelmonitor.rs get_htlc_balance, the decision after the pending on-chain events were scanned): every HTLC that is not yet resolved on chain is reported, with its own amount; our outbound HTLC as something we can take back at its expiry (or as awaiting confirmations once our timeout spend is in a block); an inbound HTLC whose preimage we know as ours to claim before its expiry (awaiting confirmations only once a spend that used the preimage is in a block); an inbound HTLC without preimage as the counterparty's unless it times out
//! trusted: R15 (deep slice): get_htlc_balance from `if let Some(conf_thresh) = holder_delayed_output_pending` to the end, verbatim as a function of the values the scan above it produced; the scan of revoked-output claims (`htlc_output_claim_pending`, an iterator chain over pending events) is replaced by a parameter; R11: `panic!("Outbound HTLCs should have a source")` is unreachable!() (obligation: an HTLC we offered has a source); R16: `Some(&HTLCSource::X)` written `Some(HTLCSource::X)`
//! assume: the relations LDK's debug_assert!s state between the results of the scan (a delayed output of ours only on our own commitment; an HTLC resolved with no spend pending only on our commitment or after the funding spend is final; no timeout event and no preimage spend of an offered HTLC on a revoked commitment; a timeout event only for an HTLC we can time out) hold: they are kept as obligations and discharged from these preconditions
//! trusted: R15 (deep slice): get_claimable_balances: the body of the loop over the HTLCs of our current commitment while no funding spend is confirmed, verbatim as a function of one HTLC and the five running totals (the macro holder_commitment_htlcs! that yields the HTLCs is dropped); R11 for its panic!
//! assume: the running totals plus one HTLC amount fit u64 (amounts are bounded by the channel value; the source adds unchecked)
//! trusted: R15 (deep slice + captures): get_claimable_balances after the close: the test that tells an unrevoked counterparty commitment from a revoked one and the two flags each of the four `walk_htlcs!` invocations passes on (R8: `Some(x) == opt` on txids is opt_txid_eq)
//! trusted: R15 (captures): get_claimable_balances after the close: the amount of the three ClaimableAwaitingConfirmations balances for our own funds (our current commitment, our previous one, cooperative close)
//! trusted: R15 (deep slices): get_htlc_balance: the guards of the HTLCUpdate and HTLCSpendConfirmation arms of the scan and the pair the latter records, verbatim
//! trusted: R15 (deep slice): get_htlc_balance: the predicate of the `.any(..)` in the guard of the MaturingOutput arm of the scan, verbatim as a function of one input of the maturing transaction (Txid/TxIn/descriptor skeletons)
//! trusted: env: enum Balance, BalanceSource, HolderCommitmentTransactionBalance extracted; HTLCOutputInCommitment skeleton {offered, amount_msat, cltv_expiry, payment_hash}; HTLCSource skeleton with the three variants; payment_preimages is a stub map whose get() answers from a ghost map
//! trusted: assume_specification for core::cmp::max / core::cmp::min (std definitions): present in every unit so that a change that introduces them is verified instead of being rejected by the tool
use vstd::prelude::*;
verus! {
use vstd::std_specs::cmp::*;
use core::cmp;
pub assume_specification<T: core::cmp::Ord>[core::cmp::max::<T>](a: T, b: T) -> (r: T)
    ensures T::obeys_cmp_spec() ==> r == (if b.cmp_spec(&a) == core::cmp::Ordering::Less { a } else { b });
pub assume_specification<T: core::cmp::Ord>[core::cmp::min::<T>](a: T, b: T) -> (r: T)
    ensures T::obeys_cmp_spec() ==> r == (if b.cmp_spec(&a) == core::cmp::Ordering::Less { b } else { a });
#[derive(Clone, Copy)] pub struct PaymentHash(pub [u8; 32]);
#[derive(Clone, Copy)] pub struct PaymentPreimage(pub [u8; 32]);
//@extract lightning/src/chain/channelmonitor.rs :: enum BalanceSource
//@end
//@extract lightning/src/chain/channelmonitor.rs :: struct HolderCommitmentTransactionBalance
//@end
//@extract lightning/src/chain/channelmonitor.rs :: enum Balance
//@end
pub struct HTLCOutputInCommitment { pub offered: bool, pub amount_msat: u64, pub cltv_expiry: u32, pub payment_hash: PaymentHash, pub transaction_output_index: Option<u32> }
pub struct PrevHop { pub id: u64 }
pub enum HTLCSource { PreviousHopData(PrevHop), TrampolineForward { id: u64 }, OutboundRoute { id: u64 } }
pub struct PaidBy { pub id: u64 }
pub struct PreimageMap { pub m: Ghost<Map<PaymentHash, (PaymentPreimage, Vec<PaidBy>)>> }
impl PreimageMap {
    #[verifier::external_body] pub fn get(&self, k: &PaymentHash) -> (r: Option<&(PaymentPreimage, Vec<PaidBy>)>)
        ensures r is Some <==> self.m@.contains_key(*k), r is Some ==> *r->Some_0 == self.m@[*k] { unimplemented!() }
    #[verifier::external_body] pub fn contains_key(&self, k: &PaymentHash) -> (r: bool) ensures r == self.m@.contains_key(*k) { unimplemented!() }
}
pub struct Txid { pub id: u64 }
pub struct Monitor { pub payment_preimages: PreimageMap, pub funding_spend_confirmed: Option<Txid> }
pub open spec fn sat(htlc: &HTLCOutputInCommitment) -> u64 { htlc.amount_msat / 1000 }
impl Monitor {
//@extract lightning/src/chain/channelmonitor.rs :: impl ChannelMonitorImpl :: fn get_htlc_balance
//@slice R15
    if let Some(conf_thresh) = holder_delayed_output_pending { $a:any } else if htlc_resolved && !htlc_output_spend_pending { $b:any } else if counterparty_revoked_commitment { let htlc_output_claim_pending = $scan:seq; $c:any } $rest:any None }
//@with
    fn htlc_balance_decision(&self, htlc: &HTLCOutputInCommitment, source: Option<&HTLCSource>, holder_commitment: bool, counterparty_revoked_commitment: bool,
        holder_delayed_output_pending: Option<u32>, holder_timeout_spend_pending: Option<u32>, htlc_spend_pending: Option<(u32, bool)>, htlc_resolved: bool, htlc_output_spend_pending: bool, htlc_output_claim_pending: bool) -> Option<Balance>
    { if let Some(conf_thresh) = holder_delayed_output_pending { $a } else if htlc_resolved && !htlc_output_spend_pending { $b } else if counterparty_revoked_commitment { $c } $rest None }
//@rw R16 *
    Some(&HTLCSource::
//@with
    Some(HTLCSource::
//@ret r
//@requires
    htlc.offered == holder_commitment ==> source is Some,
    // LDK's own debug assertions on what the scan of pending events can have found (assumed, see header)
    holder_delayed_output_pending is Some ==> holder_commitment,
    (htlc_resolved && !htlc_output_spend_pending) ==> (holder_commitment || self.funding_spend_confirmed is Some),
    counterparty_revoked_commitment ==> holder_timeout_spend_pending is None && (!htlc.offered || htlc_spend_pending is None || !htlc_spend_pending->Some_0.1),
    htlc.offered != holder_commitment ==> holder_timeout_spend_pending is None,
//@ensures P C07 every-htlc-not-yet-resolved-on-chain-is-reported-as-a-balance-with-its-own-amount-and-in-the-category-its-direction-and-our-knowledge-of-the-preimage-give
    // nothing that is still open is left out (a revoked commitment's outputs are reported through the justice claims instead)
    (!htlc_resolved && !(counterparty_revoked_commitment && htlc_output_claim_pending)) ==> r is Some,
    // whatever is reported carries this HTLC's amount
    r matches Some(Balance::ClaimableAwaitingConfirmations { amount_satoshis, .. }) ==> amount_satoshis == sat(htlc),
    r matches Some(Balance::ContentiousClaimable { amount_satoshis, timeout_height, payment_hash, payment_preimage }) ==> amount_satoshis == sat(htlc) && timeout_height == htlc.cltv_expiry && payment_hash == htlc.payment_hash
        && self.payment_preimages.m@.contains_key(htlc.payment_hash) && payment_preimage == self.payment_preimages.m@[htlc.payment_hash].0,
    r matches Some(Balance::MaybeTimeoutClaimableHTLC { amount_satoshis, claimable_height, payment_hash, outbound_payment }) ==> amount_satoshis == sat(htlc) && claimable_height == htlc.cltv_expiry && payment_hash == htlc.payment_hash
        && htlc.offered == holder_commitment && outbound_payment == (source matches Some(HTLCSource::OutboundRoute { .. })),
    r matches Some(Balance::MaybePreimageClaimableHTLC { amount_satoshis, expiry_height, payment_hash }) ==> amount_satoshis == sat(htlc) && expiry_height == htlc.cltv_expiry && payment_hash == htlc.payment_hash
        && htlc.offered != holder_commitment && !self.payment_preimages.m@.contains_key(htlc.payment_hash),
    r matches Some(Balance::CounterpartyRevokedOutputClaimable { amount_satoshis }) ==> amount_satoshis == sat(htlc) && counterparty_revoked_commitment,
    !(r matches Some(Balance::ClaimableOnChannelClose { .. })),
    // on a commitment that is not revoked: by direction and preimage
    (holder_delayed_output_pending is None && !(htlc_resolved && !htlc_output_spend_pending) && !counterparty_revoked_commitment) ==> (
        if htlc.offered == holder_commitment {
            match holder_timeout_spend_pending {
                Some(t) => r == Some(Balance::ClaimableAwaitingConfirmations { amount_satoshis: sat(htlc), confirmation_height: t, source: BalanceSource::Htlc }),
                None => r matches Some(Balance::MaybeTimeoutClaimableHTLC { .. }),
            }
        } else if self.payment_preimages.m@.contains_key(htlc.payment_hash) {
            match htlc_spend_pending {
                Some((t, true)) => r == Some(Balance::ClaimableAwaitingConfirmations { amount_satoshis: sat(htlc), confirmation_height: t, source: BalanceSource::Htlc }),
                _ => r matches Some(Balance::ContentiousClaimable { .. }),
            }
        } else {
            (!htlc_resolved ==> r matches Some(Balance::MaybePreimageClaimableHTLC { .. })) && (htlc_resolved ==> r is None)
        }),
//@mutant direction_test_inverted
    } else if htlc.offered == holder_commitment {
//@with
    } else if htlc.offered != holder_commitment {
//@mutant unresolved_inbound_htlc_without_preimage_left_out
    } else if !htlc_resolved {
//@with
    } else if htlc_resolved {
//@mutant claim_without_preimage_counted_as_ours
    if let Some((conf_thresh, true)) = htlc_spend_pending {
//@with
    if let Some((conf_thresh, _)) = htlc_spend_pending {
//@end
}
// ---- the scan of pending events: which maturing output of ours counts as the claim of THIS HTLC output ----
impl vstd::std_specs::cmp::PartialEqSpecImpl for Txid { open spec fn obeys_eq_spec() -> bool { true } open spec fn eq_spec(&self, other: &Txid) -> bool { *self == *other } }
impl PartialEq for Txid { #[verifier::external_body] fn eq(&self, o: &Txid) -> (r: bool) { unimplemented!() } }
impl Clone for Txid { #[verifier::external_body] fn clone(&self) -> (r: Txid) ensures r == *self { unimplemented!() } }
impl Copy for Txid {}
pub struct PrevOutPoint { pub txid: Txid, pub vout: u32 }
pub struct TxInput { pub previous_output: PrevOutPoint }
pub struct DescOutPoint { pub txid: Txid, pub index: u16 }
pub struct DelayedDescriptor { pub outpoint: DescOutPoint }
//@extract lightning/src/chain/channelmonitor.rs :: impl ChannelMonitorImpl :: fn get_htlc_balance
//@slice R15
    .any(|(input_idx, inp)| $p:seq )) .unwrap_or(false) => { debug_assert!(holder_delayed_output_pending.is_none());
//@with
    fn maturing_output_claims_this_htlc(input_idx: usize, inp: &TxInput, confirmed_txid: Option<Txid>, htlc_commitment_tx_output_idx: u32, descriptor: &DelayedDescriptor) -> bool { $p }
//@ret r
//@ensures P C07 a-maturing-delayed-output-of-ours-counts-as-this-htlcs-claim-only-if-its-transaction-spends-this-very-output-of-the-confirmed-commitment-at-the-input-matching-the-output
    r == (confirmed_txid == Some(inp.previous_output.txid) && inp.previous_output.vout == htlc_commitment_tx_output_idx && descriptor.outpoint.index as usize == input_idx),
//@mutant any_transaction_spending_an_output_with_that_index_counts
    Some(inp.previous_output.txid) == confirmed_txid && inp.previous_output.vout == htlc_commitment_tx_output_idx && descriptor
//@with
    confirmed_txid.is_some() && inp.previous_output.vout == htlc_commitment_tx_output_idx && descriptor
//@end
//@extract lightning/src/chain/channelmonitor.rs :: impl ChannelMonitorImpl :: fn get_htlc_balance
//@slice R15
    OnchainEvent::HTLCUpdate { commitment_tx_output_idx, htlc_value_satoshis, .. } if $g:cond => {
//@with
    fn timeout_event_is_for_this_htlc(commitment_tx_output_idx: Option<u32>, htlc_commitment_tx_output_idx: u32) -> bool { $g }
//@ret r
//@ensures P C07 a-pending-htlc-time-out-event-counts-for-an-htlc-only-if-it-names-that-htlcs-own-output
    r == (commitment_tx_output_idx == Some(htlc_commitment_tx_output_idx)),
//@end
//@extract lightning/src/chain/channelmonitor.rs :: impl ChannelMonitorImpl :: fn get_htlc_balance
//@slice R15
    OnchainEvent::HTLCSpendConfirmation { commitment_tx_output_idx, preimage, .. } if $g:cond => {
//@with
    fn spend_event_is_for_this_htlc(commitment_tx_output_idx: u32, htlc_commitment_tx_output_idx: u32) -> bool { $g }
//@ret r
//@ensures P C07 a-pending-htlc-spend-event-counts-for-an-htlc-only-if-it-names-that-htlcs-own-output
    r == (commitment_tx_output_idx == htlc_commitment_tx_output_idx),
//@end
pub struct PendingEvent { pub threshold: u32 }
impl PendingEvent { #[verifier::external_body] pub fn confirmation_threshold(&self) -> (r: u32) ensures r == self.threshold { unimplemented!() } }
//@extract lightning/src/chain/channelmonitor.rs :: impl ChannelMonitorImpl :: fn get_htlc_balance
//@slice R15
    htlc_spend_pending = Some(($t:seq, $p:seq));
//@with
    fn what_a_pending_spend_event_says(event: &PendingEvent, preimage: &Option<PaymentPreimage>) -> (u32, bool) { ($t, $p) }
//@ret r
//@ensures P C07 a-pending-htlc-spend-is-remembered-with-its-own-maturity-height-and-whether-it-revealed-a-preimage
    r.0 == event.threshold, r.1 == (*preimage is Some),
//@mutant spend_without_preimage_remembered_as_a_preimage_claim
    preimage.is_some()));
//@with
    preimage.is_none()));
//@end
// ---- get_claimable_balances after the close: which commitment confirmed decides how its HTLCs are walked ----
pub struct ClosedFunding { pub current_counterparty_commitment_txid: Option<Txid>, pub prev_counterparty_commitment_txid: Option<Txid> }
// R8: `Some(x) == opt` on txids
#[verifier::external_body] pub fn opt_txid_eq(a: Option<Txid>, b: Option<Txid>) -> (r: bool) ensures r == (a == b) { unimplemented!() }
//@extract lightning/src/chain/channelmonitor.rs :: impl ChannelMonitor :: fn get_claimable_balances
//@capture R15 nth=1
    walk_htlcs!($h1:tt, $r1:tt, counterparty_tx_htlcs.iter()
//@capture R15 nth=2
    walk_htlcs!($h2:tt, $r2:tt, counterparty_tx_htlcs.iter()
//@capture R15
    walk_htlcs!($h3:tt, $r3:tt, holder_commitment_htlcs!(us, CURRENT_WITH_SOURCES));
//@capture R15
    walk_htlcs!($h4:tt, $r4:tt, holder_commitment_htlcs!(us, PREV_WITH_SOURCES).unwrap());
//@slice R15
    if $c:cond { walk_htlcs!(false, false, counterparty_tx_htlcs.iter()
//@with
    fn how_the_confirmed_commitments_htlcs_are_walked(txid: Txid, funding_spent: &ClosedFunding) -> (bool, (bool, bool), (bool, bool), (bool, bool), (bool, bool)) { ($c, ($h1, $r1), ($h2, $r2), ($h3, $r3), ($h4, $r4)) }
//@rw * R8
    Some(txid) == funding_spent.$f:ident
//@with
    opt_txid_eq(Some(txid), funding_spent.$f)
//@ret r
//@ensures P C07,C06 the-htlcs-of-a-confirmed-counterparty-commitment-are-reported-as-revoked-outputs-exactly-when-it-is-neither-the-current-nor-the-previous-unrevoked-one-and-ours-are-walked-as-ours
    r.0 == (funding_spent.current_counterparty_commitment_txid == Some(txid) || funding_spent.prev_counterparty_commitment_txid == Some(txid)),
    // (holder_commitment, counterparty_revoked_commitment) handed to get_htlc_balance: unrevoked counterparty, revoked counterparty, our current, our previous
    r.1 == (false, false), r.2 == (false, true), r.3 == (true, false), r.4 == (true, false),
//@mutant previous_unrevoked_counterparty_commitment_walked_as_revoked
    if Some(txid) == funding_spent.current_counterparty_commitment_txid || Some(txid) == funding_spent.prev_counterparty_commitment_txid {
//@with
    if Some(txid) == funding_spent.current_counterparty_commitment_txid {
//@end
pub struct HolderCommitmentTx { pub to_broadcaster: u64 }
impl HolderCommitmentTx { #[verifier::external_body] pub fn to_broadcaster_value_sat(&self) -> (r: u64) ensures r == self.to_broadcaster { unimplemented!() } }
pub struct SpentFunding { pub current_holder_commitment_tx: HolderCommitmentTx }
//@extract lightning/src/chain/channelmonitor.rs :: impl ChannelMonitor :: fn get_claimable_balances
//@capture R15 nth=1
    res.push(Balance::ClaimableAwaitingConfirmations { amount_satoshis: $cur:seq, confirmation_height: conf_thresh, source: BalanceSource::HolderForceClosed, });
//@capture R15 nth=2
    res.push(Balance::ClaimableAwaitingConfirmations { amount_satoshis: $prev:seq, confirmation_height: conf_thresh, source: BalanceSource::HolderForceClosed, });
//@slice R15
    res.push(Balance::ClaimableAwaitingConfirmations { amount_satoshis: $coop:seq, confirmation_height: conf_thresh, source: BalanceSource::CoopClose, });
//@with
    fn own_balance_awaiting_confirmations(funding_spent: &SpentFunding, prev_holder_commitment_tx: &HolderCommitmentTx) -> (u64, u64, u64) { ($cur, $prev, $coop) }
//@ret r
//@ensures P C07 after-a-close-the-balance-awaiting-confirmations-is-what-the-commitment-that-confirmed-pays-us-our-current-one-our-previous-one-or-on-a-cooperative-close-our-current-balance
    r.0 == funding_spent.current_holder_commitment_tx.to_broadcaster, r.1 == prev_holder_commitment_tx.to_broadcaster, r.2 == funding_spent.current_holder_commitment_tx.to_broadcaster,
//@end
// ---- get_claimable_balances while the channel is open: every HTLC of our current commitment is accounted for exactly once ----
pub open spec fn rounded(htlc: &HTLCOutputInCommitment) -> u64 { if htlc.transaction_output_index is None { htlc.amount_msat } else { (htlc.amount_msat % 1000) as u64 } }
pub struct Tally { pub claimable_inbound_htlc_value_sat: u64, pub outbound_payment_htlc_rounded_msat: u64, pub outbound_forwarded_htlc_rounded_msat: u64, pub inbound_claiming_htlc_rounded_msat: u64, pub inbound_htlc_rounded_msat: u64 }
//@extract lightning/src/chain/channelmonitor.rs :: impl ChannelMonitor :: fn get_claimable_balances
//@slice R15
    for (htlc, source) in holder_commitment_htlcs!(us, CURRENT_WITH_SOURCES) { $body:any } let balance_candidates
//@with
    fn account_for_htlc_of_open_channel(us: &Monitor, htlc: &HTLCOutputInCommitment, source: Option<&HTLCSource>, res: &mut Vec<Balance>, t: Tally) -> Tally {
        let mut claimable_inbound_htlc_value_sat = t.claimable_inbound_htlc_value_sat; let mut outbound_payment_htlc_rounded_msat = t.outbound_payment_htlc_rounded_msat;
        let mut outbound_forwarded_htlc_rounded_msat = t.outbound_forwarded_htlc_rounded_msat; let mut inbound_claiming_htlc_rounded_msat = t.inbound_claiming_htlc_rounded_msat;
        let mut inbound_htlc_rounded_msat = t.inbound_htlc_rounded_msat;
        $body
        Tally { claimable_inbound_htlc_value_sat, outbound_payment_htlc_rounded_msat, outbound_forwarded_htlc_rounded_msat, inbound_claiming_htlc_rounded_msat, inbound_htlc_rounded_msat }
    }
//@ret r
//@requires
    htlc.offered ==> source is Some,
    t.claimable_inbound_htlc_value_sat as int + htlc.amount_msat <= u64::MAX, t.outbound_payment_htlc_rounded_msat as int + htlc.amount_msat <= u64::MAX, t.outbound_forwarded_htlc_rounded_msat as int + htlc.amount_msat <= u64::MAX,
    t.inbound_claiming_htlc_rounded_msat as int + htlc.amount_msat <= u64::MAX, t.inbound_htlc_rounded_msat as int + htlc.amount_msat <= u64::MAX,
//@ensures P C07 while-the-channel-is-open-every-htlc-of-our-commitment-is-counted-once-what-its-output-does-not-carry-as-rounding-what-it-carries-as-a-balance-or-as-ours-to-claim
    // the part of the HTLC that no output carries (all of it for a dust HTLC) goes to exactly one of the four rounding totals, chosen by direction, origin and knowledge of the preimage
    ({ let known = us.payment_preimages.m@.contains_key(htlc.payment_hash);
       let ours = source matches Some(HTLCSource::OutboundRoute { .. });
       &&& r.outbound_payment_htlc_rounded_msat == t.outbound_payment_htlc_rounded_msat + (if htlc.offered && ours { rounded(htlc) } else { 0 })
       &&& r.outbound_forwarded_htlc_rounded_msat == t.outbound_forwarded_htlc_rounded_msat + (if htlc.offered && !ours { rounded(htlc) } else { 0 })
       &&& r.inbound_claiming_htlc_rounded_msat == t.inbound_claiming_htlc_rounded_msat + (if !htlc.offered && known { rounded(htlc) } else { 0 })
       &&& r.inbound_htlc_rounded_msat == t.inbound_htlc_rounded_msat + (if !htlc.offered && !known { rounded(htlc) } else { 0 })
       // an inbound HTLC we can claim adds its whole satoshis to what we would get by closing now
       &&& r.claimable_inbound_htlc_value_sat == t.claimable_inbound_htlc_value_sat + (if !htlc.offered && known && htlc.transaction_output_index is Some { sat(htlc) } else { 0 })
       // an HTLC with an output that is not ours to claim yet is listed as its own balance
       &&& final(res)@ == old(res)@ + (if htlc.transaction_output_index is None || (!htlc.offered && known) { Seq::<Balance>::empty() }
            else if htlc.offered { seq![Balance::MaybeTimeoutClaimableHTLC { amount_satoshis: sat(htlc), claimable_height: htlc.cltv_expiry, payment_hash: htlc.payment_hash, outbound_payment: ours }] }
            else { seq![Balance::MaybePreimageClaimableHTLC { amount_satoshis: sat(htlc), expiry_height: htlc.cltv_expiry, payment_hash: htlc.payment_hash }] })
    }),
//@mutant dust_htlc_counted_by_its_remainder
    let rounded_value_msat = if htlc.transaction_output_index.is_none() {
//@with
    let rounded_value_msat = if htlc.transaction_output_index.is_some() {
//@mutant claimable_dust_htlc_counted_as_ours_on_close
    inbound_claiming_htlc_rounded_msat += rounded_value_msat; if htlc.transaction_output_index.is_some() {
//@with
    inbound_claiming_htlc_rounded_msat += rounded_value_msat; if htlc.transaction_output_index.is_none() {
//@end
// ---- which transaction closed the channel, for the purpose of reporting balances (get_claimable_balances, head): a funding spend still waiting for its anti-reorg depth counts, with the height at which it will have it and ITS to_remote output; otherwise the spend already final, with the stored output ----
pub mod closing_tx {
use vstd::prelude::*;
#[derive(Clone, Copy)] pub struct Txid2(pub u64);
pub type CommitmentTxCounterpartyOutputInfo = Option<(u32, u64)>;
pub enum OnchainEvent { FundingSpendConfirmation { on_local_output_csv: Option<u16>, commitment_tx_to_counterparty_output: CommitmentTxCounterpartyOutputInfo }, Other { id: u64 } }
pub struct OnchainEventEntry { pub txid: Txid2, pub height: u32, pub event: OnchainEvent }
pub uninterp spec fn threshold_of(e: OnchainEventEntry) -> u32;
impl OnchainEventEntry { #[verifier::external_body] pub fn confirmation_threshold(&self) -> (r: u32) ensures r == threshold_of(*self) { unimplemented!() } }
pub struct Inner { pub funding_spend_confirmed: Option<Txid2>, pub confirmed_commitment_tx_counterparty_output: CommitmentTxCounterpartyOutputInfo, pub onchain_events_awaiting_threshold_conf: Vec<OnchainEventEntry> }
pub open spec fn is_spend(e: OnchainEventEntry) -> bool { e.event is FundingSpendConfirmation }
pub open spec fn first_spend(s: Seq<OnchainEventEntry>, k: int) -> bool { 0 <= k < s.len() && is_spend(s[k]) && forall|j: int| 0 <= j < k ==> !is_spend(#[trigger] s[j]) }
//@extract lightning/src/chain/channelmonitor.rs :: impl ChannelMonitor :: fn get_claimable_balances
//@slice R15
    let mut confirmed_txid = us.funding_spend_confirmed; let mut confirmed_counterparty_output = us.confirmed_commitment_tx_counterparty_output; let mut pending_commitment_tx_conf_thresh = None; let funding_spend_pending = us.onchain_events_awaiting_threshold_conf.iter().find_map(|event| { $fm:any }); if let Some((txid, conf_thresh)) = funding_spend_pending { $set:any }
//@with
    fn transaction_that_closed_the_channel(us: &Inner) -> (Option<Txid2>, CommitmentTxCounterpartyOutputInfo, Option<u32>) {
        let mut confirmed_txid = us.funding_spend_confirmed; let mut confirmed_counterparty_output = us.confirmed_commitment_tx_counterparty_output; let mut pending_commitment_tx_conf_thresh = None;
        // R6: `E.iter().find_map(|event| B)` as an index loop returning the first Some, B carried verbatim (it assigns a captured variable)
        let mut funding_spend_pending: Option<(Txid2, u32)> = None; let mut __k: usize = 0;
        while __k < us.onchain_events_awaiting_threshold_conf.len() && funding_spend_pending.is_none()
            invariant __k <= us.onchain_events_awaiting_threshold_conf@.len(),
                funding_spend_pending is None ==> confirmed_counterparty_output == us.confirmed_commitment_tx_counterparty_output && forall|j: int| 0 <= j < __k ==> !is_spend(#[trigger] us.onchain_events_awaiting_threshold_conf@[j]),
                funding_spend_pending is Some ==> __k > 0 && first_spend(us.onchain_events_awaiting_threshold_conf@, __k - 1)
                    && funding_spend_pending->Some_0 == (us.onchain_events_awaiting_threshold_conf@[__k - 1].txid, threshold_of(us.onchain_events_awaiting_threshold_conf@[__k - 1]))
                    && confirmed_counterparty_output == us.onchain_events_awaiting_threshold_conf@[__k - 1].event->FundingSpendConfirmation_commitment_tx_to_counterparty_output,
            decreases us.onchain_events_awaiting_threshold_conf@.len() - __k + (if funding_spend_pending is None { 1int } else { 0int })
        { let event = &us.onchain_events_awaiting_threshold_conf[__k]; __k = __k + 1; funding_spend_pending = { $fm }; }
        if let Some((txid, conf_thresh)) = funding_spend_pending { $set }
        (confirmed_txid, confirmed_counterparty_output, pending_commitment_tx_conf_thresh) }
//@rw R16 ?
    if let OnchainEvent::FundingSpendConfirmation { commitment_tx_to_counterparty_output, .. } = event.event {
//@with
    if let OnchainEvent::FundingSpendConfirmation { commitment_tx_to_counterparty_output, .. } = &event.event { let commitment_tx_to_counterparty_output = *commitment_tx_to_counterparty_output;
//@ret r
//@requires
    // LDK's debug assertion: a funding spend is either waiting for its depth or final, not both
    (exists|k: int| first_spend(us.onchain_events_awaiting_threshold_conf@, k)) ==> us.funding_spend_confirmed is None,
//@ensures P C07,C11 balances-are-reported-against-the-funding-spend-still-waiting-for-its-depth-if-there-is-one-with-its-maturity-height-and-its-own-to-remote-output-and-otherwise-against-the-spend-that-is-final
    (forall|j: int| 0 <= j < us.onchain_events_awaiting_threshold_conf@.len() ==> !is_spend(#[trigger] us.onchain_events_awaiting_threshold_conf@[j]))
        ==> r == (us.funding_spend_confirmed, us.confirmed_commitment_tx_counterparty_output, None::<u32>),
    forall|k: int| first_spend(us.onchain_events_awaiting_threshold_conf@, k) ==> r == (Some(us.onchain_events_awaiting_threshold_conf@[k].txid),
        us.onchain_events_awaiting_threshold_conf@[k].event->FundingSpendConfirmation_commitment_tx_to_counterparty_output, Some(threshold_of(us.onchain_events_awaiting_threshold_conf@[k]))),
//@mutant pending_spend_reported_with_the_stored_counterparty_output
    confirmed_counterparty_output = commitment_tx_to_counterparty_output;
//@with

//@end
}
}
fn main() {}
