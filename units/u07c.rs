//! unit: u07c
//! properties: C07 C05 C06
//! note: also run for C06: the code it constrains lies inside mechanisms those properties name (a change made there for their sake must meet these clauses too)
//! note: sweeping recovered outputs (util/transaction_utils.rs maybe_add_change_output, used by spend_spendable_outputs / OutputSweeper): the requested outputs are kept, the transaction pays at least the requested feerate at the weight it reports, and whatever exceeds that goes to the change script unless it is below that script's dust value
//! trusted: env: bitcoin types are skeletons: Amount(u64) with bitcoin::Amount's checked `+=` and `-` (they panic on overflow/underflow: obligations), comparison by value, MAX_MONEY = 21e14 sat; ScriptBuf opaque with an uninterpreted minimal_non_dust() (at most MAX_MONEY: bitcoin computes it from the script length); TxOut / Transaction field skeletons; Transaction::weight() is an uninterpreted function of the transaction *before* the change output is added (the function reads it once, before pushing); VarInt(n).size() is bitcoin's compact-size length (1/3/5/9 bytes); R8: `change_output.consensus_encode(&mut sink()).unwrap()` -> encoded_len(&change_output) (the serialized length of a TxOut: 8 + compact size + script length, bounded by 10_009 for a standard script)
//! trusted: R15 (deep slices): SpendableOutputDescriptor::create_spendable_outputs_psbt: the TxIn built in each of the three arms (static payment output with its `sequence` statement, delayed payment output, static output) verbatim as functions of the descriptor; OutPoint::into_bitcoin_outpoint is re-declared (txid, index widened to u32); the duplicate test, the witness weights, the input value sum (MAX_MONEY test) and the PSBT assembly are dropped and not claimed
//! trusted: R15 (deep slices): KeysManager::sign_spendable_outputs_psbt: the statement that (re)fills the per-channel signer cache in the StaticPaymentOutput and DelayedPaymentOutput arms, verbatim as functions of the cache and the descriptor; derive_channel_keys is the uninterpreted signer_of(channel_keys_id); R8: `a != b` on 32-byte ids -> arr_ne; locating the input, signing and the StaticOutput arm are dropped and not claimed
//! trusted: R15 (deep slice): ChannelMonitorImpl::get_spendable_outputs: the body of the loop over the outputs of a confirmed transaction, verbatim as a function of (index, output); the descriptor structs and enum SpendableOutputDescriptor are extracted from sign/mod.rs; the monitor is a six-field skeleton; scripts compare by identity; R8: `opt.as_ref() == Some(&x)` -> option_script_is (verified helper)
//! trusted: R15 (deep slice): ChannelMonitorImpl::get_broadcasted_holder_claims: the body of the closure that turns an HTLC descriptor of our confirmed commitment into a claim package, verbatim as a function; PackageTemplate::build_package / HolderHTLCOutput::build record their arguments; the revokable-script triple and the descriptor list are dropped and not claimed
//! trusted: R15 (deep slice): ChannelMonitorImpl::get_counterparty_output_claim_info: the per-HTLC block (preimage lookup, the decision to claim, the package built) verbatim as a function; the builders record their arguments; payment_preimages is a ghost-map stub; locating the to_remote output and the corrupt-data guard are dropped and not claimed
//! trusted: OnchainTxHandler::provide_latest_holder_tx is extracted whole against a two-field skeleton (assume_specification for core::mem::replace: std definition)
//! assume: every requested output carries at most MAX_MONEY (a valid TxOut): the loop sums them with bitcoin::Amount's `+=`, which panics on u64 overflow before the `>= input_value` test can refuse (observation O8 in DESIGN); at most 1_000_000 outputs
//! assume: transaction weight and witness weight are at most 4_000_000 (consensus block weight limit): the function computes fees in i64 after `as i64` casts
//! trusted: assume_specification for core::cmp::max / core::cmp::min (std definitions): present in every unit so that a change that introduces them is verified instead of being rejected by the tool
use vstd::prelude::*;
verus! {
use core::cmp;
pub assume_specification<T: core::cmp::Ord>[core::cmp::max::<T>](a: T, b: T) -> (r: T)
    ensures T::obeys_cmp_spec() ==> r == (if b.cmp_spec(&a) == core::cmp::Ordering::Less { a } else { b });
pub assume_specification<T: core::cmp::Ord>[core::cmp::min::<T>](a: T, b: T) -> (r: T)
    ensures T::obeys_cmp_spec() ==> r == (if b.cmp_spec(&a) == core::cmp::Ordering::Less { b } else { a });
use vstd::std_specs::cmp::*;
use vstd::std_specs::ops::*;
use core::cmp::Ordering;
pub open spec fn ord_u64(a: u64, b: u64) -> Ordering { if a < b { Ordering::Less } else if a == b { Ordering::Equal } else { Ordering::Greater } }
#[derive(Clone, Copy)] pub struct Amount(pub u64);
impl PartialEqSpecImpl for Amount { open spec fn obeys_eq_spec() -> bool { true } open spec fn eq_spec(&self, other: &Amount) -> bool { self.0 == other.0 } }
impl PartialEq for Amount { fn eq(&self, o: &Amount) -> (r: bool) { self.0 == o.0 } }
impl PartialOrdSpecImpl for Amount {
    open spec fn obeys_partial_cmp_spec() -> bool { true }
    open spec fn partial_cmp_spec(&self, other: &Amount) -> Option<Ordering> { Some(ord_u64(self.0, other.0)) }
}
impl PartialOrd for Amount { #[verifier::external_body] fn partial_cmp(&self, o: &Amount) -> (r: Option<Ordering>) { self.0.partial_cmp(&o.0) } }
impl SubSpecImpl<Amount> for Amount {
    open spec fn obeys_sub_spec() -> bool { true }
    open spec fn sub_req(self, rhs: Amount) -> bool { self.0 >= rhs.0 }
    open spec fn sub_spec(self, rhs: Amount) -> Amount { Amount((self.0 - rhs.0) as u64) }
}
impl core::ops::Sub<Amount> for Amount { type Output = Amount; fn sub(self, rhs: Amount) -> (r: Amount) { Amount(self.0 - rhs.0) } }
impl Amount {
    pub const ZERO: Amount = Amount(0);
    pub const MAX_MONEY: Amount = Amount(21_000_000 * 100_000_000);
    pub fn from_sat(s: u64) -> (r: Amount) ensures r.0 == s { Amount(s) }
    pub fn to_sat(self) -> (r: u64) ensures r == self.0 { self.0 }
    // `a += b` of the source (bitcoin::Amount: panics on overflow)
    pub fn add_assign(&mut self, rhs: Amount) requires old(self).0 + rhs.0 <= u64::MAX ensures final(self).0 == old(self).0 + rhs.0 { self.0 = self.0 + rhs.0; }
}
pub struct ScriptBuf { pub id: u64 }
pub uninterp spec fn dust_of(script: u64) -> u64;
impl ScriptBuf { #[verifier::external_body] pub fn minimal_non_dust(&self) -> (r: Amount) ensures r.0 == dust_of(self.id), r.0 <= 21_000_000 * 100_000_000 { unimplemented!() } }
pub struct TxOut { pub script_pubkey: ScriptBuf, pub value: Amount }
pub struct TxIn { pub id: u64 }
pub struct Transaction { pub input: Vec<TxIn>, pub output: Vec<TxOut> }
pub struct Weight(pub u64);
impl Weight { pub fn to_wu(self) -> (r: u64) ensures r == self.0 { self.0 } }
pub uninterp spec fn tx_weight(tx: Transaction) -> u64;
impl Transaction { #[verifier::external_body] pub fn weight(&self) -> (r: Weight) ensures r.0 == tx_weight(*self) { unimplemented!() } }
pub uninterp spec fn txout_len(o: TxOut) -> usize;
#[verifier::external_body] pub fn encoded_len(o: &TxOut) -> (r: usize) ensures r == txout_len(*o), 9 <= r <= 10_009 { unimplemented!() }
pub struct VarInt(pub u64);
pub open spec fn compact_size_len(n: u64) -> usize { if n < 0xfd { 1 } else if n <= 0xffff { 3 } else if n <= 0xffff_ffff { 5 } else { 9 } }
impl VarInt { pub fn size(&self) -> (r: usize) ensures r == compact_size_len(self.0) { if self.0 < 0xfd { 1 } else if self.0 <= 0xffff { 3 } else if self.0 <= 0xffff_ffff { 5 } else { 9 } } }
pub open spec fn total_out(s: Seq<TxOut>) -> int decreases s.len() { if s.len() == 0 { 0 } else { total_out(s.drop_last()) + s.last().value.0 } }
pub proof fn lemma_total_push(s: Seq<TxOut>, o: TxOut) ensures total_out(s.push(o)) == total_out(s) + o.value.0 { assert(s.push(o).drop_last() =~= s); }
pub proof fn lemma_total_take(s: Seq<TxOut>, k: int) requires 0 <= k < s.len() ensures total_out(s.take(k + 1)) == total_out(s.take(k)) + s[k].value.0
{ assert(s.take(k + 1).drop_last() =~= s.take(k)); }
pub open spec fn weight_with_change_spec(tx: Transaction, witness_max_weight: u64, script: ScriptBuf) -> int {
    tx_weight(tx) + 2 + witness_max_weight + txout_len(TxOut { script_pubkey: script, value: Amount(0) }) * 4
        + (compact_size_len((tx.output@.len() + 1) as u64) - compact_size_len(tx.output@.len() as u64)) * 4
}
// the fee the requested feerate demands for a transaction of that weight (rounded down, as the library computes it)
pub open spec fn fee_at(weight: int, feerate: int) -> int { weight * feerate / 1000 }

//@extract lightning/src/util/transaction_utils.rs :: fn maybe_add_change_output
//@rw R8
    change_output.consensus_encode(&mut sink()).unwrap()
//@with
    encoded_len(&change_output)
//@rw R6
    output_value += output.value;
//@with
    output_value.add_assign(output.value);
//@ret r
//@requires
    tx_weight(*old(tx)) <= 4_000_000, witness_max_weight <= 4_000_000, old(tx).output@.len() <= 1_000_000,
    forall|k: int| 0 <= k < old(tx).output@.len() ==> (#[trigger] old(tx).output@[k]).value.0 <= 21_000_000 * 100_000_000,
//@ensures P C07 a-sweep-keeps-the-requested-outputs-pays-at-least-the-requested-feerate-at-the-weight-it-reports-and-sends-the-rest-to-the-change-script-unless-it-is-dust
    r is Ok ==> final(tx).output@.len() >= old(tx).output@.len() && final(tx).output@.take(old(tx).output@.len() as int) =~= old(tx).output@ && final(tx).output@.len() <= old(tx).output@.len() + 1,
    r is Ok ==> total_out(final(tx).output@) + fee_at(r->Ok_0 as int, feerate_sat_per_1000_weight as int) <= input_value.0,
    r is Ok && final(tx).output@.len() > old(tx).output@.len() ==> final(tx).output@.last().script_pubkey == change_destination_script && final(tx).output@.last().value.0 >= dust_of(change_destination_script.id)
        && total_out(final(tx).output@) + fee_at(r->Ok_0 as int, feerate_sat_per_1000_weight as int) == input_value.0,
    r is Ok && final(tx).output@.len() == old(tx).output@.len() ==> r->Ok_0 == tx_weight(*old(tx)) + 2 + witness_max_weight,
    r is Ok && final(tx).output@.len() > old(tx).output@.len() ==> r->Ok_0 == weight_with_change_spec(*old(tx), witness_max_weight, change_destination_script),
//@ensures P C07 nothing-worth-a-change-output-is-left-to-the-miners
    r is Ok && final(tx).output@.len() == old(tx).output@.len() ==>
        input_value.0 - total_out(old(tx).output@) - fee_at(weight_with_change_spec(*old(tx), witness_max_weight, change_destination_script), feerate_sat_per_1000_weight as int) < dust_of(change_destination_script.id),
    r is Err ==> final(tx).output@ =~= old(tx).output@,
    final(tx).input@ == old(tx).input@,
//@loop 1 iter=it
    invariant *tx == *old(tx), it.seq().len() == tx.output@.len(), forall|k: int| 0 <= k < tx.output@.len() ==> *it.seq()[k] == tx.output@[k],
        output_value.0 == total_out(tx.output@.take(it.index@ as int)), it.index@ > 0 ==> output_value.0 < input_value.0, it.index@ == 0 ==> output_value.0 == 0,
        input_value.0 <= 21_000_000 * 100_000_000,
        forall|k: int| 0 <= k < tx.output@.len() ==> (#[trigger] tx.output@[k]).value.0 <= 21_000_000 * 100_000_000,
//@at loop_body_start 1
    proof { lemma_total_take(tx.output@, it.index@ as int); }
//@at after_loop 1
    proof { assert(tx.output@.take(tx.output@.len() as int) =~= tx.output@); }
//@at before `let starting_fees`
    proof {
        assert(0 <= starting_weight as int * feerate_sat_per_1000_weight as int <= 8_000_002 * 0xffff_ffff) by (nonlinear_arith)
            requires 0 <= starting_weight <= 8_000_002, 0 <= feerate_sat_per_1000_weight <= 0xffff_ffff;
    }
//@at before `let fees_with_change`
    proof {
        assert(0 <= weight_with_change as int * feerate_sat_per_1000_weight as int <= 8_050_000 * 0xffff_ffff) by (nonlinear_arith)
            requires 0 <= weight_with_change <= 8_050_000, 0 <= feerate_sat_per_1000_weight <= 0xffff_ffff;
    }
//@at after `tx.output.push(change_output);`
    proof {
        lemma_total_push(old(tx).output@, change_output);
        assert(tx.output@.take(old(tx).output@.len() as int) =~= old(tx).output@);
        assert(tx.output@ =~= old(tx).output@.push(change_output));
        assert(output_value.0 == total_out(old(tx).output@));
        assert(change_output.value.0 == change_value);
        assert(fees_with_change == fee_at(weight_with_change as int, feerate_sat_per_1000_weight as int));
        assert(change_value == input_value.0 - output_value.0 - fees_with_change);
    }
//@mutant change_pays_the_fee_of_the_smaller_transaction
    let change_value: i64 = (input_value - output_value).to_sat() as i64 - fees_with_change;
//@with
    let change_value: i64 = (input_value - output_value).to_sat() as i64 - starting_fees;
//@mutant dust_change_burnt_one_sat_early
    if change_value >= dust_value.to_sat() as i64 {
//@with
    if change_value > dust_value.to_sat() as i64 {
//@end

// ---- create_spendable_outputs_psbt: the inputs that spend the recovered outputs -----------------------------
pub mod sweep_inputs {
use vstd::prelude::*;
#[derive(Clone, Copy)] pub struct OutPoint { pub txid: u64, pub index: u16 }
pub struct BitcoinOutPoint { pub txid: u64, pub vout: u32 }
impl OutPoint { pub fn into_bitcoin_outpoint(self) -> (r: BitcoinOutPoint) ensures r.txid == self.txid, r.vout == self.index as u32 { BitcoinOutPoint { txid: self.txid, vout: self.index as u32 } } }
pub struct ScriptBuf { pub id: u64 }
impl ScriptBuf { #[verifier::external_body] pub fn new() -> (r: ScriptBuf) { unimplemented!() } }
pub struct Witness { pub id: u64 }
impl Witness { #[verifier::external_body] pub fn new() -> (r: Witness) { unimplemented!() } }
pub struct Sequence(pub u32);
impl Sequence { pub const ZERO: Sequence = Sequence(0); pub fn from_consensus(n: u32) -> (r: Sequence) ensures r.0 == n { Sequence(n) } }
pub struct TxIn { pub previous_output: BitcoinOutPoint, pub script_sig: ScriptBuf, pub sequence: Sequence, pub witness: Witness }
pub struct StaticPaymentOutputDescriptor { pub outpoint: OutPoint, pub anchors: bool }
impl StaticPaymentOutputDescriptor { #[verifier::external_body] pub fn needs_csv_1_for_spend(&self) -> (r: bool) ensures r == self.anchors { unimplemented!() } }
pub struct DelayedPaymentOutputDescriptor { pub outpoint: OutPoint, pub to_self_delay: u16 }
//@extract lightning/src/sign/mod.rs :: impl SpendableOutputDescriptor :: fn create_spendable_outputs_psbt
//@slice R15
    let sequence = $seq:seq; input.push(TxIn { $f:any });
//@with
    fn input_for_static_payment_output(descriptor: &StaticPaymentOutputDescriptor) -> TxIn { let sequence = $seq; TxIn { $f } }
//@ret r
//@ensures P C07 a-to-remote-output-is-spent-by-its-own-outpoint-with-the-one-block-delay-anchor-channels-require
    r.previous_output.txid == descriptor.outpoint.txid && r.previous_output.vout == descriptor.outpoint.index as u32,
    r.sequence.0 == (if descriptor.anchors { 1u32 } else { 0u32 }),
//@end
//@extract lightning/src/sign/mod.rs :: impl SpendableOutputDescriptor :: fn create_spendable_outputs_psbt
//@slice R15 nth=2
    input.push(TxIn { $f:any });
//@with
    fn input_for_delayed_payment_output(descriptor: &DelayedPaymentOutputDescriptor) -> TxIn { TxIn { $f } }
//@ret r
//@ensures P C07 a-delayed-to-self-output-is-spent-by-its-own-outpoint-with-exactly-the-delay-its-script-demands
    r.previous_output.txid == descriptor.outpoint.txid && r.previous_output.vout == descriptor.outpoint.index as u32,
    r.sequence.0 == descriptor.to_self_delay as u32,
//@mutant delayed_output_spent_without_its_csv
    sequence: Sequence(descriptor.to_self_delay as u32),
//@with
    sequence: Sequence::ZERO,
//@end
//@extract lightning/src/sign/mod.rs :: impl SpendableOutputDescriptor :: fn create_spendable_outputs_psbt
//@slice R15 nth=3
    input.push(TxIn { $f:any });
//@with
    fn input_for_static_output(outpoint: &OutPoint) -> TxIn { TxIn { $f } }
//@ret r
//@ensures P C07 a-static-output-is-spent-by-its-own-outpoint-without-delay
    r.previous_output.txid == outpoint.txid && r.previous_output.vout == outpoint.index as u32,
    r.sequence.0 == 0,
//@end
}

// ---- KeysManager::sign_spendable_outputs_psbt: each output is signed with its own channel's keys ------------
pub mod sweep_signer {
use vstd::prelude::*;
pub struct InMemorySigner { pub id: u64 }
pub uninterp spec fn signer_of(channel_keys_id: [u8; 32]) -> InMemorySigner;
pub struct KeysManager {}
impl KeysManager { #[verifier::external_body] pub fn derive_channel_keys(&self, id: &[u8; 32]) -> (r: InMemorySigner) ensures r == signer_of(*id) { unimplemented!() } }
pub struct Descriptor { pub channel_keys_id: [u8; 32] }
#[verifier::external_body] pub fn arr_ne(a: &[u8; 32], b: &[u8; 32]) -> (r: bool) ensures r == (*a != *b) { unimplemented!() }
pub open spec fn cache_ok(c: Option<(InMemorySigner, [u8; 32])>) -> bool { c is Some ==> c->Some_0.0 == signer_of(c->Some_0.1) }
impl KeysManager {
//@extract lightning/src/sign/mod.rs :: impl KeysManager :: fn sign_spendable_outputs_psbt
//@slice R15
    let input_idx = get_input_idx(&descriptor.outpoint)?; $refill:straight let witness = keys_cache.as_ref().unwrap().0.sign_counterparty_payment_input(
//@with
    fn signer_for_static_payment_output(&self, keys_cache_in: Option<(InMemorySigner, [u8; 32])>, descriptor: &Descriptor) -> Option<(InMemorySigner, [u8; 32])> { let mut keys_cache = keys_cache_in; $refill keys_cache }
//@rw R8
    keys_cache.as_ref().unwrap().1 != descriptor.channel_keys_id
//@with
    arr_ne(&keys_cache.as_ref().unwrap().1, &descriptor.channel_keys_id)
//@ret r
//@requires
    cache_ok(keys_cache_in),
//@ensures P C07 a-to-remote-output-is-signed-with-the-keys-of-the-channel-it-belongs-to
    r is Some && r->Some_0.1 == descriptor.channel_keys_id && r->Some_0.0 == signer_of(descriptor.channel_keys_id),
//@end
//@extract lightning/src/sign/mod.rs :: impl KeysManager :: fn sign_spendable_outputs_psbt
//@slice R15
    let input_idx = get_input_idx(&descriptor.outpoint)?; $refill:straight let witness = keys_cache.as_ref().unwrap().0.sign_dynamic_p2wsh_input(
//@with
    fn signer_for_delayed_payment_output(&self, keys_cache_in: Option<(InMemorySigner, [u8; 32])>, descriptor: &Descriptor) -> Option<(InMemorySigner, [u8; 32])> { let mut keys_cache = keys_cache_in; $refill keys_cache }
//@rw ? R8
    keys_cache.as_ref().unwrap().1 != descriptor.channel_keys_id
//@with
    arr_ne(&keys_cache.as_ref().unwrap().1, &descriptor.channel_keys_id)
//@ret r
//@requires
    cache_ok(keys_cache_in),
//@ensures P C07 a-delayed-to-self-output-is-signed-with-the-keys-of-the-channel-it-belongs-to
    r is Some && r->Some_0.1 == descriptor.channel_keys_id && r->Some_0.0 == signer_of(descriptor.channel_keys_id),
//@mutant cached_keys_of_another_channel_reused
    if keys_cache.is_none() || keys_cache.as_ref().unwrap().1 != descriptor.channel_keys_id { keys_cache = Some(( self.derive_channel_keys
//@with
    if keys_cache.is_none() { keys_cache = Some(( self.derive_channel_keys
//@end
}
}

// ---- ChannelMonitorImpl::get_spendable_outputs: which outputs of a confirmed transaction are reported as ours ------------
pub mod spendable_outputs {
use vstd::prelude::*;
#[derive(Clone, Copy)] pub struct Txid(pub u64);
#[derive(Clone, Copy)] pub struct PublicKey(pub u64);
#[derive(Clone, Copy)] pub struct RevocationKey(pub u64);
pub struct ScriptBuf { pub id: u64 }
impl vstd::std_specs::cmp::PartialEqSpecImpl for ScriptBuf { open spec fn obeys_eq_spec() -> bool { true } open spec fn eq_spec(&self, other: &ScriptBuf) -> bool { self.id == other.id } }
impl PartialEq for ScriptBuf { fn eq(&self, o: &ScriptBuf) -> (r: bool) { self.id == o.id } }
pub struct TxOut { pub script_pubkey: ScriptBuf, pub value: u64 }
impl Clone for TxOut { #[verifier::external_body] fn clone(&self) -> (r: Self) ensures r == *self { unimplemented!() } }
pub struct Transaction { pub id: Txid, pub output: Vec<TxOut> }
impl Transaction { #[verifier::external_body] pub fn compute_txid(&self) -> (r: Txid) ensures r == self.id { unimplemented!() } }
pub struct OutPoint { pub txid: Txid, pub index: u16 }
pub struct ChannelTransactionParameters { pub channel_value_satoshis: u64 }
impl Clone for ChannelTransactionParameters { #[verifier::external_body] fn clone(&self) -> (r: Self) ensures r == *self { unimplemented!() } }
pub struct FundingScope { pub channel_parameters: ChannelTransactionParameters }
//@extract lightning/src/sign/mod.rs :: struct DelayedPaymentOutputDescriptor
//@end
//@extract lightning/src/sign/mod.rs :: struct StaticPaymentOutputDescriptor
//@end
//@extract lightning/src/sign/mod.rs :: enum SpendableOutputDescriptor
//@end
pub struct ChannelMonitorImpl { pub destination_script: ScriptBuf, pub broadcasted_holder_revokable_script: Option<(ScriptBuf, PublicKey, RevocationKey)>, pub on_holder_tx_csv: u16,
    pub counterparty_payment_script: ScriptBuf, pub shutdown_script: Option<ScriptBuf>, pub channel_keys_id: [u8; 32],
    // the delay WE imposed on the counterparty's own outputs: present so that a change that reads it where the holder's delay is meant is verified
    pub counterparty_commitment_params: CounterpartyCommitmentParameters }
pub struct CounterpartyCommitmentParameters { pub on_counterparty_tx_csv: u16 }
pub open spec fn static_desc(m: ChannelMonitorImpl, txid: Txid, i: u16, outp: TxOut) -> SpendableOutputDescriptor {
    SpendableOutputDescriptor::StaticOutput { outpoint: OutPoint { txid, index: i }, output: outp, channel_keys_id: Some(m.channel_keys_id) } }
// what get_spendable_outputs reports for one output: one descriptor per script of ours it pays to (destination / delayed / to_remote / shutdown);
// the contract compares multisets: the order in which the descriptors are pushed is not part of the property
pub open spec fn rep_a(m: ChannelMonitorImpl, txid: Txid, i: u16, outp: TxOut) -> Seq<SpendableOutputDescriptor> {
    if outp.script_pubkey.id == m.destination_script.id { seq![static_desc(m, txid, i, outp)] } else { Seq::empty() } }
pub open spec fn rep_b(m: ChannelMonitorImpl, f: FundingScope, txid: Txid, i: u16, outp: TxOut) -> Seq<SpendableOutputDescriptor> {
    if m.broadcasted_holder_revokable_script is Some && m.broadcasted_holder_revokable_script->Some_0.0.id == outp.script_pubkey.id {
        seq![SpendableOutputDescriptor::DelayedPaymentOutput(DelayedPaymentOutputDescriptor { outpoint: OutPoint { txid, index: i },
            per_commitment_point: m.broadcasted_holder_revokable_script->Some_0.1, to_self_delay: m.on_holder_tx_csv, output: outp,
            revocation_pubkey: m.broadcasted_holder_revokable_script->Some_0.2, channel_keys_id: m.channel_keys_id,
            channel_value_satoshis: f.channel_parameters.channel_value_satoshis, channel_transaction_parameters: Some(f.channel_parameters) })] } else { Seq::empty() } }
pub open spec fn rep_c(m: ChannelMonitorImpl, f: FundingScope, txid: Txid, i: u16, outp: TxOut) -> Seq<SpendableOutputDescriptor> {
    if m.counterparty_payment_script.id == outp.script_pubkey.id {
        seq![SpendableOutputDescriptor::StaticPaymentOutput(StaticPaymentOutputDescriptor { outpoint: OutPoint { txid, index: i }, output: outp, channel_keys_id: m.channel_keys_id,
            channel_value_satoshis: f.channel_parameters.channel_value_satoshis, channel_transaction_parameters: Some(f.channel_parameters) })] } else { Seq::empty() } }
pub open spec fn rep_d(m: ChannelMonitorImpl, txid: Txid, i: u16, outp: TxOut) -> Seq<SpendableOutputDescriptor> {
    if m.shutdown_script is Some && m.shutdown_script->Some_0.id == outp.script_pubkey.id { seq![static_desc(m, txid, i, outp)] } else { Seq::empty() } }
pub open spec fn reported_for(m: ChannelMonitorImpl, f: FundingScope, txid: Txid, i: u16, outp: TxOut) -> Seq<SpendableOutputDescriptor> {
    ((rep_a(m, txid, i, outp) + rep_b(m, f, txid, i, outp)) + rep_c(m, f, txid, i, outp)) + rep_d(m, txid, i, outp)
}
pub proof fn lemma_reported_multiset(m: ChannelMonitorImpl, f: FundingScope, txid: Txid, i: u16, outp: TxOut)
    ensures reported_for(m, f, txid, i, outp).to_multiset() =~= rep_a(m, txid, i, outp).to_multiset().add(rep_b(m, f, txid, i, outp).to_multiset()).add(rep_c(m, f, txid, i, outp).to_multiset()).add(rep_d(m, txid, i, outp).to_multiset())
{
    let a = rep_a(m, txid, i, outp); let b = rep_b(m, f, txid, i, outp); let c = rep_c(m, f, txid, i, outp); let d = rep_d(m, txid, i, outp);
    vstd::seq_lib::lemma_multiset_commutative(a, b);
    vstd::seq_lib::lemma_multiset_commutative(a + b, c);
    vstd::seq_lib::lemma_multiset_commutative((a + b) + c, d);
}
impl ChannelMonitorImpl {
//@extract lightning/src/chain/channelmonitor.rs :: impl ChannelMonitorImpl :: fn get_spendable_outputs
//@slice R15
    for (i, outp) in tx.output.iter().enumerate() { $body:any } spendable_outputs }
//@with
    fn spendable_descriptors_for_output(&self, funding_spent: &FundingScope, tx: &Transaction, i: usize, outp: &TxOut, spendable_outputs: &mut Vec<SpendableOutputDescriptor>) { $body }
//@rw R8
    self.shutdown_script.as_ref() == Some(&outp.script_pubkey)
//@with
    option_script_is(&self.shutdown_script, &outp.script_pubkey)
//@requires
    old(spendable_outputs)@.len() == 0, i < 65536,
//@at body_start
    broadcast use vstd::seq_lib::group_to_multiset_ensures;
    proof { lemma_reported_multiset(*self, *funding_spent, tx.id, i as u16, *outp); }
//@ensures P C07 an-output-is-reported-as-spendable-exactly-for-each-of-our-scripts-it-pays-to-with-its-own-outpoint-and-for-a-delayed-output-the-delay-and-keys-it-was-built-with
    final(spendable_outputs)@.to_multiset() =~= reported_for(*self, *funding_spent, tx.id, i as u16, *outp).to_multiset(),
//@mutant delayed_output_reported_with_the_wrong_delay
    to_self_delay: self.on_holder_tx_csv,
//@with
    to_self_delay: 0,
//@end
}
pub fn option_script_is(o: &Option<ScriptBuf>, s: &ScriptBuf) -> (r: bool) ensures r == (*o is Some && o->Some_0.id == s.id)
{ match o { Some(x) => x.id == s.id, None => false } }
}

// ---- ChannelMonitorImpl::get_broadcasted_holder_claims: one claim per non-dust HTLC of our confirmed commitment ---------
pub mod holder_claims {
use vstd::prelude::*;
#[derive(Clone, Copy)] pub struct Txid(pub u64);
#[derive(Clone, Copy)] pub struct HTLCOutputInCommitment { pub offered: bool, pub amount_msat: u64, pub cltv_expiry: u32, pub transaction_output_index: Option<u32> }
#[derive(Clone, Copy)] pub struct HTLCDescriptor { pub htlc: HTLCOutputInCommitment, pub id: u64 }
pub struct HolderHTLCOutput { pub desc: HTLCDescriptor, pub conf_height: u32 }
impl HolderHTLCOutput { pub fn build(desc: HTLCDescriptor, conf_height: u32) -> (r: Self) ensures r.desc == desc, r.conf_height == conf_height { HolderHTLCOutput { desc, conf_height } } }
pub enum PackageSolvingData { HolderHTLCOutput(HolderHTLCOutput), Other(u8) }
pub struct PackageTemplate { pub txid: Txid, pub vout: u32, pub data: PackageSolvingData, pub counterparty_spendable_height: u32 }
impl PackageTemplate { pub fn build_package(txid: Txid, vout: u32, data: PackageSolvingData, counterparty_spendable_height: u32) -> (r: Self)
    ensures r.txid == txid, r.vout == vout, r.data == data, r.counterparty_spendable_height == counterparty_spendable_height { PackageTemplate { txid, vout, data, counterparty_spendable_height } } }
pub struct TrustedTx { pub id: Txid }
impl TrustedTx { #[verifier::external_body] pub fn txid(&self) -> (r: Txid) ensures r == self.id { unimplemented!() } }
//@extract lightning/src/chain/channelmonitor.rs :: impl ChannelMonitorImpl :: fn get_broadcasted_holder_claims
//@slice R15
    .map(|htlc_descriptor| { $body:any }) .collect();
//@with
    fn claim_for_holder_htlc(htlc_descriptor: HTLCDescriptor, conf_height: u32, tx: &TrustedTx) -> PackageTemplate { $body }
//@rw R10
    .expect("Expected transaction output index for non-dust HTLC")
//@with
    .unwrap()
//@ret r
//@requires
    htlc_descriptor.htlc.transaction_output_index is Some,
//@ensures P C07 every-non-dust-htlc-of-our-confirmed-commitment-gets-a-claim-on-its-own-output-with-the-height-from-which-the-counterparty-can-contest-it
    r.txid == tx.id && r.vout == htlc_descriptor.htlc.transaction_output_index->Some_0,
    r.data == PackageSolvingData::HolderHTLCOutput(HolderHTLCOutput { desc: htlc_descriptor, conf_height }),
    r.counterparty_spendable_height == (if htlc_descriptor.htlc.offered { conf_height } else { htlc_descriptor.htlc.cltv_expiry }),
//@mutant received_htlc_contestable_at_once
    if htlc_descriptor.htlc.offered { conf_height } else { htlc_descriptor.htlc.cltv_expiry };
//@with
    if htlc_descriptor.htlc.offered { htlc_descriptor.htlc.cltv_expiry } else { conf_height };
//@end
}

// ---- get_counterparty_output_claim_info: claims on the HTLC outputs of a (non-revoked) counterparty commitment --------------
pub mod counterparty_claims {
use vstd::prelude::*;
#[derive(Clone, Copy)] pub struct Txid(pub u64);
#[derive(Clone, Copy)] pub struct PublicKey(pub u64);
#[derive(Clone, Copy)] pub struct PaymentHash(pub u64);
#[derive(Clone, Copy)] pub struct PaymentPreimage(pub u64);
#[derive(Clone, Copy)] pub struct HTLCOutputInCommitment { pub offered: bool, pub amount_msat: u64, pub cltv_expiry: u32, pub payment_hash: PaymentHash, pub transaction_output_index: Option<u32> }
#[derive(Clone, Copy)] pub struct ChannelTransactionParameters { pub id: u64 }
pub struct FundingScope { pub channel_parameters: ChannelTransactionParameters }
pub struct CounterpartyOfferedHTLCOutput { pub point: PublicKey, pub preimage: PaymentPreimage, pub htlc: HTLCOutputInCommitment, pub params: ChannelTransactionParameters, pub conf: Option<u32> }
impl CounterpartyOfferedHTLCOutput { pub fn build(point: PublicKey, preimage: PaymentPreimage, htlc: HTLCOutputInCommitment, params: ChannelTransactionParameters, conf: Option<u32>) -> (r: Self)
    ensures r == (CounterpartyOfferedHTLCOutput { point, preimage, htlc, params, conf }) { CounterpartyOfferedHTLCOutput { point, preimage, htlc, params, conf } } }
pub struct CounterpartyReceivedHTLCOutput { pub point: PublicKey, pub htlc: HTLCOutputInCommitment, pub params: ChannelTransactionParameters, pub conf: Option<u32> }
impl CounterpartyReceivedHTLCOutput { pub fn build(point: PublicKey, htlc: HTLCOutputInCommitment, params: ChannelTransactionParameters, conf: Option<u32>) -> (r: Self)
    ensures r == (CounterpartyReceivedHTLCOutput { point, htlc, params, conf }) { CounterpartyReceivedHTLCOutput { point, htlc, params, conf } } }
pub enum PackageSolvingData { CounterpartyOfferedHTLCOutput(CounterpartyOfferedHTLCOutput), CounterpartyReceivedHTLCOutput(CounterpartyReceivedHTLCOutput) }
pub struct PackageTemplate { pub txid: Txid, pub vout: u32, pub data: PackageSolvingData, pub counterparty_spendable_height: u32 }
impl PackageTemplate { pub fn build_package(txid: Txid, vout: u32, data: PackageSolvingData, counterparty_spendable_height: u32) -> (r: Self)
    ensures r == (PackageTemplate { txid, vout, data, counterparty_spendable_height }) { PackageTemplate { txid, vout, data, counterparty_spendable_height } } }
pub struct PreimageMap { pub m: Ghost<Map<PaymentHash, (PaymentPreimage, Vec<u8>)>> }
impl PreimageMap { #[verifier::external_body] pub fn get(&self, h: &PaymentHash) -> (r: Option<&(PaymentPreimage, Vec<u8>)>)
    ensures r is Some == self.m@.contains_key(*h), r is Some ==> *r->Some_0 == self.m@[*h] { unimplemented!() } }
pub struct ChannelMonitorImpl { pub payment_preimages: PreimageMap }
impl ChannelMonitorImpl {
//@extract lightning/src/chain/channelmonitor.rs :: impl ChannelMonitorImpl :: fn get_counterparty_output_claim_info
//@slice R15
    let preimage = $pe:seq; if $c:cond { $body:straight claimable_outpoints.push(counterparty_package); }
//@with
    fn claim_for_counterparty_htlc(&self, funding_spent: &FundingScope, htlc: &HTLCOutputInCommitment, transaction_output_index: u32, commitment_txid: Txid, per_commitment_point: PublicKey, confirmation_height: Option<u32>, claimable_outpoints: &mut Vec<PackageTemplate>) {
        let preimage = $pe; if $c { $body claimable_outpoints.push(counterparty_package); }
    }
//@requires
    old(claimable_outpoints)@.len() == 0,
//@ensures P C07 on-a-counterparty-commitment-an-htlc-we-offered-is-always-claimed-at-its-expiry-and-an-htlc-offered-to-us-exactly-when-we-know-its-preimage-with-that-preimage
    !htlc.offered ==> final(claimable_outpoints)@ =~= seq![PackageTemplate { txid: commitment_txid, vout: transaction_output_index, counterparty_spendable_height: htlc.cltv_expiry,
        data: PackageSolvingData::CounterpartyReceivedHTLCOutput(CounterpartyReceivedHTLCOutput { point: per_commitment_point, htlc: *htlc, params: funding_spent.channel_parameters, conf: confirmation_height }) }],
    htlc.offered && self.payment_preimages.m@.contains_key(htlc.payment_hash) ==> final(claimable_outpoints)@ =~= seq![PackageTemplate { txid: commitment_txid, vout: transaction_output_index, counterparty_spendable_height: htlc.cltv_expiry,
        data: PackageSolvingData::CounterpartyOfferedHTLCOutput(CounterpartyOfferedHTLCOutput { point: per_commitment_point, preimage: self.payment_preimages.m@[htlc.payment_hash].0, htlc: *htlc, params: funding_spent.channel_parameters, conf: confirmation_height }) }],
    htlc.offered && !self.payment_preimages.m@.contains_key(htlc.payment_hash) ==> final(claimable_outpoints)@.len() == 0,
//@mutant our_own_htlc_not_claimed_back_after_its_timeout
    if preimage.is_some() || !htlc.offered {
//@with
    if preimage.is_some() {
//@end
}
}

// ---- OnchainTxHandler::provide_latest_holder_tx: the commitment being replaced stays available as the previous one ---------
pub mod holder_tx_rotation {
use vstd::prelude::*;
use core::mem::replace;
pub assume_specification<T>[core::mem::replace::<T>](dest: &mut T, src: T) -> (r: T) ensures r == *old(dest), *final(dest) == src;
pub struct HolderCommitmentTransaction { pub id: u64 }
pub struct OnchainTxHandler { pub holder_commitment: HolderCommitmentTransaction, pub prev_holder_commitment: Option<HolderCommitmentTransaction> }
impl OnchainTxHandler {
//@extract lightning/src/chain/onchaintx.rs :: impl OnchainTxHandler :: fn provide_latest_holder_tx
//@ensures P C07,C05 a-new-holder-commitment-becomes-the-current-one-and-the-one-it-replaces-stays-available-as-the-previous-one
    final(self).holder_commitment == tx, final(self).prev_holder_commitment == Some(old(self).holder_commitment),
//@mutant previous_holder_commitment_forgotten
    self.prev_holder_commitment = Some(replace(&mut self.holder_commitment, tx));
//@with
    self.prev_holder_commitment = None; self.holder_commitment = tx;
//@end
}
}
}
fn main() {}
