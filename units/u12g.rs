//! unit: u12g
//! properties: C12 C10
//! note: pending events survive a restart unchanged: for each Event variant written with a hand-written TLV list, every record that carries a same-named value on both sides is written under the type the reader takes it from (Event::write / Event::read; e.g. PaymentFailed writes the reason under type 5 and its backwards-compatible stand-in under type 1, and the reader prefers 5)
//! trusted: R21 (TLV tables, `arm=K`: the K-th TLV invocation of the function; `only=`: the records whose value has the same name on both sides on the pinned tree); the lemmas state that the two lists agree; the match arms of Event::write and Event::read are paired by their position in the function (recorded here; a variant inserted in the middle moves the positions and is reported as a lost anchor or a failed lemma, to be re-paired)
//! plemma: C12 lemma_payment_claimable_records: Event::PaymentClaimable: 11 of 13 records
//! plemma: C12 lemma_payment_sent_records: Event::PaymentSent: 6 of 6 records
//! plemma: C12 lemma_payment_path_failed_records: Event::PaymentPathFailed: 6 of 11 records
//! plemma: C12 lemma_spendable_outputs_records: Event::SpendableOutputs: 2 of 3 records
//! plemma: C12 lemma_htlc_intercepted_records: Event::HtlcIntercepted: 5 of 6 records
//! plemma: C12 lemma_payment_forwarded_records: Event::PaymentForwarded: 6 of 12 records
//! plemma: C12 lemma_channel_closed_records: Event::ChannelClosed: 6 of 8 records
//! plemma: C12 lemma_discard_funding_records: Event::DiscardFunding: 3 of 3 records
//! plemma: C12 lemma_payment_path_successful_records: Event::PaymentPathSuccessful: 4 of 5 records
//! plemma: C12 lemma_payment_failed_records: Event::PaymentFailed: 5 of 5 records
//! plemma: C12 lemma_payment_claimed_records: Event::PaymentClaimed: 8 of 8 records
//! plemma: C12 lemma_probe_successful_records: Event::ProbeSuccessful: 3 of 4 records
//! plemma: C12 lemma_probe_failed_records: Event::ProbeFailed: 4 of 5 records
//! plemma: C12 lemma_htlc_handling_failed_records: Event::HtlcHandlingFailed: 2 of 4 records
//! plemma: C12 lemma_channel_pending_records: Event::ChannelPending: 5 of 5 records
//! plemma: C12 lemma_channel_ready_records: Event::ChannelReady: 7 of 7 records
//! plemma: C12 lemma_onion_message_intercepted_records: Event::OnionMessageIntercepted: 3 of 4 records
//! plemma: C12 lemma_invoice_received_records: Event::InvoiceReceived: 4 of 4 records
//! plemma: C12 lemma_funding_tx_broadcast_safe_records: Event::FundingTxBroadcastSafe: 5 of 5 records
//! plemma: C12 lemma_splice_pending_records: Event::SplicePending: 6 of 6 records
//! plemma: C12 lemma_splice_failed_records: Event::SpliceFailed: 5 of 5 records
//! trusted: assume_specification for core::cmp::max / core::cmp::min (std definitions): present in every unit so that a change that introduces them is verified instead of being rejected by the tool
use vstd::prelude::*;
verus! {
use vstd::std_specs::cmp::*;
use core::cmp;
pub assume_specification<T: core::cmp::Ord>[core::cmp::max::<T>](a: T, b: T) -> (r: T)
    ensures T::obeys_cmp_spec() ==> r == (if b.cmp_spec(&a) == core::cmp::Ordering::Less { a } else { b });
pub assume_specification<T: core::cmp::Ord>[core::cmp::min::<T>](a: T, b: T) -> (r: T)
    ensures T::obeys_cmp_spec() ==> r == (if b.cmp_spec(&a) == core::cmp::Ordering::Less { b } else { a });
//@extract lightning/src/events/mod.rs :: impl Writeable for Event :: fn write
//@fields tlvwrite payment_claimable_written arm=0 only=0:payment_hash,1:receiver_node_id,2:payment_secret,3:receiving_channel_id_legacy,4:amount_msat,5:receiving_user_channel_id_legacy,7:claim_deadline,8:payment_preimage,9:onion_fields,11:payment_context,13:payment_id
//@end
//@extract lightning/src/events/mod.rs :: impl MaybeReadable for Event :: fn read
//@fields tlvread payment_claimable_read arm=0 only=0:payment_hash,1:receiver_node_id,2:payment_secret,3:receiving_channel_id_legacy,4:amount_msat,5:receiving_user_channel_id_legacy,7:claim_deadline,8:payment_preimage,9:onion_fields,11:payment_context,13:payment_id
//@end
pub proof fn lemma_payment_claimable_records() ensures payment_claimable_written() =~= payment_claimable_read() {}
//@extract lightning/src/events/mod.rs :: impl Writeable for Event :: fn write
//@fields tlvwrite payment_sent_written arm=1 only=0:payment_preimage,1:payment_hash,3:payment_id,5:fee_paid_msat,7:amount_msat,9:bolt12_invoice
//@end
//@extract lightning/src/events/mod.rs :: impl MaybeReadable for Event :: fn read
//@fields tlvread payment_sent_read arm=1 only=0:payment_preimage,1:payment_hash,3:payment_id,5:fee_paid_msat,7:amount_msat,9:bolt12_invoice
//@end
pub proof fn lemma_payment_sent_records() ensures payment_sent_written() =~= payment_sent_read() {}
//@extract lightning/src/events/mod.rs :: impl Writeable for Event :: fn write
//@fields tlvwrite payment_path_failed_written arm=2 only=0:payment_hash,2:payment_failed_permanently,4:blinded_tail,7:short_channel_id,11:payment_id,15:hold_times
//@end
//@extract lightning/src/events/mod.rs :: impl MaybeReadable for Event :: fn read
//@fields tlvread payment_path_failed_read arm=2 only=0:payment_hash,2:payment_failed_permanently,4:blinded_tail,7:short_channel_id,11:payment_id,15:hold_times
//@end
pub proof fn lemma_payment_path_failed_records() ensures payment_path_failed_written() =~= payment_path_failed_read() {}
//@extract lightning/src/events/mod.rs :: impl Writeable for Event :: fn write
//@fields tlvwrite spendable_outputs_written arm=3 only=1:channel_id,3:counterparty_node_id
//@end
//@extract lightning/src/events/mod.rs :: impl MaybeReadable for Event :: fn read
//@fields tlvread spendable_outputs_read arm=3 only=1:channel_id,3:counterparty_node_id
//@end
pub proof fn lemma_spendable_outputs_records() ensures spendable_outputs_written() =~= spendable_outputs_read() {}
//@extract lightning/src/events/mod.rs :: impl Writeable for Event :: fn write
//@fields tlvwrite htlc_intercepted_written arm=4 only=0:intercept_id,1:outgoing_htlc_expiry_block_height,4:payment_hash,6:inbound_amount_msat,8:expected_outbound_amount_msat
//@end
//@extract lightning/src/events/mod.rs :: impl MaybeReadable for Event :: fn read
//@fields tlvread htlc_intercepted_read arm=4 only=0:intercept_id,1:outgoing_htlc_expiry_block_height,4:payment_hash,6:inbound_amount_msat,8:expected_outbound_amount_msat
//@end
pub proof fn lemma_htlc_intercepted_records() ensures htlc_intercepted_written() =~= htlc_intercepted_read() {}
//@extract lightning/src/events/mod.rs :: impl Writeable for Event :: fn write
//@fields tlvwrite payment_forwarded_written arm=5 only=0:total_fee_earned_msat,2:claim_from_onchain_tx,5:outbound_amount_forwarded_msat,7:skimmed_fee_msat,17:prev_htlcs,19:next_htlcs
//@end
//@extract lightning/src/events/mod.rs :: impl MaybeReadable for Event :: fn read
//@fields tlvread payment_forwarded_read arm=5 only=0:total_fee_earned_msat,2:claim_from_onchain_tx,5:outbound_amount_forwarded_msat,7:skimmed_fee_msat,17:prev_htlcs,19:next_htlcs
//@end
pub proof fn lemma_payment_forwarded_records() ensures payment_forwarded_written() =~= payment_forwarded_read() {}
//@extract lightning/src/events/mod.rs :: impl Writeable for Event :: fn write
//@fields tlvwrite channel_closed_written arm=6 only=0:channel_id,2:reason,5:counterparty_node_id,7:channel_capacity_sats,9:channel_funding_txo,11:last_local_balance_msat
//@end
//@extract lightning/src/events/mod.rs :: impl MaybeReadable for Event :: fn read
//@fields tlvread channel_closed_read arm=6 only=0:channel_id,2:reason,5:counterparty_node_id,7:channel_capacity_sats,9:channel_funding_txo,11:last_local_balance_msat
//@end
pub proof fn lemma_channel_closed_records() ensures channel_closed_written() =~= channel_closed_read() {}
//@extract lightning/src/events/mod.rs :: impl Writeable for Event :: fn write
//@fields tlvwrite discard_funding_written arm=7 only=0:channel_id,2:transaction,4:funding_info
//@end
//@extract lightning/src/events/mod.rs :: impl MaybeReadable for Event :: fn read
//@fields tlvread discard_funding_read arm=7 only=0:channel_id,2:transaction,4:funding_info
//@end
pub proof fn lemma_discard_funding_records() ensures discard_funding_written() =~= discard_funding_read() {}
//@extract lightning/src/events/mod.rs :: impl Writeable for Event :: fn write
//@fields tlvwrite payment_path_successful_written arm=8 only=0:payment_id,1:hold_times,2:payment_hash,6:blinded_tail
//@end
//@extract lightning/src/events/mod.rs :: impl MaybeReadable for Event :: fn read
//@fields tlvread payment_path_successful_read arm=8 only=0:payment_id,1:hold_times,2:payment_hash,6:blinded_tail
//@end
pub proof fn lemma_payment_path_successful_records() ensures payment_path_successful_written() =~= payment_path_successful_read() {}
//@extract lightning/src/events/mod.rs :: impl Writeable for Event :: fn write
//@fields tlvwrite payment_failed_written arm=9 only=0:payment_id,1:legacy_reason,2:payment_hash,3:invoice_received,5:reason
//@mutant the_stand_in_reason_written_under_the_type_of_the_real_one
    (5, reason, option),
//@with
    (5, legacy_reason, option),
//@end
//@extract lightning/src/events/mod.rs :: impl MaybeReadable for Event :: fn read
//@fields tlvread payment_failed_read arm=9 only=0:payment_id,1:legacy_reason,2:payment_hash,3:invoice_received,5:reason
//@end
pub proof fn lemma_payment_failed_records() ensures payment_failed_written() =~= payment_failed_read() {}
//@extract lightning/src/events/mod.rs :: impl Writeable for Event :: fn write
//@fields tlvwrite payment_claimed_written arm=10 only=0:payment_hash,1:receiver_node_id,2:purpose,4:amount_msat,5:htlcs,7:sender_intended_total_msat,9:onion_fields,11:payment_id
//@end
//@extract lightning/src/events/mod.rs :: impl MaybeReadable for Event :: fn read
//@fields tlvread payment_claimed_read arm=10 only=0:payment_hash,1:receiver_node_id,2:purpose,4:amount_msat,5:htlcs,7:sender_intended_total_msat,9:onion_fields,11:payment_id
//@end
pub proof fn lemma_payment_claimed_records() ensures payment_claimed_written() =~= payment_claimed_read() {}
//@extract lightning/src/events/mod.rs :: impl Writeable for Event :: fn write
//@fields tlvwrite probe_successful_written arm=11 only=0:payment_id,2:payment_hash,6:blinded_tail
//@end
//@extract lightning/src/events/mod.rs :: impl MaybeReadable for Event :: fn read
//@fields tlvread probe_successful_read arm=11 only=0:payment_id,2:payment_hash,6:blinded_tail
//@end
pub proof fn lemma_probe_successful_records() ensures probe_successful_written() =~= probe_successful_read() {}
//@extract lightning/src/events/mod.rs :: impl Writeable for Event :: fn write
//@fields tlvwrite probe_failed_written arm=12 only=0:payment_id,2:payment_hash,6:short_channel_id,8:blinded_tail
//@end
//@extract lightning/src/events/mod.rs :: impl MaybeReadable for Event :: fn read
//@fields tlvread probe_failed_read arm=12 only=0:payment_id,2:payment_hash,6:short_channel_id,8:blinded_tail
//@end
pub proof fn lemma_probe_failed_records() ensures probe_failed_written() =~= probe_failed_read() {}
//@extract lightning/src/events/mod.rs :: impl Writeable for Event :: fn write
//@fields tlvwrite htlc_handling_failed_written arm=13 only=1:failure_reason,3:prev_channel_ids
//@end
//@extract lightning/src/events/mod.rs :: impl MaybeReadable for Event :: fn read
//@fields tlvread htlc_handling_failed_read arm=13 only=1:failure_reason,3:prev_channel_ids
//@end
pub proof fn lemma_htlc_handling_failed_records() ensures htlc_handling_failed_written() =~= htlc_handling_failed_read() {}
//@extract lightning/src/events/mod.rs :: impl Writeable for Event :: fn write
//@fields tlvwrite channel_pending_written arm=15 only=0:channel_id,1:funding_txo,2:user_channel_id,4:counterparty_node_id,6:channel_type
//@end
//@extract lightning/src/events/mod.rs :: impl MaybeReadable for Event :: fn read
//@fields tlvread channel_pending_read arm=14 only=0:channel_id,1:funding_txo,2:user_channel_id,4:counterparty_node_id,6:channel_type
//@end
pub proof fn lemma_channel_pending_records() ensures channel_pending_written() =~= channel_pending_read() {}
//@extract lightning/src/events/mod.rs :: impl Writeable for Event :: fn write
//@fields tlvwrite channel_ready_written arm=16 only=0:channel_id,1:channel_type,2:user_channel_id,4:former_temporary_channel_id,6:counterparty_node_id,8:funding_txo,9:funding_redeem_script
//@end
//@extract lightning/src/events/mod.rs :: impl MaybeReadable for Event :: fn read
//@fields tlvread channel_ready_read arm=15 only=0:channel_id,1:channel_type,2:user_channel_id,4:former_temporary_channel_id,6:counterparty_node_id,8:funding_txo,9:funding_redeem_script
//@end
pub proof fn lemma_channel_ready_records() ensures channel_ready_written() =~= channel_ready_read() {}
//@extract lightning/src/events/mod.rs :: impl Writeable for Event :: fn write
//@fields tlvwrite onion_message_intercepted_written arm=17 only=1:next_hop,2:message,3:prev_hop
//@end
//@extract lightning/src/events/mod.rs :: impl MaybeReadable for Event :: fn read
//@fields tlvread onion_message_intercepted_read arm=17 only=1:next_hop,2:message,3:prev_hop
//@end
pub proof fn lemma_onion_message_intercepted_records() ensures onion_message_intercepted_written() =~= onion_message_intercepted_read() {}
//@extract lightning/src/events/mod.rs :: impl Writeable for Event :: fn write
//@fields tlvwrite invoice_received_written arm=19 only=0:payment_id,2:invoice,4:context,6:responder
//@end
//@extract lightning/src/events/mod.rs :: impl MaybeReadable for Event :: fn read
//@fields tlvread invoice_received_read arm=19 only=0:payment_id,2:invoice,4:context,6:responder
//@end
pub proof fn lemma_invoice_received_records() ensures invoice_received_written() =~= invoice_received_read() {}
//@extract lightning/src/events/mod.rs :: impl Writeable for Event :: fn write
//@fields tlvwrite funding_tx_broadcast_safe_written arm=20 only=0:channel_id,2:user_channel_id,4:funding_txo,6:counterparty_node_id,8:former_temporary_channel_id
//@end
//@extract lightning/src/events/mod.rs :: impl MaybeReadable for Event :: fn read
//@fields tlvread funding_tx_broadcast_safe_read arm=20 only=0:channel_id,2:user_channel_id,4:funding_txo,6:counterparty_node_id,8:former_temporary_channel_id
//@end
pub proof fn lemma_funding_tx_broadcast_safe_records() ensures funding_tx_broadcast_safe_written() =~= funding_tx_broadcast_safe_read() {}
//@extract lightning/src/events/mod.rs :: impl Writeable for Event :: fn write
//@fields tlvwrite splice_pending_written arm=21 only=1:channel_id,3:channel_type,5:user_channel_id,7:counterparty_node_id,9:new_funding_txo,11:new_funding_redeem_script
//@end
//@extract lightning/src/events/mod.rs :: impl MaybeReadable for Event :: fn read
//@fields tlvread splice_pending_read arm=21 only=1:channel_id,3:channel_type,5:user_channel_id,7:counterparty_node_id,9:new_funding_txo,11:new_funding_redeem_script
//@end
pub proof fn lemma_splice_pending_records() ensures splice_pending_written() =~= splice_pending_read() {}
//@extract lightning/src/events/mod.rs :: impl Writeable for Event :: fn write
//@fields tlvwrite splice_failed_written arm=22 only=1:channel_id,5:user_channel_id,7:counterparty_node_id,11:reason,13:contribution
//@end
//@extract lightning/src/events/mod.rs :: impl MaybeReadable for Event :: fn read
//@fields tlvread splice_failed_read arm=22 only=1:channel_id,5:user_channel_id,7:counterparty_node_id,11:reason,13:contribution
//@end
pub proof fn lemma_splice_failed_records() ensures splice_failed_written() =~= splice_failed_read() {}
}
fn main() {}
