//! unit: u15f
//! properties: C15
//! note: the read buffer the peer handler allocates for each step of the BOLT-8 handshake is exactly as long as the production assertion of the encryptor function that will be handed it demands (act one 50, act two 50, act three 66, length header 18 bytes): the encryptor's `assert_eq!(act.len(), N)` are preconditions in u15 / u15c, and a peer controls when the buffer is full but not its length, so these literals are what keeps "no sequence of bytes from a peer can panic the node" true across the handshake. Eight literal slices: the two connection constructors, the three handshake arms of do_read_event, and the four assertions
//! trusted: R15 (deep slices): each slice is one literal of the source, verbatim, as the body of a function; that the buffer allocated in one step is the one passed to the encryptor in the next is the control flow of do_read_event (the framing invariant of u15b: the buffer is handed on only when full)
//! trusted: assume_specification for core::cmp::max / core::cmp::min (std definitions): present in every unit so that a change that introduces them is verified instead of being rejected by the tool
use vstd::prelude::*;
verus! {
use vstd::std_specs::cmp::*;
use core::cmp;
pub assume_specification<T: core::cmp::Ord>[core::cmp::max::<T>](a: T, b: T) -> (r: T)
    ensures T::obeys_cmp_spec() ==> r == (if b.cmp_spec(&a) == core::cmp::Ordering::Less { a } else { b });
pub assume_specification<T: core::cmp::Ord>[core::cmp::min::<T>](a: T, b: T) -> (r: T)
    ensures T::obeys_cmp_spec() ==> r == (if b.cmp_spec(&a) == core::cmp::Ordering::Less { b } else { a });
// BOLT 8
pub open spec fn act_one_len() -> usize { 50 }
pub open spec fn act_two_len() -> usize { 50 }
pub open spec fn act_three_len() -> usize { 66 }
pub open spec fn length_header_len() -> usize { 18 }
//@extract lightning/src/ln/peer_handler.rs :: impl PeerManager :: fn new_outbound_connection
//@slice R15
    let pending_read_buffer = [0; $n:lit].to_vec();
//@with
    fn first_read_of_the_initiator() -> usize { $n }
//@ret r
//@ensures P C15 the-initiator-first-waits-for-exactly-an-act-two
    r == act_two_len(),
//@end
//@extract lightning/src/ln/peer_handler.rs :: impl PeerManager :: fn new_inbound_connection
//@slice R15
    let pending_read_buffer = [0; $n:lit].to_vec();
//@with
    fn first_read_of_the_responder() -> usize { $n }
//@ret r
//@ensures P C15 the-responder-first-waits-for-exactly-an-act-one
    r == act_one_len(),
//@end
//@extract lightning/src/ln/peer_handler.rs :: impl PeerManager :: fn do_read_event
//@slice R15 nth=1
    peer.pending_read_buffer = [0; $n:lit].to_vec();
//@with
    fn read_after_act_one() -> usize { $n }
//@ret r
//@ensures P C15 after-an-act-one-the-responder-waits-for-exactly-an-act-three
    r == act_three_len(),
//@mutant act_three_buffer_one_byte_short
    peer.pending_read_buffer = [0; 66].to_vec();
//@with
    peer.pending_read_buffer = [0; 65].to_vec();
//@end
//@extract lightning/src/ln/peer_handler.rs :: impl PeerManager :: fn do_read_event
//@slice R15 nth=2
    peer.pending_read_buffer = [0; $n:lit].to_vec();
//@with
    fn read_after_act_two() -> usize { $n }
//@ret r
//@ensures P C15 after-an-act-two-the-initiator-waits-for-exactly-a-length-header
    r == length_header_len(),
//@end
//@extract lightning/src/ln/peer_handler.rs :: impl PeerManager :: fn do_read_event
//@slice R15 nth=3
    peer.pending_read_buffer = [0; $n:lit].to_vec();
//@with
    fn read_after_act_three() -> usize { $n }
//@ret r
//@ensures P C15 after-an-act-three-the-responder-waits-for-exactly-a-length-header
    r == length_header_len(),
//@end
//@extract lightning/src/ln/peer_channel_encryptor.rs :: impl PeerChannelEncryptor :: fn process_act_one_with_keys
//@slice R15
    assert!((act_one.len()) == ($n:lit));
//@with
    fn act_one_length_asserted() -> usize { $n }
//@ret r
//@ensures P C15 the-encryptor-asserts-an-act-one-of-exactly-the-length-the-handler-reads
    r == act_one_len(),
//@end
//@extract lightning/src/ln/peer_channel_encryptor.rs :: impl PeerChannelEncryptor :: fn process_act_two
//@slice R15
    assert!((act_two.len()) == ($n:lit));
//@with
    fn act_two_length_asserted() -> usize { $n }
//@ret r
//@ensures P C15 the-encryptor-asserts-an-act-two-of-exactly-the-length-the-handler-reads
    r == act_two_len(),
//@end
//@extract lightning/src/ln/peer_channel_encryptor.rs :: impl PeerChannelEncryptor :: fn process_act_three
//@slice R15
    assert!((act_three.len()) == ($n:lit));
//@with
    fn act_three_length_asserted() -> usize { $n }
//@ret r
//@ensures P C15 the-encryptor-asserts-an-act-three-of-exactly-the-length-the-handler-reads
    r == act_three_len(),
//@mutant act_three_asserted_longer_than_the_handler_reads
    assert_eq!(act_three.len(), 66);
//@with
    assert_eq!(act_three.len(), 67);
//@end
//@extract lightning/src/ln/peer_channel_encryptor.rs :: impl PeerChannelEncryptor :: fn decrypt_length_header
//@slice R15
    assert!((msg.len()) == ($a:lit + $b:lit));
//@with
    fn length_header_length_asserted() -> usize { $a + $b }
//@ret r
//@ensures P C15 the-encryptor-asserts-a-length-header-of-exactly-the-length-the-handler-reads
    r == length_header_len(),
//@end
// a ping is answered exactly when the pong it asks for fits a Lightning message: type (2) + length (2) + padding must stay within the 65535 bytes the transport carries (BOLT 1: ponglen < 65532); the encryptor refuses anything longer (u15, a debug assertion there), so answering a longer request would be a peer-triggered failure
pub struct PingMsg { pub ponglen: u16 }
//@extract lightning/src/ln/peer_handler.rs :: impl PeerManager :: fn do_handle_message_without_peer_lock
//@slice R15
    Message::Ping(msg) => { if $c:cond { let resp = msgs::Pong { byteslen: msg.ponglen };
//@with
    fn a_ping_is_answered(msg: &PingMsg) -> bool { $c }
//@ret r
//@ensures P C15 a-ping-is-answered-exactly-when-the-pong-it-asks-for-fits-a-lightning-message
    r == (2 + 2 + msg.ponglen as int <= 65535),
//@mutant ping_for_a_pong_one_byte_too_long_answered
    if msg.ponglen < 65532 {
//@with
    if msg.ponglen <= 65532 {
//@end
}
fn main() {}
