//! unit: u18h
//! properties: C18
//! note: BOLT-11 tagged fields (lightning-invoice de.rs parse_tagged_parts, whole): the data part after the timestamp is cut into fields of one tag symbol, two length symbols L (big-endian base 32, so at most 1023: LDK's `expect("can't overflow")` is an obligation here) and exactly L data symbols; the fields follow each other without gap or overlap and together are the whole input (nothing is skipped, nothing read twice, nothing left over); a field that ends beyond the input, or fewer than three symbols where a field should start, is refused; a field whose content does not parse is kept verbatim as an unknown field when the failure is one of the three "skip" kinds and refuses the invoice otherwise
//! trusted: R5: `&data[a..b]` / `&data[a..]` are vstd's slice_subrange (same elements); Fe32 is its 5-bit value; parse_u16_be (a fold over checked_mul / checked_add, macro-generated) is an external_body stub with its meaning for inputs of up to three symbols (big-endian base 32, never None below 2^16); TaggedField::from_base32 is any function of the field (it keeps the symbols it was given as ghost data so that the partition can be stated); `field.into()` copies the symbols into a vector
//! trusted: assume_specification for core::cmp::max / core::cmp::min (std definitions): present in every unit so that a change that introduces them is verified instead of being rejected by the tool
use vstd::prelude::*;
verus! {
use vstd::std_specs::cmp::*;
use vstd::slice::*;
use core::cmp;
pub assume_specification<T: core::cmp::Ord>[core::cmp::max::<T>](a: T, b: T) -> (r: T)
    ensures T::obeys_cmp_spec() ==> r == (if b.cmp_spec(&a) == core::cmp::Ordering::Less { a } else { b });
pub assume_specification<T: core::cmp::Ord>[core::cmp::min::<T>](a: T, b: T) -> (r: T)
    ensures T::obeys_cmp_spec() ==> r == (if b.cmp_spec(&a) == core::cmp::Ordering::Less { b } else { a });
#[derive(Clone, Copy, PartialEq, Eq)] pub struct Fe32(pub u8);
pub open spec fn fe_ok(s: Seq<Fe32>) -> bool { forall|k: int| 0 <= k < s.len() ==> (#[trigger] s[k]).0 < 32 }
pub enum Bolt11ParseError { UnexpectedEndOfTaggedFields, Skip, InvalidSliceLength(usize, usize, u8), Bech32Error(u8), Other(u8) }
pub struct TaggedField { pub raw: Ghost<Seq<Fe32>> }
pub uninterp spec fn field_parse(f: Seq<Fe32>) -> Option<Bolt11ParseError>;
impl TaggedField {
    #[verifier::external_body] pub fn from_base32(field: &[Fe32]) -> (r: Result<TaggedField, Bolt11ParseError>)
        ensures r is Ok ==> r->Ok_0.raw@ == field@ { unimplemented!() }
}
pub enum RawTaggedField { KnownSemantics(TaggedField), UnknownSemantics(Vec<Fe32>) }
pub open spec fn raw_of(p: RawTaggedField) -> Seq<Fe32> { match p { RawTaggedField::KnownSemantics(t) => t.raw@, RawTaggedField::UnknownSemantics(v) => v@ } }
pub open spec fn flat(ps: Seq<RawTaggedField>) -> Seq<Fe32> decreases ps.len() { if ps.len() == 0 { Seq::empty() } else { flat(ps.drop_last()) + raw_of(ps.last()) } }
pub open spec fn well_framed(f: Seq<Fe32>) -> bool { f.len() >= 3 && f.len() == 3 + 32 * (f[1].0 as int) + (f[2].0 as int) }
#[verifier::external_body] pub fn parse_u16_be(digits: &[Fe32]) -> (r: Option<u16>)
    requires digits@.len() == 2, fe_ok(digits@)
    ensures r == Some((32 * (digits@[0].0 as int) + digits@[1].0 as int) as u16) { unimplemented!() }
#[verifier::external_body] pub fn into_vec(field: &[Fe32]) -> (r: Vec<Fe32>) ensures r@ == field@ { unimplemented!() }
//@extract lightning-invoice/src/de.rs :: fn parse_tagged_parts
//@rw * R5
    &data[$a:seq..$b:seq]
//@with
    slice_subrange(data, $a, $b)
//@rw * R5
    &data[$a:seq..]
//@with
    slice_subrange(data, $a, data.len())
//@rw R5
    field.into()
//@with
    into_vec(field)
//@rw R5
    Vec::<RawTaggedField>::new()
//@with
    Vec::new()
//@at before_loop 1
    let ghost data0 = data@;
    proof { assert(flat(parts@) + data@ =~= data0); }
//@loop 1
    invariant fe_ok(data0), flat(parts@) + data@ =~= data0, forall|k: int| 0 <= k < parts@.len() ==> well_framed(raw_of(#[trigger] parts@[k])),
    decreases data@.len()
//@at loop_body_start 1
    let ghost d_in = data@; let ghost p_in = parts@;
    proof { assert forall|k: int| 0 <= k < d_in.len() implies (#[trigger] d_in[k]).0 < 32 by { assert(d_in[k] == data0[flat(p_in).len() + k]); } }
//@at loop_body_end 1
    proof {
        assert(parts@.drop_last() =~= p_in);
        assert(raw_of(parts@.last()) =~= d_in.subrange(0, last_element as int));
        assert(d_in.subrange(0, last_element as int) + data@ =~= d_in);
        assert(flat(parts@) + data@ =~= flat(p_in) + d_in);
    }
//@ret r
//@requires
    fe_ok(data@),
//@ensures P C18 the-tagged-fields-of-an-invoice-partition-its-data-part-each-is-a-tag-two-length-symbols-and-exactly-that-many-data-symbols
    r is Ok ==> flat(r->Ok_0@) =~= data@ && forall|k: int| 0 <= k < r->Ok_0@.len() ==> well_framed(raw_of(#[trigger] r->Ok_0@[k])),
//@mutant field_length_read_from_the_tag_and_first_length_symbol
    parse_u16_be(&data[1..3])
//@with
    parse_u16_be(&data[0..2])
//@mutant one_symbol_skipped_after_every_field
    data = &data[last_element..];
//@with
    data = &data[last_element + 1..];
//@end
}
fn main() {}
