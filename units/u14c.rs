//! unit: u14c
//! properties: C14
//! note: which key peels which layer (onion_utils.rs decode_next_payment_hop): the shared secret of the outer onion is the ECDH of the hop's ephemeral key with our node key tweaked by the blinding point that came with the update_add_htlc; the shared secret of the inner (trampoline) onion is the ECDH of the trampoline packet's ephemeral key with our node key tweaked by the path key carried in the OUTER payload (current_path_key), and that same path key is what the inner payload is parsed against. A hop that derives either secret from the other layer's blinding point fails the HMAC test on an honestly built onion and never obtains its instructions.
//! trusted: R15 (deep slices of decode_next_payment_hop): the statements that derive the two shared secrets and the two decode_next_hop calls, verbatim; the match on the decoded payloads after them is dropped and not claimed
//! trusted: R15 (deep slice): decode_next_payment_hop: the `match decoded_trampoline_hop { .. }` verbatim as a function of the decode result, the outer payload, the two secrets and the packet's ephemeral key; enum Hop (with its accessors shared_secret / trampoline_shared_secret, extracted whole), OnionDecodeErr and InboundTrampolinePayload are extracted over opaque payload skeletons
//! trusted: R5: NS is instantiated with an opaque signer whose ecdh(recipient, key, tweak) returns the uninterpreted ecdh_spec of its arguments and succeeds (as the source's unwrap assumes); decode_next_hop is replaced by a recorder of its arguments (decode_next_hop itself: u14b)
//! trusted: R8: `b"blinded_node_id"` is the external_body wrapper blinded_node_id_tag() (Verus gives byte-string literals no value); closure annotation: `|bp|` is written `|bp: PublicKey| -> (t: Scalar) ensures t == path_key_tweak(recipient, bp)` (Verus treats an exec closure without ensures as opaque; the closure body is verified against that clause)
//! trusted: env: HmacEngine is a stub that records key and the concatenation of its inputs in ghost fields; Hmac::from_engine(..).to_byte_array() is the uninterpreted hmac_sha256_tag(key, data); Scalar::from_be_bytes succeeds on an HMAC output (as the source's unwrap assumes)
//! trusted: assume_specification for <[T; N] as AsRef<[T]>>::as_ref (std definition: the same elements); assume_specification for core::cmp::max / core::cmp::min (std definitions): present in every unit so that a change that introduces them is verified instead of being rejected by the tool
use vstd::prelude::*;
verus! {
use vstd::std_specs::cmp::*;
use core::cmp;
pub assume_specification<T: core::cmp::Ord>[core::cmp::max::<T>](a: T, b: T) -> (r: T)
    ensures T::obeys_cmp_spec() ==> r == (if b.cmp_spec(&a) == core::cmp::Ordering::Less { a } else { b });
pub assume_specification<T: core::cmp::Ord>[core::cmp::min::<T>](a: T, b: T) -> (r: T)
    ensures T::obeys_cmp_spec() ==> r == (if b.cmp_spec(&a) == core::cmp::Ordering::Less { b } else { a });
pub assume_specification<T, const N: usize> [<[T; N] as core::convert::AsRef<[T]>>::as_ref] (a: &[T; N]) -> (r: &[T]) ensures r@ == a@;
//@extract lightning/src/sign/mod.rs :: enum Recipient
//@derive Clone Copy
//@end
#[derive(Clone, Copy)]
pub struct PublicKey { pub k: [u8; 33] }
#[derive(Clone, Copy)]
pub struct PaymentHash(pub [u8; 32]);
pub struct Scalar { pub v: [u8; 32] }
#[derive(Debug)]
pub struct OutOfRange {}
impl Scalar { #[verifier::external_body] pub fn from_be_bytes(b: [u8; 32]) -> (r: Result<Scalar, OutOfRange>) ensures r matches Ok(s) && s.v == b { unimplemented!() } }
#[derive(Clone, Copy)] pub struct SharedSecret { pub v: [u8; 32] }
impl SharedSecret {
    #[verifier::external_body] pub fn secret_bytes(&self) -> (r: [u8; 32]) ensures r == self.v { unimplemented!() }
    #[verifier::external_body] pub fn from_bytes(b: [u8; 32]) -> (r: SharedSecret) ensures r.v == b { unimplemented!() }
}
pub uninterp spec fn ecdh_spec(recipient: Recipient, other_key: PublicKey, tweak: Option<Scalar>) -> [u8; 32];
pub uninterp spec fn hmac_sha256_tag(key: Seq<u8>, data: Seq<u8>) -> [u8; 32];
pub open spec fn deref_opt(t: Option<&Scalar>) -> Option<Scalar> { match t { Some(s) => Some(*s), None => None } }
pub struct Signer {}
impl Signer {
    #[verifier::external_body] pub fn ecdh(&self, recipient: Recipient, other_key: &PublicKey, tweak: Option<&Scalar>) -> (r: Result<SharedSecret, ()>)
        ensures r matches Ok(s) && s.v == ecdh_spec(recipient, *other_key, deref_opt(tweak)) { unimplemented!() }
}
pub struct Sha256 {}
pub struct HmacEngine { pub key: Ghost<Seq<u8>>, pub data: Ghost<Seq<u8>> }
impl HmacEngine {
    #[verifier::external_body] pub fn new(key: &[u8]) -> (r: HmacEngine) ensures r.key@ == key@, r.data@ == Seq::<u8>::empty() { unimplemented!() }
    #[verifier::external_body] pub fn input(&mut self, d: &[u8]) ensures final(self).key@ == old(self).key@, final(self).data@ == old(self).data@ + d@ { unimplemented!() }
}
pub struct Hmac { pub v: [u8; 32] }
impl Hmac {
    #[verifier::external_body] pub fn from_engine(e: HmacEngine) -> (r: Hmac) ensures r.v == hmac_sha256_tag(e.key@, e.data@) { unimplemented!() }
    #[verifier::external_body] pub fn to_byte_array(self) -> (r: [u8; 32]) ensures r == self.v { unimplemented!() }
}
pub uninterp spec fn blinded_node_id_tag_bytes() -> Seq<u8>;
#[verifier::external_body] pub fn blinded_node_id_tag() -> (r: &'static [u8]) ensures r@ == blinded_node_id_tag_bytes() { b"blinded_node_id" }
// BOLT 4 route blinding: the factor by which a node's key is multiplied for a given path key
pub open spec fn path_key_tweak(recipient: Recipient, bp: PublicKey) -> Scalar {
    Scalar { v: hmac_sha256_tag(blinded_node_id_tag_bytes(), ecdh_spec(recipient, bp, None)@) }
}
pub open spec fn tweak_for(recipient: Recipient, path_key: Option<PublicKey>) -> Option<Scalar> {
    match path_key { Some(bp) => Some(path_key_tweak(recipient, bp)), None => None }
}
pub struct TrampolineOnionPacket { pub version: u8, pub public_key: PublicKey, pub hop_data: Vec<u8>, pub hmac: [u8; 32] }
pub struct InboundTrampolineEntrypointPayload { pub amt_to_forward: u64, pub outgoing_cltv_value: u32, pub trampoline_packet: TrampolineOnionPacket, pub current_path_key: Option<PublicKey> }
pub struct DecodeCall { pub secret: [u8; 32], pub data: Seq<u8>, pub hmac: [u8; 32], pub payment_hash: Option<PaymentHash>, pub path_key: Option<PublicKey> }
#[verifier::external_body] pub fn decode_outer<T>(secret: [u8; 32], hop_data: &[u8], hmac_bytes: [u8; 32], payment_hash: Option<PaymentHash>, read_args: (Option<PublicKey>, T)) -> (r: Ghost<DecodeCall>)
    ensures r@ == (DecodeCall { secret, data: hop_data@, hmac: hmac_bytes, payment_hash, path_key: read_args.0 }) { unimplemented!() }
#[verifier::external_body] pub fn decode_inner<T>(secret: [u8; 32], hop_data: &Vec<u8>, hmac_bytes: [u8; 32], payment_hash: Option<PaymentHash>, read_args: (Option<PublicKey>, T)) -> (r: Ghost<DecodeCall>)
    ensures r@ == (DecodeCall { secret, data: hop_data@, hmac: hmac_bytes, payment_hash, path_key: read_args.0 }) { unimplemented!() }

//@extract lightning/src/ln/onion_utils.rs :: fn decode_next_payment_hop
//@slice R15
    let blinded_node_id_tweak = $src:seq.map(|bp| { $c:any }); let shared_secret = $e:seq; let decoded_hop: $ty:seq = decode_next_hop($args:any); match decoded_hop {
//@with
    fn peel_outer_layer(recipient: Recipient, hop_pubkey: &PublicKey, hop_data: &[u8], hmac_bytes: [u8; 32], payment_hash: PaymentHash, blinding_point: Option<PublicKey>, node_signer: &Signer) -> (SharedSecret, Ghost<DecodeCall>) {
        let blinded_node_id_tweak = $src.map(|bp: PublicKey| -> (t: Scalar) ensures t == path_key_tweak(recipient, bp) { $c });
        let shared_secret = $e;
        let decoded_hop = decode_outer($args);
        (shared_secret, decoded_hop)
    }
//@rw R8 *
    HmacEngine::<Sha256>::new(b"blinded_node_id")
//@with
    HmacEngine::new(blinded_node_id_tag())
//@ret r
//@ensures P C14 the-outer-onion-is-peeled-with-our-key-tweaked-by-the-blinding-point-of-the-update-add-htlc
    r.0.v == ecdh_spec(recipient, *hop_pubkey, tweak_for(recipient, blinding_point)),
    r.1@ == (DecodeCall { secret: r.0.v, data: hop_data@, hmac: hmac_bytes, payment_hash: Some(payment_hash), path_key: blinding_point }),
//@mutant outer_secret_not_tweaked
    node_signer.ecdh(recipient, hop_pubkey, blinded_node_id_tweak.as_ref()).unwrap();
//@with
    node_signer.ecdh(recipient, hop_pubkey, None).unwrap();
//@end
//@extract lightning/src/ln/onion_utils.rs :: fn decode_next_payment_hop
//@slice R15
    let incoming_trampoline_public_key = $pk:seq; let trampoline_blinded_node_id_tweak = $src:seq.map(|bp| { $c:any }); let trampoline_shared_secret = $e:seq; let decoded_trampoline_hop: $ty:seq = decode_next_hop($args:any); match decoded_trampoline_hop {
//@with
    fn peel_trampoline_layer(recipient: Recipient, hop_data: InboundTrampolineEntrypointPayload, payment_hash: PaymentHash, blinding_point: Option<PublicKey>, node_signer: &Signer) -> (PublicKey, [u8; 32], Ghost<DecodeCall>) {
        let ghost hop_data0 = hop_data;
        let incoming_trampoline_public_key = $pk;
        let trampoline_blinded_node_id_tweak = $src.map(|bp: PublicKey| -> (t: Scalar) ensures t == path_key_tweak(recipient, bp) { $c });
        let trampoline_shared_secret = $e;
        let decoded_trampoline_hop = decode_inner($args);
        (incoming_trampoline_public_key, trampoline_shared_secret, decoded_trampoline_hop)
    }
//@rw R8 *
    HmacEngine::<Sha256>::new(b"blinded_node_id")
//@with
    HmacEngine::new(blinded_node_id_tag())
//@ret r
//@ensures P C14 the-trampoline-onion-is-peeled-with-our-key-tweaked-by-the-path-key-carried-in-the-outer-payload
    r.0 == hop_data.trampoline_packet.public_key,
    r.1 == ecdh_spec(recipient, hop_data.trampoline_packet.public_key, tweak_for(recipient, hop_data.current_path_key)),
    r.2@ == (DecodeCall { secret: r.1, data: hop_data.trampoline_packet.hop_data@, hmac: hop_data.trampoline_packet.hmac, payment_hash: Some(payment_hash), path_key: hop_data.current_path_key }),
//@mutant trampoline_secret_tweaked_by_the_outer_blinding_point
    let trampoline_blinded_node_id_tweak = hop_data.current_path_key.map(
//@with
    let trampoline_blinded_node_id_tweak = blinding_point.map(
//@mutant trampoline_payload_parsed_against_the_outer_blinding_point
    (hop_data.current_path_key, node_signer)
//@with
    (blinding_point, node_signer)
//@end

// ---- what is reported after the trampoline layer was peeled: which of the two secrets goes where ----
pub mod peeled {
use vstd::prelude::*;
use super::{SharedSecret, PublicKey, InboundTrampolineEntrypointPayload};
//@const lightning/src/ln/onion_utils.rs ONION_DATA_LEN
pub struct InboundOnionForwardPayload {} pub struct InboundOnionBlindedForwardPayload {} pub struct InboundOnionDummyPayload {} pub struct InboundOnionReceivePayload { pub id: u64 }
pub struct InboundOnionBlindedReceivePayload { pub intro_node_blinding_point: Option<PublicKey>, pub id: u64 }
pub struct InboundTrampolineForwardPayload { pub id: u64 }
pub struct InboundTrampolineBlindedForwardPayload { pub intro_node_blinding_point: Option<PublicKey>, pub id: u64 }
pub enum LocalHTLCFailureReason { InvalidOnionPayload, InvalidOnionBlinding, InvalidTrampolinePayload, Other }
//@extract lightning/src/ln/msgs.rs :: mod fuzzy_internal_msgs :: enum InboundTrampolinePayload
//@end
//@extract lightning/src/ln/onion_utils.rs :: enum Hop
//@strip msgs
//@end
//@extract lightning/src/ln/onion_utils.rs :: enum OnionDecodeErr
//@end
// the secret of the outer layer / of the trampoline layer a peeled hop reports (failures are encrypted back under them, attribution uses them)
pub open spec fn outer_secret_of(h: Hop) -> SharedSecret {
    match h {
        Hop::Forward { shared_secret, .. } => shared_secret, Hop::BlindedForward { shared_secret, .. } => shared_secret, Hop::Dummy { shared_secret, .. } => shared_secret,
        Hop::Receive { shared_secret, .. } => shared_secret, Hop::BlindedReceive { shared_secret, .. } => shared_secret,
        Hop::TrampolineForward { outer_shared_secret, .. } => outer_shared_secret, Hop::TrampolineBlindedForward { outer_shared_secret, .. } => outer_shared_secret,
        Hop::TrampolineReceive { outer_shared_secret, .. } => outer_shared_secret, Hop::TrampolineBlindedReceive { outer_shared_secret, .. } => outer_shared_secret,
    }
}
pub open spec fn trampoline_secret_of(h: Hop) -> Option<SharedSecret> {
    match h {
        Hop::TrampolineForward { trampoline_shared_secret, .. } => Some(trampoline_shared_secret), Hop::TrampolineBlindedForward { trampoline_shared_secret, .. } => Some(trampoline_shared_secret),
        Hop::TrampolineReceive { trampoline_shared_secret, .. } => Some(trampoline_shared_secret), Hop::TrampolineBlindedReceive { trampoline_shared_secret, .. } => Some(trampoline_shared_secret),
        _ => None,
    }
}
impl Hop {
//@extract lightning/src/ln/onion_utils.rs :: impl Hop :: fn shared_secret
//@ret r
//@ensures A
    *r == outer_secret_of(*self)
//@end
//@extract lightning/src/ln/onion_utils.rs :: impl Hop :: fn trampoline_shared_secret
//@r7
//@ret r
//@ensures A
    r is Some == trampoline_secret_of(*self) is Some, r is Some ==> *r->Some_0 == trampoline_secret_of(*self)->Some_0
//@end
}
//@extract lightning/src/ln/onion_utils.rs :: fn decode_next_payment_hop
//@strip msgs
//@slice R15
    match decoded_trampoline_hop { $arms:any } }, _ => { if blinding_point.is_some() {
//@with
    fn report_the_peeled_trampoline_hop(decoded_trampoline_hop: Result<(InboundTrampolinePayload, Option<([u8; 32], Vec<u8>)>), OnionDecodeErr>, hop_data: InboundTrampolineEntrypointPayload,
        shared_secret: SharedSecret, trampoline_shared_secret: [u8; 32], incoming_trampoline_public_key: PublicKey) -> Result<Hop, OnionDecodeErr> {
        match decoded_trampoline_hop { $arms } }
//@ret r
//@ensures P C14 whatever-is-reported-after-peeling-the-trampoline-layer-names-the-outer-secret-as-the-outer-one-and-the-trampoline-secret-as-the-trampoline-one
    r matches Ok(h) ==> outer_secret_of(h) == shared_secret && trampoline_secret_of(h) == Some(SharedSecret { v: trampoline_shared_secret }),
    r is Err && r->Err_0 is Relay && !(decoded_trampoline_hop is Err)
        ==> r->Err_0->Relay_shared_secret == shared_secret && r->Err_0->Relay_trampoline_shared_secret == Some(SharedSecret { v: trampoline_shared_secret }),
    decoded_trampoline_hop matches Err(e) ==> r == Err::<Hop, OnionDecodeErr>(e),
//@mutant failure_of_a_misplaced_trampoline_forward_reported_under_the_outer_secret_twice
    reason: LocalHTLCFailureReason::InvalidTrampolinePayload, shared_secret, trampoline_shared_secret: Some(SharedSecret::from_bytes( trampoline_shared_secret, )), }) }, Ok((msgs::InboundTrampolinePayload::Receive(_), Some(_)))
//@with
    reason: LocalHTLCFailureReason::InvalidTrampolinePayload, shared_secret, trampoline_shared_secret: Some(shared_secret), }) }, Ok((msgs::InboundTrampolinePayload::Receive(_), Some(_)))
//@mutant trampoline_receive_reports_the_outer_secret_as_the_trampoline_one
    Ok(Hop::TrampolineReceive { outer_hop_data: hop_data, outer_shared_secret: shared_secret, trampoline_hop_data, trampoline_shared_secret: SharedSecret::from_bytes( trampoline_shared_secret, ), })
//@with
    Ok(Hop::TrampolineReceive { outer_hop_data: hop_data, outer_shared_secret: shared_secret, trampoline_hop_data, trampoline_shared_secret: shared_secret, })
//@end
}
}
fn main() {}
