//! unit: u16e
//! properties: C16
//! note: what the router believes about one candidate hop: CandidateRouteHop::{fees, htlc_minimum_msat, cltv_expiry_delta, effective_capacity} return exactly the policy the hop's own source advertises (gossip direction, route hint, blinded pay-info) and nothing for the payer's own first hop
//! trusted: R15 (deep slices): Route::debug_assert_route_meets_params: the three refusing conditions (fee cap, total CLTV limit, superfluous MPP part), verbatim as functions of the values compared; the error reporting (format!, debug_assert!(false), log) and the non-refusing diagnostics are dropped
//! trusted: R5: CandidateRouteHop and its five candidate structs are skeletons with the fields these four accessors read (the real ones hold references into the graph, the hints and the first-hop list; references are owned values here); DirectedChannelInfo::direction() / effective_capacity() external_body accessors (effective_capacity is proved in unit u16d); RoutingFees, EffectiveCapacity extracted
//! trusted: assume_specification for core::cmp::max / core::cmp::min (std definitions): present in every unit so that a change that introduces them is verified instead of being rejected by the tool
//! trusted: R15 (deep slice): add_random_cltv_offset: the statements that cap the shadow offset (the function-local constant, the remaining-budget computation, the two `min`s) verbatim as a function of the offset found by the random walk, the payment parameters and the path's total delta (PathStub::total_cltv_expiry_delta is its total); the random walk and the application to the last hop / blinded tail are dropped and not claimed
//! assume: the path handed to add_random_cltv_offset is within the caller's max_total_cltv_expiry_delta (established by get_route; the subtraction underflows otherwise)
use vstd::prelude::*;
verus! {
use vstd::std_specs::cmp::*;
use core::cmp;
pub assume_specification<T: core::cmp::Ord>[core::cmp::max::<T>](a: T, b: T) -> (r: T)
    ensures T::obeys_cmp_spec() ==> r == (if b.cmp_spec(&a) == core::cmp::Ordering::Less { a } else { b });
pub assume_specification<T: core::cmp::Ord>[core::cmp::min::<T>](a: T, b: T) -> (r: T)
    ensures T::obeys_cmp_spec() ==> r == (if b.cmp_spec(&a) == core::cmp::Ordering::Less { b } else { a });
//@extract lightning-types/src/routing.rs :: struct RoutingFees
//@derive Clone Copy
//@end
//@extract lightning/src/routing/gossip.rs :: enum EffectiveCapacity
//@derive Clone Copy
//@end
// the numeric fields of ChannelDetails / ChannelCounterparty an accessor could plausibly read (environment completeness)
pub struct ChannelCounterparty { pub outbound_htlc_minimum_msat: Option<u64>, pub outbound_htlc_maximum_msat: Option<u64>, pub unspendable_punishment_reserve: u64 }
pub struct ChannelDetails { pub next_outbound_htlc_minimum_msat: u64, pub next_outbound_htlc_limit_msat: u64, pub outbound_capacity_msat: u64, pub inbound_capacity_msat: u64,
    pub channel_value_satoshis: u64, pub inbound_htlc_minimum_msat: Option<u64>, pub inbound_htlc_maximum_msat: Option<u64>, pub counterparty: ChannelCounterparty }
pub struct ChannelUpdateInfo { pub htlc_minimum_msat: u64, pub cltv_expiry_delta: u16, pub fees: RoutingFees }
pub struct DirectedChannelInfo { pub dir: ChannelUpdateInfo, pub cap: EffectiveCapacity }
impl DirectedChannelInfo {
    #[verifier::external_body] pub fn direction(&self) -> (r: &ChannelUpdateInfo) ensures *r == self.dir { unimplemented!() }
    #[verifier::external_body] pub fn effective_capacity(&self) -> (r: EffectiveCapacity) ensures r == self.cap { unimplemented!() }
}
pub struct RouteHintHop { pub fees: RoutingFees, pub cltv_expiry_delta: u16, pub htlc_minimum_msat: Option<u64>, pub htlc_maximum_msat: Option<u64> }
pub struct BlindedPayInfo { pub fee_base_msat: u32, pub fee_proportional_millionths: u32, pub cltv_expiry_delta: u16, pub htlc_minimum_msat: u64, pub htlc_maximum_msat: u64 }
pub struct BlindedPaymentPath { pub payinfo: BlindedPayInfo }
pub struct FirstHopCandidate { pub details: ChannelDetails }
pub struct PublicHopCandidate { pub info: DirectedChannelInfo }
pub struct PrivateHopCandidate { pub hint: RouteHintHop }
pub struct BlindedPathCandidate { pub hint: BlindedPaymentPath }
pub struct OneHopBlindedPathCandidate { pub hint: BlindedPaymentPath }
pub enum CandidateRouteHop { FirstHop(FirstHopCandidate), PublicHop(PublicHopCandidate), PrivateHop(PrivateHopCandidate), Blinded(BlindedPathCandidate), OneHopBlinded(OneHopBlindedPathCandidate) }

impl CandidateRouteHop {
//@extract lightning/src/routing/router.rs :: impl CandidateRouteHop :: fn fees
//@ret r
//@ensures P C16 the-fee-the-router-budgets-for-a-hop-is-the-one-its-forwarding-node-advertises-and-none-for-the-payers-own-channel
    r == (match *self {
        CandidateRouteHop::FirstHop(_) => RoutingFees { base_msat: 0, proportional_millionths: 0 },
        CandidateRouteHop::PublicHop(h) => h.info.dir.fees,
        CandidateRouteHop::PrivateHop(h) => h.hint.fees,
        CandidateRouteHop::Blinded(h) => RoutingFees { base_msat: h.hint.payinfo.fee_base_msat, proportional_millionths: h.hint.payinfo.fee_proportional_millionths },
        CandidateRouteHop::OneHopBlinded(_) => RoutingFees { base_msat: 0, proportional_millionths: 0 },
    }),
//@mutant blinded_path_base_and_proportional_fee_swapped
    base_msat: hop.hint.payinfo.fee_base_msat, proportional_millionths: hop.hint.payinfo.fee_proportional_millionths
//@with
    base_msat: hop.hint.payinfo.fee_proportional_millionths, proportional_millionths: hop.hint.payinfo.fee_base_msat
//@end
//@extract lightning/src/routing/router.rs :: impl CandidateRouteHop :: fn htlc_minimum_msat
//@ret r
//@ensures P C16 the-minimum-the-router-respects-on-a-hop-is-the-advertised-one
    r == (match *self {
        CandidateRouteHop::FirstHop(h) => h.details.next_outbound_htlc_minimum_msat,
        CandidateRouteHop::PublicHop(h) => h.info.dir.htlc_minimum_msat,
        CandidateRouteHop::PrivateHop(h) => if h.hint.htlc_minimum_msat is Some { h.hint.htlc_minimum_msat->Some_0 } else { 0 },
        CandidateRouteHop::Blinded(h) => h.hint.payinfo.htlc_minimum_msat,
        CandidateRouteHop::OneHopBlinded(_) => 0,
    }),
//@mutant first_hop_minimum_ignored
    CandidateRouteHop::FirstHop(hop) => hop.details.next_outbound_htlc_minimum_msat,
//@with
    CandidateRouteHop::FirstHop(hop) => 0,
//@end
//@extract lightning/src/routing/router.rs :: impl CandidateRouteHop :: fn cltv_expiry_delta
//@ret r
//@ensures P C16 the-expiry-delta-added-for-a-hop-is-the-advertised-one
    r == (match *self {
        CandidateRouteHop::FirstHop(_) => 0u32,
        CandidateRouteHop::PublicHop(h) => h.info.dir.cltv_expiry_delta as u32,
        CandidateRouteHop::PrivateHop(h) => h.hint.cltv_expiry_delta as u32,
        CandidateRouteHop::Blinded(h) => h.hint.payinfo.cltv_expiry_delta as u32,
        CandidateRouteHop::OneHopBlinded(_) => 0u32,
    }),
//@end
//@extract lightning/src/routing/router.rs :: impl CandidateRouteHop :: fn effective_capacity
//@ret r
//@ensures P C16 the-liquidity-limit-of-a-hop-is-the-send-limit-of-our-own-channel-the-graphs-capacity-or-the-hinted-maximum
    r == (match *self {
        CandidateRouteHop::FirstHop(h) => EffectiveCapacity::ExactLiquidity { liquidity_msat: h.details.next_outbound_htlc_limit_msat },
        CandidateRouteHop::PublicHop(h) => h.info.cap,
        CandidateRouteHop::PrivateHop(h) => if h.hint.htlc_maximum_msat is Some { EffectiveCapacity::HintMaxHTLC { amount_msat: h.hint.htlc_maximum_msat->Some_0 } } else { EffectiveCapacity::Infinite },
        CandidateRouteHop::Blinded(h) => EffectiveCapacity::HintMaxHTLC { amount_msat: h.hint.payinfo.htlc_maximum_msat },
        CandidateRouteHop::OneHopBlinded(_) => EffectiveCapacity::Infinite,
    }),
//@mutant first_hop_limited_by_its_minimum
    liquidity_msat: hop.details.next_outbound_htlc_limit_msat,
//@with
    liquidity_msat: hop.details.next_outbound_htlc_minimum_msat,
//@end
}

// ---- add_random_cltv_offset: the privacy offset never takes a path over the caller's CLTV limit ----------------------
pub mod shadow_offset {
use vstd::prelude::*;
use vstd::std_specs::cmp::*;
use core::cmp;
//@const lightning/src/routing/router.rs MEDIAN_HOP_CLTV_EXPIRY_DELTA
pub struct PaymentParameters { pub max_total_cltv_expiry_delta: u32 }
pub struct PathStub { pub total: u32 }
impl PathStub { #[verifier::external_body] pub fn total_cltv_expiry_delta(&self) -> (r: u32) ensures r == self.total { unimplemented!() } }
//@extract lightning/src/routing/router.rs :: fn add_random_cltv_offset
//@slice R15
    const MAX_SHADOW_CLTV_EXPIRY_DELTA_OFFSET: u32 = $m:seq; $body:straight if let Some(tail) = path.blinded_tail.as_mut() {
//@with
    fn limited_shadow_offset(shadow_in: u32, payment_params: &PaymentParameters, path: &PathStub) -> u32 {
        const MAX_SHADOW_CLTV_EXPIRY_DELTA_OFFSET: u32 = $m;
        let mut shadow_ctlv_expiry_delta_offset = shadow_in;
        $body
        shadow_ctlv_expiry_delta_offset
    }
//@ret r
//@requires
    path.total <= payment_params.max_total_cltv_expiry_delta,
//@ensures P C16 the-shadow-cltv-offset-added-for-privacy-never-takes-a-path-over-the-callers-total-cltv-limit
    path.total + r <= payment_params.max_total_cltv_expiry_delta, r <= shadow_in, r <= 3 * 144,
//@mutant offset_limited_by_the_whole_budget_instead_of_what_is_left
    payment_params.max_total_cltv_expiry_delta - path.total_cltv_expiry_delta();
//@with
    payment_params.max_total_cltv_expiry_delta;
//@end
}
// ---- Route::debug_assert_route_meets_params: the gate every route (from any Router) passes before it is paid over ----
pub mod route_gate {
use vstd::prelude::*;
pub struct PaymentParams { pub max_total_cltv_expiry_delta: u32, pub max_path_length: u8 }
pub struct RouteParams { pub payment_params: PaymentParams, pub final_value_msat: u64, pub max_total_routing_fee_msat: Option<u64> }
pub struct RouteStub { pub total_amount: u64 }
impl RouteStub { #[verifier::external_body] pub fn get_total_amount(&self) -> (r: u64) ensures r == self.total_amount { unimplemented!() } }
//@extract lightning/src/routing/router.rs :: impl Route :: fn debug_assert_route_meets_params
//@slice R15
    let total_fee = self.get_total_fees(); if $c:cond { let err = $e:seq;
//@with
    fn fee_cap_is_exceeded(total_fee: u64, max_total_fee: u64) -> bool { $c }
//@ret r
//@ensures P C16 a-route-whose-total-fees-exceed-the-callers-cap-is-refused-before-it-is-used
    r == (total_fee > max_total_fee),
//@end
//@extract lightning/src/routing/router.rs :: impl Route :: fn debug_assert_route_meets_params
//@slice R15
    let total_cltv_delta = path.total_cltv_expiry_delta(); if $c:cond { let err = $e:seq;
//@with
    fn cltv_limit_is_exceeded(total_cltv_delta: u32, route_params: &RouteParams) -> bool { $c }
//@ret r
//@ensures P C16 a-route-with-a-path-over-the-callers-total-cltv-limit-is-refused-before-it-is-used
    r == (total_cltv_delta > route_params.payment_params.max_total_cltv_expiry_delta),
//@end
impl RouteStub {
//@extract lightning/src/routing/router.rs :: impl Route :: fn debug_assert_route_meets_params
//@slice R15
    let min_mpp_part = $m:seq; if $c:cond { let err = $e:seq;
//@with
    fn has_a_part_it_does_not_need(&self, min_mpp_part: u64, route_params: &RouteParams) -> bool { $c }
//@ret r
//@requires
    min_mpp_part <= self.total_amount,
//@ensures P C16 a-route-that-still-covers-the-amount-without-its-smallest-part-is-refused-no-more-parts-than-needed
    r == (self.total_amount - min_mpp_part >= route_params.final_value_msat),
//@mutant superfluous_part_tolerated_when_it_exactly_covers
    if self.get_total_amount() - min_mpp_part >= route_params.final_value_msat {
//@with
    if self.get_total_amount() - min_mpp_part > route_params.final_value_msat {
//@end
}
}
}
fn main() {}
