//! unit: u07g
//! properties: C07 C06
//! note: ChannelMonitorImpl::get_counterparty_output_claim_info (the claims on a confirmed, non-revoked counterparty commitment): every HTLC of that commitment that has an output and that we can resolve gets exactly one claim on its own output of that transaction - an HTLC the counterparty offered us is claimed with the preimage we hold (and not at all without one), an HTLC we offered is taken back by a timeout claim - with the HTLC's own expiry as the claim's locktime; if the recorded HTLC data does not match the transaction (index out of range, other amount) the function stops without a claim for that HTLC
//! trusted: R15 (deep slice): the body of the loop over per_commitment_claimable_data verbatim as a function of one HTLC, followed by a ghost marker that the body ran to its end (its `return` leaves the function); R16: `for &(ref htlc, _) in ..` binds htlc by reference
//! trusted: R5: Transaction / TxOut / Amount skeletons; `self.payment_preimages.get(&hash)` answers from a ghost map; CounterpartyOfferedHTLCOutput::build / CounterpartyReceivedHTLCOutput::build / PackageTemplate::build_package are recorders of their arguments; HTLCOutputInCommitment is a Clone skeleton {offered, amount_msat, cltv_expiry, payment_hash, transaction_output_index} whose to_bitcoin_amount() is amount_msat / 1000 in sat
//! trusted: assume_specification for core::cmp::max / core::cmp::min (std definitions): present in every unit so that a change that introduces them is verified instead of being rejected by the tool
use vstd::prelude::*;
verus! {
use vstd::std_specs::cmp::*;
use core::cmp;
pub assume_specification<T: core::cmp::Ord>[core::cmp::max::<T>](a: T, b: T) -> (r: T)
    ensures T::obeys_cmp_spec() ==> r == (if b.cmp_spec(&a) == core::cmp::Ordering::Less { a } else { b });
pub assume_specification<T: core::cmp::Ord>[core::cmp::min::<T>](a: T, b: T) -> (r: T)
    ensures T::obeys_cmp_spec() ==> r == (if b.cmp_spec(&a) == core::cmp::Ordering::Less { b } else { a });
#[derive(Clone, Copy)] pub struct Txid { pub id: u64 }
#[derive(Clone, Copy)] pub struct PublicKey { pub id: u64 }
#[derive(Clone, Copy)] pub struct PaymentHash { pub id: u64 }
#[derive(Clone, Copy)] pub struct PaymentPreimage { pub id: u64 }
#[derive(Clone, Copy)] pub struct Amount { pub sat: u64 }
impl vstd::std_specs::cmp::PartialEqSpecImpl for Amount { open spec fn obeys_eq_spec() -> bool { true } open spec fn eq_spec(&self, other: &Amount) -> bool { self.sat == other.sat } }
impl PartialEq for Amount { #[verifier::external_body] fn eq(&self, o: &Amount) -> (r: bool) { self.sat == o.sat } }
pub struct TxOut { pub value: Amount }
pub struct Transaction { pub output: Vec<TxOut> }
#[derive(Copy)] pub struct HTLCOutputInCommitment { pub offered: bool, pub amount_msat: u64, pub cltv_expiry: u32, pub payment_hash: PaymentHash, pub transaction_output_index: Option<u32> }
impl Clone for HTLCOutputInCommitment { #[verifier::external_body] fn clone(&self) -> (r: Self) ensures r == *self { unimplemented!() } }
impl HTLCOutputInCommitment { #[verifier::external_body] pub fn to_bitcoin_amount(&self) -> (r: Amount) ensures r.sat == self.amount_msat / 1000 { unimplemented!() } }
#[derive(Copy)] pub struct ChannelTransactionParameters { pub id: u64 }
impl Clone for ChannelTransactionParameters { #[verifier::external_body] fn clone(&self) -> (r: Self) ensures r == *self { unimplemented!() } }
pub struct FundingScope { pub channel_parameters: ChannelTransactionParameters }
pub struct CounterpartyOfferedHTLCOutput { pub point: PublicKey, pub preimage: PaymentPreimage, pub htlc: HTLCOutputInCommitment, pub params: ChannelTransactionParameters, pub conf: Option<u32> }
impl CounterpartyOfferedHTLCOutput { #[verifier::external_body] pub fn build(point: PublicKey, preimage: PaymentPreimage, htlc: HTLCOutputInCommitment, params: ChannelTransactionParameters, conf: Option<u32>) -> (r: Self)
    ensures r == (CounterpartyOfferedHTLCOutput { point, preimage, htlc, params, conf }) { unimplemented!() } }
pub struct CounterpartyReceivedHTLCOutput { pub point: PublicKey, pub htlc: HTLCOutputInCommitment, pub params: ChannelTransactionParameters, pub conf: Option<u32> }
impl CounterpartyReceivedHTLCOutput { #[verifier::external_body] pub fn build(point: PublicKey, htlc: HTLCOutputInCommitment, params: ChannelTransactionParameters, conf: Option<u32>) -> (r: Self)
    ensures r == (CounterpartyReceivedHTLCOutput { point, htlc, params, conf }) { unimplemented!() } }
pub enum PackageSolvingData { CounterpartyOfferedHTLCOutput(CounterpartyOfferedHTLCOutput), CounterpartyReceivedHTLCOutput(CounterpartyReceivedHTLCOutput), Other }
pub struct PackageTemplate { pub txid: Txid, pub vout: u32, pub data: PackageSolvingData, pub locktime: u32 }
impl PackageTemplate { #[verifier::external_body] pub fn build_package(txid: Txid, vout: u32, data: PackageSolvingData, locktime: u32) -> (r: Self) ensures r == (PackageTemplate { txid, vout, data, locktime }) { unimplemented!() } }
pub struct Preimages { pub m: Ghost<Map<PaymentHash, PaymentPreimage>> }
impl Preimages { #[verifier::external_body] pub fn get(&self, h: &PaymentHash) -> (r: Option<&(PaymentPreimage, u8)>) ensures r is Some == self.m@.contains_key(*h), r matches Some(p) ==> p.0 == self.m@[*h] { unimplemented!() } }
pub struct Info { pub id: u64 }
pub struct ChannelMonitorImpl { pub payment_preimages: Preimages }
// what the recorded HTLC says about the transaction holds for the transaction
pub open spec fn matches_the_transaction(h: HTLCOutputInCommitment, tx: Transaction) -> bool {
    h.transaction_output_index matches Some(i) ==> (i as int) < tx.output@.len() && tx.output@[i as int].value.sat == h.amount_msat / 1000
}
pub open spec fn expected_claim(m: ChannelMonitorImpl, h: HTLCOutputInCommitment, txid: Txid, point: PublicKey, params: ChannelTransactionParameters, conf: Option<u32>) -> Option<PackageTemplate> {
    match h.transaction_output_index {
        None => None,
        Some(i) => if h.offered {
            if m.payment_preimages.m@.contains_key(h.payment_hash) {
                Some(PackageTemplate { txid, vout: i, locktime: h.cltv_expiry, data: PackageSolvingData::CounterpartyOfferedHTLCOutput(CounterpartyOfferedHTLCOutput { point, preimage: m.payment_preimages.m@[h.payment_hash], htlc: h, params, conf }) })
            } else { None }
        } else {
            Some(PackageTemplate { txid, vout: i, locktime: h.cltv_expiry, data: PackageSolvingData::CounterpartyReceivedHTLCOutput(CounterpartyReceivedHTLCOutput { point, htlc: h, params, conf }) })
        },
    }
}
impl ChannelMonitorImpl {
//@extract lightning/src/chain/channelmonitor.rs :: impl ChannelMonitorImpl :: fn get_counterparty_output_claim_info
//@slice R15
    for &(ref htlc, _) in per_commitment_claimable_data.iter() { $body:any } (claimable_outpoints, to_counterparty_output_info) }
//@with
    fn claim_for_an_htlc_of_the_confirmed_counterparty_commitment(&self, htlc: &HTLCOutputInCommitment, tx: &Transaction, commitment_txid: Txid, per_commitment_point: PublicKey, funding_spent: &FundingScope,
        confirmation_height: Option<u32>, claimable_outpoints_: Vec<PackageTemplate>, to_counterparty_output_info: Info, ran_to_the_end: &mut Ghost<bool>) -> (Vec<PackageTemplate>, Info) {
        let mut claimable_outpoints = claimable_outpoints_;
        { $body }
        proof { *ran_to_the_end = Ghost(true); }
        (claimable_outpoints, to_counterparty_output_info) }
//@ret r
//@requires
    !old(ran_to_the_end)@,
//@ensures P C07,C06 every-resolvable-htlc-of-a-confirmed-counterparty-commitment-gets-one-claim-on-its-own-output-with-its-own-expiry-offered-ones-only-with-the-preimage
    r.1 == to_counterparty_output_info,
    final(ran_to_the_end)@ == matches_the_transaction(*htlc, *tx),
    !matches_the_transaction(*htlc, *tx) ==> r.0@ == claimable_outpoints_@,
    matches_the_transaction(*htlc, *tx) ==> r.0@ == (match expected_claim(*self, *htlc, commitment_txid, per_commitment_point, funding_spent.channel_parameters, confirmation_height) {
        Some(c) => claimable_outpoints_@.push(c), None => claimable_outpoints_@ }),
//@mutant htlc_we_offered_claimed_only_with_a_preimage
    if preimage.is_some() || !htlc.offered {
//@with
    if preimage.is_some() {
//@mutant claim_locked_until_the_confirmation_height
    counterparty_htlc_outp, htlc.cltv_expiry, );
//@with
    counterparty_htlc_outp, confirmation_height.unwrap_or(0), );
//@mutant amount_of_the_output_not_compared
    || tx.output[transaction_output_index as usize].value != htlc.to_bitcoin_amount()
//@with
    
//@end
}
}
fn main() {}
