//! unit: u07k
//! properties: C07 C06
//! note: PackageTemplate::maybe_finalize_malleable_package (slice, the whole body after the debug assertion): the claim transaction of a package we pay the fee of ourselves spends exactly the package's outpoints, one input each, in package order, pays the given value to the given destination in a single output, carries the package's locktime, and every input is asked for its signature exactly once; the transaction is handed back ALWAYS, also when a signature is not available yet (an asynchronous or remote signer): the claim stays registered and is signed when the signer comes back, it is never given up
//! trusted: R15 (deep slice): the statements from `let mut bumped_tx` to the end, with the initialiser of the transaction and the bodies of the two loops captured verbatim; R6: `for (a, b) in self.inputs.iter()` / `.iter().enumerate()` are range loops binding the pair's halves by name; env: Transaction / TxIn / TxOut / OutPoint field skeletons, PackageSolvingData an opaque value whose as_tx_input records the outpoint and whose finalize_input records the index it was asked for, leaves outpoints, outputs and locktime alone and answers anything (signed or not); Version / LockTime / Amount / ScriptBuf opaque
//! trusted: assume_specification for core::cmp::max / core::cmp::min (std definitions): present in every unit so that a change that introduces them is verified instead of being rejected by the tool
use vstd::prelude::*;
verus! {
use vstd::std_specs::cmp::*;
use core::cmp;
pub assume_specification<T: core::cmp::Ord>[core::cmp::max::<T>](a: T, b: T) -> (r: T)
    ensures T::obeys_cmp_spec() ==> r == (if b.cmp_spec(&a) == core::cmp::Ordering::Less { a } else { b });
pub assume_specification<T: core::cmp::Ord>[core::cmp::min::<T>](a: T, b: T) -> (r: T)
    ensures T::obeys_cmp_spec() ==> r == (if b.cmp_spec(&a) == core::cmp::Ordering::Less { b } else { a });
#[derive(Clone, Copy)] pub struct BitcoinOutPoint { pub txid: u64, pub vout: u32 }
#[derive(Clone, Copy)] pub struct Amount(pub u64);
#[derive(Clone, Copy)] pub struct ScriptBuf(pub u64);
pub struct Version(pub i32);
impl Version { pub const TWO: Version = Version(2); }
pub struct LockTime(pub u32);
impl LockTime { #[verifier::external_body] pub fn from_consensus(n: u32) -> (r: LockTime) ensures r.0 == n { unimplemented!() } }
pub struct TxIn { pub previous_output: BitcoinOutPoint, pub signed: bool }
pub struct TxOut { pub script_pubkey: ScriptBuf, pub value: Amount }
pub struct Transaction { pub version: Version, pub lock_time: LockTime, pub input: Vec<TxIn>, pub output: Vec<TxOut> }
pub struct MaybeSignedTransaction(pub Transaction);
pub struct PackageSolvingData { pub id: u64 }
pub struct Handler { pub asked: Ghost<Seq<int>> }
pub struct LoggerStub {}
impl PackageSolvingData {
    #[verifier::external_body] pub fn as_tx_input(&self, previous_output: BitcoinOutPoint) -> (r: TxIn) ensures r.previous_output == previous_output, !r.signed { unimplemented!() }
    #[verifier::external_body] pub fn finalize_input(&self, bumped_tx: &mut Transaction, i: usize, onchain_handler: &mut Handler) -> (r: bool)
        requires i < old(bumped_tx).input@.len()
        ensures final(onchain_handler).asked@ == old(onchain_handler).asked@.push(i as int), final(bumped_tx).output == old(bumped_tx).output, final(bumped_tx).lock_time == old(bumped_tx).lock_time,
            final(bumped_tx).input@.len() == old(bumped_tx).input@.len(), forall|k: int| 0 <= k < old(bumped_tx).input@.len() ==> (#[trigger] final(bumped_tx).input@[k]).previous_output == old(bumped_tx).input@[k].previous_output { unimplemented!() }
}
pub struct PackageTemplate { pub inputs: Vec<(BitcoinOutPoint, PackageSolvingData)> }
pub uninterp spec fn locktime_of(p: PackageTemplate, h: u32) -> u32;
pub open spec fn upto(n: int) -> Seq<int> { Seq::new(n as nat, |k: int| k) }
impl PackageTemplate {
    #[verifier::external_body] pub fn package_locktime(&self, current_height: u32) -> (r: u32) ensures r == locktime_of(*self, current_height) { unimplemented!() }
//@extract lightning/src/chain/package.rs :: impl PackageTemplate :: fn maybe_finalize_malleable_package
//@slice R15
    let mut bumped_tx = Transaction { $init:any }; for (outpoint, outp) in self.inputs.iter() { $b1:any } for (i, (outpoint, out)) in self.inputs.iter().enumerate() { $b2:any } Some(MaybeSignedTransaction(bumped_tx))
//@with
    fn build_the_claim_of_a_malleable_package(&self, current_height: u32, onchain_handler: &mut Handler, value: Amount, destination_script: ScriptBuf, logger: &LoggerStub) -> Option<MaybeSignedTransaction> {
        let mut bumped_tx = Transaction { $init };
        let ghost asked0 = onchain_handler.asked@;
        for __k in it1: 0..self.inputs.len()
            invariant bumped_tx.input@.len() == __k, forall|j: int| 0 <= j < __k ==> (#[trigger] bumped_tx.input@[j]).previous_output == self.inputs@[j].0,
                bumped_tx.output@ == seq![TxOut { script_pubkey: destination_script, value }], bumped_tx.lock_time.0 == locktime_of(*self, current_height), onchain_handler.asked@ == asked0,
        { let outpoint = &self.inputs[__k].0; let outp = &self.inputs[__k].1; $b1 }
        let mut __n: usize = 0;
        while __n < self.inputs.len()
            invariant __n <= self.inputs@.len(), bumped_tx.input@.len() == self.inputs@.len(), forall|j: int| 0 <= j < self.inputs@.len() ==> (#[trigger] bumped_tx.input@[j]).previous_output == self.inputs@[j].0,
                bumped_tx.output@ == seq![TxOut { script_pubkey: destination_script, value }], bumped_tx.lock_time.0 == locktime_of(*self, current_height), onchain_handler.asked@ =~= asked0 + upto(__n as int),
            decreases self.inputs@.len() - __n
        { let i = __n; __n = __n + 1; // the index advances first, so that the body's `continue` means what it means in the source loop
          let outpoint = &self.inputs[i].0; let out = &self.inputs[i].1; proof { assert(upto(i as int + 1) =~= upto(i as int).push(i as int)); } $b2 }
        Some(MaybeSignedTransaction(bumped_tx)) }
//@ret r
//@ensures P C07,C06 the-claim-of-a-package-spends-exactly-its-outpoints-in-order-pays-the-given-value-to-the-given-script-carries-the-package-locktime-asks-every-input-for-its-signature-once-and-is-handed-back-whether-or-not-the-signatures-are-there-yet
    r is Some,
    r->Some_0.0.input@.len() == self.inputs@.len(), forall|j: int| 0 <= j < self.inputs@.len() ==> (#[trigger] r->Some_0.0.input@[j]).previous_output == self.inputs@[j].0,
    r->Some_0.0.output@ == seq![TxOut { script_pubkey: destination_script, value }], r->Some_0.0.lock_time.0 == locktime_of(*self, current_height),
    final(onchain_handler).asked@ =~= old(onchain_handler).asked@ + upto(self.inputs@.len() as int),
//@mutant claim_given_up_when_a_signature_is_not_available
    if !out.finalize_input(&mut bumped_tx, i, onchain_handler) { continue; }
//@with
    if !out.finalize_input(&mut bumped_tx, i, onchain_handler) { return None; }
//@mutant claim_pays_the_destination_nothing
    script_pubkey: destination_script, value,
//@with
    script_pubkey: destination_script, value: Amount(0),
//@end
}
}
fn main() {}
