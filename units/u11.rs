//! unit: u11
//! novaclemmas: lemmas live in nested modules (probe scope); their preconditions are index ranges only
//! properties: C11 C02 C08 C07
//! note: also run for C07: the code it constrains lies inside mechanisms those properties name (a change made there for their sake must meet these clauses too)
//! note: confirmation thresholds of both OnchainEventEntry types (channelmonitor.rs, onchaintx.rs)
//! trusted: assume_specification for core::cmp::max / core::cmp::min (their std definitions); foreign payload types (Txid, BlockHash, Transaction, HTLCSource, PaymentHash, PaymentPreimage, Amount, OutPoint, TxOut) are opaque structs; SpendableOutputDescriptor / DelayedPaymentOutputDescriptor are skeletons keeping the fields the code reads
//! trusted: u11b: ChannelMonitorImpl is a self skeleton (R5) with the fields blocks_disconnected touches; OnchainTxHandler::blocks_disconnected/transaction_unconfirmed, cancel_prev_commitment_claims, closure_conf_target, queue_latest_holder_commitment_txn_for_broadcast are external_body with the frame "does not touch best_block / onchain_events_awaiting_threshold_conf" assumed (they only read best_block); Txid equality is spec equality; R6e for Vec::retain
//! trusted: best_block_updated: BlockLocator::{new, update_for_new_tip} external_body (set hash and height); Header::block_hash external_body; block_confirmed external_body with the frame `best_block untouched` assumed; BlockHash is an opaque identity (u64 stand-in)
//! trusted: handler_reorg: OnchainTxHandler self skeleton {awaiting events, ghost rolled_back_to}; blocks_disconnected is an external_body callee recording its argument in the ghost field (its own per-entry and per-outpoint tests are extracted as two deep R15 slices: conditions captured verbatim); the ClaimId in tracked outpoints is a u64 stand-in; regeneration of claims after a rollback is dropped and not claimed
//! assume: 1 <= height <= 2^31-1 for entries (height == 0 with csv == 0 would underflow `height + csv - 1`; LDK never records height 0)
use vstd::prelude::*;
verus! {
use vstd::std_specs::cmp::*;
use core::cmp;
pub assume_specification<T: core::cmp::Ord>[core::cmp::min::<T>](a: T, b: T) -> (r: T)
    ensures T::obeys_cmp_spec() ==> r == (if b.cmp_spec(&a) == core::cmp::Ordering::Less { b } else { a });
pub assume_specification<T: core::cmp::Ord>[core::cmp::max::<T>](a: T, b: T) -> (r: T)
    ensures T::obeys_cmp_spec() ==> r == (if b.cmp_spec(&a) == core::cmp::Ordering::Less { a } else { b });
//@const lightning/src/chain/channelmonitor.rs ANTI_REORG_DELAY

pub struct Txid {} #[derive(Clone, Copy)] pub struct BlockHash(pub u64); pub struct Transaction {} pub struct HTLCSource {} pub struct PaymentHash {}
pub struct PaymentPreimage {} pub struct Amount {} pub struct OutPoint {} pub struct TxOut {}
pub struct DelayedPaymentOutputDescriptor { pub to_self_delay: u16 }
pub struct StaticPaymentOutputDescriptor {}
pub enum SpendableOutputDescriptor { StaticOutput { outpoint: OutPoint, output: TxOut }, DelayedPaymentOutput(DelayedPaymentOutputDescriptor), StaticPaymentOutput(StaticPaymentOutputDescriptor) }
impl PartialEqSpecImpl for BlockHash { open spec fn obeys_eq_spec() -> bool { true } open spec fn eq_spec(&self, other: &BlockHash) -> bool { self.0 == other.0 } }
impl PartialEq for BlockHash { fn eq(&self, o: &BlockHash) -> (r: bool) { self.0 == o.0 } }
pub struct BlockLocator { pub block_hash: BlockHash, pub height: u32 }
impl BlockLocator {
    // chain/mod.rs: both set the tip's hash and height (the ancestor-hash history they also maintain is not modelled)
    #[verifier::external_body] pub fn new(block_hash: BlockHash, height: u32) -> (r: BlockLocator) ensures r.block_hash == block_hash, r.height == height { unimplemented!() }
    #[verifier::external_body] pub fn update_for_new_tip(&mut self, new_tip_hash: BlockHash, new_tip_height: u32)
        ensures final(self).block_hash == new_tip_hash, final(self).height == new_tip_height { unimplemented!() }
}
pub struct Header { pub h: BlockHash }
impl Header { #[verifier::external_body] pub fn block_hash(&self) -> (r: BlockHash) ensures r == self.h { unimplemented!() } }
pub struct TransactionOutputs {}

mod monitor {
use super::*;
//@extract lightning/src/chain/channelmonitor.rs :: type CommitmentTxCounterpartyOutputInfo
//@end
//@extract lightning/src/chain/channelmonitor.rs :: enum OnchainEvent
//@end
//@extract lightning/src/chain/channelmonitor.rs :: struct OnchainEventEntry
//@end

spec fn csv_of(e: OnchainEvent) -> int {
    match e {
        OnchainEvent::MaturingOutput { descriptor: SpendableOutputDescriptor::DelayedPaymentOutput(d) } => d.to_self_delay as int,
        OnchainEvent::FundingSpendConfirmation { on_local_output_csv: Some(csv), .. } => csv as int,
        OnchainEvent::HTLCSpendConfirmation { on_to_local_output_csv: Some(csv), .. } => csv as int,
        _ => 0,
    }
}
impl OnchainEventEntry {
//@extract lightning/src/chain/channelmonitor.rs :: impl OnchainEventEntry :: fn confirmation_threshold
//@ret r
//@requires
    1 <= self.height <= 0x7fff_ffff
//@ensures A threshold-is-height-plus-max-of-anti-reorg-delay-and-csv-minus-one
    r as int == (if csv_of(self.event) > ANTI_REORG_DELAY { self.height + csv_of(self.event) - 1 } else { self.height + ANTI_REORG_DELAY - 1 }),
//@mutant csv_ignored_for_htlc_spend
    OnchainEvent::FundingSpendConfirmation { on_local_output_csv: Some(csv), .. } |
//@with
//@end

//@extract lightning/src/chain/channelmonitor.rs :: impl OnchainEventEntry :: fn has_reached_confirmation_threshold
//@ret r
//@requires
    1 <= self.height <= 0x7fff_ffff
//@ensures P C11 irreversible-conclusions-only-once-buried-by-anti-reorg-depth-and-csv
    r ==> best_block.height as int - self.height as int + 1 >= ANTI_REORG_DELAY,
    r ==> best_block.height as int - self.height as int + 1 >= csv_of(self.event),
    r <==> (best_block.height as int - self.height as int + 1 >= ANTI_REORG_DELAY && best_block.height as int - self.height as int + 1 >= csv_of(self.event)),
//@mutant one_block_early
    best_block.height >= self.confirmation_threshold()
//@with
    best_block.height + 1 >= self.confirmation_threshold()
//@end
}
// which awaiting events block_confirmed turns into actions (fail-back upstream, spendable outputs): deep R15 slice of its partition predicate,
// checked against the proved contract of has_reached_confirmation_threshold
pub struct MonitorSkeleton { pub best_block: BlockLocator }
impl MonitorSkeleton {
//@extract lightning/src/chain/channelmonitor.rs :: impl ChannelMonitorImpl :: fn block_confirmed
//@slice R15
    self.onchain_events_awaiting_threshold_conf.drain(..).partition( |entry| $pred);
//@with
    fn event_matures_now(&self, entry: &OnchainEventEntry) -> bool { $pred }
//@ret r
//@requires
    1 <= entry.height <= 0x7fff_ffff
//@ensures P C11,C02,C08 an-on-chain-conclusion-is-acted-upon-only-once-it-is-buried-by-the-anti-reorg-depth-and-its-csv-delay
    r ==> self.best_block.height as int - entry.height as int + 1 >= ANTI_REORG_DELAY,
//@mutant matures_against_the_events_own_height
    entry.has_reached_confirmation_threshold(&self.best_block)
//@with
    entry.has_reached_confirmation_threshold(&BlockLocator::new(self.best_block.block_hash, entry.height + ANTI_REORG_DELAY))
//@end
}

}

mod onchaintx {
use super::*;
pub enum OnchainEvent { Claim { x: u8 }, ContentiousOutpoint { y: u8 } }
//@extract lightning/src/chain/onchaintx.rs :: struct OnchainEventEntry
//@end
impl OnchainEventEntry {
//@extract lightning/src/chain/onchaintx.rs :: impl OnchainEventEntry :: fn confirmation_threshold
//@ret r
//@requires
    1 <= self.height <= 0x7fff_ffff
//@ensures A threshold-is-height-plus-anti-reorg-delay-minus-one
    r as int == self.height + ANTI_REORG_DELAY - 1
//@end
//@extract lightning/src/chain/onchaintx.rs :: impl OnchainEventEntry :: fn has_reached_confirmation_threshold
//@ret r
//@requires
    1 <= self.height <= 0x7fff_ffff
//@ensures P C11 claim-events-final-only-once-buried-by-anti-reorg-depth
    r <==> height as int - self.height as int + 1 >= ANTI_REORG_DELAY
//@end
}
}
// ---------------- u11b: a reorganisation retracts the not-yet-final events of the blocks it removes ----------------
mod reorg {
use super::*;
use super::monitor::*;
impl PartialEqSpecImpl for Txid { open spec fn obeys_eq_spec() -> bool { true } open spec fn eq_spec(&self, other: &Txid) -> bool { *self == *other } }
impl PartialEq for Txid { #[verifier::external_body] fn eq(&self, o: &Txid) -> (r: bool) { unimplemented!() } }
pub trait BroadcasterInterface {} pub trait FeeEstimator {} pub trait Logger {}
pub struct WithContext<L: Logger> { pub l: L }
impl<L: Logger> Logger for WithContext<L> {}
impl<'a, T: Logger> Logger for &'a T {}
pub struct LowerBoundedFeeEstimator<F: FeeEstimator>(pub F);
impl<F: FeeEstimator> LowerBoundedFeeEstimator<F> { #[verifier::external_body] pub fn new(f: F) -> Self { unimplemented!() } }
pub struct ConfirmationTarget {} pub struct ScriptBuf {}
pub struct TrustedTx {} impl TrustedTx { #[verifier::external_body] pub fn txid(&self) -> Txid { unimplemented!() } }
pub struct HolderCommitmentTransaction {} impl HolderCommitmentTransaction { #[verifier::external_body] pub fn trust(&self) -> TrustedTx { unimplemented!() } }
pub struct FundingScope { pub current_holder_commitment_tx: HolderCommitmentTransaction }
// ghost log of what the claim handler was told: a rollback to a height, or that a transaction is no longer confirmed
pub enum HandlerTold { RolledBackTo(u32), Unconfirmed(Txid) }
pub struct OnchainTxHandler { pub told: Ghost<Seq<HandlerTold>> }
impl OnchainTxHandler {
    #[verifier::external_body]
    pub fn blocks_disconnected<B: BroadcasterInterface, F: FeeEstimator, L: Logger>(&mut self, new_height: u32, broadcaster: &B, conf_target: ConfirmationTarget, destination_script: &ScriptBuf, fee_estimator: &LowerBoundedFeeEstimator<F>, logger: &WithContext<L>)
        ensures final(self).told@ == old(self).told@.push(HandlerTold::RolledBackTo(new_height)) { unimplemented!() }
    #[verifier::external_body]
    pub fn transaction_unconfirmed<B: BroadcasterInterface, F: FeeEstimator, L: Logger>(&mut self, txid: &Txid, broadcaster: &B, conf_target: ConfirmationTarget, destination_script: &ScriptBuf, fee_estimator: &LowerBoundedFeeEstimator<F>, logger: &WithContext<L>)
        ensures final(self).told@ == old(self).told@.push(HandlerTold::Unconfirmed(*txid)) { unimplemented!() }
}
// R5: self skeleton with exactly the fields the two functions touch
pub struct ChannelMonitorImpl { pub best_block: BlockLocator, pub onchain_events_awaiting_threshold_conf: Vec<OnchainEventEntry>, pub alternative_funding_confirmed: Option<(Txid, u32)>,
    pub holder_tx_signed: bool, pub funding_spend_seen: bool, pub funding: FundingScope, pub onchain_tx_handler: OnchainTxHandler, pub destination_script: ScriptBuf,
    pub matured_at: Ghost<Seq<(u32, BlockHash)>> }   // matured_at: ghost log of the (height, hash) block_confirmed was run for

pub open spec fn kept_le(s: Seq<OnchainEventEntry>, h: int) -> Seq<OnchainEventEntry> decreases s.len() {
    if s.len() == 0 { Seq::empty() } else { let k = kept_le(s.drop_last(), h); if s.last().height as int <= h { k.push(s.last()) } else { k } }
}
pub proof fn lemma_kept_step(s: Seq<OnchainEventEntry>, i: int, h: int)
    requires 0 <= i < s.len()
    ensures kept_le(s.take(i + 1), h) == (if s[i].height as int <= h { kept_le(s.take(i), h).push(s[i]) } else { kept_le(s.take(i), h) })
{ assert(s.take(i + 1).drop_last() =~= s.take(i)); }
pub proof fn lemma_kept_all_le(s: Seq<OnchainEventEntry>, h: int)
    ensures forall|k: int| 0 <= k < kept_le(s, h).len() ==> (#[trigger] kept_le(s, h)[k]).height as int <= h,
            forall|k: int| 0 <= k < kept_le(s, h).len() ==> s.contains(#[trigger] kept_le(s, h)[k]),
    decreases s.len()
{
    if s.len() > 0 {
        lemma_kept_all_le(s.drop_last(), h);
        assert forall|k: int| 0 <= k < kept_le(s, h).len() implies s.contains(#[trigger] kept_le(s, h)[k]) by {
            let e = kept_le(s, h)[k];
            if k < kept_le(s.drop_last(), h).len() {
                assert(kept_le(s.drop_last(), h)[k] == e);
                let j = choose|j: int| 0 <= j < s.drop_last().len() && s.drop_last()[j] == e;
                assert(s[j] == e);
            } else { assert(s[s.len() - 1] == e); }
        }
    }
}

impl ChannelMonitorImpl {
    // frame assumed for the three helpers (checked by reading them: they only read best_block and never touch the awaiting-events list)
    #[verifier::external_body]
    pub fn cancel_prev_commitment_claims<L: Logger>(&mut self, logger: &L, confirmed_commitment_txid: &Txid)
        ensures final(self).best_block == old(self).best_block, final(self).onchain_events_awaiting_threshold_conf == old(self).onchain_events_awaiting_threshold_conf,
            final(self).alternative_funding_confirmed == old(self).alternative_funding_confirmed, final(self).holder_tx_signed == old(self).holder_tx_signed, final(self).funding_spend_seen == old(self).funding_spend_seen,
            final(self).onchain_tx_handler.told == old(self).onchain_tx_handler.told, final(self).matured_at == old(self).matured_at
    { unimplemented!() }
    #[verifier::external_body]
    fn closure_conf_target(&self) -> ConfirmationTarget { unimplemented!() }
    #[verifier::external_body]
    pub fn queue_latest_holder_commitment_txn_for_broadcast<B: BroadcasterInterface, F: FeeEstimator, L: Logger>(&mut self, broadcaster: &B, fee_estimator: &LowerBoundedFeeEstimator<F>, logger: &WithContext<L>, require_funding_seen: bool)
        ensures final(self).best_block == old(self).best_block, final(self).onchain_events_awaiting_threshold_conf == old(self).onchain_events_awaiting_threshold_conf,
            final(self).alternative_funding_confirmed == old(self).alternative_funding_confirmed,
            final(self).onchain_tx_handler.told == old(self).onchain_tx_handler.told, final(self).matured_at == old(self).matured_at
    { unimplemented!() }

    // block_confirmed (matures events, generates claims) only reads best_block (checked by reading it): frame assumed
    #[verifier::external_body]
    pub fn block_confirmed<B: BroadcasterInterface, F: FeeEstimator, L: Logger>(&mut self, conf_height: u32, conf_hash: BlockHash, txn_matched: Vec<Transaction>,
        watch_outputs: Vec<TransactionOutputs>, claimable_outpoints: Vec<OutPoint>, broadcaster: &B, fee_estimator: &LowerBoundedFeeEstimator<F>, logger: &WithContext<L>) -> (r: Vec<TransactionOutputs>)
        ensures final(self).best_block == old(self).best_block, final(self).matured_at@ == old(self).matured_at@.push((conf_height, conf_hash)), final(self).onchain_tx_handler == old(self).onchain_tx_handler
    { unimplemented!() }

//@extract lightning/src/chain/channelmonitor.rs :: impl ChannelMonitorImpl :: fn best_block_updated
//@ret r
//@ensures P C11 a-new-best-block-at-or-below-the-known-height-with-another-hash-is-a-reorg-every-awaiting-event-above-it-is-retracted
    height > old(self).best_block.height ==> final(self).best_block.height == height && final(self).best_block.block_hash == header.h
        // ... and events and claims are matured for exactly that block
        && final(self).matured_at@ == old(self).matured_at@.push((height, header.h)) && final(self).onchain_tx_handler == old(self).onchain_tx_handler,
    height <= old(self).best_block.height && header.h != old(self).best_block.block_hash ==>
        final(self).best_block.height == height && final(self).best_block.block_hash == header.h
        && final(self).onchain_events_awaiting_threshold_conf@ == kept_le(old(self).onchain_events_awaiting_threshold_conf@, height as int)
        && forall|k: int| 0 <= k < final(self).onchain_events_awaiting_threshold_conf@.len() ==> (#[trigger] final(self).onchain_events_awaiting_threshold_conf@[k]).height <= height
        // ... and the claim handler is rolled back to the same height
        && final(self).onchain_tx_handler.told@ == old(self).onchain_tx_handler.told@.push(HandlerTold::RolledBackTo(height)) && final(self).matured_at@ == old(self).matured_at@,
    height <= old(self).best_block.height && header.h == old(self).best_block.block_hash ==>
        final(self).best_block == old(self).best_block && final(self).onchain_events_awaiting_threshold_conf@ == old(self).onchain_events_awaiting_threshold_conf@,
//@rw R6e
    self.onchain_events_awaiting_threshold_conf.retain(|ref $h:ident| $body);
//@with
    let ghost orig = self.onchain_events_awaiting_threshold_conf@;
    proof { assert(orig.take(0) =~= Seq::<OnchainEventEntry>::empty()); assert(self.onchain_events_awaiting_threshold_conf@.take(0) =~= Seq::<OnchainEventEntry>::empty()); }
    {
        let mut __i: usize = 0;
        while __i < self.onchain_events_awaiting_threshold_conf.len()
            invariant
                __i <= self.onchain_events_awaiting_threshold_conf@.len() <= orig.len(), self.best_block.height == height, self.best_block.block_hash == block_hash,
                self.alternative_funding_confirmed == old(self).alternative_funding_confirmed,
                self.holder_tx_signed == old(self).holder_tx_signed, self.funding_spend_seen == old(self).funding_spend_seen, self.onchain_tx_handler == old(self).onchain_tx_handler, self.matured_at == old(self).matured_at,
                self.onchain_events_awaiting_threshold_conf@.skip(__i as int) == orig.skip(orig.len() - (self.onchain_events_awaiting_threshold_conf@.len() - __i)),
                self.onchain_events_awaiting_threshold_conf@.take(__i as int) == kept_le(orig.take(orig.len() - (self.onchain_events_awaiting_threshold_conf@.len() - __i)), height as int),
            decreases self.onchain_events_awaiting_threshold_conf@.len() - __i
        {
            let ghost k = orig.len() - (self.onchain_events_awaiting_threshold_conf@.len() - __i);
            let ghost cur = self.onchain_events_awaiting_threshold_conf@;
            proof { assert(cur[__i as int] == cur.skip(__i as int)[0]); assert(orig[k] == orig.skip(k)[0]); lemma_kept_step(orig, k, height as int); }
            let __keep = { let $h = &self.onchain_events_awaiting_threshold_conf[__i]; $body };
            proof { assert(cur.skip(__i as int).skip(1) =~= cur.skip(__i as int + 1)); assert(orig.skip(k).skip(1) =~= orig.skip(k + 1)); }
            if __keep { __i = __i + 1;
                proof { assert(self.onchain_events_awaiting_threshold_conf@.take(__i as int) =~= cur.take(__i as int - 1).push(cur[__i as int - 1])); }
            } else { self.onchain_events_awaiting_threshold_conf.remove(__i);
                proof { assert(self.onchain_events_awaiting_threshold_conf@ =~= cur.remove(__i as int)); assert(self.onchain_events_awaiting_threshold_conf@.skip(__i as int) =~= cur.skip(__i as int + 1)); assert(self.onchain_events_awaiting_threshold_conf@.take(__i as int) =~= cur.take(__i as int)); }
            }
        }
    }
    proof {
        assert(orig.take(orig.len() as int) =~= orig);
        assert(self.onchain_events_awaiting_threshold_conf@.take(self.onchain_events_awaiting_threshold_conf@.len() as int) =~= self.onchain_events_awaiting_threshold_conf@);
        lemma_kept_all_le(orig, height as int);
    }
//@mutant reorg_to_an_equal_height_block_ignored
    if height > self.best_block.height {
//@with
    if height >= self.best_block.height {
//@mutant events_above_the_new_tip_kept
    entry.height <= height
//@with
    entry.height <= self.best_block.height + 6
//@end

//@extract lightning/src/chain/channelmonitor.rs :: impl ChannelMonitorImpl :: fn blocks_disconnected
//@requires
    old(self).best_block.height > fork_point.height
//@ensures P C11 a-reorg-retracts-every-awaiting-event-confirmed-above-the-fork-point-and-keeps-the-others
    final(self).best_block == fork_point,
    final(self).onchain_events_awaiting_threshold_conf@ == kept_le(old(self).onchain_events_awaiting_threshold_conf@, fork_point.height as int),
    forall|k: int| 0 <= k < final(self).onchain_events_awaiting_threshold_conf@.len() ==> (#[trigger] final(self).onchain_events_awaiting_threshold_conf@[k]).height <= fork_point.height,
    // the claim handler is rolled back to the same fork point
    final(self).onchain_tx_handler.told@ == old(self).onchain_tx_handler.told@.push(HandlerTold::RolledBackTo(fork_point.height)),
//@ensures P C11 a-reorg-forgets-the-confirmation-of-a-spliced-funding-transaction-exactly-when-the-block-that-confirmed-it-is-above-the-fork-point
    final(self).alternative_funding_confirmed == (match old(self).alternative_funding_confirmed { Some(c) => if c.1 > fork_point.height { None } else { Some(c) }, None => None }),
//@rw R6e
    self.onchain_events_awaiting_threshold_conf.retain(|ref $h:ident| $body);
//@with
    let ghost orig = self.onchain_events_awaiting_threshold_conf@;
    proof { assert(orig.take(0) =~= Seq::<OnchainEventEntry>::empty()); assert(self.onchain_events_awaiting_threshold_conf@.take(0) =~= Seq::<OnchainEventEntry>::empty()); }
    {
        let mut __i: usize = 0;
        while __i < self.onchain_events_awaiting_threshold_conf.len()
            invariant
                __i <= self.onchain_events_awaiting_threshold_conf@.len() <= orig.len(), new_height == fork_point.height,
                self.best_block == old(self).best_block, self.alternative_funding_confirmed == old(self).alternative_funding_confirmed,
                self.holder_tx_signed == old(self).holder_tx_signed, self.funding_spend_seen == old(self).funding_spend_seen, self.onchain_tx_handler == old(self).onchain_tx_handler, self.matured_at == old(self).matured_at,
                self.onchain_events_awaiting_threshold_conf@.skip(__i as int) == orig.skip(orig.len() - (self.onchain_events_awaiting_threshold_conf@.len() - __i)),
                self.onchain_events_awaiting_threshold_conf@.take(__i as int) == kept_le(orig.take(orig.len() - (self.onchain_events_awaiting_threshold_conf@.len() - __i)), new_height as int),
            decreases self.onchain_events_awaiting_threshold_conf@.len() - __i
        {
            let ghost k = orig.len() - (self.onchain_events_awaiting_threshold_conf@.len() - __i);
            let ghost cur = self.onchain_events_awaiting_threshold_conf@;
            proof { assert(cur[__i as int] == cur.skip(__i as int)[0]); assert(orig[k] == orig.skip(k)[0]); lemma_kept_step(orig, k, new_height as int); }
            let __keep = { let $h = &self.onchain_events_awaiting_threshold_conf[__i]; $body };
            proof { assert(cur.skip(__i as int).skip(1) =~= cur.skip(__i as int + 1)); assert(orig.skip(k).skip(1) =~= orig.skip(k + 1)); }
            if __keep { __i = __i + 1;
                proof { assert(self.onchain_events_awaiting_threshold_conf@.take(__i as int) =~= cur.take(__i as int - 1).push(cur[__i as int - 1])); }
            } else { self.onchain_events_awaiting_threshold_conf.remove(__i);
                proof { assert(self.onchain_events_awaiting_threshold_conf@ =~= cur.remove(__i as int)); assert(self.onchain_events_awaiting_threshold_conf@.skip(__i as int) =~= cur.skip(__i as int + 1)); assert(self.onchain_events_awaiting_threshold_conf@.take(__i as int) =~= cur.take(__i as int)); }
            }
        }
    }
    proof {
        assert(orig.take(orig.len() as int) =~= orig);
        assert(self.onchain_events_awaiting_threshold_conf@.take(self.onchain_events_awaiting_threshold_conf@.len() as int) =~= self.onchain_events_awaiting_threshold_conf@);
        lemma_kept_all_le(orig, new_height as int);
    }
//@mutant claim_handler_rolled_back_to_the_old_tip
    self.onchain_tx_handler.blocks_disconnected( new_height, &broadcaster,
//@with
    self.onchain_tx_handler.blocks_disconnected( self.best_block.height, &broadcaster,
//@mutant events_at_the_fork_height_dropped
    entry.height <= new_height
//@with
    entry.height < new_height
//@mutant best_block_not_rewound
    self.best_block = fork_point;
//@with
    let _ = fork_point;
//@end

//@extract lightning/src/chain/channelmonitor.rs :: impl ChannelMonitorImpl :: fn transaction_unconfirmed
//@requires
    // representation invariant: a transaction confirms in one block, so entries with the same txid have the same height
    forall|a: int, b: int| 0 <= a < old(self).onchain_events_awaiting_threshold_conf@.len() && 0 <= b < old(self).onchain_events_awaiting_threshold_conf@.len()
        && old(self).onchain_events_awaiting_threshold_conf@[a].txid == old(self).onchain_events_awaiting_threshold_conf@[b].txid
        ==> old(self).onchain_events_awaiting_threshold_conf@[a].height == old(self).onchain_events_awaiting_threshold_conf@[b].height,
//@ensures P C11 unconfirming-a-transaction-retracts-its-awaiting-events-and-everything-confirmed-at-or-above-its-height
    final(self).best_block == old(self).best_block,
    forall|k: int| 0 <= k < final(self).onchain_events_awaiting_threshold_conf@.len() ==> (#[trigger] final(self).onchain_events_awaiting_threshold_conf@[k]).txid != *txid,
    forall|k: int| 0 <= k < final(self).onchain_events_awaiting_threshold_conf@.len() ==> old(self).onchain_events_awaiting_threshold_conf@.contains(#[trigger] final(self).onchain_events_awaiting_threshold_conf@[k]),
    (forall|k: int| 0 <= k < old(self).onchain_events_awaiting_threshold_conf@.len() ==> (#[trigger] old(self).onchain_events_awaiting_threshold_conf@[k]).txid != *txid)
        ==> final(self).onchain_events_awaiting_threshold_conf@ == old(self).onchain_events_awaiting_threshold_conf@,
    // the claim handler is told about the same transaction
    final(self).onchain_tx_handler.told@ == old(self).onchain_tx_handler.told@.push(HandlerTold::Unconfirmed(*txid)),
//@ensures P C11 unconfirming-the-spliced-funding-transaction-forgets-its-confirmation-and-unconfirming-any-other-transaction-leaves-it
    final(self).alternative_funding_confirmed == (match old(self).alternative_funding_confirmed { Some(c) => if c.0 == *txid { None } else { Some(c) }, None => None }),
//@loop 1 iter=it
    invariant_except_break removed_height is None,
        forall|j: int| 0 <= j < it.index@ ==> (#[trigger] self.onchain_events_awaiting_threshold_conf@[j]).txid != *txid,
    invariant *self == *old(self), it.seq().len() == self.onchain_events_awaiting_threshold_conf@.len(),
        forall|j: int| 0 <= j < it.seq().len() ==> *it.seq()[j] == self.onchain_events_awaiting_threshold_conf@[j],
    ensures *self == *old(self),
        removed_height is None ==> forall|j: int| 0 <= j < self.onchain_events_awaiting_threshold_conf@.len() ==> (#[trigger] self.onchain_events_awaiting_threshold_conf@[j]).txid != *txid,
        removed_height is Some ==> exists|j: int| 0 <= j < self.onchain_events_awaiting_threshold_conf@.len() && (#[trigger] self.onchain_events_awaiting_threshold_conf@[j]).txid == *txid
            && self.onchain_events_awaiting_threshold_conf@[j].height == removed_height->Some_0,
//@rw R6e
    self.onchain_events_awaiting_threshold_conf.retain(|ref $h:ident| $body);
//@with
    let ghost orig = self.onchain_events_awaiting_threshold_conf@;
    proof { assert(orig.take(0) =~= Seq::<OnchainEventEntry>::empty()); assert(self.onchain_events_awaiting_threshold_conf@.take(0) =~= Seq::<OnchainEventEntry>::empty()); }
    {
        let mut __i: usize = 0;
        while __i < self.onchain_events_awaiting_threshold_conf.len()
            invariant
                __i <= self.onchain_events_awaiting_threshold_conf@.len() <= orig.len(),
                self.best_block == old(self).best_block, self.alternative_funding_confirmed == old(self).alternative_funding_confirmed,
                self.holder_tx_signed == old(self).holder_tx_signed, self.funding_spend_seen == old(self).funding_spend_seen, self.onchain_tx_handler == old(self).onchain_tx_handler, self.matured_at == old(self).matured_at,
                self.onchain_events_awaiting_threshold_conf@.skip(__i as int) == orig.skip(orig.len() - (self.onchain_events_awaiting_threshold_conf@.len() - __i)),
                self.onchain_events_awaiting_threshold_conf@.take(__i as int) == kept_le(orig.take(orig.len() - (self.onchain_events_awaiting_threshold_conf@.len() - __i)), removed_height as int - 1),
            decreases self.onchain_events_awaiting_threshold_conf@.len() - __i
        {
            let ghost k = orig.len() - (self.onchain_events_awaiting_threshold_conf@.len() - __i);
            let ghost cur = self.onchain_events_awaiting_threshold_conf@;
            proof { assert(cur[__i as int] == cur.skip(__i as int)[0]); assert(orig[k] == orig.skip(k)[0]); lemma_kept_step(orig, k, removed_height as int - 1); }
            let __keep = { let $h = &self.onchain_events_awaiting_threshold_conf[__i]; $body };
            proof { assert(cur.skip(__i as int).skip(1) =~= cur.skip(__i as int + 1)); assert(orig.skip(k).skip(1) =~= orig.skip(k + 1)); }
            if __keep { __i = __i + 1;
                proof { assert(self.onchain_events_awaiting_threshold_conf@.take(__i as int) =~= cur.take(__i as int - 1).push(cur[__i as int - 1])); }
            } else { self.onchain_events_awaiting_threshold_conf.remove(__i);
                proof { assert(self.onchain_events_awaiting_threshold_conf@ =~= cur.remove(__i as int)); assert(self.onchain_events_awaiting_threshold_conf@.skip(__i as int) =~= cur.skip(__i as int + 1)); assert(self.onchain_events_awaiting_threshold_conf@.take(__i as int) =~= cur.take(__i as int)); }
            }
        }
    }
    proof {
        assert(orig.take(orig.len() as int) =~= orig);
        assert(self.onchain_events_awaiting_threshold_conf@.take(self.onchain_events_awaiting_threshold_conf@.len() as int) =~= self.onchain_events_awaiting_threshold_conf@);
        lemma_kept_all_le(orig, removed_height as int - 1);
    }
//@rw R6
    debug_assert!(!self.onchain_events_awaiting_threshold_conf.iter().any(|ref $e:ident| $c));
//@with
    // LDK's own debug_assert!(!...iter().any(|ref entry| entry.txid == *txid)), as a proof obligation over every element
    proof {
        lemma_kept_all_le(old(self).onchain_events_awaiting_threshold_conf@, if removed_height is Some { removed_height->Some_0 as int - 1 } else { 0 });
        assert forall|kk: int| #![trigger self.onchain_events_awaiting_threshold_conf@[kk]] 0 <= kk < self.onchain_events_awaiting_threshold_conf@.len() implies !({ let $e = &self.onchain_events_awaiting_threshold_conf@[kk]; $c }) by {
            let e = self.onchain_events_awaiting_threshold_conf@[kk];
            if removed_height is Some {
                assert(old(self).onchain_events_awaiting_threshold_conf@.contains(e));
                let j0 = choose|j: int| 0 <= j < old(self).onchain_events_awaiting_threshold_conf@.len() && old(self).onchain_events_awaiting_threshold_conf@[j] == e;
                let j1 = choose|j: int| 0 <= j < old(self).onchain_events_awaiting_threshold_conf@.len() && (#[trigger] old(self).onchain_events_awaiting_threshold_conf@[j]).txid == *txid
                    && old(self).onchain_events_awaiting_threshold_conf@[j].height == removed_height->Some_0;
                if e.txid == *txid { assert(old(self).onchain_events_awaiting_threshold_conf@[j0].height == old(self).onchain_events_awaiting_threshold_conf@[j1].height); }
            }
        }
    }
//@mutant only_later_heights_removed
    if entry.height >= removed_height {
//@with
    if entry.height > removed_height {
//@end
}
}

// ---------------- claim tracking: unconfirming a transaction rolls the claim handler back to just below its block ----------------
mod handler_reorg {
use super::*;
use super::onchaintx::*;
use super::reorg::{BroadcasterInterface, FeeEstimator, Logger, LowerBoundedFeeEstimator, ConfirmationTarget};
pub struct Script {}
// R5: self skeleton; `rolled_back_to` is a ghost record of the height blocks_disconnected was last asked to roll back to
pub struct OnchainTxHandler { pub onchain_events_awaiting_threshold_conf: Vec<OnchainEventEntry>, pub rolled_back_to: Ghost<Option<u32>> }
impl OnchainTxHandler {
    #[verifier::external_body]
    pub fn blocks_disconnected<B: BroadcasterInterface, F: FeeEstimator, L: Logger>(&mut self, new_best_height: u32, broadcaster: &B, conf_target: ConfirmationTarget,
        destination_script: &Script, fee_estimator: &LowerBoundedFeeEstimator<F>, logger: &L)
        ensures final(self).rolled_back_to@ == Some(new_best_height)
    { unimplemented!() }
//@extract lightning/src/chain/onchaintx.rs :: impl OnchainTxHandler :: fn transaction_unconfirmed
//@requires
    forall|k: int| 0 <= k < old(self).onchain_events_awaiting_threshold_conf@.len() ==> (#[trigger] old(self).onchain_events_awaiting_threshold_conf@[k]).height >= 1,
    old(self).rolled_back_to@ is None,
//@ensures P C11 unconfirming-a-transaction-rolls-claim-tracking-back-to-just-below-the-block-that-confirmed-it-and-does-nothing-for-an-unknown-transaction
    (forall|k: int| 0 <= k < old(self).onchain_events_awaiting_threshold_conf@.len() ==> (#[trigger] old(self).onchain_events_awaiting_threshold_conf@[k]).txid != *txid)
        ==> final(self).rolled_back_to@ is None && final(self).onchain_events_awaiting_threshold_conf@ == old(self).onchain_events_awaiting_threshold_conf@,
    (exists|k: int| 0 <= k < old(self).onchain_events_awaiting_threshold_conf@.len() && (#[trigger] old(self).onchain_events_awaiting_threshold_conf@[k]).txid == *txid)
        ==> exists|k: int| 0 <= k < old(self).onchain_events_awaiting_threshold_conf@.len() && (#[trigger] old(self).onchain_events_awaiting_threshold_conf@[k]).txid == *txid
            && final(self).rolled_back_to@ == Some((old(self).onchain_events_awaiting_threshold_conf@[k].height - 1) as u32),
//@loop 1 iter=it
    invariant_except_break height is None,
        forall|j: int| 0 <= j < it.index@ ==> (#[trigger] self.onchain_events_awaiting_threshold_conf@[j]).txid != *txid,
    invariant *self == *old(self), it.seq().len() == self.onchain_events_awaiting_threshold_conf@.len(),
        forall|j: int| 0 <= j < it.seq().len() ==> *it.seq()[j] == self.onchain_events_awaiting_threshold_conf@[j],
    ensures *self == *old(self),
        height is None ==> forall|j: int| 0 <= j < self.onchain_events_awaiting_threshold_conf@.len() ==> (#[trigger] self.onchain_events_awaiting_threshold_conf@[j]).txid != *txid,
        height is Some ==> exists|j: int| 0 <= j < self.onchain_events_awaiting_threshold_conf@.len() && (#[trigger] self.onchain_events_awaiting_threshold_conf@[j]).txid == *txid
            && self.onchain_events_awaiting_threshold_conf@[j].height == height->Some_0,
//@mutant rolls_back_to_the_transactions_own_height
    height - 1, broadcaster,
//@with
    height, broadcaster,
//@end

// which awaiting events and which tracked outpoints a rollback to `new_best_height` retracts (two deep R15 slices of blocks_disconnected)
//@extract lightning/src/chain/onchaintx.rs :: impl OnchainTxHandler :: fn blocks_disconnected
//@slice R15
    for entry in onchain_events_awaiting_threshold_conf { if $c:cond { $then:any } else { self.onchain_events_awaiting_threshold_conf.push(entry); } }
//@with
    fn event_is_retracted(entry: &OnchainEventEntry, new_best_height: u32) -> bool { $c }
//@ret r
//@ensures P C11 a-rollback-retracts-exactly-the-claim-events-confirmed-above-the-new-best-height
    r == (entry.height > new_best_height),
//@mutant event_at_the_new_best_height_retracted
    entry.height > new_best_height
//@with
    entry.height >= new_best_height
//@end
//@extract lightning/src/chain/onchaintx.rs :: impl OnchainTxHandler :: fn blocks_disconnected
//@slice R15
    self.claimable_outpoints.retain(|_, ref v| if $c:cond { $then:any } else { true });
//@with
    fn tracked_outpoint_is_dropped(v: &(u64, u32), new_best_height: u32) -> bool { $c }
//@ret r
//@ensures P C11 a-rollback-forgets-exactly-the-outpoints-first-seen-spent-above-the-new-best-height
    r == (v.1 > new_best_height),
//@end
}
}
}
fn main() {}
