//! unit: u11
//! properties: C11
//! note: confirmation thresholds of both OnchainEventEntry types (channelmonitor.rs, onchaintx.rs)
//! trusted: assume_specification for core::cmp::max (its std definition); foreign payload types (Txid, BlockHash, Transaction, HTLCSource, PaymentHash, PaymentPreimage, Amount, OutPoint, TxOut) are opaque structs; SpendableOutputDescriptor / DelayedPaymentOutputDescriptor are skeletons keeping the fields the code reads
//! assume: 1 <= height <= 2^31-1 for entries (height == 0 with csv == 0 would underflow `height + csv - 1`; LDK never records height 0)
use vstd::prelude::*;
verus! {
use vstd::std_specs::cmp::*;
use core::cmp;
pub assume_specification<T: core::cmp::Ord>[core::cmp::max::<T>](a: T, b: T) -> (r: T)
    ensures T::obeys_cmp_spec() ==> r == (if b.cmp_spec(&a) == core::cmp::Ordering::Less { a } else { b });
//@const lightning/src/chain/channelmonitor.rs ANTI_REORG_DELAY

pub struct Txid {} pub struct BlockHash {} pub struct Transaction {} pub struct HTLCSource {} pub struct PaymentHash {}
pub struct PaymentPreimage {} pub struct Amount {} pub struct OutPoint {} pub struct TxOut {}
pub struct DelayedPaymentOutputDescriptor { pub to_self_delay: u16 }
pub struct StaticPaymentOutputDescriptor {}
pub enum SpendableOutputDescriptor { StaticOutput { outpoint: OutPoint, output: TxOut }, DelayedPaymentOutput(DelayedPaymentOutputDescriptor), StaticPaymentOutput(StaticPaymentOutputDescriptor) }
pub struct BlockLocator { pub height: u32 }

mod monitor {
use super::*;
//@extract lightning/src/chain/channelmonitor.rs :: type CommitmentTxCounterpartyOutputInfo
//@end
//@extract lightning/src/chain/channelmonitor.rs :: enum OnchainEvent
//@end
//@extract lightning/src/chain/channelmonitor.rs :: struct OnchainEventEntry
//@end

spec fn csv_of(e: OnchainEvent) -> int {
    match e {
        OnchainEvent::MaturingOutput { descriptor: SpendableOutputDescriptor::DelayedPaymentOutput(d) } => d.to_self_delay as int,
        OnchainEvent::FundingSpendConfirmation { on_local_output_csv: Some(csv), .. } => csv as int,
        OnchainEvent::HTLCSpendConfirmation { on_to_local_output_csv: Some(csv), .. } => csv as int,
        _ => 0,
    }
}
impl OnchainEventEntry {
//@extract lightning/src/chain/channelmonitor.rs :: impl OnchainEventEntry :: fn confirmation_threshold
//@ret r
//@requires
    1 <= self.height <= 0x7fff_ffff
//@ensures A threshold-is-height-plus-max-of-anti-reorg-delay-and-csv-minus-one
    r as int == (if csv_of(self.event) > ANTI_REORG_DELAY { self.height + csv_of(self.event) - 1 } else { self.height + ANTI_REORG_DELAY - 1 }),
//@mutant csv_ignored_for_htlc_spend
    OnchainEvent::FundingSpendConfirmation { on_local_output_csv: Some(csv), .. } |
//@with
//@end

//@extract lightning/src/chain/channelmonitor.rs :: impl OnchainEventEntry :: fn has_reached_confirmation_threshold
//@ret r
//@requires
    1 <= self.height <= 0x7fff_ffff
//@ensures P C11 irreversible-conclusions-only-once-buried-by-anti-reorg-depth-and-csv
    r ==> best_block.height as int - self.height as int + 1 >= ANTI_REORG_DELAY,
    r ==> best_block.height as int - self.height as int + 1 >= csv_of(self.event),
    r <==> (best_block.height as int - self.height as int + 1 >= ANTI_REORG_DELAY && best_block.height as int - self.height as int + 1 >= csv_of(self.event)),
//@mutant one_block_early
    best_block.height >= self.confirmation_threshold()
//@with
    best_block.height + 1 >= self.confirmation_threshold()
//@end
}
}

mod onchaintx {
use super::*;
pub enum OnchainEvent { Claim { x: u8 }, ContentiousOutpoint { y: u8 } }
//@extract lightning/src/chain/onchaintx.rs :: struct OnchainEventEntry
//@end
impl OnchainEventEntry {
//@extract lightning/src/chain/onchaintx.rs :: impl OnchainEventEntry :: fn confirmation_threshold
//@ret r
//@requires
    1 <= self.height <= 0x7fff_ffff
//@ensures A threshold-is-height-plus-anti-reorg-delay-minus-one
    r as int == self.height + ANTI_REORG_DELAY - 1
//@end
//@extract lightning/src/chain/onchaintx.rs :: impl OnchainEventEntry :: fn has_reached_confirmation_threshold
//@ret r
//@requires
    1 <= self.height <= 0x7fff_ffff
//@ensures P C11 claim-events-final-only-once-buried-by-anti-reorg-depth
    r <==> height as int - self.height as int + 1 >= ANTI_REORG_DELAY
//@end
}
}
}
fn main() {}
