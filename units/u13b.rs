//! unit: u13b
//! properties: C13 C15
//! note: wire::read (whole: a message that fails to decode is reported with the type announced on the wire, a failure to read the type without one) and wire::do_read (the type-id dispatch behind wire::read): a successfully decoded message is of the type that was announced on the wire - Message::type_id() of the result equals the two-byte type that was read - for every message type the library knows, and an unknown type is handed back as Unknown(type)
//! trusted: env: the 50 message structs of ln::msgs are opaque unit structs (their codecs are the Kani harnesses' business); LengthReadable::read_from_fixed_length_buffer is an external_body blanket impl (any outcome); CustomMessageReader::read is an external_body stub (any outcome); the 50 `impl Encode for msgs::X { const TYPE }` items, the Message enum, `impl Type for Message :: fn type_id` and do_read are extracted
//! trusted: R5: Message's bound `T: core::fmt::Debug + Type + TestEq` is reduced to `T: Type`; the blanket `impl<T: Encode> Type for T` is written here with the spec function tid() = T::TYPE beside its one-line body; R16 (`&Message::V(ref msg)` -> `Message::V(msg)`); R8: match arms on associated constants `msgs::X::TYPE => E` are written as guards `__t if __t == msgs::X::TYPE => E` (Verus has no associated constants in patterns); the specification spec_tid is derived mechanically from the extracted body of Message::type_id (same arms, `msg.type_id()` -> `msg.tid()`)
//! trusted: assume_specification for core::cmp::max / core::cmp::min (std definitions): present in every unit so that a change that introduces them is verified instead of being rejected by the tool
use vstd::prelude::*;
verus! {
use vstd::std_specs::cmp::*;
use core::cmp;
pub assume_specification<T: core::cmp::Ord>[core::cmp::max::<T>](a: T, b: T) -> (r: T)
    ensures T::obeys_cmp_spec() ==> r == (if b.cmp_spec(&a) == core::cmp::Ordering::Less { a } else { b });
pub assume_specification<T: core::cmp::Ord>[core::cmp::min::<T>](a: T, b: T) -> (r: T)
    ensures T::obeys_cmp_spec() ==> r == (if b.cmp_spec(&a) == core::cmp::Ordering::Less { b } else { a });
pub mod msgs {
    pub struct Stfu {}
    pub struct PeerStorage {}
    pub struct PeerStorageRetrieval {}
    pub struct Init {}
    pub struct ErrorMessage {}
    pub struct WarningMessage {}
    pub struct Ping {}
    pub struct Pong {}
    pub struct OpenChannel {}
    pub struct AcceptChannel {}
    pub struct FundingCreated {}
    pub struct FundingSigned {}
    pub struct ChannelReady {}
    pub struct Shutdown {}
    pub struct ClosingSigned {}
    pub struct ClosingComplete {}
    pub struct ClosingSig {}
    pub struct OpenChannelV2 {}
    pub struct AcceptChannelV2 {}
    pub struct SpliceInit {}
    pub struct SpliceAck {}
    pub struct SpliceLocked {}
    pub struct TxAddInput {}
    pub struct TxAddOutput {}
    pub struct TxRemoveInput {}
    pub struct TxRemoveOutput {}
    pub struct TxComplete {}
    pub struct TxSignatures {}
    pub struct TxInitRbf {}
    pub struct TxAckRbf {}
    pub struct TxAbort {}
    pub struct OnionMessage {}
    pub struct StartBatch {}
    pub struct UpdateAddHTLC {}
    pub struct UpdateFulfillHTLC {}
    pub struct UpdateFailHTLC {}
    pub struct UpdateFailMalformedHTLC {}
    pub struct CommitmentSigned {}
    pub struct RevokeAndACK {}
    pub struct UpdateFee {}
    pub struct ChannelReestablish {}
    pub struct AnnouncementSignatures {}
    pub struct ChannelAnnouncement {}
    pub struct NodeAnnouncement {}
    pub struct ChannelUpdate {}
    pub struct QueryShortChannelIds {}
    pub struct ReplyShortChannelIdsEnd {}
    pub struct QueryChannelRange {}
    pub struct ReplyChannelRange {}
    pub struct GossipTimestampFilter {}
    pub enum DecodeError { Other }
}
pub struct Buf {}
pub trait Encode { const TYPE: u16; }
pub trait Type { spec fn tid(&self) -> u16; fn type_id(&self) -> (r: u16) ensures r == self.tid(); }
impl<T: Encode> Type for T { open spec fn tid(&self) -> u16 { T::TYPE } fn type_id(&self) -> (r: u16) { T::TYPE } }
pub trait LengthReadable: Sized { fn read_from_fixed_length_buffer(r: &mut Buf) -> Result<Self, msgs::DecodeError>; }
impl<T> LengthReadable for T { #[verifier::external_body] fn read_from_fixed_length_buffer(r: &mut Buf) -> Result<Self, msgs::DecodeError> { unimplemented!() } }
pub struct CustomReader<T> { pub t: core::marker::PhantomData<T> }
impl<T> CustomReader<T> { #[verifier::external_body] pub fn read(&self, message_type: u16, buffer: &mut Buf) -> (r: Result<Option<T>, msgs::DecodeError>) { unimplemented!() } }
//@extract lightning/src/ln/wire.rs :: impl Encode for msgs::Stfu
//@end
//@extract lightning/src/ln/wire.rs :: impl Encode for msgs::PeerStorage
//@end
//@extract lightning/src/ln/wire.rs :: impl Encode for msgs::PeerStorageRetrieval
//@end
//@extract lightning/src/ln/wire.rs :: impl Encode for msgs::Init
//@end
//@extract lightning/src/ln/wire.rs :: impl Encode for msgs::ErrorMessage
//@end
//@extract lightning/src/ln/wire.rs :: impl Encode for msgs::WarningMessage
//@end
//@extract lightning/src/ln/wire.rs :: impl Encode for msgs::Ping
//@end
//@extract lightning/src/ln/wire.rs :: impl Encode for msgs::Pong
//@end
//@extract lightning/src/ln/wire.rs :: impl Encode for msgs::OpenChannel
//@end
//@extract lightning/src/ln/wire.rs :: impl Encode for msgs::AcceptChannel
//@end
//@extract lightning/src/ln/wire.rs :: impl Encode for msgs::FundingCreated
//@end
//@extract lightning/src/ln/wire.rs :: impl Encode for msgs::FundingSigned
//@end
//@extract lightning/src/ln/wire.rs :: impl Encode for msgs::ChannelReady
//@end
//@extract lightning/src/ln/wire.rs :: impl Encode for msgs::Shutdown
//@end
//@extract lightning/src/ln/wire.rs :: impl Encode for msgs::ClosingSigned
//@end
//@extract lightning/src/ln/wire.rs :: impl Encode for msgs::ClosingComplete
//@end
//@extract lightning/src/ln/wire.rs :: impl Encode for msgs::ClosingSig
//@end
//@extract lightning/src/ln/wire.rs :: impl Encode for msgs::OpenChannelV2
//@end
//@extract lightning/src/ln/wire.rs :: impl Encode for msgs::AcceptChannelV2
//@end
//@extract lightning/src/ln/wire.rs :: impl Encode for msgs::SpliceInit
//@end
//@extract lightning/src/ln/wire.rs :: impl Encode for msgs::SpliceAck
//@end
//@extract lightning/src/ln/wire.rs :: impl Encode for msgs::SpliceLocked
//@end
//@extract lightning/src/ln/wire.rs :: impl Encode for msgs::TxAddInput
//@end
//@extract lightning/src/ln/wire.rs :: impl Encode for msgs::TxAddOutput
//@end
//@extract lightning/src/ln/wire.rs :: impl Encode for msgs::TxRemoveInput
//@end
//@extract lightning/src/ln/wire.rs :: impl Encode for msgs::TxRemoveOutput
//@end
//@extract lightning/src/ln/wire.rs :: impl Encode for msgs::TxComplete
//@end
//@extract lightning/src/ln/wire.rs :: impl Encode for msgs::TxSignatures
//@end
//@extract lightning/src/ln/wire.rs :: impl Encode for msgs::TxInitRbf
//@end
//@extract lightning/src/ln/wire.rs :: impl Encode for msgs::TxAckRbf
//@end
//@extract lightning/src/ln/wire.rs :: impl Encode for msgs::TxAbort
//@end
//@extract lightning/src/ln/wire.rs :: impl Encode for msgs::OnionMessage
//@end
//@extract lightning/src/ln/wire.rs :: impl Encode for msgs::StartBatch
//@end
//@extract lightning/src/ln/wire.rs :: impl Encode for msgs::UpdateAddHTLC
//@end
//@extract lightning/src/ln/wire.rs :: impl Encode for msgs::UpdateFulfillHTLC
//@end
//@extract lightning/src/ln/wire.rs :: impl Encode for msgs::UpdateFailHTLC
//@end
//@extract lightning/src/ln/wire.rs :: impl Encode for msgs::UpdateFailMalformedHTLC
//@end
//@extract lightning/src/ln/wire.rs :: impl Encode for msgs::CommitmentSigned
//@end
//@extract lightning/src/ln/wire.rs :: impl Encode for msgs::RevokeAndACK
//@end
//@extract lightning/src/ln/wire.rs :: impl Encode for msgs::UpdateFee
//@end
//@extract lightning/src/ln/wire.rs :: impl Encode for msgs::ChannelReestablish
//@end
//@extract lightning/src/ln/wire.rs :: impl Encode for msgs::AnnouncementSignatures
//@end
//@extract lightning/src/ln/wire.rs :: impl Encode for msgs::ChannelAnnouncement
//@end
//@extract lightning/src/ln/wire.rs :: impl Encode for msgs::NodeAnnouncement
//@end
//@extract lightning/src/ln/wire.rs :: impl Encode for msgs::ChannelUpdate
//@end
//@extract lightning/src/ln/wire.rs :: impl Encode for msgs::QueryShortChannelIds
//@end
//@extract lightning/src/ln/wire.rs :: impl Encode for msgs::ReplyShortChannelIdsEnd
//@end
//@extract lightning/src/ln/wire.rs :: impl Encode for msgs::QueryChannelRange
//@end
//@extract lightning/src/ln/wire.rs :: impl Encode for msgs::ReplyChannelRange
//@end
//@extract lightning/src/ln/wire.rs :: impl Encode for msgs::GossipTimestampFilter
//@end
//@extract lightning/src/ln/wire.rs :: enum Message
//@rw R5
    <T: core::fmt::Debug + Type + TestEq>
//@with
    <T: Type>
//@end
impl<T: Type> Message<T> {
// the specification: the body of Message::type_id, copied mechanically into a spec function
//@extract lightning/src/ln/wire.rs :: impl Type for Message :: fn type_id
//@rw R5
    fn type_id(&self) -> u16
//@with
    pub open spec fn spec_tid(&self) -> u16
//@rw R16 *
    &Message::
//@with
    Message::
//@rw R16 *
    ref $x:ident
//@with
    $x
//@rw R5 *
    msg.type_id()
//@with
    msg.tid()
//@rw R16
    Message::Unknown(type_id) => type_id,
//@with
    Message::Unknown(type_id) => *type_id,
//@end
//@extract lightning/src/ln/wire.rs :: impl Type for Message :: fn type_id
//@rw R16 *
    &Message::
//@with
    Message::
//@rw R16 *
    ref $x:ident
//@with
    $x
//@rw R16
    Message::Unknown(type_id) => type_id,
//@with
    Message::Unknown(type_id) => *type_id,
//@ret r
//@ensures A
    r == self.spec_tid(),
//@end
}
//@extract lightning/src/ln/wire.rs :: fn do_read
//@rw R5
    fn do_read<R: LengthLimitedRead, T, H: CustomMessageReader<CustomMessage = T>>( buffer: &mut R, message_type: u16, custom_reader: H, ) -> Result<Message<T>, msgs::DecodeError> where T: core::fmt::Debug + Type + Writeable,
//@with
    fn do_read<T: Type>( buffer: &mut Buf, message_type: u16, custom_reader: CustomReader<T>, ) -> Result<Message<T>, msgs::DecodeError>
//@rw R8 *
    msgs::$x:ident::TYPE =>
//@with
    __t if __t == msgs::$x::TYPE =>
//@ret r
//@ensures P C13 a-decoded-message-is-of-the-type-announced-on-the-wire-and-an-unknown-type-is-handed-back-as-such
    r is Ok && !(r->Ok_0 is Custom) ==> r->Ok_0.spec_tid() == message_type,
//@mutant remove_output_decoded_as_remove_input
    msgs::TxRemoveOutput::TYPE => { Ok(Message::TxRemoveOutput(LengthReadable::read_from_fixed_length_buffer(buffer)?)) },
//@with
    msgs::TxRemoveOutput::TYPE => { Ok(Message::TxRemoveInput(LengthReadable::read_from_fixed_length_buffer(buffer)?)) },
//@end
impl<T: Type> Message<T> {
//@extract lightning/src/ln/wire.rs :: impl Message :: fn is_even
//@ret r
//@ensures P C13,C15 a-message-is-even-exactly-when-the-low-bit-of-its-type-is-clear
    r == (self.spec_tid() & 1 == 0),
//@mutant odd_types_reported_even
    (self.type_id() & 1) == 0
//@with
    (self.type_id() & 1) == 1
//@end
}
// wire::read: the two-byte type is read first; a message that then fails to decode is reported WITH the type that was announced (what the peer handler's
// tolerance of undecodable gossip is decided on, u15h), a failure to read the type itself without one
pub uninterp spec fn announced_type(b: Buf) -> u16;
pub uninterp spec fn type_readable(b: Buf) -> bool;
#[verifier::external_body] pub fn read_u16(buffer: &mut Buf) -> (r: Result<u16, msgs::DecodeError>) ensures (r is Ok) == type_readable(*old(buffer)), r is Ok ==> r->Ok_0 == announced_type(*old(buffer)) { unimplemented!() }
//@extract lightning/src/ln/wire.rs :: fn read
//@rw R5
    fn read<R: LengthLimitedRead, T, H: CustomMessageReader<CustomMessage = T>>( buffer: &mut R, custom_reader: H, ) -> Result<Message<T>, (msgs::DecodeError, Option<u16>)> where T: core::fmt::Debug + Type + Writeable,
//@with
    fn read<T: Type>( buffer: &mut Buf, custom_reader: CustomReader<T>, ) -> Result<Message<T>, (msgs::DecodeError, Option<u16>)>
//@rw R5
    <u16 as Readable>::read(buffer)
//@with
    read_u16(buffer)
//@rw * R9
    .map_err(|e| (e, $v:seq))
//@with
    .map_err(|e: msgs::DecodeError| -> (o: (msgs::DecodeError, Option<u16>)) ensures o.1 == ($v) { (e, $v) })
//@ret r
//@ensures P C13,C15 a-message-that-fails-to-decode-is-reported-with-the-type-announced-on-the-wire-and-a-decoded-one-is-of-that-type
    r is Ok && !(r->Ok_0 is Custom) ==> r->Ok_0.spec_tid() == announced_type(*old(buffer)),
    r is Err ==> r->Err_0.1 == (if type_readable(*old(buffer)) { Some(announced_type(*old(buffer))) } else { None }),
//@mutant decode_failure_reported_without_its_type
    .map_err(|e| (e, Some(message_type)))
//@with
    .map_err(|e| (e, None))
//@end
}
fn main() {}
