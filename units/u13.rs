//! unit: u13
//! properties: C13 C17 C12
//! note: the node_announcement codec is also the one the network graph stores relayed announcements with (NodeAnnouncementInfo::Relayed), so its clauses are run for C17 and C12 as well
//! note: node_announcement address descriptors: SocketAddress::len() (the value written into / checked against the addresses length field) equals the number of bytes SocketAddress::write() emits after the type byte, for every address including 255-byte hostnames
//! trusted: R15 (deep slices): QueryShortChannelIds / ReplyChannelRange read and write: the validity test and count derived from encoding_len, and the encoding_len expression written, verbatim (Self is a skeleton holding the id list)
//! assume: a message we build holds at most 8191 short channel ids (`len() as u16 * 8 + 1` is computed in u16; a peer message is at most 65535 bytes)
//! trusted: R16: `match self { &Variant { ref x, .. } => ..}` on a reference scrutinee is written with default binding modes (`Variant { x, .. }`): same bindings by reference (Verus has no `&` patterns); the mutants are written in the rewritten form
//! trusted: R5: the writer generic W is instantiated with a byte-counting writer (CountWriter: ghost number of bytes written so far); the Writeable impls of u8, u16, [u8; N] and Hostname are external_body stubs that add their wire size (1, 2, N, 1 + hostname length: impl_writeable_primitive!, impl_array!, `impl Writeable for Hostname` in util/ser.rs) and may fail; Hostname is a skeleton {bytes} with external_body len() (u8: the type invariant of Hostname is length <= 255); io::Error opaque
//! trusted: assume_specification for core::cmp::max / core::cmp::min (std definitions): present in every unit so that a change that introduces them is verified instead of being rejected by the tool
use vstd::prelude::*;
verus! {
use vstd::std_specs::cmp::*;
use core::cmp;
pub assume_specification<T: core::cmp::Ord>[core::cmp::max::<T>](a: T, b: T) -> (r: T)
    ensures T::obeys_cmp_spec() ==> r == (if b.cmp_spec(&a) == core::cmp::Ordering::Less { a } else { b });
pub assume_specification<T: core::cmp::Ord>[core::cmp::min::<T>](a: T, b: T) -> (r: T)
    ensures T::obeys_cmp_spec() ==> r == (if b.cmp_spec(&a) == core::cmp::Ordering::Less { b } else { a });
pub struct Error {}
pub struct CountWriter { pub n: Ghost<int> }
pub trait Writeable {
    spec fn wlen(&self) -> int;
    fn write(&self, writer: &mut CountWriter) -> (r: Result<(), Error>)
        ensures r is Ok ==> final(writer).n@ == old(writer).n@ + self.wlen();
}
impl Writeable for u8 { open spec fn wlen(&self) -> int { 1 } #[verifier::external_body] fn write(&self, writer: &mut CountWriter) -> (r: Result<(), Error>) { unimplemented!() } }
impl Writeable for u16 { open spec fn wlen(&self) -> int { 2 } #[verifier::external_body] fn write(&self, writer: &mut CountWriter) -> (r: Result<(), Error>) { unimplemented!() } }
impl<const N: usize> Writeable for [u8; N] { open spec fn wlen(&self) -> int { N as int } #[verifier::external_body] fn write(&self, writer: &mut CountWriter) -> (r: Result<(), Error>) { unimplemented!() } }
pub struct Hostname { pub bytes: Vec<u8> }
impl Hostname {
    #[verifier::external_body] pub fn len(&self) -> (r: u8) requires self.bytes@.len() <= 255 ensures r == self.bytes@.len() { unimplemented!() }
}
impl Writeable for Hostname { open spec fn wlen(&self) -> int { 1 + self.bytes@.len() as int } #[verifier::external_body] fn write(&self, writer: &mut CountWriter) -> (r: Result<(), Error>) { unimplemented!() } }
//@extract lightning/src/ln/msgs.rs :: enum SocketAddress
//@end
pub open spec fn addr_ok(a: SocketAddress) -> bool { a matches SocketAddress::Hostname { hostname, .. } ==> hostname.bytes@.len() <= 255 }
// BOLT 7 address descriptor sizes, type byte not counted
pub open spec fn descriptor_len(a: SocketAddress) -> int {
    match a {
        SocketAddress::TcpIpV4 { .. } => 4int + 2,
        SocketAddress::TcpIpV6 { .. } => 16int + 2,
        SocketAddress::OnionV2(_) => 12int,
        SocketAddress::OnionV3 { .. } => 32int + 2 + 1 + 2,
        SocketAddress::Hostname { hostname, .. } => 1 + hostname.bytes@.len() as int + 2,
    }
}
impl SocketAddress {
//@extract lightning/src/ln/msgs.rs :: impl SocketAddress :: fn len
//@rw R16 *
    &SocketAddress::
//@with
    SocketAddress::
//@rw R16 ?
    ref $x:ident
//@with
    $x
//@ret r
//@requires
    addr_ok(*self),
//@ensures P C13,C17,C12 the-address-length-accounted-for-every-descriptor-is-its-wire-size-including-255-byte-hostnames
    r as int == descriptor_len(*self),
//@mutant hostname_length_added_in_u8
    u16::from(hostname.len()) + 3
//@with
    (hostname.len() + 3) as u16
//@mutant onion_v3_length_off
    => 37,
//@with
    => 36,
//@end
//@extract lightning/src/ln/msgs.rs :: impl SocketAddress :: fn get_id
//@rw R16 *
    &SocketAddress::
//@with
    SocketAddress::
//@rw R16 ?
    ref $x:ident
//@with
    $x
//@ret r
//@ensures A
    1 <= r <= 5,
//@end
}
impl Writeable for SocketAddress {
    open spec fn wlen(&self) -> int { 1 + descriptor_len(*self) }
//@extract lightning/src/ln/msgs.rs :: impl Writeable for SocketAddress :: fn write
//@rw R16 *
    &SocketAddress::
//@with
    SocketAddress::
//@rw R16 ?
    ref $x:ident
//@with
    $x
//@rw R5
    fn write<W: Writer>(&self, writer: &mut W) -> Result<(), io::Error>
//@with
    fn write(&self, writer: &mut CountWriter) -> Result<(), Error>
//@ret r
//@mutant port_not_written_for_hostnames
    hostname.write(writer)?; port.write(writer)?;
//@with
    hostname.write(writer)?;
//@end
}
// ---- node_announcement, reading side: the address list is bounded by the declared addrlen -------------------------------
pub enum DecodeError { UnknownVersion, UnknownRequiredFeature, InvalidValue, ShortRead, BadLengthDescriptor, Io, UnsupportedCompression, DangerousValue }
pub struct AddrReader { pub consumed: Ghost<int>, pub limit: Ghost<int> }
pub open spec fn descriptors_len(s: Seq<SocketAddress>) -> int decreases s.len() { if s.len() == 0 { 0 } else { descriptors_len(s.drop_last()) + 1 + descriptor_len(s.last()) } }
pub proof fn lemma_descriptors_push(s: Seq<SocketAddress>, a: SocketAddress)
    ensures descriptors_len(s.push(a)) == descriptors_len(s) + 1 + descriptor_len(a)
{ assert(s.push(a).drop_last() =~= s); }
// the blanket `Readable for Result<SocketAddress, u8>` : one type byte, then the descriptor's body when the type is known
#[verifier::external_body] pub fn read_address_or_unknown_descriptor(r: &mut AddrReader) -> (res: Result<Result<SocketAddress, u8>, DecodeError>)
    ensures final(r).limit == old(r).limit, final(r).consumed@ <= final(r).limit@,
        match res { Ok(Ok(a)) => addr_ok(a) && final(r).consumed@ == old(r).consumed@ + 1 + descriptor_len(a),
                    Ok(Err(_)) => final(r).consumed@ == old(r).consumed@ + 1,
                    Err(_) => final(r).consumed@ >= old(r).consumed@ }
{ unimplemented!() }
//@extract lightning/src/ln/msgs.rs :: impl LengthReadable for UnsignedNodeAnnouncement :: fn read_from_fixed_length_buffer
//@slice R15
    let mut addresses: Vec<SocketAddress> = Vec::new(); let mut addr_readpos = 0; let mut excess = false; let mut excess_byte = 0; loop { $body:any } let mut excess_data
//@with
    fn read_address_list(r: &mut AddrReader, addr_len: u16) -> Result<(Vec<SocketAddress>, u16, bool, u8), DecodeError> { let mut addresses: Vec<SocketAddress> = Vec::new(); let mut addr_readpos = 0; let mut excess = false; let mut excess_byte = 0;
        loop
            invariant_except_break
                !excess, r.consumed@ == old(r).consumed@ + addr_readpos,
            invariant
                r.limit == old(r).limit, 0 <= old(r).consumed@ <= r.consumed@ <= r.limit@ <= 65535,
                addr_readpos as int == descriptors_len(addresses@), addr_readpos <= addr_len,
            ensures
                r.limit == old(r).limit, r.consumed@ <= r.limit@,
                addr_readpos as int == descriptors_len(addresses@), addr_readpos <= addr_len,
                r.consumed@ == old(r).consumed@ + addr_readpos + (if excess { 1int } else { 0 }),
                excess ==> addr_readpos < addr_len,
            decreases addr_len - addr_readpos
        { $body }
        Ok((addresses, addr_readpos, excess, excess_byte)) }
//@rw R5
    match Readable::read(r) {
//@with
    match read_address_or_unknown_descriptor(r) {
//@rw R9
    addresses.push(addr);
//@with
    proof { lemma_descriptors_push(addresses@, addr); }
    addresses.push(addr);
//@ret res
//@requires
    0 <= old(r).consumed@ <= old(r).limit@ <= 65535,
//@ensures P C13,C17,C12 the-address-descriptors-accepted-from-a-node-announcement-never-extend-past-the-declared-addrlen
    res matches Ok(t) ==> t.1 as int == descriptors_len(t.0@) && t.1 <= addr_len
        && final(r).consumed@ == old(r).consumed@ + t.1 + (if t.2 { 1int } else { 0 }) && (t.2 ==> t.1 < addr_len),
//@mutant descriptor_type_byte_left_out_of_the_bound
    if addr_len < addr_readpos + 1 + addr.len() {
//@with
    if addr_len < addr_readpos + addr.len() {
//@end
// ---- node_announcement, reading side: where the bytes after the known addresses go ---------------------------------------------
// The writer emits `addresses`, then `excess_address_data` (inside the declared addrlen), then `excess_data`.  The reader has
// consumed the known addresses and possibly the type byte of the first unknown descriptor; the bytes that follow, with that
// type byte put back in front, must come out as excess_address_data (exactly the rest of the declared region) followed by excess_data.
pub struct ByteReader { pub rest: Ghost<Seq<u8>> }
#[verifier::external_body] pub fn read_exact_from(r: &mut ByteReader, buf: &mut Vec<u8>, from: usize) -> (res: Result<(), DecodeError>)
    requires from <= old(buf)@.len()
    ensures res is Ok ==> old(r).rest@.len() >= old(buf)@.len() - from
            && final(buf)@ =~= old(buf)@.subrange(0, from as int) + old(r).rest@.subrange(0, old(buf)@.len() - from)
            && final(r).rest@ =~= old(r).rest@.skip(old(buf)@.len() - from),
        res is Err ==> final(buf)@.len() == old(buf)@.len(),
{ unimplemented!() }
#[verifier::external_body] pub fn read_to_end(r: &mut ByteReader) -> (res: Result<Vec<u8>, DecodeError>)
    ensures res matches Ok(v) ==> v@ == old(r).rest@ && final(r).rest@.len() == 0 { unimplemented!() }
#[verifier::external_body] pub fn extend_bytes(v: &mut Vec<u8>, more: Vec<u8>) ensures final(v)@ == old(v)@ + more@ { unimplemented!() }
#[verifier::external_body] pub fn zeroed(n: usize) -> (v: Vec<u8>) ensures v@.len() == n { unimplemented!() }
//@extract lightning/src/ln/msgs.rs :: impl LengthReadable for UnsignedNodeAnnouncement :: fn read_from_fixed_length_buffer
//@slice R15
    let mut excess_data = vec![]; let excess_address_data = $sel:any; excess_data.extend(read_to_end(r)?.iter()); Ok(UnsignedNodeAnnouncement
//@with
    fn bytes_after_the_known_addresses(r: &mut ByteReader, addr_len: u16, addr_readpos: u16, excess: bool, excess_byte: u8) -> Result<(Vec<u8>, Vec<u8>), DecodeError> {
        let mut excess_data = vec![]; let excess_address_data = $sel; excess_data.extend(read_to_end(r)?.iter());
        Ok((excess_address_data, excess_data)) }
//@rw R8 ?
    vec![0; (addr_len - addr_readpos) as usize]
//@with
    zeroed((addr_len - addr_readpos) as usize)
//@rw R5 ?
    r.read_exact(&mut excess_address_data[if excess { 1 } else { 0 }..])?;
//@with
    read_exact_from(r, &mut excess_address_data, if excess { 1 } else { 0 })?;
//@rw R6
    excess_data.extend(read_to_end(r)?.iter());
//@with
    extend_bytes(&mut excess_data, read_to_end(r)?);
//@ret res
//@requires
    addr_readpos <= addr_len,
//@ensures P C13,C17,C12 the-bytes-after-the-known-addresses-are-kept-in-the-order-they-are-written-back
    res matches Ok(t) ==> t.0@.len() == addr_len - addr_readpos
        && t.0@ + t.1@ =~= (if excess { seq![excess_byte] } else { Seq::<u8>::empty() }) + old(r).rest@,
//@mutant unknown_descriptor_type_byte_put_after_the_address_region
    excess_address_data[0] = excess_byte;
//@with
    excess_data.push(excess_byte);
//@mutant unknown_descriptor_type_byte_dropped
    excess_address_data[0] = excess_byte;
//@with
    excess_address_data[0] = 0;
//@end
// ---- gossip queries: the encoded list of short channel ids is as long as its length field says, on both sides ----
pub struct ScidList { pub short_channel_ids: Vec<u64> }
impl ScidList {
//@extract lightning/src/ln/msgs.rs :: impl LengthReadable for QueryShortChannelIds :: fn read_from_fixed_length_buffer
//@slice R15
    if $c:cond { return Err(DecodeError::InvalidValue); } let short_channel_id_count: u16 = $n:seq;
//@with
    fn query_short_channel_ids_count_from_encoding_len(encoding_len: u16) -> Result<u16, DecodeError> { if $c { return Err(DecodeError::InvalidValue); } let short_channel_id_count: u16 = $n; Ok(short_channel_id_count) }
//@ret r
//@ensures P C13 the-number-of-short-channel-ids-read-from-a-query-short-channel-ids-is-exactly-what-its-encoding-length-announces-and-a-length-that-is-not-one-plus-a-multiple-of-eight-is-refused
    r is Ok <==> (encoding_len >= 1 && (encoding_len - 1) % 8 == 0),
    r matches Ok(n) ==> 1 + 8 * n == encoding_len,
//@end
//@extract lightning/src/ln/msgs.rs :: impl Writeable for QueryShortChannelIds :: fn write
//@slice R15
    let encoding_len: u16 = $e:seq; self.chain_hash.write(w)?;
//@with
    fn query_short_channel_ids_encoding_len_written(&self) -> u16 { let encoding_len: u16 = $e; encoding_len }
//@ret r
//@requires
    self.short_channel_ids@.len() <= 8191,
//@ensures P C13 the-encoding-length-written-for-a-query-short-channel-ids-is-one-plus-eight-bytes-per-short-channel-id-the-length-its-reader-accepts
    r == 1 + 8 * self.short_channel_ids@.len(),
//@end
//@extract lightning/src/ln/msgs.rs :: impl LengthReadable for ReplyChannelRange :: fn read_from_fixed_length_buffer
//@slice R15
    if $c:cond { return Err(DecodeError::InvalidValue); } let short_channel_id_count: u16 = $n:seq;
//@with
    fn reply_channel_range_count_from_encoding_len(encoding_len: u16) -> Result<u16, DecodeError> { if $c { return Err(DecodeError::InvalidValue); } let short_channel_id_count: u16 = $n; Ok(short_channel_id_count) }
//@ret r
//@ensures P C13 the-number-of-short-channel-ids-read-from-a-reply-channel-range-is-exactly-what-its-encoding-length-announces-and-a-length-that-is-not-one-plus-a-multiple-of-eight-is-refused
    r is Ok <==> (encoding_len >= 1 && (encoding_len - 1) % 8 == 0),
    r matches Ok(n) ==> 1 + 8 * n == encoding_len,
//@end
//@extract lightning/src/ln/msgs.rs :: impl Writeable for ReplyChannelRange :: fn write
//@slice R15
    let encoding_len: u16 = $e:seq; self.chain_hash.write(w)?;
//@with
    fn reply_channel_range_encoding_len_written(&self) -> u16 { let encoding_len: u16 = $e; encoding_len }
//@ret r
//@requires
    self.short_channel_ids@.len() <= 8191,
//@ensures P C13 the-encoding-length-written-for-a-reply-channel-range-is-one-plus-eight-bytes-per-short-channel-id-the-length-its-reader-accepts
    r == 1 + 8 * self.short_channel_ids@.len(),
//@end
}
}
fn main() {}
