//! unit: u09
//! properties: C09 C03 C05 C01 C10 C19
//! note: also run for C01, C10: the code it constrains lies inside mechanisms those properties name (a change made there for their sake must meet these clauses too)
//! note: narrow claim for C09 (holding back what depends on an unfinished monitor update): FundedChannel::monitor_updating_paused adds to what is held and never drops anything held earlier; monitor_updating_restored releases exactly the held forwards / failures / finalized claims and clears them, releases a revoke_and_ack or a commitment update only if one was held (none while the peer is disconnected) and clears the flags; on the ChainMonitor side an update whose persistence is in progress is recorded as pending, a completion removes exactly that update, and the final status of update_channel is Completed only if the persister completed and the channel is not post-close
//! trusted: monitor_updating_paused is extracted whole; monitor_updating_restored, ChainMonitor::channel_monitor_updated and ChainMonitor::update_channel_internal are deep R15 slices (the statements named in the note); env: FundedChannel / ChannelContext are field skeletons; the held items are opaque; get_last_revoke_and_ack / get_last_commitment_update_for_send are external_body with unconstrained results; ChannelState is a two-flag skeleton (monitor update in progress, peer disconnected) with the macro-generated accessors' meaning; enum ChannelMonitorUpdateStatus extracted
//! trusted: R15 (deep slices): the eight places in channel.rs where a FundedChannel increments latest_monitor_update_id and builds a ChannelMonitorUpdate (get_update_fulfill_htlc, splice_initial_commitment_signed, commitment_signed_update_monitor, revoke_and_ack, shutdown, maybe_promote_splice_funding, build_commitment_no_status_check, get_shutdown): the increment statement and the `update_id:` expression, verbatim; force_shutdown (id after the last unblocked update) and free_holding_cell_htlcs (id + 1, merged into the next update) are not sliced
//! trusted: R15 (deep slice): ChannelManager::handle_channel_resumption: the two function-local macros handle_cs! / handle_raa! and the match on commitment_order that invokes them, verbatim (the macro definitions are part of the slice); MessageSendEvent is a two-variant skeleton; channel_ready / tx_signatures / announcement_sigs / forwards handling around it is dropped and not claimed
//! trusted: R15 (deep slice): ChannelManager::handle_channel_resumption: the statements that decide whether the released update_add_htlcs are returned for decoding, verbatim as a function (UpdateAddHTLC skeleton; the channel stub answers is_connected())
//! trusted: R15 (deep slice): commitment_signed_update_monitor from `self.context.expecting_peer_commitment_signed = false` to the end of the function, verbatim as a function of the update just built and need_commitment; build_commitment_no_status_check (one more update, next id, nothing held changes), push_ret_blockable_mon_update (returns the update or holds it) are external_body; monitor_updating_paused carries the contract proved for it in this unit; `a.append(&mut b)` is vec_append (R8)
//! trusted: R20 (ownership of a lock guard, a syntactic check surfaced as an obligation): ChainMonitor::flush: the pattern the guard of flush_lock is bound to is captured; the obligation holds iff it is a name (a guard bound to `_` is dropped at once). ChainMonitor::channel_monitor_updated: the guard of the pending-update set is bound to a name and no top-level `drop(..)` of it occurs between the emptiness test and the push of the Completed event (token scan by macro). This says nothing else about concurrency
//! trusted: R15 (deep slices): ChainMonitor::flush: the arm that applies a queued update and the match that reports the outcome, verbatim (R5: the monitor set is a stub whose update_channel_internal / channel_monitor_updated record their arguments; `&self` written `&mut self`; logger constructions dropped); the NewMonitor arm and the queue handling are not sliced
//! trusted: ChannelManager::handle_monitor_update_res is extracted whole (the logger type parameter instantiated, the startup flag an AtomicFlag stub); handle_new_monitor_update_locked_actions_handled_by_caller: the statements after the Watch call (removal of a completed update from the in-flight list, the defensive panic, the result pair) are sliced as a function of the in-flight list; handle_new_monitor_update_with_status / handle_post_close_monitor_update: the conditions under which the channel is resumed / the blocked actions released (slices)
//! trusted: R10: `panic!(..)` statements the source reaches on purpose (unrecoverable persistence failure; a Watch that reports Completed while earlier updates are in progress) are calls of a stub that never returns
//! trusted: R15 (deep slice): get_update_fulfill_htlc_and_commit: the statements that give a preimage update the id of the first blocked update and renumber the blocked ones, verbatim (the looked-up element expression, the id expressions and the loop body are captured); R7: `opt.map(|upd| M).unwrap_or(D)` is written as a match; R6: `for x in v.iter_mut() { B }` is an index loop that copies the element out, runs B on it and writes it back; the blocked queue is a Vec of {update: {update_id}} skeletons
//! assume: the blocked updates carry consecutive ids (they were built one after the other, each with the next id)
//! trusted: R9: `a |= b;` on bools with a side-effect-free right operand is written `a = a || b;` (Verus has no non-short-circuit `|` on bools); R8: `v.extend(w)` -> vec_extend (v becomes v followed by w); R3: log statements removed; R10: arguments of get_last_revoke_and_ack (a path callback and the logger) and of get_last_commitment_update_for_send (the logger) dropped
//! trusted: R15 (deep slice): handle_channel_resumption: the branch taken when the peer is not connected (`else if let Some(msg) = channel_ready { .. }`) verbatim, followed by a recorder standing for the rest of the function (funding broadcast, ChannelPending / ChannelReady / SpliceNegotiated events: macros and locks, not sliced); the obligation is that the branch queues the channel_ready and does not leave the function
//! assume: nothing here decides *when* these functions are called: that every state-advancing handler ends in monitor_updating_paused, that ChannelManager calls monitor_updating_restored only after every in-flight update completed, and the per-channel update-id order are not claimed
use vstd::prelude::*;
// R20: how a lock guard is bound: a guard bound to the wildcard pattern `_` is dropped at once, a named binding (also `_name`) lives to the end of its block
macro_rules! guard_lives_to_end_of_block { (_) => { false }; ($i:ident) => { true }; }
// R20: does a run of statements release the named guard by an explicit drop (top-level `drop(g)`, `mem::drop(g)` or `core::mem::drop(g)`)?
macro_rules! releases_guard {
    ($g:ident;) => { false };
    ($g:ident; drop ( $h:ident ) $($rest:tt)*) => { guard_name_eq!($g, $h) || releases_guard!($g; $($rest)*) };
    ($g:ident; $first:tt $($rest:tt)*) => { releases_guard!($g; $($rest)*) };
}
macro_rules! guard_name_eq { (pending_monitor_updates, pending_monitor_updates) => { true }; ($a:ident, $b:ident) => { false }; }
verus! {
use core::mem;
pub struct Held { pub id: u64 }
#[verifier::external_body] pub fn vec_extend<T>(v: &mut Vec<T>, w: Vec<T>) ensures final(v)@ == old(v)@ + w@ { unimplemented!() }
pub struct ChannelState { pub monitor_update_in_progress: bool, pub peer_disconnected: bool }
impl ChannelState {
    #[verifier::external_body] pub fn set_monitor_update_in_progress(&mut self) ensures final(self).monitor_update_in_progress, final(self).peer_disconnected == old(self).peer_disconnected { unimplemented!() }
    #[verifier::external_body] pub fn is_peer_disconnected(&self) -> (r: bool) ensures r == self.peer_disconnected { unimplemented!() }
}
#[derive(Clone, Copy)] pub enum RAACommitmentOrder { CommitmentFirst, RevokeAndACKFirst }
impl vstd::std_specs::cmp::PartialEqSpecImpl for RAACommitmentOrder { open spec fn obeys_eq_spec() -> bool { true } open spec fn eq_spec(&self, other: &RAACommitmentOrder) -> bool { *self == *other } }
impl PartialEq for RAACommitmentOrder { #[verifier::external_body] fn eq(&self, o: &RAACommitmentOrder) -> (r: bool) { unimplemented!() } }
pub struct RevokeAndACK { pub id: u64 }
pub struct CommitmentUpdate { pub id: u64 }
pub struct ChannelContext {
    pub latest_monitor_update_id: u64,
    pub monitor_pending_revoke_and_ack: bool, pub monitor_pending_commitment_signed: bool, pub monitor_pending_channel_ready: bool,
    pub monitor_pending_forwards: Vec<Held>, pub monitor_pending_failures: Vec<Held>, pub monitor_pending_finalized_fulfills: Vec<Held>,
    pub channel_state: ChannelState, pub resend_order: RAACommitmentOrder, pub signer_pending_commitment_update: bool, pub signer_pending_revoke_and_ack: bool,
}
pub struct FundedChannel { pub context: ChannelContext }
impl FundedChannel {
    #[verifier::external_body] pub fn get_last_revoke_and_ack(&mut self) -> (r: Option<RevokeAndACK>) ensures final(self).context == old(self).context { unimplemented!() }
    #[verifier::external_body] pub fn get_last_commitment_update_for_send(&mut self) -> (r: Result<CommitmentUpdate, ()>) ensures final(self).context == old(self).context { unimplemented!() }
//@extract lightning/src/ln/channel.rs :: impl FundedChannel :: fn monitor_updating_paused
//@rw R5
    fn monitor_updating_paused<L: Logger>( &mut self, resend_raa: bool, resend_commitment: bool, resend_channel_ready: bool, pending_forwards: Vec<(PendingHTLCInfo, u64)>, pending_fails: Vec<(HTLCSource, PaymentHash, HTLCFailReason)>, pending_finalized_claimed_htlcs: Vec<(HTLCSource, Option<AttributionData>)>, logger: &L, )
//@with
    fn monitor_updating_paused( &mut self, resend_raa: bool, resend_commitment: bool, resend_channel_ready: bool, pending_forwards: Vec<Held>, pending_fails: Vec<Held>, pending_finalized_claimed_htlcs: Vec<Held>, )
//@rw * R9
    self.context.$f:ident |= $r:ident;
//@with
    self.context.$f = self.context.$f || $r;
//@rw * R8
    self.context.$f:ident.extend($w:ident);
//@with
    vec_extend(&mut self.context.$f, $w);
//@ensures P C09,C03 pausing-for-a-monitor-update-adds-to-what-is-held-back-and-never-drops-anything-held-earlier
    final(self).context.monitor_pending_revoke_and_ack == (old(self).context.monitor_pending_revoke_and_ack || resend_raa),
    final(self).context.monitor_pending_commitment_signed == (old(self).context.monitor_pending_commitment_signed || resend_commitment),
    final(self).context.monitor_pending_channel_ready == (old(self).context.monitor_pending_channel_ready || resend_channel_ready),
    final(self).context.monitor_pending_forwards@ == old(self).context.monitor_pending_forwards@ + pending_forwards@,
    final(self).context.monitor_pending_failures@ == old(self).context.monitor_pending_failures@ + pending_fails@,
    final(self).context.monitor_pending_finalized_fulfills@ == old(self).context.monitor_pending_finalized_fulfills@ + pending_finalized_claimed_htlcs@,
    final(self).context.channel_state.monitor_update_in_progress,
//@mutant held_revoke_and_ack_forgotten_on_a_second_pause
    self.context.monitor_pending_revoke_and_ack |= resend_raa;
//@with
    self.context.monitor_pending_revoke_and_ack = resend_raa;
//@mutant held_failures_replaced_on_a_second_pause
    self.context.monitor_pending_failures.extend(pending_fails);
//@with
    self.context.monitor_pending_failures = pending_fails;
//@end
//@extract lightning/src/ln/channel.rs :: impl FundedChannel :: fn monitor_updating_restored
//@slice R15
    let mut accepted_htlcs = Vec::new(); $body:straight let mut pending_update_adds = Vec::new();
//@with
    fn hand_over_held_actions(&mut self) -> (Vec<Held>, Vec<Held>, Vec<Held>) {
        let mut requires_channel_manager_persistence = false;
        let mut accepted_htlcs = Vec::new();
        $body
        (accepted_htlcs, failed_htlcs, finalized_claimed_htlcs)
    }
//@rw * R9
    requires_channel_manager_persistence |= $r:cond;
//@with
    requires_channel_manager_persistence = requires_channel_manager_persistence || $r;
//@ret r
//@ensures P C09,C03 once-the-monitor-update-completed-exactly-the-held-forwards-failures-and-finalized-claims-are-handed-over-and-nothing-stays-held
    r.0@ == old(self).context.monitor_pending_forwards@, r.1@ == old(self).context.monitor_pending_failures@, r.2@ == old(self).context.monitor_pending_finalized_fulfills@,
    final(self).context.monitor_pending_forwards@.len() == 0, final(self).context.monitor_pending_failures@.len() == 0, final(self).context.monitor_pending_finalized_fulfills@.len() == 0,
//@mutant held_failures_left_behind
    mem::swap(&mut failed_htlcs, &mut self.context.monitor_pending_failures);
//@with
    
//@end
//@extract lightning/src/ln/channel.rs :: impl FundedChannel :: fn monitor_updating_restored
//@slice R15
    let mut raa = $ra:seq; let mut commitment_update = $cu:seq; $body:straight let commitment_order = $o:seq;
//@with
    fn release_held_messages(&mut self) -> (Option<RevokeAndACK>, Option<CommitmentUpdate>, RAACommitmentOrder) {
        let mut raa = $ra; let mut commitment_update = $cu;
        $body
        let commitment_order = $o;
        (raa, commitment_update, commitment_order)
    }
//@rw R10
    self.get_last_revoke_and_ack(path_for_release_htlc, logger)
//@with
    self.get_last_revoke_and_ack()
//@rw R10
    self.get_last_commitment_update_for_send(logger)
//@with
    self.get_last_commitment_update_for_send()
//@ret r
//@ensures P C09 a-revoke-and-ack-or-commitment-update-is-released-only-if-one-was-held-and-afterwards-none-is-held
    r.0 is Some ==> old(self).context.monitor_pending_revoke_and_ack,
    r.1 is Some ==> old(self).context.monitor_pending_commitment_signed,
    !final(self).context.monitor_pending_revoke_and_ack && !final(self).context.monitor_pending_commitment_signed,
    r.2 == old(self).context.resend_order,
//@mutant revoke_and_ack_released_without_being_held
    let mut raa = if self.context.monitor_pending_revoke_and_ack {
//@with
    let mut raa = if self.context.monitor_pending_revoke_and_ack || self.context.monitor_pending_commitment_signed {
//@end
//@extract lightning/src/ln/channel.rs :: impl FundedChannel :: fn monitor_updating_restored
//@slice R15
    if self.context.channel_state.is_peer_disconnected() { $clear:straight return MonitorRestoreUpdates { raa: $r:seq, commitment_update: $c:seq, commitment_order:
//@with
    fn nothing_released_while_disconnected(&mut self) -> (Option<RevokeAndACK>, Option<CommitmentUpdate>) { $clear ($r, $c) }
//@ret r
//@ensures P C09 while-the-peer-is-disconnected-no-held-message-is-released-and-the-flags-are-cleared-for-reestablish-to-regenerate
    r.0 is None && r.1 is None, !final(self).context.monitor_pending_revoke_and_ack && !final(self).context.monitor_pending_commitment_signed,
//@end
// ---- update ids: every ChannelMonitorUpdate a channel builds carries the next id -------------------------------
//@extract lightning/src/ln/channel.rs :: impl FundedChannel :: fn get_update_fulfill_htlc
//@slice R15
    self.context.latest_monitor_update_id $inc:seq; $decl:seq = ChannelMonitorUpdate { update_id: $id:seq, updates:
//@with
    fn next_update_id_in_get_update_fulfill_htlc(&mut self) -> u64 { self.context.latest_monitor_update_id $inc; $id }
//@ret r
//@requires
    old(self).context.latest_monitor_update_id < u64::MAX - 1,
//@ensures P C09 the-monitor-update-built-by-get-update-fulfill-htlc-carries-the-next-update-id-and-the-channel-remembers-it
    r == old(self).context.latest_monitor_update_id + 1, final(self).context.latest_monitor_update_id == r,
//@end
//@extract lightning/src/ln/channel.rs :: impl FundedChannel :: fn splice_initial_commitment_signed
//@slice R15
    self.context.latest_monitor_update_id $inc:seq; $decl:seq = ChannelMonitorUpdate { update_id: $id:seq, updates:
//@with
    fn next_update_id_in_splice_initial_commitment_signed(&mut self) -> u64 { self.context.latest_monitor_update_id $inc; $id }
//@ret r
//@requires
    old(self).context.latest_monitor_update_id < u64::MAX - 1,
//@ensures P C09 the-monitor-update-built-by-splice-initial-commitment-signed-carries-the-next-update-id-and-the-channel-remembers-it
    r == old(self).context.latest_monitor_update_id + 1, final(self).context.latest_monitor_update_id == r,
//@end
//@extract lightning/src/ln/channel.rs :: impl FundedChannel :: fn commitment_signed_update_monitor
//@slice R15
    self.context.latest_monitor_update_id $inc:seq; $decl:seq = ChannelMonitorUpdate { update_id: $id:seq, updates:
//@with
    fn next_update_id_in_commitment_signed_update_monitor(&mut self) -> u64 { self.context.latest_monitor_update_id $inc; $id }
//@ret r
//@requires
    old(self).context.latest_monitor_update_id < u64::MAX - 1,
//@ensures P C09 the-monitor-update-built-by-commitment-signed-update-monitor-carries-the-next-update-id-and-the-channel-remembers-it
    r == old(self).context.latest_monitor_update_id + 1, final(self).context.latest_monitor_update_id == r,
//@end
//@extract lightning/src/ln/channel.rs :: impl FundedChannel :: fn revoke_and_ack
//@slice R15
    self.context.latest_monitor_update_id $inc:seq; $decl:seq = ChannelMonitorUpdate { update_id: $id:seq, updates:
//@with
    fn next_update_id_in_revoke_and_ack(&mut self) -> u64 { self.context.latest_monitor_update_id $inc; $id }
//@ret r
//@requires
    old(self).context.latest_monitor_update_id < u64::MAX - 1,
//@ensures P C09 the-monitor-update-built-by-revoke-and-ack-carries-the-next-update-id-and-the-channel-remembers-it
    r == old(self).context.latest_monitor_update_id + 1, final(self).context.latest_monitor_update_id == r,
//@mutant update_built_with_the_previous_id
    update_id: self.context.latest_monitor_update_id, updates: vec![ChannelMonitorUpdateStep::CommitmentSecret
//@with
    update_id: self.context.latest_monitor_update_id - 1, updates: vec![ChannelMonitorUpdateStep::CommitmentSecret
//@end
//@extract lightning/src/ln/channel.rs :: impl FundedChannel :: fn shutdown
//@slice R15
    self.context.latest_monitor_update_id $inc:seq; $decl:seq = ChannelMonitorUpdate { update_id: $id:seq, updates:
//@with
    fn next_update_id_in_shutdown(&mut self) -> u64 { self.context.latest_monitor_update_id $inc; $id }
//@ret r
//@requires
    old(self).context.latest_monitor_update_id < u64::MAX - 1,
//@ensures P C09 the-monitor-update-built-by-shutdown-carries-the-next-update-id-and-the-channel-remembers-it
    r == old(self).context.latest_monitor_update_id + 1, final(self).context.latest_monitor_update_id == r,
//@end
//@extract lightning/src/ln/channel.rs :: impl FundedChannel :: fn maybe_promote_splice_funding
//@slice R15
    self.context.latest_monitor_update_id $inc:seq; $decl:seq = ChannelMonitorUpdate { update_id: $id:seq, updates:
//@with
    fn next_update_id_in_maybe_promote_splice_funding(&mut self) -> u64 { self.context.latest_monitor_update_id $inc; $id }
//@ret r
//@requires
    old(self).context.latest_monitor_update_id < u64::MAX - 1,
//@ensures P C09 the-monitor-update-built-by-maybe-promote-splice-funding-carries-the-next-update-id-and-the-channel-remembers-it
    r == old(self).context.latest_monitor_update_id + 1, final(self).context.latest_monitor_update_id == r,
//@end
//@extract lightning/src/ln/channel.rs :: impl FundedChannel :: fn build_commitment_no_status_check
//@slice R15
    self.context.latest_monitor_update_id $inc:seq; $decl:seq = ChannelMonitorUpdate { update_id: $id:seq, updates:
//@with
    fn next_update_id_in_build_commitment_no_status_check(&mut self) -> u64 { self.context.latest_monitor_update_id $inc; $id }
//@ret r
//@requires
    old(self).context.latest_monitor_update_id < u64::MAX - 1,
//@ensures P C09 the-monitor-update-built-by-build-commitment-no-status-check-carries-the-next-update-id-and-the-channel-remembers-it
    r == old(self).context.latest_monitor_update_id + 1, final(self).context.latest_monitor_update_id == r,
//@end
//@extract lightning/src/ln/channel.rs :: impl FundedChannel :: fn get_shutdown
//@slice R15
    self.context.latest_monitor_update_id $inc:seq; $decl:seq = ChannelMonitorUpdate { update_id: $id:seq, updates:
//@with
    fn next_update_id_in_get_shutdown(&mut self) -> u64 { self.context.latest_monitor_update_id $inc; $id }
//@ret r
//@requires
    old(self).context.latest_monitor_update_id < u64::MAX - 1,
//@ensures P C09 the-monitor-update-built-by-get-shutdown-carries-the-next-update-id-and-the-channel-remembers-it
    r == old(self).context.latest_monitor_update_id + 1, final(self).context.latest_monitor_update_id == r,
//@end
}
// ---- a preimage update that must not wait jumps the queue of blocked updates without leaving a gap ---------------------
pub struct ChannelMonitorUpdate { pub update_id: u64 }
pub struct PendingChannelMonitorUpdate { pub update: ChannelMonitorUpdate }
pub open spec fn consecutive_from(s: Seq<PendingChannelMonitorUpdate>, first: int) -> bool { forall|k: int| 0 <= k < s.len() ==> (#[trigger] s[k]).update.update_id == first + k }
//@extract lightning/src/ln/channel.rs :: impl FundedChannel :: fn get_update_fulfill_htlc_and_commit
//@slice R15
    let blocked_upd = $b:seq; let new_mon_id = blocked_upd .map(|upd| $m:seq) .unwrap_or($d:seq); monitor_update.update_id = new_mon_id; for held_update in self.context.blocked_monitor_updates.iter_mut() { $body:straight }
//@with
    fn preimage_update_jumps_the_queue(blocked_monitor_updates: &mut Vec<PendingChannelMonitorUpdate>, monitor_update: &mut ChannelMonitorUpdate) {
        let ghost old_b = blocked_monitor_updates@;
        let blocked_upd = $b;
        // R7: `opt.map(|upd| M).unwrap_or(D)` as a match
        let new_mon_id = match blocked_upd { Some(upd) => $m, None => $d };
        monitor_update.update_id = new_mon_id;
        // R6: `for held_update in v.iter_mut() { B }` as an index loop over the elements in order
        let mut __i: usize = 0;
        while __i < blocked_monitor_updates.len()
            invariant blocked_monitor_updates@.len() == old_b.len(), __i <= old_b.len(), consecutive_from(old_b, old_b[0].update.update_id as int) || old_b.len() == 0,
                old_b.len() > 0 ==> old_b[0].update.update_id + old_b.len() < u64::MAX,
                forall|k: int| 0 <= k < __i ==> (#[trigger] blocked_monitor_updates@[k]).update.update_id == old_b[k].update.update_id + 1,
                forall|k: int| __i <= k < old_b.len() ==> (#[trigger] blocked_monitor_updates@[k]).update.update_id == old_b[k].update.update_id,
            decreases old_b.len() - __i
        {
            let mut __e = PendingChannelMonitorUpdate { update: ChannelMonitorUpdate { update_id: blocked_monitor_updates[__i].update.update_id } };
            { let held_update = &mut __e; $body }
            blocked_monitor_updates.set(__i, __e);
            __i = __i + 1;
        }
    }
//@rw R10
    self.context.blocked_monitor_updates
//@with
    blocked_monitor_updates
//@requires
    old(blocked_monitor_updates)@.len() > 0 ==> consecutive_from(old(blocked_monitor_updates)@, old(blocked_monitor_updates)@[0].update.update_id as int)
        && old(blocked_monitor_updates)@[0].update.update_id + old(blocked_monitor_updates)@.len() < u64::MAX,
//@ensures P C09 a-preimage-update-that-jumps-the-queue-takes-the-id-of-the-first-blocked-update-and-every-blocked-update-moves-up-by-one-so-the-sequence-stays-gap-free
    old(blocked_monitor_updates)@.len() == 0 ==> final(monitor_update).update_id == old(monitor_update).update_id,
    old(blocked_monitor_updates)@.len() > 0 ==> final(monitor_update).update_id == old(blocked_monitor_updates)@[0].update.update_id
        && consecutive_from(final(blocked_monitor_updates)@, final(monitor_update).update_id as int + 1),
    final(blocked_monitor_updates)@.len() == old(blocked_monitor_updates)@.len(),
//@mutant preimage_update_takes_the_last_blocked_id
    let blocked_upd = self.context.blocked_monitor_updates.get(0);
//@with
    let blocked_upd = self.context.blocked_monitor_updates.last();
//@end
// ---- ChannelManager::handle_channel_resumption: the order in which the two released messages go out ---------------
#[derive(Clone, Copy)] pub struct PublicKey { pub id: u64 }
#[derive(Clone, Copy)] pub struct ChannelId { pub id: u64 }
pub enum MessageSendEvent { UpdateHTLCs { node_id: PublicKey, channel_id: ChannelId, updates: CommitmentUpdate }, SendRevokeAndACK { node_id: PublicKey, msg: RevokeAndACK } }
pub struct ResumedCtx { pub id: ChannelId, pub connected: bool }
impl ResumedCtx {
    #[verifier::external_body] pub fn channel_id(&self) -> (r: ChannelId) ensures r == self.id { unimplemented!() }
    #[verifier::external_body] pub fn is_connected(&self) -> (r: bool) ensures r == self.connected { unimplemented!() }
}
pub struct UpdateAddHTLC { pub id: u64 }
pub struct ResumedChannel { pub context: ResumedCtx }
pub open spec fn cs_event(cu: Option<CommitmentUpdate>, n: PublicKey, c: ChannelId) -> Seq<MessageSendEvent> { match cu { Some(u) => seq![MessageSendEvent::UpdateHTLCs { node_id: n, channel_id: c, updates: u }], None => Seq::empty() } }
pub open spec fn raa_event(raa: Option<RevokeAndACK>, n: PublicKey) -> Seq<MessageSendEvent> { match raa { Some(r) => seq![MessageSendEvent::SendRevokeAndACK { node_id: n, msg: r }], None => Seq::empty() } }
//@extract lightning/src/ln/channelmanager.rs :: impl ChannelManager :: fn handle_channel_resumption
//@slice R15
    macro_rules! handle_cs { $a:any } macro_rules! handle_raa { $b:any } match commitment_order { $arms:any }
//@with
    fn send_released_messages_in_order(pending_msg_events: &mut Vec<MessageSendEvent>, channel: &ResumedChannel, raa: Option<RevokeAndACK>, commitment_update: Option<CommitmentUpdate>, commitment_order: RAACommitmentOrder, counterparty_node_id: PublicKey) {
        macro_rules! handle_cs { $a }
        macro_rules! handle_raa { $b }
        match commitment_order { $arms }
    }
//@ensures P C09 the-released-commitment-update-and-revoke-and-ack-go-out-exactly-once-each-in-the-order-the-channel-recorded
    final(pending_msg_events)@ =~= old(pending_msg_events)@ + (match commitment_order {
        RAACommitmentOrder::CommitmentFirst => cs_event(commitment_update, counterparty_node_id, channel.context.id) + raa_event(raa, counterparty_node_id),
        RAACommitmentOrder::RevokeAndACKFirst => raa_event(raa, counterparty_node_id) + cs_event(commitment_update, counterparty_node_id, channel.context.id),
    }),
//@mutant revoke_and_ack_sent_first_regardless
    RAACommitmentOrder::CommitmentFirst => { handle_cs!(); handle_raa!(); },
//@with
    RAACommitmentOrder::CommitmentFirst => { handle_raa!(); handle_cs!(); },
//@end
//@extract lightning/src/ln/channelmanager.rs :: impl ChannelManager :: fn handle_channel_resumption
//@slice R15
    let mut decode_update_add_htlcs = None; if $c:cond { $then:straight } if channel.context.is_connected() {
//@with
    fn released_update_adds_are_handed_on(channel: &ResumedChannel, outbound_scid_alias: u64, pending_update_adds: Vec<UpdateAddHTLC>) -> Option<(u64, Vec<UpdateAddHTLC>)> { let mut decode_update_add_htlcs = None; if $c { $then } decode_update_add_htlcs }
//@ret r
//@ensures P C09 the-update-adds-released-by-a-completed-monitor-update-are-all-handed-on-for-decoding-whether-or-not-the-peer-is-connected
    pending_update_adds@.len() > 0 ==> r == Some((outbound_scid_alias, pending_update_adds)),
    pending_update_adds@.len() == 0 ==> r is None,
//@mutant released_update_adds_dropped_while_the_peer_is_away
    if !pending_update_adds.is_empty() {
//@with
    if !pending_update_adds.is_empty() && channel.context.is_connected() {
//@end
// ---- handle_channel_resumption while the peer is away: the channel_ready is queued and the function goes on to the funding broadcast and the events ----
pub struct ChannelReady { pub id: u64 }
pub struct HtlcForwards {} pub struct DecodeAdds {}
pub struct Transaction { pub id: u64 }
// ghost log: the channel_ready messages handed to send_channel_ready, and whether the statement that deals with the funding transaction was reached
pub struct ResumptionManager { pub readies: Ghost<Seq<ChannelReady>>, pub reached_funding_step: Ghost<bool> }
impl ResumptionManager {
    #[verifier::external_body] pub fn send_channel_ready(&mut self, pending_msg_events: &mut Vec<MessageSendEvent>, channel: &ResumedChannel, msg: ChannelReady)
        ensures final(self).readies@ == old(self).readies@.push(msg), final(self).reached_funding_step == old(self).reached_funding_step { unimplemented!() }
    #[verifier::external_body] pub fn funding_broadcast_and_events(&mut self, funding_broadcastable: Option<Transaction>)
        ensures final(self).readies == old(self).readies, final(self).reached_funding_step@ { unimplemented!() }
//@extract lightning/src/ln/channelmanager.rs :: impl ChannelManager :: fn handle_channel_resumption
//@slice R15
    } else if let Some(msg) = channel_ready { $away:any } if let Some(tx) = funding_broadcastable {
//@with
    fn resume_while_the_peer_is_away(&mut self, pending_msg_events: &mut Vec<MessageSendEvent>, channel: &ResumedChannel, channel_ready: Option<ChannelReady>, funding_broadcastable: Option<Transaction>,
        htlc_forwards: HtlcForwards, decode_update_add_htlcs: DecodeAdds) -> (HtlcForwards, DecodeAdds) {
        if channel.context.is_connected() { } else if let Some(msg) = channel_ready { $away }
        self.funding_broadcast_and_events(funding_broadcastable);
        (htlc_forwards, decode_update_add_htlcs) }
//@requires
    !channel.context.connected, !old(self).reached_funding_step@,
//@ensures P C09 a-channel-resumed-while-its-peer-is-away-queues-its-channel-ready-and-still-goes-on-to-the-funding-broadcast-and-the-events
    final(self).reached_funding_step@,
    channel_ready matches Some(m) ==> final(self).readies@ == old(self).readies@.push(m),
    channel_ready is None ==> final(self).readies@ == old(self).readies@,
//@mutant resumption_ends_after_queueing_the_channel_ready
    self.send_channel_ready(pending_msg_events, channel, msg); } if let Some(tx) = funding_broadcastable {
//@with
    self.send_channel_ready(pending_msg_events, channel, msg); return (htlc_forwards, decode_update_add_htlcs); } if let Some(tx) = funding_broadcastable {
//@end
}
//@extract lightning/src/chain/mod.rs :: enum ChannelMonitorUpdateStatus
//@end
impl vstd::std_specs::cmp::PartialEqSpecImpl for ChannelMonitorUpdateStatus { open spec fn obeys_eq_spec() -> bool { true } open spec fn eq_spec(&self, other: &ChannelMonitorUpdateStatus) -> bool { *self == *other } }
impl PartialEq for ChannelMonitorUpdateStatus { #[verifier::external_body] fn eq(&self, o: &ChannelMonitorUpdateStatus) -> (r: bool) { unimplemented!() } }
// ---- ChannelManager: holding until every in-flight update of the channel completed --------------------------------
pub struct AtomicFlag { pub v: bool }
pub enum Ordering { Acquire, Relaxed }
impl AtomicFlag { #[verifier::external_body] pub fn load(&self, o: Ordering) -> (r: bool) ensures r == self.v { unimplemented!() } }
pub struct LoggerStub {}
// the source panics on purpose (unrecoverable persistence failure; a Watch that breaks its contract): never returns
#[verifier::external_body] pub fn panics_on_purpose<T>() -> (r: T) ensures false { unimplemented!() }
pub struct ChannelManager { pub background_events_processed_since_startup: AtomicFlag }
pub struct InFlightUpdate { pub update_id: u64 }
impl ChannelManager {
//@extract lightning/src/ln/channelmanager.rs :: impl ChannelManager :: fn handle_monitor_update_res
//@rw R5
    fn handle_monitor_update_res<LG: Logger>( &self, update_res: ChannelMonitorUpdateStatus, logger: LG, )
//@with
    fn handle_monitor_update_res( &self, update_res: ChannelMonitorUpdateStatus, logger: LoggerStub, )
//@rw * R10
    panic!($m:any);
//@with
    return panics_on_purpose();
//@ret r
//@requires
    self.background_events_processed_since_startup.v,
//@ensures P C09 what-depends-on-a-monitor-update-is-held-unless-the-watch-reported-that-very-update-completed
    r == (update_res is Completed),
//@mutant in_progress_treated_as_completed
    false }, ChannelMonitorUpdateStatus::Completed => true,
//@with
    true }, ChannelMonitorUpdateStatus::Completed => true,
//@end
//@extract lightning/src/ln/channelmanager.rs :: impl ChannelManager :: fn handle_new_monitor_update_locked_actions_handled_by_caller
//@slice R15
    let update_completed = $uc:seq; $body:any ($a:seq, $b:seq) } else { let event = BackgroundEvent::MonitorUpdateRegeneratedOnStartup
//@with
    fn note_update_result(in_flight_updates: &mut Vec<InFlightUpdate>, update_idx: usize, update_completed: bool, is_replay: bool) -> (bool, bool) {
        $body
        ($a, $b)
    }
//@rw * R10
    panic!($m:any);
//@with
    return panics_on_purpose();
//@ret r
//@requires
    update_idx < old(in_flight_updates)@.len(),
//@ensures P C09 a-channel-counts-as-fully-persisted-only-when-this-update-completed-and-no-other-update-of-the-channel-is-still-in-flight
    r.0 == update_completed,
    r.1 == (update_completed && old(in_flight_updates)@.len() == 1),
    update_completed ==> final(in_flight_updates)@ == old(in_flight_updates)@.remove(update_idx as int),
    !update_completed ==> final(in_flight_updates)@ == old(in_flight_updates)@,
//@mutant all_complete_although_updates_remain_in_flight
    (update_completed, update_completed && in_flight_updates.is_empty())
//@with
    (update_completed, update_completed)
//@end
}
//@extract lightning/src/ln/channelmanager.rs :: impl ChannelManager :: fn handle_new_monitor_update_with_status
//@slice R15
    let completion_data = if $c:cond { Some(
//@with
    fn channel_is_resumed_after_new_update(all_updates_complete: bool, update_completed: bool) -> bool { $c }
//@ret r
//@ensures P C09 a-channel-is-resumed-after-a-new-update-only-when-all-its-in-flight-updates-completed
    r == all_updates_complete,
//@end
//@extract lightning/src/ln/channelmanager.rs :: impl ChannelManager :: fn handle_post_close_monitor_update
//@slice R15
    if $c:cond { Some(monitor_update_blocked_actions.remove(&channel_id).unwrap_or(Vec::new())) } else { None }
//@with
    fn post_close_actions_are_released(all_updates_complete: bool, _update_completed: bool) -> bool { $c }
//@ret r
//@ensures P C09 the-actions-blocked-on-a-closed-channels-updates-are-released-only-when-all-its-in-flight-updates-completed
    r == all_updates_complete,
//@end
// ---- ChainMonitor ------------------------------------------------------------------------------------------------
//@extract lightning/src/chain/chainmonitor.rs :: impl ChainMonitor :: fn channel_monitor_updated
//@slice R15
    pending_monitor_updates.retain(|update_id| $p:cond);
//@with
    fn update_stays_pending(update_id: &u64, completed_update_id: u64) -> bool { $p }
//@ret r
//@ensures P C09 a-completion-removes-exactly-the-completed-update-from-the-pending-set
    r == (*update_id != completed_update_id),
//@end
//@extract lightning/src/chain/chainmonitor.rs :: impl ChainMonitor :: fn update_channel_internal
//@slice R15
    match persist_res { ChannelMonitorUpdateStatus::InProgress => { $s:straight }, ChannelMonitorUpdateStatus::Completed => { $t:any }, ChannelMonitorUpdateStatus::UnrecoverableError => {
//@with
    fn record_persistence_result(persist_res: ChannelMonitorUpdateStatus, pending_monitor_updates: &mut Vec<u64>, update_id: u64) {
        match persist_res { ChannelMonitorUpdateStatus::InProgress => { $s }, ChannelMonitorUpdateStatus::Completed => { $t }, ChannelMonitorUpdateStatus::UnrecoverableError => {} }
    }
//@ensures P C09 an-update-whose-persistence-is-in-progress-is-recorded-as-pending-and-a-completed-one-is-not
    persist_res is InProgress ==> final(pending_monitor_updates)@ == old(pending_monitor_updates)@.push(update_id),
    persist_res is Completed ==> final(pending_monitor_updates)@ == old(pending_monitor_updates)@,
//@mutant in_progress_update_not_recorded
    pending_monitor_updates.push(update_id);
//@with
    
//@end
// what is handed to the persister after an update was applied (ChainMonitor::update_channel_internal): the update itself when the monitor accepted it, the WHOLE monitor when it refused it - a refused update stored on its own would be replayed on top of the stored monitor at the next start, refused again, and make the stored state unreadable
pub struct UpdateStub { pub update_id: u64 }
pub struct MonitorKey { pub id: u64 }
pub struct PersistedMonitor { pub key: MonitorKey }
impl PersistedMonitor { #[verifier::external_body] pub fn persistence_key(&self) -> (r: u64) ensures r == self.key.id { unimplemented!() } }
pub struct PersisterStub { pub calls: Ghost<Seq<(u64, Option<u64>)>>, pub answer: ChannelMonitorUpdateStatus }
impl PersisterStub { #[verifier::external_body] pub fn update_persisted_channel(&mut self, key: u64, update: Option<&UpdateStub>, monitor: &PersistedMonitor) -> (r: ChannelMonitorUpdateStatus)
    ensures final(self).calls@ == old(self).calls@.push((key, if update is Some { Some(update->Some_0.update_id) } else { None })), r == old(self).answer, final(self).answer == old(self).answer { unimplemented!() } }
pub struct ChainMon { pub persister: PersisterStub }
impl ChainMon {
//@extract lightning/src/chain/chainmonitor.rs :: impl ChainMonitor :: fn update_channel_internal
//@slice R15
    let persist_res = if update_res.is_err() { $refused:any } else { $accepted:any };
//@with
    fn hand_the_result_to_the_persister(&mut self, update_res: &Result<(), ()>, update: &UpdateStub, monitor: &PersistedMonitor) -> ChannelMonitorUpdateStatus {
        let persist_res = if update_res.is_err() { $refused } else { $accepted }; persist_res }
//@ret r
//@ensures P C09,C19 an-accepted-update-is-persisted-as-that-update-a-refused-one-by-writing-the-whole-monitor-never-as-an-update-that-would-be-replayed
    final(self).persister.calls@ == old(self).persister.calls@.push((monitor.key.id, if *update_res is Ok { Some(update.update_id) } else { None::<u64> })),
    r == old(self).persister.answer,
//@mutant refused_update_stored_as_an_incremental_update
    monitor.persistence_key(), None, monitor,
//@with
    monitor.persistence_key(), Some(update), monitor,
//@end
}
// a NEW monitor (ChainMonitor::watch_channel_internal, from the persist call to the end): its first persistence is recorded as pending in the holder that is stored, under the monitor's own update id
pub struct NewMonitor { pub latest_update_id: u64 }
pub struct MonitorHolder { pub monitor: NewMonitor, pub pending_monitor_updates: PendingList }
pub struct PendingList { pub v: Vec<u64> }
pub struct Mutex {}
impl Mutex { #[verifier::external_body] pub fn new(v: Vec<u64>) -> (r: PendingList) ensures r.v == v { unimplemented!() } }
pub struct VacantEntry { pub stored: Ghost<Option<MonitorHolder>> }
impl VacantEntry { #[verifier::external_body] pub fn insert(&mut self, h: MonitorHolder) ensures final(self).stored@ == Some(h) { unimplemented!() } }
//@extract lightning/src/chain/chainmonitor.rs :: impl ChainMonitor :: fn watch_channel_internal
//@slice R15
    let mut pending_monitor_updates = Vec::new(); let persist_res = $call:seq; match persist_res { ChannelMonitorUpdateStatus::InProgress => { $s:straight }, ChannelMonitorUpdateStatus::Completed => { $t:any }, ChannelMonitorUpdateStatus::UnrecoverableError => { $u:any }, } if let Some(ref chain_source) = self.chain_source { $load:any } entry.insert(MonitorHolder { $fields:any }); Ok(persist_res)
//@with
    fn record_first_persistence(persist_res: ChannelMonitorUpdateStatus, monitor: NewMonitor, update_id: u64, entry: &mut VacantEntry) -> Result<ChannelMonitorUpdateStatus, ()> {
        let mut pending_monitor_updates = Vec::new();
        match persist_res { ChannelMonitorUpdateStatus::InProgress => { $s }, ChannelMonitorUpdateStatus::Completed => { $t }, ChannelMonitorUpdateStatus::UnrecoverableError => { panics_on_purpose::<()>(); }, }
        entry.insert(MonitorHolder { $fields }); Ok(persist_res)
    }
//@ret r
//@requires
    update_id == monitor.latest_update_id,
//@ensures P C09 the-first-persistence-of-a-new-monitor-that-is-still-in-progress-is-recorded-as-pending-in-the-holder-that-is-stored-so-that-no-later-completion-can-resume-the-channel-before-it
    r == Ok::<ChannelMonitorUpdateStatus, ()>(persist_res),
    final(entry).stored@ is Some && final(entry).stored@->Some_0.monitor == monitor,
    persist_res is InProgress ==> final(entry).stored@->Some_0.pending_monitor_updates.v@ == seq![monitor.latest_update_id],
    persist_res is Completed ==> final(entry).stored@->Some_0.pending_monitor_updates.v@.len() == 0,
//@mutant first_persistence_in_progress_not_recorded
    pending_monitor_updates: Mutex::new(pending_monitor_updates),
//@with
    pending_monitor_updates: Mutex::new(Vec::new()),
//@end
//@extract lightning/src/chain/chainmonitor.rs :: impl ChainMonitor :: fn update_channel_internal
//@slice R15
    if $c:cond { let funding_txo = monitor.get_funding_txo(); let channel_id = monitor.channel_id();
//@with
    fn completion_is_deferred(update_res: &Result<(), ()>, monitor: &MonitorStub, persist_res: ChannelMonitorUpdateStatus) -> bool { $c }
//@ret r
//@ensures P C09 update-channel-reports-completed-only-if-the-persister-completed-and-the-channel-is-not-post-close
    !r && persist_res is Completed ==> update_res is Ok && !monitor.post_close,
//@end
pub struct MonitorStub { pub post_close: bool }
impl MonitorStub { #[verifier::external_body] pub fn no_further_updates_allowed(&self) -> (r: bool) ensures r == self.post_close { unimplemented!() } }
// ---- commitment_signed_update_monitor, from the built update to the end: the revoke_and_ack is always HELD behind the update, ids stay gap-free ----
pub mod cs_tail {
use vstd::prelude::*;
#[derive(Clone, Copy)] pub enum RAACommitmentOrder { CommitmentFirst, RevokeAndACKFirst }
pub struct Step { pub id: u64 }
pub struct ChannelMonitorUpdate { pub update_id: u64, pub updates: Vec<Step> }
pub struct ChannelState { pub monitor_update_in_progress: bool, pub awaiting_remote_revoke: bool }
impl ChannelState {
    #[verifier::external_body] pub fn is_monitor_update_in_progress(&self) -> (r: bool) ensures r == self.monitor_update_in_progress { unimplemented!() }
    #[verifier::external_body] pub fn is_awaiting_remote_revoke(&self) -> (r: bool) ensures r == self.awaiting_remote_revoke { unimplemented!() }
}
pub struct Ctx { pub latest_monitor_update_id: u64, pub expecting_peer_commitment_signed: bool, pub resend_order: RAACommitmentOrder, pub channel_state: ChannelState,
    pub monitor_pending_revoke_and_ack: bool, pub monitor_pending_commitment_signed: bool, pub monitor_pending_channel_ready: bool }
pub struct Held { pub id: u64 }
pub struct LoggerStub {}
pub struct Chan { pub context: Ctx }
pub uninterp spec fn own_commitment_steps() -> Seq<Step>;
impl Chan {
    // builds our own next commitment: one more monitor update (next id), no effect on what is held
    #[verifier::external_body] pub fn build_commitment_no_status_check(&mut self, logger: &LoggerStub) -> (r: ChannelMonitorUpdate)
        requires old(self).context.latest_monitor_update_id < u64::MAX
        ensures final(self).context.latest_monitor_update_id == old(self).context.latest_monitor_update_id + 1, r.update_id == final(self).context.latest_monitor_update_id, r.updates@ == own_commitment_steps(),
            final(self).context.monitor_pending_revoke_and_ack == old(self).context.monitor_pending_revoke_and_ack, final(self).context.monitor_pending_commitment_signed == old(self).context.monitor_pending_commitment_signed,
            final(self).context.monitor_pending_channel_ready == old(self).context.monitor_pending_channel_ready, final(self).context.channel_state == old(self).context.channel_state,
            final(self).context.expecting_peer_commitment_signed == old(self).context.expecting_peer_commitment_signed
    { unimplemented!() }
    // contract proved for the real function above
    #[verifier::external_body] pub fn monitor_updating_paused(&mut self, resend_raa: bool, resend_commitment: bool, resend_channel_ready: bool, pending_forwards: Vec<Held>, pending_fails: Vec<Held>, pending_finalized_claimed_htlcs: Vec<Held>, logger: &LoggerStub)
        ensures final(self).context.monitor_pending_revoke_and_ack == (old(self).context.monitor_pending_revoke_and_ack || resend_raa),
            final(self).context.monitor_pending_commitment_signed == (old(self).context.monitor_pending_commitment_signed || resend_commitment),
            final(self).context.monitor_pending_channel_ready == (old(self).context.monitor_pending_channel_ready || resend_channel_ready),
            final(self).context.channel_state.monitor_update_in_progress, final(self).context.channel_state.awaiting_remote_revoke == old(self).context.channel_state.awaiting_remote_revoke,
            final(self).context.latest_monitor_update_id == old(self).context.latest_monitor_update_id, final(self).context.expecting_peer_commitment_signed == old(self).context.expecting_peer_commitment_signed
    { unimplemented!() }
    #[verifier::external_body] pub fn push_ret_blockable_mon_update(&mut self, update: ChannelMonitorUpdate) -> (r: Option<ChannelMonitorUpdate>)
        ensures final(self).context == old(self).context, r is Some ==> r->Some_0 == update { unimplemented!() }
//@extract lightning/src/ln/channel.rs :: impl FundedChannel :: fn commitment_signed_update_monitor
//@slice R15
    self.context.expecting_peer_commitment_signed = false; $rest:any }
//@with
    fn hold_the_revoke_and_ack_behind_the_update(&mut self, mut monitor_update: ChannelMonitorUpdate, need_commitment: bool, logger: &LoggerStub) -> Result<Option<ChannelMonitorUpdate>, ()> {
        self.context.expecting_peer_commitment_signed = false; $rest }
//@rw R8 *
    monitor_update.updates.append(&mut additional_update.updates);
//@with
    vec_append(&mut monitor_update.updates, &mut additional_update.updates);
//@ret r
//@requires
    monitor_update.update_id == old(self).context.latest_monitor_update_id, old(self).context.latest_monitor_update_id < u64::MAX,
//@ensures P C09,C05 after-a-valid-commitment-signed-the-revoke-and-ack-is-held-behind-the-monitor-update-never-sent-directly-and-the-update-keeps-the-next-id-even-when-our-own-commitment-is-merged-into-it
    r is Ok,
    final(self).context.monitor_pending_revoke_and_ack,
    final(self).context.latest_monitor_update_id == old(self).context.latest_monitor_update_id,
    final(self).context.monitor_pending_commitment_signed == (old(self).context.monitor_pending_commitment_signed || (need_commitment && !old(self).context.channel_state.awaiting_remote_revoke)),
    !final(self).context.expecting_peer_commitment_signed,
    r->Ok_0 is Some ==> r->Ok_0->Some_0.update_id == monitor_update.update_id
        && r->Ok_0->Some_0.updates@ == monitor_update.updates@ + (if need_commitment && !old(self).context.channel_state.awaiting_remote_revoke { own_commitment_steps() } else { Seq::empty() }),
//@mutant revoke_and_ack_not_held_when_an_update_is_already_in_progress
    self.context.monitor_pending_revoke_and_ack = true;
//@with
    self.context.monitor_pending_revoke_and_ack = false;
//@mutant merged_update_leaves_a_gap_in_the_ids
    self.context.latest_monitor_update_id = monitor_update.update_id; monitor_update.updates.append(&mut additional_update.updates); true
//@with
    monitor_update.updates.append(&mut additional_update.updates); true
//@end
}
#[verifier::external_body] pub fn vec_append<T>(v: &mut Vec<T>, w: &mut Vec<T>) ensures final(v)@ == old(v)@ + old(w)@, final(w)@.len() == 0 { unimplemented!() }
}
// ---- ChainMonitor::flush (deferred mode): a queued operation is applied under its own id, and a completed one is reported as completed for exactly that id ----
pub mod deferred_flush {
use vstd::prelude::*;
#[derive(Clone, Copy)] pub struct ChannelId { pub id: u64 }
pub struct ChannelMonitorUpdate { pub update_id: u64 }
pub struct LoggerStub {}
pub enum ChannelMonitorUpdateStatus { Completed, InProgress, UnrecoverableError }
pub enum Did { Applied { channel_id: ChannelId, update_id: u64 }, ReportedCompleted { channel_id: ChannelId, update_id: u64 } }
pub uninterp spec fn persister_answer(channel_id: ChannelId, update_id: u64) -> ChannelMonitorUpdateStatus;
pub struct Monitors { pub did: Ghost<Seq<Did>> }
impl Monitors {
    // applies the update and returns what the persister answered; never returns UnrecoverableError (it panics on it): proved for the real function in this unit's ChainMonitor slices
    #[verifier::external_body] pub fn update_channel_internal(&mut self, channel_id: ChannelId, update: &ChannelMonitorUpdate) -> (r: ChannelMonitorUpdateStatus)
        ensures final(self).did@ == old(self).did@.push(Did::Applied { channel_id, update_id: update.update_id }), r == persister_answer(channel_id, update.update_id), !(r is UnrecoverableError) { unimplemented!() }
    #[verifier::external_body] pub fn channel_monitor_updated(&mut self, channel_id: ChannelId, completed_update_id: u64) -> (r: Result<(), ()>)
        ensures final(self).did@ == old(self).did@.push(Did::ReportedCompleted { channel_id, update_id: completed_update_id }), r is Ok { unimplemented!() }
//@extract lightning/src/chain/chainmonitor.rs :: impl ChainMonitor :: fn channel_monitor_updated
//@slice R15
    let mut $g:ident = monitor_data.pending_monitor_updates.lock().unwrap(); $g2:ident.retain($r:any); $between:any self.pending_monitor_events.lock().unwrap().push(
//@with
    fn pending_set_stays_locked_until_the_completed_event_is_built() -> bool { guard_lives_to_end_of_block!($g) && !releases_guard!(pending_monitor_updates; $between) }
//@ret r
//@ensures P C09 the-lock-on-the-pending-update-set-taken-for-the-emptiness-test-is-still-held-when-the-completed-event-reads-the-monitors-latest-update-id
    r,
//@mutant pending_set_unlocked_before_the_event_is_built
    let monitor_is_pending_updates = monitor_data.has_pending_updates(&pending_monitor_updates);
//@with
    let monitor_is_pending_updates = monitor_data.has_pending_updates(&pending_monitor_updates); core::mem::drop(pending_monitor_updates);
//@end
//@extract lightning/src/chain/chainmonitor.rs :: impl ChainMonitor :: fn flush
//@slice R15
    let $g:tt = self.flush_lock.lock().unwrap(); if count == 0 {
//@with
    fn flush_lock_is_held_for_the_whole_flush() -> bool { guard_lives_to_end_of_block!($g) }
//@ret r
//@ensures P C09 flushes-are-serialized-the-guard-of-the-flush-lock-is-bound-to-a-name-that-lives-to-the-end-of-the-function
    r,
//@mutant flush_lock_released_at_once
    let _guard = self.flush_lock.lock().unwrap();
//@with
    let _ = self.flush_lock.lock().unwrap();
//@end
//@extract lightning/src/chain/chainmonitor.rs :: impl ChainMonitor :: fn flush
//@slice R15
    PendingMonitorOp::Update { channel_id, update } => { let logger = $lg:seq; drop(queue); $body:straight ($t:seq) },
//@with
    fn flush_one_queued_update(&mut self, channel_id: ChannelId, update: ChannelMonitorUpdate) -> (ChannelId, u64, ChannelMonitorUpdateStatus) { $body ($t) }
//@ret r
//@ensures P C09 a-queued-monitor-update-is-applied-when-flushed-and-its-outcome-is-recorded-under-its-own-channel-and-update-id
    final(self).did@ == old(self).did@.push(Did::Applied { channel_id, update_id: update.update_id }),
    r.0 == channel_id, r.1 == update.update_id, r.2 == persister_answer(channel_id, update.update_id),
//@end
//@extract lightning/src/chain/chainmonitor.rs :: impl ChainMonitor :: fn flush
//@slice R15
    match status { ChannelMonitorUpdateStatus::Completed => { let logger = $lg:seq; $c:any }, $rest:any } }
//@with
    fn report_flushed_operation(&mut self, channel_id: ChannelId, update_id: u64, status: ChannelMonitorUpdateStatus, logger: &LoggerStub) { match status { ChannelMonitorUpdateStatus::Completed => { $c }, $rest } }
//@requires
    !(status is UnrecoverableError),
//@ensures P C09 a-flushed-operation-is-reported-as-completed-exactly-when-its-persistence-completed-and-under-its-own-id
    status is Completed ==> final(self).did@ == old(self).did@.push(Did::ReportedCompleted { channel_id, update_id }),
    status is InProgress ==> final(self).did@ == old(self).did@,
//@mutant in_progress_operation_reported_completed
    ChannelMonitorUpdateStatus::InProgress => {},
//@with
    ChannelMonitorUpdateStatus::InProgress => { let _ = self.channel_monitor_updated(channel_id, update_id); },
//@end
}
}
}
fn main() {}
