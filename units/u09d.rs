//! unit: u09d
//! properties: C09 C01 C03 C05
//! note: also run for C01, C03, C05: the code it constrains lies inside mechanisms those properties name (a change made there for their sake must meet these clauses too)
//! note: (F9) monitor_updating_restored releases a held channel_ready at completion for any channel, without an assertion about who funded it. (F8) channel_reestablish never releases a channel_ready that is being held behind a monitor update (finding F8, written on the repaired shape): (1) while the channel still awaits channel_ready and either ours is not due or a monitor update is in progress, the answer to a reestablish carries no channel_ready; (2) with both sides on their first commitment the channel_ready is retransmitted only if it is not the one being held (monitor_pending_channel_ready): that one is released by monitor_updating_restored when the update completes, and is still held afterwards
//! trusted: R15 (deep slices): the test in front of the early answer of the AwaitingChannelReady branch, and the statement computing `channel_ready` further down with its condition captured; env: FundedChannel / ChannelContext field skeletons, ChannelState a three-flag skeleton with the macro-generated accessors' meaning, get_channel_ready answers anything and leaves the held flag alone
//! trusted: assume_specification for core::cmp::max / core::cmp::min (std definitions): present in every unit so that a change that introduces them is verified instead of being rejected by the tool
use vstd::prelude::*;
verus! {
use vstd::std_specs::cmp::*;
use core::cmp;
pub assume_specification<T: core::cmp::Ord>[core::cmp::max::<T>](a: T, b: T) -> (r: T)
    ensures T::obeys_cmp_spec() ==> r == (if b.cmp_spec(&a) == core::cmp::Ordering::Less { a } else { b });
pub assume_specification<T: core::cmp::Ord>[core::cmp::min::<T>](a: T, b: T) -> (r: T)
    ensures T::obeys_cmp_spec() ==> r == (if b.cmp_spec(&a) == core::cmp::Ordering::Less { b } else { a });
pub struct ChannelReady { pub id: u64 }
pub struct ChannelState { pub our_channel_ready: bool, pub monitor_update_in_progress: bool }
impl ChannelState {
    #[verifier::external_body] pub fn is_our_channel_ready(&self) -> (r: bool) ensures r == self.our_channel_ready { unimplemented!() }
    #[verifier::external_body] pub fn is_monitor_update_in_progress(&self) -> (r: bool) ensures r == self.monitor_update_in_progress { unimplemented!() }
}
pub struct ChannelContext { pub channel_state: ChannelState, pub monitor_pending_channel_ready: bool, pub minimum_depth: Option<u32> }
pub struct Splice {}
pub struct Params { pub splice_parent_funding_txid: Option<u64> }
pub struct Funding { pub channel_transaction_parameters: Params, pub outbound: bool }
impl Funding { #[verifier::external_body] pub fn is_outbound(&self) -> (r: bool) ensures r == self.outbound { unimplemented!() } }
pub struct LoggerStub {}
pub struct FundedChannel { pub context: ChannelContext, pub pending_splice: Option<Splice>, pub funding: Funding }
impl FundedChannel {
    #[verifier::external_body] pub fn get_channel_ready(&mut self, logger: &LoggerStub) -> (r: Option<ChannelReady>) ensures final(self).context == old(self).context { unimplemented!() }
//@extract lightning/src/ln/channel.rs :: impl FundedChannel :: fn channel_reestablish
//@slice R15
    if matches!(self.context.channel_state, ChannelState::AwaitingChannelReady(_)) { if $c:cond { if msg.next_remote_commitment_number != 0 {
//@with
    fn no_channel_ready_in_the_answer_while_awaiting(&self) -> bool { $c }
//@ret r
//@ensures P C09 while-the-channel-awaits-channel-ready-a-reestablish-is-answered-without-one-if-ours-is-not-due-or-a-monitor-update-is-in-progress
    !self.context.channel_state.our_channel_ready || self.context.channel_state.monitor_update_in_progress ==> r,
//@mutant channel_ready_resent_while_a_monitor_update_is_in_progress
    if !self.context.channel_state.is_our_channel_ready() || self.context.channel_state.is_monitor_update_in_progress() {
//@with
    if !self.context.channel_state.is_our_channel_ready() {
//@end
//@extract lightning/src/ln/channel.rs :: impl FundedChannel :: fn channel_reestablish
//@slice R15
    let channel_ready = if $c:cond { $then:any } else { None }; let inferred_splice_locked =
//@with
    fn channel_ready_retransmitted_on_reestablish(&mut self, both_sides_on_initial_commitment_number: bool, logger: &LoggerStub) -> Option<ChannelReady> {
        let channel_ready = if $c { $then } else { None }; channel_ready }
//@ret r
//@ensures P C09 a-channel-ready-held-behind-a-monitor-update-is-not-released-by-a-reestablish-and-stays-held
    old(self).context.monitor_pending_channel_ready ==> r is None,
    final(self).context.monitor_pending_channel_ready == old(self).context.monitor_pending_channel_ready,
    r is Some ==> both_sides_on_initial_commitment_number && old(self).pending_splice is None,
//@mutant held_channel_ready_released_on_reconnect
    if self.context.monitor_pending_channel_ready {
//@with
    if false {
//@end
// finding F9, written on the repaired shape: when the update completes, a held channel_ready is released for ANY channel - also one we funded whose funding transaction confirmed while a later update (our shutdown script) was being persisted; nothing in this statement may stop the node
//@extract lightning/src/ln/channel.rs :: impl FundedChannel :: fn monitor_updating_restored
//@slice R15
    let channel_ready = if self.context.monitor_pending_channel_ready { $b:any } else { None }; let announcement_sigs =
//@with
    fn held_channel_ready_released_at_completion(&mut self, logger: &LoggerStub) -> Option<ChannelReady> {
        let mut requires_channel_manager_persistence = false;
        let channel_ready = if self.context.monitor_pending_channel_ready { $b } else { None }; channel_ready }
//@rw * R9
    requires_channel_manager_persistence |= $r:cond;
//@with
    requires_channel_manager_persistence = requires_channel_manager_persistence || $r;
//@ret r
//@ensures P C09 when-the-update-completes-a-held-channel-ready-is-released-whoever-funded-the-channel-and-is-held-no-longer
    !final(self).context.monitor_pending_channel_ready,
    r is Some ==> old(self).context.monitor_pending_channel_ready,
//@mutant held_flag_not_cleared_at_completion
    self.context.monitor_pending_channel_ready = false;
//@with

//@end
}
}
fn main() {}
