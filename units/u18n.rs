//! unit: u18n
//! properties: C18
//! note: BOLT-11 tagged fields, the writer's side of the framing u18h reads (lightning-invoice ser.rs, write_tagged_field inside `impl Base32Iterable for TaggedField`): a field is written as its tag symbol, then its data length as two base-32 symbols, high symbol first (len / 32, len % 32), then the data; LDK asserts that the length is below 1024 (an obligation here, discharged from the precondition that states it) and the two `expect("< 32")` cannot fail; the length the reader computes from the two symbols (32 * high + low, u18h) is the length that was written
//! trusted: R15 (deep slice): the three-element array of header symbols built in write_tagged_field, with the assertion in front of it, verbatim as a function of the tag and the payload length; env: Fe32::try_from(u8) succeeds exactly below 32 and returns that value (bech32 crate: a field element is a 5-bit value); the iterator chain that appends the payload is not sliced
//! plemma: C18 lemma_the_length_a_reader_computes_is_the_length_written: 32 * (len / 32) + len % 32 == len for every length below 1024, and both symbols are below 32
//! trusted: assume_specification for core::cmp::max / core::cmp::min (std definitions): present in every unit so that a change that introduces them is verified instead of being rejected by the tool
use vstd::prelude::*;
verus! {
use vstd::std_specs::cmp::*;
use core::cmp;
pub assume_specification<T: core::cmp::Ord>[core::cmp::max::<T>](a: T, b: T) -> (r: T)
    ensures T::obeys_cmp_spec() ==> r == (if b.cmp_spec(&a) == core::cmp::Ordering::Less { a } else { b });
pub assume_specification<T: core::cmp::Ord>[core::cmp::min::<T>](a: T, b: T) -> (r: T)
    ensures T::obeys_cmp_spec() ==> r == (if b.cmp_spec(&a) == core::cmp::Ordering::Less { b } else { a });
#[derive(Clone, Copy)] pub struct Fe32(pub u8);
#[derive(Debug)] pub struct NotAFieldElement {}
impl Fe32 { pub fn try_from(v: u8) -> (r: Result<Fe32, NotAFieldElement>) ensures (r is Ok) == (v < 32), r is Ok ==> r->Ok_0.0 == v { if v < 32 { Ok(Fe32(v)) } else { Err(NotAFieldElement {}) } } }
//@extract lightning-invoice/src/ser.rs :: impl Base32Iterable for TaggedField :: fn fe_iter
//@slice R15
    let len = payload.base32_len(); assert!($a:cond); [ $hdr:any ] .into_iter()
//@with
    fn header_symbols_of_a_tagged_field(tag: u8, len: usize) -> [Fe32; 3] { assert!($a); [ $hdr ] }
//@ret r
//@requires
    tag < 32, len < 1024,
//@ensures P C18 a-tagged-field-is-written-as-its-tag-then-its-data-length-in-two-base-32-symbols-high-first
    r@[0].0 == tag && r@[1].0 as int == len / 32 && r@[2].0 as int == len % 32,
    32 * (r@[1].0 as int) + r@[2].0 as int == len,
//@mutant length_symbols_written_low_first
    Fe32::try_from((len / 32) as u8).expect("< 32"), Fe32::try_from((len % 32) as u8).expect("< 32"),
//@with
    Fe32::try_from((len % 32) as u8).expect("< 32"), Fe32::try_from((len / 32) as u8).expect("< 32"),
//@end
pub proof fn lemma_the_length_a_reader_computes_is_the_length_written(len: int) requires 0 <= len < 1024 ensures 32 * (len / 32) + len % 32 == len, len / 32 < 32, len % 32 < 32 {}
}
fn main() {}
