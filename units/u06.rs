//! unit: u06
//! properties: C06 C01
//! note: also run for C01: the code it constrains lies inside mechanisms those properties name (a change made there for their sake must meet these clauses too)
//! note: recognising which of the 2^48 commitments a confirmed transaction is: the obscured commitment number written into the sequence and locktime fields by CommitmentTransaction::build_inputs / make_transaction is read back exactly by ChannelMonitorImpl::check_spend_counterparty_transaction, for every commitment number and every obscuring factor
//! trusted: R15 (deep slices): build_inputs (pubkeys, TxIn construction), make_transaction and check_spend_counterparty_transaction (the ~300 line claim builder) are outside the verifier; the unit extracts, on every run, the three expressions that carry the number - `obscured = factor ^ (INITIAL_COMMITMENT_NUMBER - n)` with the sequence field, the locktime field, and the decoding expression of the monitor - verbatim, as three functions; `commitment_tx.input[0].sequence.0` and `commitment_tx.lock_time.to_consensus_u32()` are read from a transaction skeleton {input: [TxIn{sequence: Sequence(u32)}], lock_time: LockTime(u32)}; everything else of the three functions is dropped and not claimed
//! trusted: R15 (deep slice): the per-HTLC block of the revoked-commitment branch of check_spend_counterparty_transaction verbatim (consistency test, RevokedHTLCOutput::build, deadline choice, build_package, push); RevokedHTLCOutput::build and PackageTemplate::build_package are external_body constructors recording their arguments; keys, txid, amounts are opaque identities; the early `return` of the enclosing function becomes `return false`; and likewise the per-output block of the loop that finds the cheater's own (revokeable) balance output; `idx.try_into().expect(..)` is the external_body wrapper usize_to_u32 (R8); key derivation, the script construction and fail_unbroadcast_htlcs! are dropped and not claimed
//! plemma: C06 lemma_commitment_number_roundtrip: decode(sequence(n, f), locktime(n, f), f) == n for all n < 2^48 and f < 2^48 (bit-vector proof over the extracted expressions' contracts)
//! assume: commitment numbers and the obscuring factor are < 2^48 (INITIAL_COMMITMENT_NUMBER = 2^48 - 1; the monitor asserts factor <= 2^48 at construction)
//! trusted: assume_specification for core::cmp::max / core::cmp::min (std definitions): present in every unit so that a change that introduces them is verified instead of being rejected by the tool
use vstd::prelude::*;
verus! {
use vstd::std_specs::cmp::*;
use core::cmp;
pub assume_specification<T: core::cmp::Ord>[core::cmp::max::<T>](a: T, b: T) -> (r: T)
    ensures T::obeys_cmp_spec() ==> r == (if b.cmp_spec(&a) == core::cmp::Ordering::Less { a } else { b });
pub assume_specification<T: core::cmp::Ord>[core::cmp::min::<T>](a: T, b: T) -> (r: T)
    ensures T::obeys_cmp_spec() ==> r == (if b.cmp_spec(&a) == core::cmp::Ordering::Less { b } else { a });
//@extract lightning/src/ln/channel.rs :: const INITIAL_COMMITMENT_NUMBER
//@fold
//@end
pub struct Sequence(pub u32);
pub struct TxIn { pub sequence: Sequence }
pub struct LockTime(pub u32);
impl LockTime {
    pub fn from_consensus(n: u32) -> (r: LockTime) ensures r.0 == n { LockTime(n) }
    pub fn to_consensus_u32(&self) -> (r: u32) ensures r == self.0 { self.0 }
}
#[derive(Clone, Copy)] pub struct Amount(pub u64);
impl vstd::std_specs::cmp::PartialEqSpecImpl for Amount { open spec fn obeys_eq_spec() -> bool { true } open spec fn eq_spec(&self, other: &Amount) -> bool { self.0 == other.0 } }
impl PartialEq for Amount { fn eq(&self, o: &Amount) -> (r: bool) { self.0 == o.0 } }
#[derive(Clone, Copy)] pub struct ScriptBuf(pub u64);
impl vstd::std_specs::cmp::PartialEqSpecImpl for ScriptBuf { open spec fn obeys_eq_spec() -> bool { true } open spec fn eq_spec(&self, other: &ScriptBuf) -> bool { self.0 == other.0 } }
impl PartialEq for ScriptBuf { fn eq(&self, o: &ScriptBuf) -> (r: bool) { self.0 == o.0 } }
pub struct TxOut { pub value: Amount, pub script_pubkey: ScriptBuf }
pub struct Transaction { pub input: Vec<TxIn>, pub lock_time: LockTime, pub output: Vec<TxOut> }
pub struct MonitorSkeleton { pub commitment_transaction_number_obscure_factor: u64 }

pub open spec fn obscured_of(n: u64, f: u64) -> u64 { f ^ ((0xffff_ffff_ffffu64 - n) as u64) }
pub open spec fn seq_of(o: u64) -> u32 { (0x80u32 << 24u32) | ((o >> 24u64) as u32) }
pub open spec fn lock_of(o: u64) -> u32 { (0x20u32 << 24u32) | ((o & 0xffffffu64) as u32) }
pub open spec fn decoded(seq: u32, lock: u32, f: u64) -> u64 {
    (0xffffffffffffu64 - (((((seq as u64) & 0xffffffu64) << 24u64) | ((lock as u64) & 0xffffffu64)) ^ f)) as u64
}

//@extract lightning/src/ln/chan_utils.rs :: impl CommitmentTransaction :: fn build_inputs
//@slice R15
    let obscured_commitment_transaction_number = $obs; let txins = { let ins: Vec<TxIn> = vec![TxIn { previous_output: $po, script_sig: $ss, sequence: Sequence($seq), witness: $w, }]; ins };
//@with
    fn obscured_number_and_sequence(commitment_number: u64, commitment_transaction_number_obscure_factor: u64) -> (u64, u32) {
        let obscured_commitment_transaction_number = $obs;
        (obscured_commitment_transaction_number, $seq)
    }
//@ret r
//@requires
    commitment_number <= INITIAL_COMMITMENT_NUMBER, commitment_transaction_number_obscure_factor < 0x1_0000_0000_0000,
//@ensures A
    r.0 == obscured_of(commitment_number, commitment_transaction_number_obscure_factor), r.1 == seq_of(r.0), r.0 < 0x1_0000_0000_0000,
//@at body_start
    proof {
        let f = commitment_transaction_number_obscure_factor; let d = (0xffff_ffff_ffffu64 - commitment_number) as u64;
        assert((f ^ d) < 0x1_0000_0000_0000u64) by (bit_vector) requires f < 0x1_0000_0000_0000u64, d < 0x1_0000_0000_0000u64;
        let o = (f ^ d);
        assert(((o >> 24u64) as u32) == (o >> (3u64 * 8u64)) as u32) by (bit_vector);
        assert((0x80u32 << 24u32) == (0x80u32 << (8u32 * 3u32))) by (bit_vector);
    }
//@mutant upper_bits_shifted_by_the_wrong_amount
    obscured_commitment_transaction_number >> 3 * 8
//@with
    obscured_commitment_transaction_number >> 2 * 8
//@end

//@extract lightning/src/ln/chan_utils.rs :: impl CommitmentTransaction :: fn make_transaction
//@slice R15
    lock_time: LockTime::from_consensus($lt),
//@with
    fn locktime_field(obscured_commitment_transaction_number: u64) -> u32 { $lt }
//@ret r
//@ensures A
    r == lock_of(obscured_commitment_transaction_number),
//@at body_start
    proof { assert((0x20u32 << 24u32) == (0x20u32 << (8u32 * 3u32))) by (bit_vector); }
//@end

impl MonitorSkeleton {
//@extract lightning/src/chain/channelmonitor.rs :: impl ChannelMonitorImpl :: fn check_spend_counterparty_transaction
//@slice R15
    let commitment_number = $dec; if commitment_number >= self.get_min_seen_secret() {
//@with
    fn commitment_number_of(&self, commitment_tx: &Transaction) -> u64 { $dec }
//@ret r
//@requires
    commitment_tx.input@.len() >= 1, self.commitment_transaction_number_obscure_factor < 0x1_0000_0000_0000,
//@ensures A
    r == decoded(commitment_tx.input@[0].sequence.0, commitment_tx.lock_time.0, self.commitment_transaction_number_obscure_factor),
//@at body_start
    proof {
        let s = commitment_tx.input@[0].sequence.0 as u64; let l = commitment_tx.lock_time.0 as u64; let f = self.commitment_transaction_number_obscure_factor;
        assert(((((s & 0xffffffu64) << 24u64) | (l & 0xffffffu64)) ^ f) <= 0xffffffffffffu64) by (bit_vector) requires f < 0x1_0000_0000_0000u64;
        assert(((s & 0xffffffu64) << 24u64) == ((s & 0xffffffu64) << (3u64 * 8u64))) by (bit_vector);
    }
//@mutant sequence_bits_masked_too_narrowly
    commitment_tx.input[0].sequence.0 as u64 & 0xffffff
//@with
    commitment_tx.input[0].sequence.0 as u64 & 0xffff
//@end
}

// (P, C06) whatever commitment the counterparty broadcasts - any of the 2^48 - the monitor reads back its number exactly
pub proof fn lemma_commitment_number_roundtrip(n: u64, f: u64)
    requires n <= 0xffff_ffff_ffff, f < 0x1_0000_0000_0000
    ensures decoded(seq_of(obscured_of(n, f)), lock_of(obscured_of(n, f)), f) == n
{
    let d = (0xffff_ffff_ffffu64 - n) as u64;
    let o = f ^ d;
    assert(o < 0x1_0000_0000_0000u64) by (bit_vector) requires f < 0x1_0000_0000_0000u64, d < 0x1_0000_0000_0000u64, o == f ^ d;
    let s = (0x80u32 << 24u32) | ((o >> 24u64) as u32);
    let l = (0x20u32 << 24u32) | ((o & 0xffffffu64) as u32);
    assert((((((s as u64) & 0xffffffu64) << 24u64) | ((l as u64) & 0xffffffu64)) ^ f) == d) by (bit_vector)
        requires o < 0x1_0000_0000_0000u64, o == f ^ d, s == (0x80u32 << 24u32) | ((o >> 24u64) as u32), l == (0x20u32 << 24u32) | ((o & 0xffffffu64) as u32);
}

// ---- every HTLC output of a revoked commitment gets its justice claim (deep R15 slice of check_spend_counterparty_transaction) ----
#[derive(Clone, Copy)] pub struct Txid(pub u64);
#[derive(Clone, Copy)] pub struct PublicKey(pub u64);
#[derive(Clone, Copy)] pub struct SecretKey(pub u64);
pub struct ChannelTransactionParameters {}
impl Clone for ChannelTransactionParameters { #[verifier::external_body] fn clone(&self) -> (r: Self) { unimplemented!() } }
pub struct FundingScope { pub channel_parameters: ChannelTransactionParameters }
pub struct HTLCOutputInCommitment { pub offered: bool, pub amount_msat: u64, pub cltv_expiry: u32, pub transaction_output_index: Option<u32> }
impl Clone for HTLCOutputInCommitment { #[verifier::external_body] fn clone(&self) -> (r: Self) ensures r == *self { unimplemented!() } }
impl HTLCOutputInCommitment {
    #[verifier::external_body] pub fn to_bitcoin_amount(&self) -> (r: Amount) ensures r.0 == self.amount_msat / 1000 { unimplemented!() }
}
// `seen_at`: the height handed to build(): the height the claim is recorded as created at (a reorg below it drops the claim)
pub struct RevokedHTLCOutput { pub htlc: HTLCOutputInCommitment, pub seen_at: u32 }
impl RevokedHTLCOutput {
    #[verifier::external_body] pub fn build(per_commitment_point: PublicKey, per_commitment_key: SecretKey, htlc: HTLCOutputInCommitment, channel_parameters: ChannelTransactionParameters, height: u32) -> (r: RevokedHTLCOutput)
        ensures r.htlc == htlc, r.seen_at == height { unimplemented!() }
}
pub struct RevokedOutput { pub amount: Amount, pub seen_at: u32 }
impl RevokedOutput {
    #[verifier::external_body] pub fn build(per_commitment_point: PublicKey, per_commitment_key: SecretKey, amount: Amount, channel_parameters: ChannelTransactionParameters, height: u32) -> (r: RevokedOutput)
        ensures r.amount == amount, r.seen_at == height { unimplemented!() }
}
pub enum PackageSolvingData { RevokedHTLCOutput(RevokedHTLCOutput), RevokedOutput(RevokedOutput), Other }
pub struct CounterpartyCommitmentParameters { pub on_counterparty_tx_csv: u16 }
// best_block: present so that a change that reads the monitor's tip instead of the confirmation height is verified, not refused
pub struct BestBlock { pub height: u32 }
pub struct JusticeMonitor { pub counterparty_commitment_params: CounterpartyCommitmentParameters, pub best_block: BestBlock }
#[verifier::external_body] pub fn usize_to_u32(x: usize) -> (r: u32) requires x <= u32::MAX ensures r == x { unimplemented!() }
// PackageTemplate::build_package (chain/package.rs) builds a one-input package for (txid, vout) with the given counterparty_spendable_height: recorded as is
pub struct PackageTemplate { pub txid: Txid, pub vout: u32, pub data: PackageSolvingData, pub counterparty_spendable_height: u32 }
impl PackageTemplate {
    #[verifier::external_body] pub fn build_package(txid: Txid, vout: u32, input_solving_data: PackageSolvingData, counterparty_spendable_height: u32) -> (r: PackageTemplate)
        ensures r.txid == txid, r.vout == vout, r.data == input_solving_data, r.counterparty_spendable_height == counterparty_spendable_height { unimplemented!() }
}
impl JusticeMonitor {
//@extract lightning/src/chain/channelmonitor.rs :: impl ChannelMonitorImpl :: fn check_spend_counterparty_transaction
//@slice R15
    for (htlc, _) in per_commitment_claimable_data { $body:any }
//@with
    // returns false where the source gives up on the whole transaction (stored HTLC data inconsistent with the confirmed transaction)
    fn justice_claim_for_htlc(&self, htlc: &HTLCOutputInCommitment, commitment_tx: &Transaction, commitment_txid: Txid, height: u32, per_commitment_point: PublicKey, per_commitment_key: SecretKey,
        funding_spent: &FundingScope, claimable_outpoints: &mut Vec<PackageTemplate>) -> bool {
        $body
        true
    }
//@rw R5
    return (claimable_outpoints, to_counterparty_output_info);
//@with
    return false;
//@ret r
//@ensures P C06 every-htlc-output-of-a-revoked-commitment-gets-exactly-one-justice-claim-on-its-own-output-with-the-right-deadline
    r && htlc.transaction_output_index is Some ==> final(claimable_outpoints)@.len() == old(claimable_outpoints)@.len() + 1
        && final(claimable_outpoints)@.drop_last() == old(claimable_outpoints)@
        && ({ let p = final(claimable_outpoints)@.last();
              p.txid == commitment_txid && p.vout == htlc.transaction_output_index->Some_0
              && p.data == PackageSolvingData::RevokedHTLCOutput(RevokedHTLCOutput { htlc: *htlc, seen_at: height })
              && p.counterparty_spendable_height == (if htlc.offered { htlc.cltv_expiry } else { height }) })
        && (htlc.transaction_output_index->Some_0 as int) < commitment_tx.output@.len()
        && commitment_tx.output@[htlc.transaction_output_index->Some_0 as int].value.0 == htlc.amount_msat / 1000,
    htlc.transaction_output_index is None ==> r && final(claimable_outpoints)@ == old(claimable_outpoints)@,
    !r ==> final(claimable_outpoints)@ == old(claimable_outpoints)@,
//@mutant justice_claim_recorded_as_created_at_the_monitors_tip
    htlc.clone(), funding_spent.channel_parameters.clone(), height, );
//@with
    htlc.clone(), funding_spent.channel_parameters.clone(), self.best_block.height, );
//@mutant received_htlc_claim_deadline_taken_from_its_expiry
    let counterparty_spendable_height = if htlc.offered { htlc.cltv_expiry } else { height };
//@with
    let counterparty_spendable_height = htlc.cltv_expiry;
//@mutant justice_claim_points_at_the_wrong_output
    commitment_txid, transaction_output_index,
//@with
    commitment_txid, 0,
//@end
}

impl JusticeMonitor {
//@extract lightning/src/chain/channelmonitor.rs :: impl ChannelMonitorImpl :: fn check_spend_counterparty_transaction
//@slice R15
    for (idx, outp) in commitment_tx.output.iter().enumerate() { $body:any }
//@with
    fn justice_claim_for_balance_output(&self, idx: usize, outp: &TxOut, revokeable_p2wsh: ScriptBuf, commitment_txid: Txid, height: u32, per_commitment_point: PublicKey, per_commitment_key: SecretKey,
        funding_spent: &FundingScope, claimable_outpoints: &mut Vec<PackageTemplate>, to_counterparty_output_info_: Option<(u32, Amount)>) -> Option<(u32, Amount)> {
        let mut to_counterparty_output_info = to_counterparty_output_info_;
        $body
        to_counterparty_output_info
    }
//@rw R8
    idx.try_into().expect($m)
//@with
    usize_to_u32(idx)
//@ret r
//@requires
    idx <= u32::MAX, height <= 0x7fff_ffff,
//@ensures P C06 the-cheaters-own-balance-output-gets-a-justice-claim-that-must-confirm-before-its-csv-delay-runs-out
    outp.script_pubkey == revokeable_p2wsh ==> final(claimable_outpoints)@.len() == old(claimable_outpoints)@.len() + 1
        && final(claimable_outpoints)@.drop_last() == old(claimable_outpoints)@
        && ({ let p = final(claimable_outpoints)@.last();
              p.txid == commitment_txid && p.vout == idx && p.data == PackageSolvingData::RevokedOutput(RevokedOutput { amount: outp.value, seen_at: height })
              && p.counterparty_spendable_height == height + self.counterparty_commitment_params.on_counterparty_tx_csv })
        && r == Some((idx as u32, outp.value)),
    outp.script_pubkey != revokeable_p2wsh ==> final(claimable_outpoints)@ == old(claimable_outpoints)@ && r == to_counterparty_output_info_,
//@mutant balance_claim_deadline_ignores_the_csv_delay
    height + self.counterparty_commitment_params.on_counterparty_tx_csv as u32,
//@with
    height,
//@end
}
}
fn main() {}
