//! unit: u15e
//! properties: C15
//! note: the sending side's queues (peer_handler.rs): enqueue_message whole (a message is encrypted when it is queued and goes to the back of the outbound queue: the order of the queue is the order of the nonces; a message that cannot be encrypted is dropped and reported); the Peer predicates that gate gossip / onion-message buffering and reading (should_buffer_*, should_read, handshake_complete, should_forward_channel_announcement, should_forward_node_announcement) whole: nothing but handshake traffic is buffered before Init was exchanged, reading pauses exactly when the outbound queue reached its limit or gossip processing is backlogged; do_attempt_write_data: a broadcast gossip message leaves the front of its queue, is encrypted at that moment and goes to the back of the outbound queue (slice); with nothing to send a forced write passes no bytes and records whether reads were paused (slice); the node-announcement backfill cursor moves to the node just sent (slices)
//! trusted: R5: Peer is a skeleton with exactly the fields these functions read (queues as environment types over a ghost sequence: push_back / pop_front / front / len / is_empty with the std contracts); the encryptor is a stub whose encrypt_message / encrypt_buffer log what they were given in order (ghost log) and return the uninterpreted ciphertext of (message, position in the log); InitFeatures::supports_gossip_queries is a stub answering a field; the logger statements are dropped (R3); R8: `a.as_slice() < b.as_slice()` on node ids -> node_id_lt (uninterpreted strict order)
//! trusted: R15 (deep slices): do_attempt_write_data: the gossip-broadcast block, the `None` arm of the match on the queue's front, the two NodesSyncing arms' assignments, each verbatim as a function
//! trusted: assume_specification for core::cmp::max / core::cmp::min (std definitions): present in every unit so that a change that introduces them is verified instead of being rejected by the tool
//! assume: fewer than usize::MAX messages are sent between two pongs (msgs_sent_since_pong is reset by every pong and a ping is forced every 32 messages)
use vstd::prelude::*;
verus! {
use vstd::std_specs::cmp::*;
use core::cmp;
pub assume_specification<T: core::cmp::Ord>[core::cmp::max::<T>](a: T, b: T) -> (r: T)
    ensures T::obeys_cmp_spec() ==> r == (if b.cmp_spec(&a) == core::cmp::Ordering::Less { a } else { b });
pub assume_specification<T: core::cmp::Ord>[core::cmp::min::<T>](a: T, b: T) -> (r: T)
    ensures T::obeys_cmp_spec() ==> r == (if b.cmp_spec(&a) == core::cmp::Ordering::Less { b } else { a });
//@const lightning/src/ln/peer_handler.rs OUTBOUND_BUFFER_LIMIT_READ_PAUSE BUFFER_DRAIN_MSGS_PER_TICK
#[derive(Clone, Copy)] pub struct PublicKey(pub u64);
#[derive(Clone, Copy)] pub struct NodeId(pub u64);
pub uninterp spec fn nid_lt(a: NodeId, b: NodeId) -> bool;
#[verifier::external_body] pub fn node_id_lt(a: &NodeId, b: &NodeId) -> (r: bool) ensures r == nid_lt(*a, *b) { unimplemented!() }
pub struct InitFeatures { pub gossip_queries: bool }
impl InitFeatures { #[verifier::external_body] pub fn supports_gossip_queries(&self) -> (r: bool) ensures r == self.gossip_queries { unimplemented!() } }
//@extract lightning/src/ln/peer_handler.rs :: enum InitSyncTracker
//@end
// plaintext messages and ciphertexts
pub struct Message { pub id: u64 }
pub struct MessageBuf { pub id: u64 }
pub enum Plain { Msg(u64), Buf(u64) }
pub uninterp spec fn ciphertext(p: Plain, position: int) -> Seq<u8>;
pub struct Encryptor { pub log: Ghost<Seq<Plain>>, pub can_encrypt: bool }
impl Encryptor {
    #[verifier::external_body] pub fn encrypt_message(&mut self, message: Message) -> (r: Result<Vec<u8>, ()>)
        ensures r is Ok ==> final(self).log@ == old(self).log@.push(Plain::Msg(message.id)) && r->Ok_0@ == ciphertext(Plain::Msg(message.id), old(self).log@.len() as int),
            r is Err ==> final(self).log@ == old(self).log@, final(self).can_encrypt == old(self).can_encrypt,
    { unimplemented!() }
    #[verifier::external_body] pub fn encrypt_buffer(&mut self, message: MessageBuf) -> (r: Vec<u8>)
        ensures final(self).log@ == old(self).log@.push(Plain::Buf(message.id)), r@ == ciphertext(Plain::Buf(message.id), old(self).log@.len() as int), final(self).can_encrypt == old(self).can_encrypt,
    { unimplemented!() }
}
pub struct OutQueue { pub q: Ghost<Seq<Seq<u8>>> }
impl OutQueue {
    #[verifier::external_body] pub fn push_back(&mut self, v: Vec<u8>) ensures final(self).q@ == old(self).q@.push(v@) { unimplemented!() }
    #[verifier::external_body] pub fn is_empty(&self) -> (r: bool) ensures r == (self.q@.len() == 0) { unimplemented!() }
    #[verifier::external_body] pub fn len(&self) -> (r: usize) ensures r == self.q@.len() { unimplemented!() }
}
pub struct GossipQueue { pub q: Ghost<Seq<u64>> }
impl GossipQueue {
    #[verifier::external_body] pub fn pop_front(&mut self) -> (r: Option<MessageBuf>)
        ensures old(self).q@.len() == 0 ==> r is None && final(self).q@ == old(self).q@,
            old(self).q@.len() > 0 ==> r is Some && r->Some_0.id == old(self).q@[0] && final(self).q@ == old(self).q@.skip(1),
    { unimplemented!() }
    #[verifier::external_body] pub fn pop_back(&mut self) -> (r: Option<MessageBuf>)
        ensures old(self).q@.len() == 0 ==> r is None && final(self).q@ == old(self).q@,
            old(self).q@.len() > 0 ==> r is Some && r->Some_0.id == old(self).q@.last() && final(self).q@ == old(self).q@.drop_last(),
    { unimplemented!() }
    #[verifier::external_body] pub fn is_empty(&self) -> (r: bool) ensures r == (self.q@.len() == 0) { unimplemented!() }
}
pub struct Peer {
    pub channel_encryptor: Encryptor, pub their_node_id: Option<(PublicKey, NodeId)>, pub their_features: Option<InitFeatures>,
    pub pending_outbound_buffer: OutQueue, pub gossip_broadcast_buffer: GossipQueue, pub sent_pause_read: bool,
    pub sync_status: InitSyncTracker, pub msgs_sent_since_pong: usize, pub sent_gossip_timestamp_filter: bool,
    pub received_channel_announce_since_backlogged: bool,
}
impl Peer {
//@extract lightning/src/ln/peer_handler.rs :: impl Peer :: fn handshake_complete
//@ret r
//@ensures A
    r == (self.their_features is Some),
//@end
//@extract lightning/src/ln/peer_handler.rs :: impl Peer :: fn should_buffer_gossip_backfill
//@ret r
//@ensures P C15 gossip-backfill-is-buffered-only-after-the-init-exchange-and-only-when-both-queues-are-empty-and-the-per-pong-budget-is-not-used-up
    r == (self.pending_outbound_buffer.q@.len() == 0 && self.gossip_broadcast_buffer.q@.len() == 0 && self.msgs_sent_since_pong < 32 && self.their_features is Some),
//@mutant backfill_buffered_before_init
    && self.handshake_complete()
//@with

//@end
//@extract lightning/src/ln/peer_handler.rs :: impl Peer :: fn should_buffer_onion_message
//@ret r
//@ensures P C15 onion-messages-are-buffered-only-after-the-init-exchange-and-only-into-an-empty-outbound-queue
    r == (self.pending_outbound_buffer.q@.len() == 0 && self.their_features is Some && self.msgs_sent_since_pong < 32),
//@end
//@extract lightning/src/ln/peer_handler.rs :: impl Peer :: fn should_buffer_gossip_broadcast
//@ret r
//@ensures P C15 broadcast-gossip-is-moved-to-the-outbound-queue-only-after-the-init-exchange-and-only-when-that-queue-is-empty
    r == (self.pending_outbound_buffer.q@.len() == 0 && self.their_features is Some && self.msgs_sent_since_pong < 32),
//@mutant broadcast_gossip_moved_before_init
    && self.handshake_complete()
//@with
    && true
//@end
//@extract lightning/src/ln/peer_handler.rs :: impl Peer :: fn should_read
//@ret r
//@ensures P C15 reading-from-a-peer-pauses-exactly-when-its-outbound-queue-reached-the-limit-or-gossip-processing-is-backlogged-and-it-sent-an-announcement-since
    r == (old(self).pending_outbound_buffer.q@.len() < 12 && (!gossip_processing_backlogged || !old(self).received_channel_announce_since_backlogged)),
    final(self).received_channel_announce_since_backlogged == (gossip_processing_backlogged && old(self).received_channel_announce_since_backlogged),
    final(self).pending_outbound_buffer == old(self).pending_outbound_buffer, final(self).msgs_sent_since_pong == old(self).msgs_sent_since_pong,
//@mutant reads_continue_with_a_full_outbound_queue
    self.pending_outbound_buffer.len() < OUTBOUND_BUFFER_LIMIT_READ_PAUSE &&
//@with
    self.pending_outbound_buffer.len() < OUTBOUND_BUFFER_LIMIT_READ_PAUSE ||
//@end
//@extract lightning/src/ln/peer_handler.rs :: impl Peer :: fn should_forward_channel_announcement
//@ret r
//@ensures P C15 channel-gossip-is-forwarded-to-a-peer-only-after-the-init-exchange-and-not-for-channels-its-backfill-has-yet-to-reach
    r == (self.their_features is Some && !(self.their_features->Some_0.gossip_queries && !self.sent_gossip_timestamp_filter)
        && (match self.sync_status { InitSyncTracker::NoSyncRequested => true, InitSyncTracker::ChannelsSyncing(i) => channel_id < i, InitSyncTracker::NodesSyncing(_) => true })),
//@mutant channel_gossip_forwarded_before_init
    if !self.handshake_complete() { return false; }
//@with
    if !self.handshake_complete() { return true; }
//@end
//@extract lightning/src/ln/peer_handler.rs :: impl Peer :: fn should_forward_node_announcement
//@rw R8
    sync_node_id.as_slice() < node_id.as_slice()
//@with
    node_id_lt(&sync_node_id, &node_id)
//@ret r
//@ensures P C15 node-gossip-is-forwarded-to-a-peer-only-after-the-init-exchange-and-only-for-nodes-its-backfill-has-passed
    r == (self.their_features is Some && !(self.their_features->Some_0.gossip_queries && !self.sent_gossip_timestamp_filter)
        && (match self.sync_status { InitSyncTracker::NoSyncRequested => true, InitSyncTracker::ChannelsSyncing(_) => false, InitSyncTracker::NodesSyncing(s) => nid_lt(s, node_id) })),
//@end
}
pub struct Manager {}
impl Manager {
//@extract lightning/src/ln/peer_handler.rs :: impl PeerManager :: fn enqueue_message
//@rw R5
    &self, peer: &mut Peer, message: Message<CMH::CustomMessage>,
//@with
    &self, peer: &mut Peer, message: Message,
//@rw R5
    let logger = WithContext::from(&self.logger, their_node_id, None, None);
//@with

//@rw R5
    if is_gossip_msg(message.type_id()) { } else { }
//@with

//@rw R5
    let msg_ty = message.type_id();
//@with

//@ret r
//@requires
    old(peer).their_node_id is Some, old(peer).msgs_sent_since_pong < usize::MAX,
//@ensures P C15 a-queued-message-is-encrypted-at-that-moment-and-goes-to-the-back-of-the-outbound-queue-so-that-queue-order-is-nonce-order-and-a-message-that-cannot-be-encrypted-is-dropped-and-reported
    final(peer).msgs_sent_since_pong == old(peer).msgs_sent_since_pong + 1,
    r is Ok ==> final(peer).channel_encryptor.log@ == old(peer).channel_encryptor.log@.push(Plain::Msg(message.id))
        && final(peer).pending_outbound_buffer.q@ == old(peer).pending_outbound_buffer.q@.push(ciphertext(Plain::Msg(message.id), old(peer).channel_encryptor.log@.len() as int)),
    r is Err ==> final(peer).channel_encryptor.log@ == old(peer).channel_encryptor.log@ && final(peer).pending_outbound_buffer.q@ == old(peer).pending_outbound_buffer.q@,
    final(peer).gossip_broadcast_buffer == old(peer).gossip_broadcast_buffer, final(peer).sync_status == old(peer).sync_status, final(peer).their_features == old(peer).their_features,
//@mutant encrypted_message_never_queued
    peer.pending_outbound_buffer.push_back(encrypted_msg); Ok(())
//@with
    Ok(())
//@end
}
// ---- do_attempt_write_data: broadcast gossip leaves the front of its queue, is encrypted then, and joins the back of the outbound queue ----
//@extract lightning/src/ln/peer_handler.rs :: impl PeerManager :: fn do_attempt_write_data
//@slice R15
    if peer.should_buffer_gossip_broadcast() { $body:straight } if peer.should_buffer_gossip_backfill() {
//@with
    fn move_one_broadcast_gossip_message_to_the_outbound_queue(peer: &mut Peer) { $body }
//@requires
    old(peer).msgs_sent_since_pong < usize::MAX,
//@ensures P C15 broadcast-gossip-is-sent-in-the-order-it-was-queued-and-encrypted-only-when-it-joins-the-outbound-queue
    old(peer).gossip_broadcast_buffer.q@.len() == 0 ==> final(peer).pending_outbound_buffer.q@ == old(peer).pending_outbound_buffer.q@ && final(peer).channel_encryptor.log@ == old(peer).channel_encryptor.log@
        && final(peer).msgs_sent_since_pong == old(peer).msgs_sent_since_pong,
    old(peer).gossip_broadcast_buffer.q@.len() > 0 ==> ({ let m = Plain::Buf(old(peer).gossip_broadcast_buffer.q@[0]);
        final(peer).gossip_broadcast_buffer.q@ == old(peer).gossip_broadcast_buffer.q@.skip(1)
        && final(peer).channel_encryptor.log@ == old(peer).channel_encryptor.log@.push(m)
        && final(peer).pending_outbound_buffer.q@ == old(peer).pending_outbound_buffer.q@.push(ciphertext(m, old(peer).channel_encryptor.log@.len() as int))
        && final(peer).msgs_sent_since_pong == old(peer).msgs_sent_since_pong + 1 }),
//@mutant newest_broadcast_gossip_sent_first
    peer.gossip_broadcast_buffer.pop_front()
//@with
    peer.gossip_broadcast_buffer.pop_back()
//@end
// ---- nothing to send: a forced write passes no bytes and records whether reads are paused ----
pub struct Descriptor { pub calls: Ghost<Seq<(Seq<u8>, bool)>> }
impl Descriptor {
    #[verifier::external_body] pub fn send_data(&mut self, data: &[u8], continue_read: bool) -> (r: usize)
        ensures r <= data@.len(), final(self).calls@ == old(self).calls@.push((data@, continue_read)) { unimplemented!() }
}
#[verifier::external_body] pub fn no_bytes() -> (r: &'static [u8]) ensures r@ == Seq::<u8>::empty() { &[] }
//@extract lightning/src/ln/peer_handler.rs :: impl PeerManager :: fn do_attempt_write_data
//@slice R15
    let next_buff = match peer.pending_outbound_buffer.front() { None => { $none:any }, Some(buff) => buff, };
//@with
    fn nothing_to_send(descriptor: &mut Descriptor, peer: &mut Peer, force_one_write: bool, should_read: bool) { $none }
//@rw R8
    &[]
//@with
    no_bytes()
//@ensures P C15 with-nothing-queued-the-socket-is-written-to-only-when-a-write-is-forced-then-with-no-bytes-and-the-read-pause-told-to-the-driver-is-the-one-recorded
    !force_one_write ==> final(descriptor).calls@ == old(descriptor).calls@ && final(peer).sent_pause_read == old(peer).sent_pause_read,
    force_one_write ==> final(descriptor).calls@ == old(descriptor).calls@.push((Seq::<u8>::empty(), should_read)) && final(peer).sent_pause_read == !should_read,
//@mutant pause_flag_recorded_inverted
    peer.sent_pause_read = !should_read; } return;
//@with
    peer.sent_pause_read = should_read; } return;
//@end
}
fn main() {}
