//! unit: u13c
//! properties: C13 C12
//! note: TLV stream decoding (util/ser_macros.rs _decode_tlv_stream_range!, the macro behind every TLV-carrying message and persisted struct): record types must be strictly increasing, an unknown even type is refused and an unknown odd type is skipped
//! trusted: writing side: _encode_tlv!: the `required` and `option` arms are sliced as functions over a byte-recording writer (BigSize::write appends the uninterpreted bigsize_bytes, a field's write appends field_bytes and its serialized_length is their length: the Writeable contract, assumed per type); R16: `Some(ref field)` is written `Some(field)` on a reference scrutinee
//! trusted: R15 (deep slices of a macro_rules body): the guard of the arm that refuses a type not above the last one seen and the condition under which an unknown type is refused, verbatim as bool functions (the macro's own `$` metavariables do not occur in the sliced statements); reading the type and length (BigSize: Kani group ser-canonical), the per-field decoders and the custom-TLV hook are dropped and not claimed; _check_decoded_tlv_order! / _check_missing_tlv!: the `required` arm's condition (slices, R18: metavariables `$x` renamed `m_x` and bound as parameters)
//! trusted: assume_specification for core::cmp::max / core::cmp::min (std definitions): present in every unit so that a change that introduces them is verified instead of being rejected by the tool
use vstd::prelude::*;
verus! {
use vstd::std_specs::cmp::*;
use core::cmp;
pub assume_specification<T: core::cmp::Ord>[core::cmp::max::<T>](a: T, b: T) -> (r: T)
    ensures T::obeys_cmp_spec() ==> r == (if b.cmp_spec(&a) == core::cmp::Ordering::Less { a } else { b });
pub assume_specification<T: core::cmp::Ord>[core::cmp::min::<T>](a: T, b: T) -> (r: T)
    ensures T::obeys_cmp_spec() ==> r == (if b.cmp_spec(&a) == core::cmp::Ordering::Less { b } else { a });
pub struct BigSize(pub u64);
//@extract lightning/src/util/ser_macros.rs :: macro_rules _decode_tlv_stream_range
//@slice R15
    match last_seen_type { Some(t) if $c:cond => { return Err(DecodeError::InvalidValue); }, _ => {}, }
//@with
    fn tlv_type_is_out_of_order(last_seen_type: Option<u64>, typ: &BigSize) -> bool { match last_seen_type { Some(t) if $c => true, _ => false } }
//@ret r
//@ensures P C13,C12 tlv-record-types-must-be-strictly-increasing-so-no-type-is-read-twice
    r == (last_seen_type is Some && typ.0 <= last_seen_type->Some_0),
//@mutant repeated_type_accepted
    Some(t) if typ.0 <= t =>
//@with
    Some(t) if typ.0 < t =>
//@end
//@extract lightning/src/util/ser_macros.rs :: macro_rules _decode_tlv_stream_range
//@slice R15
    if $c:cond { return Err(DecodeError::UnknownRequiredFeature); }
//@with
    fn unknown_tlv_type_is_refused(t: u64) -> bool { $c }
//@at body_start
    proof { assert((t & 1u64 == 0) == (t % 2 == 0)) by (bit_vector); assert((t & 1u64 == 1) == (t % 2 == 1)) by (bit_vector); }
//@ret r
//@ensures P C13,C12 an-unknown-even-tlv-type-is-refused-and-an-unknown-odd-one-is-skipped
    r == (t % 2 == 0),
//@mutant unknown_odd_refused_and_even_skipped
    if t % 2 == 0 { return Err(DecodeError::UnknownRequiredFeature); }
//@with
    if t % 2 == 1 { return Err(DecodeError::UnknownRequiredFeature); }
//@end
//@extract lightning/src/util/ser_macros.rs :: macro_rules _check_decoded_tlv_order
//@metavars
//@slice R15
    let invalid_order = $e:seq; if invalid_order { return Err(DecodeError::InvalidValue); }
//@with
    fn required_tlv_was_skipped(m_last_seen_type: Option<u64>, m_typ: &BigSize, m_type: u64) -> bool { let invalid_order = $e; invalid_order }
//@ret r
//@ensures P C13,C12 a-stream-that-moves-past-a-required-tlv-type-without-having-carried-it-is-refused
    r == ((m_last_seen_type is None || m_last_seen_type->Some_0 < m_type) && m_typ.0 > m_type),
//@mutant skipped_required_type_accepted_when_nothing_was_seen_before
    let invalid_order = (m_last_seen_type.is_none() || m_last_seen_type.unwrap() < m_type) && m_typ.0 > m_type; if invalid_order { return Err(DecodeError::InvalidValue); }
//@with
    let invalid_order = (!m_last_seen_type.is_none() && m_last_seen_type.unwrap() < m_type) && m_typ.0 > m_type; if invalid_order { return Err(DecodeError::InvalidValue); }
//@end
//@extract lightning/src/util/ser_macros.rs :: macro_rules _check_missing_tlv
//@metavars
//@slice R15
    let missing_req_type = $e:seq; if missing_req_type { return Err(DecodeError::InvalidValue); }
//@with
    fn required_tlv_is_missing_at_the_end(m_last_seen_type: Option<u64>, m_type: u64) -> bool { let missing_req_type = $e; missing_req_type }
//@ret r
//@ensures P C13,C12 a-stream-that-ends-before-a-required-tlv-type-is-refused
    r == (m_last_seen_type is None || m_last_seen_type->Some_0 < m_type),
//@end
//@extract lightning/src/util/ser_macros.rs :: macro_rules _check_missing_tlv
//@metavars
//@slice R15
    let missing_req_type = $e:seq; if missing_req_type { m_field = m_default.into(); }
//@with
    fn default_value_applies_at_the_end(m_last_seen_type: Option<u64>, m_type: u64) -> bool { let missing_req_type = $e; missing_req_type }
//@ret r
//@ensures P C12,C13 a-default-replaces-a-field-at-the-end-of-the-stream-only-when-its-type-was-not-reached
    r == (m_last_seen_type is None || m_last_seen_type->Some_0 < m_type),
//@end
//@extract lightning/src/util/ser_macros.rs :: macro_rules _check_missing_tlv
//@metavars
//@slice R15
    let missing_req_type = $e:seq; if missing_req_type { let read_result: Result<_, DecodeError> = m_read(None); m_field = read_result?.into(); }
//@with
    fn custom_fallback_applies_at_the_end(m_last_seen_type: Option<u64>, m_type: u64) -> bool { let missing_req_type = $e; missing_req_type }
//@ret r
//@ensures P C12,C13 the-absent-value-fallback-of-a-custom-field-runs-at-the-end-of-the-stream-only-when-its-type-was-not-reached
    r == (m_last_seen_type is None || m_last_seen_type->Some_0 < m_type),
//@end
//@extract lightning/src/util/ser_macros.rs :: macro_rules _check_decoded_tlv_order
//@metavars
//@slice R15
    let invalid_order = $e:seq; if invalid_order { m_field = m_default.into(); }
//@with
    fn default_value_applies_mid_stream(m_last_seen_type: Option<u64>, m_typ: &BigSize, m_type: u64) -> bool { let invalid_order = $e; invalid_order }
//@ret r
//@ensures P C12,C13 a-default-replaces-a-field-mid-stream-only-when-the-stream-has-moved-past-its-type-without-carrying-it
    r == ((m_last_seen_type is None || m_last_seen_type->Some_0 < m_type) && m_typ.0 > m_type),
//@end
//@extract lightning/src/util/ser_macros.rs :: macro_rules _check_decoded_tlv_order
//@metavars
//@slice R15
    let invalid_order = $e:seq; if invalid_order { let read_result: Result<_, DecodeError> = m_read(None); m_field = read_result?.into(); }
//@with
    fn custom_fallback_applies_mid_stream(m_last_seen_type: Option<u64>, m_typ: &BigSize, m_type: u64) -> bool { let invalid_order = $e; invalid_order }
//@ret r
//@ensures P C12,C13 the-absent-value-fallback-of-a-custom-field-runs-mid-stream-only-when-the-stream-has-moved-past-its-type-without-carrying-it
    r == ((m_last_seen_type is None || m_last_seen_type->Some_0 < m_type) && m_typ.0 > m_type),
//@end
// ---- writing side: a record is type, then the length of the value's serialization, then the value --------------------
pub struct ByteWriter { pub data: Ghost<Seq<u8>> }
pub struct IoError {}
pub uninterp spec fn bigsize_bytes(v: u64) -> Seq<u8>;
pub uninterp spec fn field_bytes(f: Field) -> Seq<u8>;
impl BigSize { #[verifier::external_body] pub fn write(&self, w: &mut ByteWriter) -> (r: Result<(), IoError>)
    ensures r is Ok ==> final(w).data@ == old(w).data@ + bigsize_bytes(self.0) { unimplemented!() } }
pub struct Field { pub id: u64 }
impl Field {
    #[verifier::external_body] pub fn serialized_length(&self) -> (r: usize) ensures r == field_bytes(*self).len() { unimplemented!() }
    #[verifier::external_body] pub fn write(&self, w: &mut ByteWriter) -> (r: Result<(), IoError>) ensures r is Ok ==> final(w).data@ == old(w).data@ + field_bytes(*self) { unimplemented!() }
}
pub open spec fn tlv_record(t: u64, f: Field) -> Seq<u8> { (bigsize_bytes(t) + bigsize_bytes(field_bytes(f).len() as u64)) + field_bytes(f) }
//@extract lightning/src/util/ser_macros.rs :: macro_rules _encode_tlv
//@metavars
//@slice R15
    BigSize(m_type).write(m_stream)?; $l:seq.write(m_stream)?; m_field.write(m_stream)?;
//@with
    fn write_required_tlv(m_stream: &mut ByteWriter, m_type: u64, m_field: &Field) -> Result<(), IoError> { BigSize(m_type).write(m_stream)?; $l.write(m_stream)?; m_field.write(m_stream)?; Ok(()) }
//@ret r
//@ensures P C13,C12 a-required-tlv-record-is-written-as-its-type-the-length-of-the-values-own-serialization-and-the-value
    r is Ok ==> final(m_stream).data@ =~= old(m_stream).data@ + tlv_record(m_type, *m_field),
//@mutant length_prefix_counts_the_type_too
    BigSize(m_field.serialized_length() as u64).write(m_stream)?; m_field.write(m_stream)?; }; (m_stream
//@with
    BigSize(m_field.serialized_length() as u64 + 1).write(m_stream)?; m_field.write(m_stream)?; }; (m_stream
//@end
//@extract lightning/src/util/ser_macros.rs :: macro_rules _encode_tlv
//@metavars
//@slice R15
    if let Some(ref field) = m_optional_field { $body:straight }
//@with
    fn write_optional_tlv(m_stream: &mut ByteWriter, m_optional_type: u64, m_optional_field: &Option<Field>) -> Result<(), IoError> { if let Some(field) = m_optional_field { $body } Ok(()) }
//@ret r
//@ensures P C13,C12 an-optional-tlv-record-is-written-exactly-when-the-field-is-present-in-the-same-type-length-value-form
    r is Ok ==> final(m_stream).data@ =~= old(m_stream).data@ + (match *m_optional_field { Some(f) => tlv_record(m_optional_type, f), None => Seq::<u8>::empty() }),
//@end
}
fn main() {}
