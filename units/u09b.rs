//! unit: u09b
//! properties: C09 C10 C02 C04
//! note: ChannelManager side of a completed persistence (channelmanager.rs channel_monitor_updated / try_resume_channel_post_monitor_update / handle_initial_monitor): a completion report retires exactly the in-flight updates up to the reported id (a report without id retires none) and nothing is resumed while any update of the channel remains in flight or while the channel is not waiting for one; a channel that still has blocked updates is not resumed (its held messages stay held) though the queued actions are handed over; the actions of a closed channel are released then; the initial monitor resumes the channel only when its persistence completed; during start-up an update is not handed to the Watch but queued as a background event naming this channel and this very update, and counts as neither completed nor all-complete
//! trusted: R15 (deep slices): channel_monitor_updated (manager): the statements computing remaining_in_flight (retain written as a loop, R6e, predicate carried verbatim), the early return, the awaiting-update gate, the closed-channel branch's release; try_resume_channel_post_monitor_update: the blocked test, the channel_update condition, the needs_persist expression and its later `|=`; handle_new_monitor_update_locked_actions_handled_by_caller: the start-up branch; each verbatim as a function of the values it reads; `needs_persist |= E` on bools is written `{ let more = E; needs_persist || more }` (Verus has no `|` on bools; E is evaluated unconditionally as in the source); handle_initial_monitor is extracted whole over a recorder for try_resume_channel_post_monitor_update (R5: `&self` written `&mut self`)
//! trusted: R15/R6e (deep slice of handle_monitor_update_completion_actions, PaymentClaimed arm): the inner `retain` over channels_without_preimage (its test carried verbatim) and the loop that frees the claim's channels as index loops with invariants against Seq::filter; PublicKey / ChannelId compare structurally; the outer retain over the channel's blockers and the map lookups are not sliced
//! trusted: assume_specification for core::cmp::max / core::cmp::min (std definitions): present in every unit so that a change that introduces them is verified instead of being rejected by the tool
use vstd::prelude::*;
verus! {
use vstd::std_specs::cmp::*;
use core::cmp;
pub assume_specification<T: core::cmp::Ord>[core::cmp::max::<T>](a: T, b: T) -> (r: T)
    ensures T::obeys_cmp_spec() ==> r == (if b.cmp_spec(&a) == core::cmp::Ordering::Less { a } else { b });
pub assume_specification<T: core::cmp::Ord>[core::cmp::min::<T>](a: T, b: T) -> (r: T)
    ensures T::obeys_cmp_spec() ==> r == (if b.cmp_spec(&a) == core::cmp::Ordering::Less { b } else { a });
#[derive(Clone, Copy)] pub struct ChannelId(pub [u8; 32]);
#[derive(Clone, Copy)] pub struct PublicKey(pub u64);
#[derive(Clone, Copy)] pub struct OutPoint { pub id: u64 }
pub struct ChannelMonitorUpdate { pub update_id: u64, pub content: u64 }
impl Clone for ChannelMonitorUpdate { #[verifier::external_body] fn clone(&self) -> (r: Self) ensures r == *self { unimplemented!() } }
pub open spec fn above(s: Seq<ChannelMonitorUpdate>, h: u64) -> Seq<ChannelMonitorUpdate> { s.filter(|u: ChannelMonitorUpdate| u.update_id > h) }

// ---- channel_monitor_updated: which in-flight updates a completion report retires ----
//@extract lightning/src/ln/channelmanager.rs :: impl ChannelManager :: fn channel_monitor_updated
//@slice R15
    if let Some(highest_applied_update_id) = highest_applied_update_id { pending.retain(|upd| $keep:seq); } else if let Some(update) = pending.get(0) { } else { } pending.len()
//@with
    fn in_flight_updates_left_after_a_completion_report(pending: &mut Vec<ChannelMonitorUpdate>, highest_applied_update_id_: Option<u64>) -> usize {
        let ghost orig = pending@;
        if let Some(highest_applied_update_id) = highest_applied_update_id_ {
            let mut i: usize = 0;
            let ghost mut done: int = 0;
            while i < pending.len()
                invariant 0 <= i <= pending@.len(), 0 <= done <= orig.len(), pending@.len() - i == orig.len() - done,
                    pending@.take(i as int) =~= above(orig.take(done), highest_applied_update_id),
                    pending@.skip(i as int) =~= orig.skip(done),
                decreases pending@.len() - i,
            {
                let keep = { let upd = &pending[i]; $keep };
                proof {
                    assert(orig.take(done + 1) =~= orig.take(done).push(orig[done]));
                    assert(pending@[i as int] == pending@.skip(i as int)[0]);
                    lemma_filter_push(orig.take(done), orig[done], highest_applied_update_id);
                }
                proof { assert(pending@.skip(i as int + 1) =~= pending@.skip(i as int).skip(1)); assert(orig.skip(done + 1) =~= orig.skip(done).skip(1)); }
                if keep { proof { assert(pending@.take(i as int + 1) =~= pending@.take(i as int).push(pending@[i as int])); } i += 1; }
                else { let ghost before = pending@; pending.remove(i); proof { assert(pending@.take(i as int) =~= before.take(i as int)); assert(pending@.skip(i as int) =~= before.skip(i as int + 1)); } }
                proof { done = done + 1; }
            }
            proof { assert(pending@.take(i as int) =~= pending@); assert(orig.take(done) =~= orig); }
        } else if let Some(update) = pending.get(0) { } else { }
        pending.len()
    }
//@ret r
//@ensures P C09 a-completion-report-retires-exactly-the-in-flight-updates-up-to-the-reported-id-keeping-the-later-ones-in-order-and-a-report-without-an-id-retires-none
    highest_applied_update_id_ is Some ==> final(pending)@ == above(old(pending)@, highest_applied_update_id_->Some_0),
    highest_applied_update_id_ is None ==> final(pending)@ == old(pending)@,
    r == final(pending)@.len(),
//@mutant update_with_the_reported_id_stays_in_flight
    upd.update_id > highest_applied_update_id
//@with
    upd.update_id >= highest_applied_update_id
//@end
pub proof fn lemma_filter_push(s: Seq<ChannelMonitorUpdate>, x: ChannelMonitorUpdate, h: u64)
    ensures above(s.push(x), h) == (if x.update_id > h { above(s, h).push(x) } else { above(s, h) })
{
    let p = |u: ChannelMonitorUpdate| u.update_id > h;
    assert(s.push(x).drop_last() =~= s);
    reveal(Seq::filter);
    assert(s.push(x).filter(p) == (if p(x) { s.filter(p).push(x) } else { s.filter(p) }));
}
//@extract lightning/src/ln/channelmanager.rs :: impl ChannelManager :: fn channel_monitor_updated
//@slice R15
    if $c:cond { return false; } if let Some(chan) = peer_state.channel_by_id .get_mut(channel_id) .and_then(Channel::as_funded_mut) { if $aw:cond {
//@with
    fn whether_the_channel_is_resumed_now(remaining_in_flight: usize, chan: &ChanStub) -> bool { if $c { return false; } if $aw { true } else { false } }
//@ret r
//@ensures P C09 nothing-held-is-released-while-an-update-of-the-channel-is-still-in-flight-or-the-channel-is-not-waiting-for-a-monitor-update
    r == (remaining_in_flight == 0 && chan.awaiting),
//@mutant resumed_with_updates_still_in_flight
    if remaining_in_flight != 0 { return false; }
//@with
    if remaining_in_flight > 1 { return false; }
//@end
pub struct ChanStub { pub awaiting: bool, pub blocked: usize, pub usable: bool }
impl ChanStub {
    #[verifier::external_body] pub fn is_awaiting_monitor_update(&self) -> (r: bool) ensures r == self.awaiting { unimplemented!() }
    #[verifier::external_body] pub fn blocked_monitor_updates_pending(&self) -> (r: usize) ensures r == self.blocked { unimplemented!() }
}

// ---- try_resume_channel_post_monitor_update ----
//@extract lightning/src/ln/channelmanager.rs :: impl ChannelManager :: fn try_resume_channel_post_monitor_update
//@slice R15
    if $c:cond { PostMonitorUpdateChanResume::Blocked { update_actions } } else {
//@with
    fn channel_stays_blocked(chan: &ChanStub) -> bool { if $c { true } else { false } }
//@ret r
//@ensures P C09 a-channel-with-blocked-monitor-updates-left-is-not-resumed-its-held-messages-stay-held
    r == (chan.blocked != 0),
//@mutant channel_resumed_with_blocked_updates_left
    chan.blocked_monitor_updates_pending() != 0
//@with
    chan.blocked_monitor_updates_pending() > 1
//@end
pub struct CtxStub { pub usable: bool }
impl CtxStub { #[verifier::external_body] pub fn is_usable(&self) -> (r: bool) ensures r == self.usable { unimplemented!() } }
pub struct ChanCtx { pub context: CtxStub }
pub struct Updates { pub channel_ready: Option<u64>, pub requires_channel_manager_persistence: bool }
pub struct ActionList { pub n: usize }
impl ActionList { #[verifier::external_body] pub fn is_empty(&self) -> (r: bool) ensures r == (self.n == 0) { unimplemented!() } }
//@extract lightning/src/ln/channelmanager.rs :: impl ChannelManager :: fn try_resume_channel_post_monitor_update
//@capture R15
    let mut needs_persist = $np:seq;
//@capture R15
    needs_persist |= $np2:seq;
//@slice R15
    let channel_update = if $cu:cond {
//@with
    fn channel_update_and_persistence_after_resumption(updates: &Updates, chan: &ChanCtx, is_connected: bool, update_actions: &ActionList, unbroadcasted_batch_funding_txid: Option<u64>, htlc_forwards: &ActionList) -> (bool, bool) {
        let sends_channel_update = if $cu { true } else { false };
        let mut needs_persist = $np;
        needs_persist = { let more = $np2; needs_persist || more };
        (sends_channel_update, needs_persist)
    }
//@ret r
//@ensures P C09,C10 after-resumption-the-manager-is-persisted-whenever-the-resumption-changed-anything-that-is-serialized-and-a-channel-update-goes-out-only-with-a-channel-ready-on-a-usable-channel-to-a-connected-peer
    r.0 == (updates.channel_ready is Some && chan.context.usable && is_connected),
    r.1 == (updates.requires_channel_manager_persistence || update_actions.n != 0 || unbroadcasted_batch_funding_txid is Some || htlc_forwards.n != 0),
//@mutant released_forwards_do_not_mark_the_manager_for_persistence
    needs_persist |= !htlc_forwards.is_empty();
//@with
    needs_persist |= htlc_forwards.is_empty() && false;
//@end


// ---- an MPP claim's RAA blocker falls only when the preimage is durable in EVERY channel of the claim ----
impl vstd::std_specs::cmp::PartialEqSpecImpl for PublicKey { open spec fn obeys_eq_spec() -> bool { true } open spec fn eq_spec(&self, other: &PublicKey) -> bool { *self == *other } }
impl PartialEq for PublicKey { #[verifier::external_body] fn eq(&self, o: &PublicKey) -> (r: bool) { self.0 == o.0 } }
impl vstd::std_specs::cmp::PartialEqSpecImpl for ChannelId { open spec fn obeys_eq_spec() -> bool { true } open spec fn eq_spec(&self, other: &ChannelId) -> bool { *self == *other } }
impl PartialEq for ChannelId { #[verifier::external_body] fn eq(&self, o: &ChannelId) -> (r: bool) { self.0 == o.0 } }
pub struct Blocker { pub id: u64 }
impl Clone for Blocker { #[verifier::external_body] fn clone(&self) -> (r: Self) ensures r == *self { unimplemented!() } }
pub struct PendingMPPClaim { pub channels_without_preimage: Vec<(PublicKey, ChannelId)>, pub channels_with_preimage: Vec<(PublicKey, ChannelId)> }
pub open spec fn others(s: Seq<(PublicKey, ChannelId)>, k: (PublicKey, ChannelId)) -> Seq<(PublicKey, ChannelId)> { s.filter(|e: (PublicKey, ChannelId)| e != k) }
pub open spec fn these(s: Seq<(PublicKey, ChannelId)>, k: (PublicKey, ChannelId)) -> Seq<(PublicKey, ChannelId)> { s.filter(|e: (PublicKey, ChannelId)| e == k) }
pub proof fn lemma_split_push(s: Seq<(PublicKey, ChannelId)>, x: (PublicKey, ChannelId), k: (PublicKey, ChannelId))
    ensures others(s.push(x), k) == (if x != k { others(s, k).push(x) } else { others(s, k) }), these(s.push(x), k) == (if x == k { these(s, k).push(x) } else { these(s, k) })
{
    assert(s.push(x).drop_last() =~= s);
    reveal(Seq::filter);
    let p = |e: (PublicKey, ChannelId)| e != k; let q = |e: (PublicKey, ChannelId)| e == k;
    assert(s.push(x).filter(p) == (if p(x) { s.filter(p).push(x) } else { s.filter(p) }));
    assert(s.push(x).filter(q) == (if q(x) { s.filter(q).push(x) } else { s.filter(q) }));
}
pub open spec fn freed_of(w: Seq<(PublicKey, ChannelId)>, b: Blocker) -> Seq<(PublicKey, ChannelId, Blocker)> { Seq::new(w.len(), |i: int| (w[i].0, w[i].1, b)) }
//@extract lightning/src/ln/channelmanager.rs :: impl ChannelManager :: fn handle_monitor_update_completion_actions
//@slice R15
    claim_state.channels_without_preimage.retain(|(cp, cid)| { let this_claim = $c:seq; if this_claim { claim_state.channels_with_preimage.push((*cp, *cid)); false } else { true } }); if $allin:cond { for (cp, cid) in claim_state.channels_with_preimage.iter() { $fb:any } } $keep:seq }); if blockers.get().is_empty() {
//@with
    fn note_that_the_preimage_is_durable_in_one_channel_of_an_mpp_claim(claim_state: &mut PendingMPPClaim, cp_node_id: PublicKey, chan_id: ChannelId, blocker: &Blocker, freed_channels: &mut Vec<(PublicKey, ChannelId, Blocker)>) -> bool {
        let ghost orig = claim_state.channels_without_preimage@; let ghost with0 = claim_state.channels_with_preimage@; let ghost key = (cp_node_id, chan_id);
        let mut i: usize = 0; let ghost mut done: int = 0;
        while i < claim_state.channels_without_preimage.len()
            invariant 0 <= i <= claim_state.channels_without_preimage@.len(), 0 <= done <= orig.len(), claim_state.channels_without_preimage@.len() - i == orig.len() - done,
                claim_state.channels_without_preimage@.take(i as int) =~= others(orig.take(done), key), claim_state.channels_without_preimage@.skip(i as int) =~= orig.skip(done),
                claim_state.channels_with_preimage@ =~= with0 + these(orig.take(done), key), key == (cp_node_id, chan_id),
            decreases claim_state.channels_without_preimage@.len() - i,
        {
            let ghost cur = claim_state.channels_without_preimage@;
            let e0 = claim_state.channels_without_preimage[i].0; let e1 = claim_state.channels_without_preimage[i].1;
            let keep = { let cp = &e0; let cid = &e1; let this_claim = $c; if this_claim { claim_state.channels_with_preimage.push((*cp, *cid)); false } else { true } };
            proof {
                assert(orig.take(done + 1) =~= orig.take(done).push(orig[done])); assert(cur[i as int] == cur.skip(i as int)[0]);
                lemma_split_push(orig.take(done), orig[done], key);
                assert(cur.skip(i as int + 1) =~= cur.skip(i as int).skip(1)); assert(orig.skip(done + 1) =~= orig.skip(done).skip(1));
            }
            if keep { proof { assert(cur.take(i as int + 1) =~= cur.take(i as int).push(cur[i as int])); } i += 1; }
            else { claim_state.channels_without_preimage.remove(i);
                   proof { let after = claim_state.channels_without_preimage@; assert(after.take(i as int) =~= cur.take(i as int)); assert(after.skip(i as int) =~= cur.skip(i as int + 1)); } }
            proof { done = done + 1; }
        }
        proof { assert(claim_state.channels_without_preimage@.take(i as int) =~= claim_state.channels_without_preimage@); assert(orig.take(done) =~= orig); }
        if $allin {
            let ghost f0 = freed_channels@; let mut k: usize = 0;
            while k < claim_state.channels_with_preimage.len()
                invariant 0 <= k <= claim_state.channels_with_preimage@.len(), freed_channels@ =~= f0 + freed_of(claim_state.channels_with_preimage@.take(k as int), *blocker),
                decreases claim_state.channels_with_preimage@.len() - k,
            {
                let c0 = claim_state.channels_with_preimage[k].0; let c1 = claim_state.channels_with_preimage[k].1;
                { let cp = &c0; let cid = &c1; $fb }
                proof { assert(claim_state.channels_with_preimage@.take(k as int + 1) =~= claim_state.channels_with_preimage@.take(k as int).push(claim_state.channels_with_preimage@[k as int])); }
                k += 1;
            }
            proof { assert(claim_state.channels_with_preimage@.take(k as int) =~= claim_state.channels_with_preimage@); }
        }
        $keep
    }
//@ret r
//@ensures P C09,C02,C04 the-held-revocations-of-a-multi-part-claim-are-freed-only-when-the-preimage-is-durable-in-every-channel-of-the-claim-a-completion-moves-only-its-own-channel
    final(claim_state).channels_without_preimage@ == others(old(claim_state).channels_without_preimage@, (cp_node_id, chan_id)),
    final(claim_state).channels_with_preimage@ == old(claim_state).channels_with_preimage@ + these(old(claim_state).channels_without_preimage@, (cp_node_id, chan_id)),
    r == (final(claim_state).channels_without_preimage@.len() != 0),
    r ==> final(freed_channels)@ == old(freed_channels)@,
    !r ==> final(freed_channels)@ == old(freed_channels)@ + freed_of(final(claim_state).channels_with_preimage@, *blocker),
//@mutant one_channels_completion_counts_for_every_channel_of_the_peer
    let this_claim = *cp == cp_node_id && *cid == chan_id;
//@with
    let this_claim = *cp == cp_node_id || *cid == chan_id;
//@mutant blocker_dropped_while_channels_still_lack_the_preimage
    !claim_state.channels_without_preimage.is_empty() });
//@with
    claim_state.channels_without_preimage.is_empty() });
//@end
// ---- the initial monitor ----
pub struct LoggerStub {}
//@extract lightning/src/chain/mod.rs :: enum ChannelMonitorUpdateStatus
//@end
pub struct Resume { pub id: u64 }
pub struct Fields { pub opaque: u64 }
pub struct Manager { pub resumed: Ghost<Seq<u64>> }
impl Manager {
    #[verifier::external_body] pub fn handle_monitor_update_res(&self, update_res: ChannelMonitorUpdateStatus, logger: LoggerStub) -> (r: bool)
        requires !(update_res is UnrecoverableError) ensures r == (update_res is Completed) { unimplemented!() }
    #[verifier::external_body] pub fn try_resume_channel_post_monitor_update(&mut self, a: &mut Fields, b: &mut Fields, c: &mut Fields, is_connected: bool, chan: &mut ChanId) -> (r: Resume)
        ensures final(self).resumed@ == old(self).resumed@.push(old(chan).id), r.id == old(chan).id { unimplemented!() }
//@extract lightning/src/ln/channelmanager.rs :: impl ChannelManager :: fn handle_initial_monitor
//@rw R5
    &self, in_flight_monitor_updates: &mut BTreeMap<ChannelId, (OutPoint, Vec<ChannelMonitorUpdate>)>, monitor_update_blocked_actions: &mut BTreeMap< ChannelId, Vec<MonitorUpdateCompletionAction>, >, pending_msg_events: &mut Vec<MessageSendEvent>, is_connected: bool, chan: &mut FundedChannel<SP>, update_res: ChannelMonitorUpdateStatus,
//@with
    &mut self, in_flight_monitor_updates: &mut Fields, monitor_update_blocked_actions: &mut Fields, pending_msg_events: &mut Fields, is_connected: bool, chan: &mut ChanId, update_res: ChannelMonitorUpdateStatus,
//@rw R5
    -> Option<PostMonitorUpdateChanResume>
//@with
    -> Option<Resume>
//@rw R5
    let logger = WithChannelContext::from(&self.logger, &chan.context, None);
//@with
    let logger = LoggerStub {};
//@ret r
//@requires
    !(update_res is UnrecoverableError),
//@ensures P C09 a-new-channel-is-resumed-funding-broadcast-channel-ready-only-when-the-persistence-of-its-initial-monitor-completed
    update_res is Completed ==> r is Some && final(self).resumed@ == old(self).resumed@.push(old(chan).id),
    update_res is InProgress ==> r is None && final(self).resumed@ == old(self).resumed@,
//@mutant channel_resumed_while_its_initial_monitor_is_still_being_persisted
    if update_completed {
//@with
    if !update_completed {
//@end
}
pub struct ChanId { pub id: u64 }

// ---- start-up: an update is queued as a background event instead of being handed to the Watch ----
pub enum BackgroundEvent { MonitorUpdateRegeneratedOnStartup { counterparty_node_id: PublicKey, funding_txo: OutPoint, channel_id: ChannelId, update: ChannelMonitorUpdate }, Other { opaque: u64 } }
//@extract lightning/src/ln/channelmanager.rs :: impl ChannelManager :: fn handle_new_monitor_update_locked_actions_handled_by_caller
//@slice R15
    let event = BackgroundEvent::MonitorUpdateRegeneratedOnStartup { $fields:any }; self.pending_background_events.lock().unwrap().push(event); ($a:seq, $b:seq)
//@with
    fn queue_update_for_after_startup(pending_background_events: &mut Vec<BackgroundEvent>, in_flight_updates: &Vec<ChannelMonitorUpdate>, update_idx: usize, counterparty_node_id: PublicKey, funding_txo: OutPoint, channel_id: ChannelId) -> (bool, bool) {
        let event = BackgroundEvent::MonitorUpdateRegeneratedOnStartup { $fields }; pending_background_events.push(event); ($a, $b)
    }
//@ret r
//@requires
    update_idx < in_flight_updates@.len(),
//@ensures P C09,C10 during-start-up-an-update-is-queued-behind-the-earlier-background-events-naming-its-channel-and-carrying-this-very-update-and-counts-as-neither-completed-nor-all-complete
    r == (false, false),
    final(pending_background_events)@ == old(pending_background_events)@.push(BackgroundEvent::MonitorUpdateRegeneratedOnStartup { counterparty_node_id, funding_txo, channel_id, update: in_flight_updates@[update_idx as int] }),
//@mutant startup_update_reported_as_completed
    (false, false)
//@with
    (true, false)
//@end
}
fn main() {}
