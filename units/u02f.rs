//! unit: u02f
//! properties: C02 C14
//! note: create_fwd_pending_htlc_info WHOLE (onion_payment.rs): what is written down for an HTLC to be forwarded is what its onion asked for and what arrived, nothing else: the amount and expiry offered downstream are the onion's (plain forward) or the ones check_blinded_forward computed from the amount and expiry that ARRIVED (blinded forward: proved in u02 to leave the relay fee and CLTV delta); the incoming amount / expiry recorded (which the admission checks of u02 compare against) are the message's; the next channel is the onion's; a blinded forward is marked so that its failure reveals nothing (from the introduction node exactly when the payload carried the introduction point), with the blinding point it arrived under; a payload addressed to a final node is refused; a trampoline forward records the inner onion's amount and expiry for the next trampoline and the outer onion's for this hop
//! trusted: the payload structs and enum Hop are extracted from msgs.rs / onion_utils.rs on every run; the receive payloads (not looked into by this function) are empty skeletons; PendingHTLCRouting is restricted to the two variants built here, PendingHTLCInfo / BlindedForward / InboundHTLCErr are the real field lists (msg: &'static str kept); OnionPacket / TrampolineOnionPacket field skeletons; PublicKey, SharedSecret, PaymentHash opaque values; R8: `vec![0; 32]` -> zero_vec(32), `Vec::new()` kept; closures `|()|` / `|_|` get a named parameter (R9)
//! trusted: check_blinded_forward is external_body over the uninterpreted function cbf(amount, expiry, relay, constraints, features) (its own contract is proved in u02 from the real body)
//! assume: the caller passes the next packet's public key (LDK's debug_assert) and never a Dummy hop (peeled earlier: LDK's debug_assert!(false) in that arm is the obligation `unreachable`, discharged by the precondition)
//! trusted: assume_specification for Option::or (std definition)
//! trusted: assume_specification for core::cmp::max / core::cmp::min (std definitions): present in every unit so that a change that introduces them is verified instead of being rejected by the tool
use vstd::prelude::*;
verus! {
use vstd::std_specs::cmp::*;
use core::cmp;
pub assume_specification<T: core::cmp::Ord>[core::cmp::max::<T>](a: T, b: T) -> (r: T)
    ensures T::obeys_cmp_spec() ==> r == (if b.cmp_spec(&a) == core::cmp::Ordering::Less { a } else { b });
pub assume_specification<T: core::cmp::Ord>[core::cmp::min::<T>](a: T, b: T) -> (r: T)
    ensures T::obeys_cmp_spec() ==> r == (if b.cmp_spec(&a) == core::cmp::Ordering::Less { b } else { a });
// std definition of Option::or (trusted)
pub assume_specification<T>[core::option::Option::<T>::or](a: Option<T>, b: Option<T>) -> (r: Option<T>)
    ensures r == (if a is Some { a } else { b });
//@const lightning/src/ln/onion_utils.rs ONION_DATA_LEN
#[derive(Clone, Copy)] pub struct PublicKey(pub u64);
#[derive(Clone, Copy)] pub struct PaymentHash(pub u64);
pub enum Error { InvalidPublicKey, InvalidSecretKey }
pub struct SharedSecret(pub [u8; 32]);
impl SharedSecret { #[verifier::external_body] pub fn secret_bytes(&self) -> (r: [u8; 32]) ensures r == self.0 { unimplemented!() } }
#[derive(Clone, Copy)] pub struct FinalOnionHopData { pub payment_secret: u64, pub total_msat: u64 }
#[derive(Clone, Copy)] pub struct PaymentRelay { pub cltv_expiry_delta: u16, pub fee_proportional_millionths: u32, pub fee_base_msat: u32 }
#[derive(Clone, Copy)] pub struct PaymentConstraints { pub max_cltv_expiry: u32, pub htlc_minimum_msat: u64 }
#[derive(Clone, Copy)] pub struct BlindedHopFeatures { pub bits: u64 }
pub struct TrampolineOnionPacket { pub version: u8, pub public_key: PublicKey, pub hop_data: Vec<u8>, pub hmac: [u8; 32] }
pub struct OnionPacket { pub version: u8, pub public_key: Result<PublicKey, Error>, pub hop_data: [u8; ONION_DATA_LEN], pub hmac: [u8; 32] }
pub struct InboundOnionDummyPayload {} pub struct InboundOnionReceivePayload {} pub struct InboundOnionBlindedReceivePayload {}
pub enum LocalHTLCFailureReason { InvalidOnionPayload, InvalidOnionBlinding, InvalidTrampolinePayload, Other }
//@extract lightning/src/ln/msgs.rs :: mod fuzzy_internal_msgs :: struct InboundOnionForwardPayload
//@end
//@extract lightning/src/ln/msgs.rs :: mod fuzzy_internal_msgs :: struct InboundTrampolineEntrypointPayload
//@end
//@extract lightning/src/ln/msgs.rs :: mod fuzzy_internal_msgs :: struct InboundOnionBlindedForwardPayload
//@end
//@extract lightning/src/ln/msgs.rs :: mod fuzzy_internal_msgs :: struct InboundTrampolineForwardPayload
//@end
//@extract lightning/src/ln/msgs.rs :: mod fuzzy_internal_msgs :: struct InboundTrampolineBlindedForwardPayload
//@end
//@extract lightning/src/ln/onion_utils.rs :: enum Hop
//@strip msgs
//@end
//@extract lightning/src/ln/onion_payment.rs :: struct InboundHTLCErr
//@end
//@extract lightning/src/ln/channelmanager.rs :: enum BlindedFailure
//@end
//@extract lightning/src/ln/channelmanager.rs :: struct BlindedForward
//@end
//@extract lightning/src/ln/channelmanager.rs :: struct PendingHTLCInfo
//@end
//@extract lightning/src/ln/onion_payment.rs :: enum RoutingInfo
//@strip msgs
//@end
pub enum PendingHTLCRouting {
    Forward { onion_packet: OnionPacket, short_channel_id: u64, blinded: Option<BlindedForward>, incoming_cltv_expiry: Option<u32>, hold_htlc: Option<()> },
    TrampolineForward { trampoline_shared_secret: [u8; 32], onion_packet: TrampolineOnionPacket, node_id: PublicKey, blinded: Option<BlindedForward>, incoming_cltv_expiry: u32,
        incoming_multipath_data: Option<FinalOnionHopData>, next_trampoline_amt_msat: u64, next_trampoline_cltv_expiry: u32 },
}
pub struct UpdateAddHTLC { pub amount_msat: u64, pub cltv_expiry: u32, pub payment_hash: PaymentHash, pub hold_htlc: Option<()>, pub blinding_point: Option<PublicKey>, pub accountable: Option<bool> }
pub uninterp spec fn cbf(amt: u64, cltv: u32, relay: PaymentRelay, constraints: PaymentConstraints, features: BlindedHopFeatures) -> Result<(u64, u32), ()>;
#[verifier::external_body] pub fn check_blinded_forward(inbound_amt_msat: u64, inbound_cltv_expiry: u32, payment_relay: &PaymentRelay, payment_constraints: &PaymentConstraints, features: &BlindedHopFeatures) -> (r: Result<(u64, u32), ()>)
    ensures r == cbf(inbound_amt_msat, inbound_cltv_expiry, *payment_relay, *payment_constraints, *features) { unimplemented!() }
pub open spec fn zeros(n: int) -> Seq<u8> { Seq::new(n as nat, |i: int| 0u8) }
#[verifier::external_body] pub fn zero_vec(n: usize) -> (v: Vec<u8>) ensures v@ == zeros(n as int) { vec![0u8; n] }
// how a forward that came through (or enters) a blinded path is marked
pub open spec fn marked(intro: Option<PublicKey>, arrived_under: Option<PublicKey>, next_override: Option<PublicKey>) -> Option<BlindedForward> {
    if intro is Some { Some(BlindedForward { inbound_blinding_point: intro->Some_0, failure: BlindedFailure::FromIntroductionNode, next_blinding_override: next_override }) }
    else if arrived_under is Some { Some(BlindedForward { inbound_blinding_point: arrived_under->Some_0, failure: BlindedFailure::FromBlindedNode, next_blinding_override: next_override }) }
    else { None }
}
pub open spec fn common(msg: UpdateAddHTLC, shared_secret: [u8; 32], i: PendingHTLCInfo) -> bool {
    i.payment_hash == msg.payment_hash && i.incoming_shared_secret == shared_secret && i.incoming_amt_msat == Some(msg.amount_msat) && i.skimmed_fee_msat is None
        && i.incoming_accountable == (msg.accountable == Some(true))
}
//@extract lightning/src/ln/onion_payment.rs :: fn create_fwd_pending_htlc_info
//@strip msgs onion_utils secp256k1
//@rw R8 *
    vec![0; 32]
//@with
    zero_vec(32)
//@rw R9 *
    .map_err(|()| { $b:any })?
//@with
    .map_err(|__u: ()| -> (e: InboundHTLCErr) ensures e.reason == LocalHTLCFailureReason::InvalidOnionBlinding, e.err_data@ == zeros(32) { $b })?
//@rw R9 ?
    .map(|f| $e:seq).unwrap_or(
//@with
    .map(|f: &FinalOnionHopData| -> (t: u64) ensures t == ($e) { $e }).unwrap_or(
//@rw R9 *
    .map(|bp| BlindedForward { $b:any })
//@with
    .map(|bp: PublicKey| -> (bf: BlindedForward) ensures bf == (BlindedForward { inbound_blinding_point: bp, next_blinding_override, failure: if intro_node_blinding_point is Some { BlindedFailure::FromIntroductionNode } else { BlindedFailure::FromBlindedNode } }) { BlindedForward { $b } })
//@rw R9 *
    .map(|_| $v:seq) .unwrap_or(
//@with
    .map(|__p: PublicKey| -> (bfail: BlindedFailure) ensures bfail == ($v) { $v }) .unwrap_or(
//@ret r
//@requires
    next_packet_pubkey_opt is Some, !(hop_data is Dummy),
//@ensures P C02,C14 what-is-recorded-for-a-forward-is-the-onions-amount-expiry-and-channel-or-for-a-blinded-hop-what-was-computed-from-what-arrived-the-incoming-values-are-the-messages-and-a-blinded-forward-is-marked-as-such
    match hop_data {
        Hop::Forward { next_hop_data, new_packet_bytes, next_hop_hmac, .. } => r is Ok && common(*msg, shared_secret, r->Ok_0)
            && r->Ok_0.outgoing_amt_msat == next_hop_data.amt_to_forward && r->Ok_0.outgoing_cltv_value == next_hop_data.outgoing_cltv_value
            && (r->Ok_0.routing matches PendingHTLCRouting::Forward { onion_packet, short_channel_id, blinded, incoming_cltv_expiry, hold_htlc }
                && short_channel_id == next_hop_data.short_channel_id && incoming_cltv_expiry == Some(msg.cltv_expiry) && hold_htlc == msg.hold_htlc
                && blinded == marked(None, msg.blinding_point, None)
                && onion_packet.version == 0 && onion_packet.public_key == next_packet_pubkey_opt->Some_0 && onion_packet.hop_data == new_packet_bytes && onion_packet.hmac == next_hop_hmac),
        Hop::BlindedForward { next_hop_data, new_packet_bytes, next_hop_hmac, .. } => {
            let c = cbf(msg.amount_msat, msg.cltv_expiry, next_hop_data.payment_relay, next_hop_data.payment_constraints, next_hop_data.features);
            &&& c is Err ==> r is Err && r->Err_0.reason == LocalHTLCFailureReason::InvalidOnionBlinding && r->Err_0.err_data@ == zeros(32)
            &&& c is Ok ==> r is Ok && common(*msg, shared_secret, r->Ok_0) && r->Ok_0.outgoing_amt_msat == c->Ok_0.0 && r->Ok_0.outgoing_cltv_value == c->Ok_0.1
                && (r->Ok_0.routing matches PendingHTLCRouting::Forward { onion_packet, short_channel_id, blinded, incoming_cltv_expiry, hold_htlc }
                    && short_channel_id == next_hop_data.short_channel_id && incoming_cltv_expiry == Some(msg.cltv_expiry) && hold_htlc == msg.hold_htlc
                    && blinded == marked(next_hop_data.intro_node_blinding_point, msg.blinding_point, next_hop_data.next_blinding_override)
                    && onion_packet.version == 0 && onion_packet.public_key == next_packet_pubkey_opt->Some_0 && onion_packet.hop_data == new_packet_bytes && onion_packet.hmac == next_hop_hmac)
        },
        Hop::TrampolineForward { outer_hop_data, next_trampoline_hop_data, next_trampoline_hop_hmac, new_trampoline_packet_bytes, trampoline_shared_secret, .. } =>
            if next_packet_pubkey_opt->Some_0 is Ok {
                r is Ok && common(*msg, shared_secret, r->Ok_0) && r->Ok_0.outgoing_amt_msat == outer_hop_data.amt_to_forward && r->Ok_0.outgoing_cltv_value == outer_hop_data.outgoing_cltv_value
                && (r->Ok_0.routing matches PendingHTLCRouting::TrampolineForward { trampoline_shared_secret: tss, onion_packet, node_id, blinded, incoming_cltv_expiry, incoming_multipath_data, next_trampoline_amt_msat, next_trampoline_cltv_expiry }
                    && tss == trampoline_shared_secret.0 && node_id == next_trampoline_hop_data.next_trampoline && blinded is None && incoming_cltv_expiry == msg.cltv_expiry
                    && incoming_multipath_data == outer_hop_data.multipath_trampoline_data
                    && next_trampoline_amt_msat == next_trampoline_hop_data.amt_to_forward && next_trampoline_cltv_expiry == next_trampoline_hop_data.outgoing_cltv_value
                    && onion_packet.version == 0 && onion_packet.public_key == next_packet_pubkey_opt->Some_0->Ok_0 && onion_packet.hop_data == new_trampoline_packet_bytes && onion_packet.hmac == next_trampoline_hop_hmac)
            } else { r is Err && r->Err_0.reason == LocalHTLCFailureReason::InvalidTrampolinePayload },
        Hop::TrampolineBlindedForward { outer_hop_data, next_trampoline_hop_data, next_trampoline_hop_hmac, new_trampoline_packet_bytes, trampoline_shared_secret, .. } => {
            let total = if outer_hop_data.multipath_trampoline_data is Some { outer_hop_data.multipath_trampoline_data->Some_0.total_msat } else { msg.amount_msat };
            let c = cbf(total, msg.cltv_expiry, next_trampoline_hop_data.payment_relay, next_trampoline_hop_data.payment_constraints, next_trampoline_hop_data.features);
            &&& c is Err ==> r is Err && r->Err_0.reason == LocalHTLCFailureReason::InvalidOnionBlinding && r->Err_0.err_data@ == zeros(32)
            &&& c is Ok && !(next_packet_pubkey_opt->Some_0 is Ok) ==> r is Err && r->Err_0.reason == LocalHTLCFailureReason::InvalidTrampolinePayload
            &&& c is Ok && next_packet_pubkey_opt->Some_0 is Ok ==> r is Ok && common(*msg, shared_secret, r->Ok_0)
                && r->Ok_0.outgoing_amt_msat == outer_hop_data.amt_to_forward && r->Ok_0.outgoing_cltv_value == outer_hop_data.outgoing_cltv_value
                && (r->Ok_0.routing matches PendingHTLCRouting::TrampolineForward { trampoline_shared_secret: tss, onion_packet, node_id, blinded, incoming_cltv_expiry, incoming_multipath_data, next_trampoline_amt_msat, next_trampoline_cltv_expiry }
                    && tss == trampoline_shared_secret.0 && node_id == next_trampoline_hop_data.next_trampoline && incoming_cltv_expiry == msg.cltv_expiry
                    && blinded == marked(next_trampoline_hop_data.intro_node_blinding_point, outer_hop_data.current_path_key, next_trampoline_hop_data.next_blinding_override)
                    && incoming_multipath_data == outer_hop_data.multipath_trampoline_data
                    && next_trampoline_amt_msat == c->Ok_0.0 && next_trampoline_cltv_expiry == c->Ok_0.1
                    && onion_packet.version == 0 && onion_packet.public_key == next_packet_pubkey_opt->Some_0->Ok_0 && onion_packet.hop_data == new_trampoline_packet_bytes && onion_packet.hmac == next_trampoline_hop_hmac)
        },
        _ => r is Err && r->Err_0.reason == LocalHTLCFailureReason::InvalidOnionPayload && r->Err_0.err_data@.len() == 0,
    },
//@mutant amount_that_arrived_recorded_as_the_amount_to_forward
    outgoing_amt_msat: amt_to_forward,
//@with
    outgoing_amt_msat: msg.amount_msat,
//@mutant blinded_trampoline_forward_computed_from_this_parts_amount_instead_of_the_total
    outer_hop_data.multipath_trampoline_data.as_ref().map(|f| f.total_msat).unwrap_or(msg.amount_msat), msg.cltv_expiry,
//@with
    msg.amount_msat, msg.cltv_expiry,
//@mutant failure_of_a_forward_inside_a_blinded_path_marked_as_from_the_introduction_node
    .unwrap_or(BlindedFailure::FromBlindedNode), }), } } RoutingInfo::Trampoline
//@with
    .unwrap_or(BlindedFailure::FromIntroductionNode), }), } } RoutingInfo::Trampoline
//@mutant incoming_expiry_of_a_forward_not_recorded
    incoming_cltv_expiry: Some(msg.cltv_expiry),
//@with
    incoming_cltv_expiry: None,
//@mutant next_trampoline_given_the_outer_onions_amount
    next_trampoline_amt_msat: next_trampoline_hop_data.amt_to_forward,
//@with
    next_trampoline_amt_msat: outer_hop_data.amt_to_forward,
//@end
}
fn main() {}
