//! unit: u07j
//! properties: C07
//! note: wallet coin selection for anchor / HTLC fee bumps (util/wallet_utils.rs select_confirmed_utxos_internal): the selection loop, the loop that makes room under the weight limit by dropping the smallest inputs, and the final pruning loop, verbatim, with their bookkeeping as loop invariants: the amount selected is the input amount plus the values of the inputs kept, the fee total is the fee of the existing transaction plus the fee of each input kept, the weight of the inputs kept never exceeds the limit (LDK's own comment, proved); on success the inputs kept pay for the target amount plus all fees at the target feerate, still do after pruning, and the remainder handed to the change output is what is left over; every subtraction is shown not to underflow
//! trusted: R15 (deep slice): the statements from `selected_amount = input_amount_sat` to the end of the pruning loop, verbatim as a function of the eligible inputs (already filtered and sorted), bodies of the three loops carried through captures; R5: bitcoin::Amount is written u64 (`Amount::from_sat(x)` -> x: Amount's arithmetic panics on overflow, the u64 arithmetic carries the same obligations); the VecDeque of selected inputs is an environment queue over a ghost sequence (push_back / pop_front / front / is_empty with the std contracts); Utxo is a skeleton {value, satisfaction_weight}; fee_for_weight is uninterpreted
//! assume: the eligible inputs' values and fees sum to less than 2^62 with the input amount and the target (amounts are bounded by the bitcoin supply); satisfaction weights below 2^40, the weight limit below 2^62
//! trusted: assume_specification for core::cmp::max / core::cmp::min (std definitions): present in every unit so that a change that introduces them is verified instead of being rejected by the tool
use vstd::prelude::*;
verus! {
use vstd::std_specs::cmp::*;
use core::cmp;
pub assume_specification<T: core::cmp::Ord>[core::cmp::max::<T>](a: T, b: T) -> (r: T)
    ensures T::obeys_cmp_spec() ==> r == (if b.cmp_spec(&a) == core::cmp::Ordering::Less { a } else { b });
pub assume_specification<T: core::cmp::Ord>[core::cmp::min::<T>](a: T, b: T) -> (r: T)
    ensures T::obeys_cmp_spec() ==> r == (if b.cmp_spec(&a) == core::cmp::Ordering::Less { b } else { a });
//@const lightning/src/ln/chan_utils.rs BASE_INPUT_SIZE
// BASE_INPUT_WEIGHT = BASE_INPUT_SIZE * WITNESS_SCALE_FACTOR (4, a constant of the bitcoin crate): written out, tied to the extracted size by the lemma below
pub const BASE_INPUT_WEIGHT: u64 = 160;
pub proof fn lemma_base_input_weight() ensures BASE_INPUT_WEIGHT == BASE_INPUT_SIZE * 4 {}
pub uninterp spec fn fee_spec(feerate: u32, weight: u64) -> u64;
#[verifier::external_body] pub fn fee_for_weight(feerate: u32, weight: u64) -> (r: u64) ensures r == fee_spec(feerate, weight) { unimplemented!() }
#[derive(Clone, Copy)] pub struct Out { pub value: u64 }
#[derive(Clone, Copy)] pub struct Utxo { pub output: Out, pub satisfaction_weight: u64 }
pub type Sel = (Utxo, u64);
pub type Amount = u64;   // R5: bitcoin::Amount written u64 (see the unit's trusted lines)
pub struct Deque { pub q: Ghost<Seq<Sel>> }
impl Deque {
    #[verifier::external_body] pub fn new() -> (r: Deque) ensures r.q@.len() == 0 { unimplemented!() }
    #[verifier::external_body] pub fn push_back(&mut self, x: Sel) ensures final(self).q@ == old(self).q@.push(x) { unimplemented!() }
    #[verifier::external_body] pub fn pop_front(&mut self) -> (r: Option<Sel>) ensures old(self).q@.len() == 0 ==> r is None && final(self).q@ == old(self).q@, old(self).q@.len() > 0 ==> r == Some(old(self).q@[0]) && final(self).q@ == old(self).q@.skip(1) { unimplemented!() }
    #[verifier::external_body] pub fn front(&self) -> (r: Option<&Sel>) ensures self.q@.len() == 0 ==> r is None, self.q@.len() > 0 ==> r is Some && *r->Some_0 == self.q@[0] { unimplemented!() }
    #[verifier::external_body] pub fn is_empty(&self) -> (r: bool) ensures r == (self.q@.len() == 0) { unimplemented!() }
}
pub open spec fn vals(s: Seq<Sel>) -> int decreases s.len() { if s.len() == 0 { 0 } else { vals(s.drop_last()) + s.last().0.output.value as int } }
pub open spec fn fees(s: Seq<Sel>) -> int decreases s.len() { if s.len() == 0 { 0 } else { fees(s.drop_last()) + s.last().1 as int } }
pub open spec fn wts(s: Seq<Sel>) -> int decreases s.len() { if s.len() == 0 { 0 } else { wts(s.drop_last()) + BASE_INPUT_WEIGHT as int + s.last().0.satisfaction_weight as int } }
pub proof fn lemma_push(s: Seq<Sel>, x: Sel)
    ensures vals(s.push(x)) == vals(s) + x.0.output.value, fees(s.push(x)) == fees(s) + x.1, wts(s.push(x)) == wts(s) + BASE_INPUT_WEIGHT + x.0.satisfaction_weight
{ assert(s.push(x).drop_last() =~= s); }
pub proof fn lemma_first(s: Seq<Sel>)
    requires s.len() > 0
    ensures vals(s) == s[0].0.output.value + vals(s.skip(1)), fees(s) == s[0].1 + fees(s.skip(1)), wts(s) == BASE_INPUT_WEIGHT + s[0].0.satisfaction_weight + wts(s.skip(1)),
        vals(s.skip(1)) >= 0, fees(s.skip(1)) >= 0, wts(s.skip(1)) >= 0
    decreases s.len()
{
    if s.len() == 1 { assert(s.drop_last().len() == 0); assert(vals(s.drop_last()) == 0 && fees(s.drop_last()) == 0 && wts(s.drop_last()) == 0); assert(s.skip(1).len() == 0); assert(vals(s.skip(1)) == 0 && fees(s.skip(1)) == 0 && wts(s.skip(1)) == 0); assert(s.last() == s[0]); }
    else { lemma_first(s.drop_last()); assert(s.drop_last().skip(1) =~= s.skip(1).drop_last()); assert(s.skip(1).last() == s.last()); assert(s.drop_last()[0] == s[0]);
           assert(vals(s.skip(1)) == vals(s.skip(1).drop_last()) + s.skip(1).last().0.output.value); assert(fees(s.skip(1)) == fees(s.skip(1).drop_last()) + s.skip(1).last().1);
           assert(wts(s.skip(1)) == wts(s.skip(1).drop_last()) + BASE_INPUT_WEIGHT + s.skip(1).last().0.satisfaction_weight); }
}
pub open spec fn small(e: Seq<(Utxo, u64)>) -> bool { forall|k: int| 0 <= k < e.len() ==> (#[trigger] e[k]).0.output.value < 0x4000_0000_0000 && e[k].1 < 0x4000_0000_0000 && e[k].0.satisfaction_weight < 0x100_0000_0000 }
//@extract lightning/src/util/wallet_utils.rs :: impl Wallet :: fn select_confirmed_utxos_internal
//@slice R15
    selected_amount = input_amount_sat; total_fees = $tf:seq; selected_utxos = VecDeque::new(); let mut selected_utxos_weight = 0; for (utxo, fee_to_spend_utxo) in eligible_utxos { $body:any } if $short:cond { return Err(()); } while $prune:cond { $pbody:any } for (utxo, _) in &selected_utxos {
//@with
    fn select_inputs_for_a_fee_bump(eligible_utxos: &Vec<(Utxo, u64)>, target_feerate_sat_per_1000_weight: u32, preexisting_tx_weight: u64, input_amount_sat: u64, target_amount_sat: u64, max_coin_selection_weight: u64) -> Result<(u64, u64, Deque), ()> {
        let mut selected_amount: u64; let mut total_fees: u64; let mut selected_utxos: Deque;
        selected_amount = input_amount_sat; total_fees = $tf; selected_utxos = Deque::new(); let mut selected_utxos_weight: u64 = 0;
        let ghost fee0 = total_fees as int;
        let mut __i: usize = 0;
        while __i < eligible_utxos.len()
            invariant 0 <= __i <= eligible_utxos@.len(), small(eligible_utxos@), eligible_utxos@.len() < 0x10000, input_amount_sat < 0x4000_0000_0000_0000, target_amount_sat < 0x4000_0000_0000_0000, fee0 < 0x4000_0000_0000_0000, fee0 >= 0, max_coin_selection_weight < 0x4000_0000_0000_0000,
                selected_amount as int == input_amount_sat + vals(selected_utxos.q@), total_fees as int == fee0 + fees(selected_utxos.q@), selected_utxos_weight as int == wts(selected_utxos.q@),
                selected_utxos_weight <= max_coin_selection_weight, selected_utxos.q@.len() <= __i,
                vals(selected_utxos.q@) <= __i * 0x4000_0000_0000, fees(selected_utxos.q@) <= __i * 0x4000_0000_0000, vals(selected_utxos.q@) >= 0, fees(selected_utxos.q@) >= 0,
            decreases eligible_utxos@.len() - __i,
        {
            let utxo = &eligible_utxos[__i].0; let fee_to_spend_utxo = eligible_utxos[__i].1;
            proof { assert(eligible_utxos@[__i as int].0.satisfaction_weight < 0x100_0000_0000 && eligible_utxos@[__i as int].0.output.value < 0x4000_0000_0000 && eligible_utxos@[__i as int].1 < 0x4000_0000_0000); }
            __i += 1;
            $body
        }
        if $short { return Err(()); }
        proof { if selected_utxos.q@.len() > 0 { lemma_first(selected_utxos.q@); } }
        while $prune
            invariant selected_utxos.q@.len() > 0 ==> selected_amount >= selected_utxos.q@[0].0.output.value && total_fees >= selected_utxos.q@[0].1,
                selected_amount as int == input_amount_sat + vals(selected_utxos.q@), total_fees as int == fee0 + fees(selected_utxos.q@), fee0 >= 0, vals(selected_utxos.q@) >= 0, fees(selected_utxos.q@) >= 0,
                selected_amount >= target_amount_sat + total_fees, target_amount_sat < 0x4000_0000_0000_0000, total_fees < 0x4000_0000_0000_0000 + 0x10000 * 0x4000_0000_0000,
            decreases selected_utxos.q@.len(),
        {
            proof { lemma_first(selected_utxos.q@); }
            $pbody
            proof { if selected_utxos.q@.len() > 0 { lemma_first(selected_utxos.q@); } }
        }
        Ok((selected_amount, total_fees, selected_utxos))
    }
//@rw * R5
    Amount::from_sat($x:seq)
//@with
    $x
//@loop 1
    invariant small(eligible_utxos@), fee0 >= 0, max_coin_selection_weight < 0x4000_0000_0000_0000, 0 < __i <= eligible_utxos@.len(), eligible_utxos@.len() < 0x10000, *utxo == eligible_utxos@[__i - 1].0,
        selected_amount as int == input_amount_sat + vals(selected_utxos.q@), total_fees as int == fee0 + fees(selected_utxos.q@), selected_utxos_weight as int == wts(selected_utxos.q@),
        selected_utxos_weight <= max_coin_selection_weight, BASE_INPUT_WEIGHT + utxo.satisfaction_weight <= max_coin_selection_weight, selected_utxos.q@.len() <= __i - 1,
        vals(selected_utxos.q@) <= (__i - 1) * 0x4000_0000_0000, fees(selected_utxos.q@) <= (__i - 1) * 0x4000_0000_0000, vals(selected_utxos.q@) >= 0, fees(selected_utxos.q@) >= 0, wts(selected_utxos.q@) >= 0,
    decreases selected_utxos.q@.len(),
//@at loop_body_start 1
    proof { lemma_first(selected_utxos.q@); }
//@at after_loop 1
    proof { lemma_push(selected_utxos.q@, (*utxo, fee_to_spend_utxo)); if selected_utxos.q@.len() == 0 { assert(wts(selected_utxos.q@) == 0); } }
//@ret r
//@requires
    small(eligible_utxos@), eligible_utxos@.len() < 0x10000, input_amount_sat < 0x4000_0000_0000_0000, target_amount_sat < 0x4000_0000_0000_0000,
    fee_spec(target_feerate_sat_per_1000_weight, preexisting_tx_weight) < 0x4000_0000_0000_0000, max_coin_selection_weight < 0x4000_0000_0000_0000,
//@ensures P C07 the-inputs-selected-for-a-fee-bump-stay-within-the-weight-limit-and-pay-for-the-target-amount-plus-the-fees-of-the-existing-transaction-and-of-every-input-kept-also-after-the-smallest-are-pruned
    r is Ok ==> ({ let (amount, fee_total, kept) = r->Ok_0;
        &&& amount as int == input_amount_sat + vals(kept.q@)
        &&& fee_total as int == fee_spec(target_feerate_sat_per_1000_weight, preexisting_tx_weight) + fees(kept.q@)
        &&& amount >= target_amount_sat + fee_total }),
//@mutant dropped_inputs_fee_not_taken_off_the_total
    total_fees -= fee_to_spend_utxo; selected_utxos_weight -=
//@with
    selected_utxos_weight -=
//@mutant pruning_forgets_the_pruned_inputs_fee
    >= target_amount_sat + total_fees - selected_utxos.front().unwrap().1
//@with
    >= target_amount_sat
//@end
}
fn main() {}
