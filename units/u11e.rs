//! unit: u11e
//! properties: C11 C07
//! note: ChannelMonitorImpl::transactions_confirmed (slices): a transaction the monitor has already processed - the confirmed alternative funding, the confirmed funding spend, one with an event still awaiting its threshold, one that resolved an HTLC, one whose outputs were already reported spendable - is skipped when it is delivered again (re-delivery is idempotent), and nothing else is skipped; the first sight of a funding spend is reported once; the funding-spend entry is dated at the block that confirmed the transaction, not the tip, and remembers our CSV delay exactly when it is our own commitment; transactions confirmed below the monitor's tip never move the tip backwards
//! trusted: R15 (deep slices): the five "already processed" tests at the top of the per-transaction loop verbatim as a function (`continue 'tx_iter` written `return true`; the loops over the three lists keep their bodies, invariants spliced; LDK's assert_eq! on the block hash of a re-confirmed transaction is a precondition); the statements recording the first sight of a funding spend; the FundingSpendConfirmation entry; the tip update; the monitor is a skeleton with the fields these statements touch; Txid / BlockHash compare structurally; R8: `Some(txid) == opt` -> opt_txid_eq, `opt.map(|(t, _)| t == txid).unwrap_or(false)` closure given a typed header (R9)
//! assume: a transaction with an event awaiting its threshold is re-delivered in the block that confirmed it (LDK's assert_eq!: "a reorg should have been processed first")
//! trusted: assume_specification for core::cmp::max / core::cmp::min (std definitions): present in every unit so that a change that introduces them is verified instead of being rejected by the tool
use vstd::prelude::*;
verus! {
use vstd::std_specs::cmp::*;
use core::cmp;
pub assume_specification<T: core::cmp::Ord>[core::cmp::max::<T>](a: T, b: T) -> (r: T)
    ensures T::obeys_cmp_spec() ==> r == (if b.cmp_spec(&a) == core::cmp::Ordering::Less { a } else { b });
pub assume_specification<T: core::cmp::Ord>[core::cmp::min::<T>](a: T, b: T) -> (r: T)
    ensures T::obeys_cmp_spec() ==> r == (if b.cmp_spec(&a) == core::cmp::Ordering::Less { b } else { a });
#[derive(Clone, Copy)] pub struct Txid(pub u64);
impl vstd::std_specs::cmp::PartialEqSpecImpl for Txid { open spec fn obeys_eq_spec() -> bool { true } open spec fn eq_spec(&self, other: &Txid) -> bool { self.0 == other.0 } }
impl PartialEq for Txid { fn eq(&self, o: &Txid) -> (r: bool) { self.0 == o.0 } }
#[derive(Clone, Copy)] pub struct BlockHash(pub u64);
impl vstd::std_specs::cmp::PartialEqSpecImpl for BlockHash { open spec fn obeys_eq_spec() -> bool { true } open spec fn eq_spec(&self, other: &BlockHash) -> bool { self.0 == other.0 } }
impl PartialEq for BlockHash { fn eq(&self, o: &BlockHash) -> (r: bool) { self.0 == o.0 } }
pub fn opt_txid_eq(a: Option<Txid>, b: Option<Txid>) -> (r: bool) ensures r == (a == b) { match (a, b) { (Some(x), Some(y)) => x.0 == y.0, (None, None) => true, _ => false } }
pub struct Header { pub hash: BlockHash }
impl Header { #[verifier::external_body] pub fn block_hash(&self) -> (r: BlockHash) ensures r == self.hash { unimplemented!() } }
pub struct Transaction { pub id: u64 }
impl Clone for Transaction { #[verifier::external_body] fn clone(&self) -> (r: Self) ensures r == *self { unimplemented!() } }
pub enum OnchainEvent { FundingSpendConfirmation { on_local_output_csv: Option<u16>, commitment_tx_to_counterparty_output: Option<(u32, u64)> }, Other }
pub struct OnchainEventEntry { pub txid: Txid, pub transaction: Option<Transaction>, pub height: u32, pub block_hash: Option<BlockHash>, pub event: OnchainEvent }
pub struct IrrevocablyResolvedHTLC { pub resolving_txid: Option<Txid> }
pub enum MonitorEvent { CommitmentTxConfirmed(()), Other }
pub struct BestBlock { pub block_hash: BlockHash, pub height: u32 }
impl BestBlock { #[verifier::external_body] pub fn update_for_new_tip(&mut self, block_hash: BlockHash, height: u32) ensures final(self).block_hash == block_hash, final(self).height == height { unimplemented!() } }
pub struct Mon {
    pub alternative_funding_confirmed: Option<(Txid, u32)>, pub funding_spend_confirmed: Option<Txid>, pub onchain_events_awaiting_threshold_conf: Vec<OnchainEventEntry>,
    pub htlcs_resolved_on_chain: Vec<IrrevocablyResolvedHTLC>, pub spendable_txids_confirmed: Vec<Txid>, pub funding_spend_seen: bool, pub pending_monitor_events: Vec<MonitorEvent>,
    pub best_block: BestBlock, pub on_holder_tx_csv: u16,
}
pub open spec fn known(m: Mon, txid: Txid) -> bool {
    (m.alternative_funding_confirmed is Some && m.alternative_funding_confirmed->Some_0.0 == txid) || m.funding_spend_confirmed == Some(txid)
    || (exists|k: int| 0 <= k < m.onchain_events_awaiting_threshold_conf@.len() && #[trigger] m.onchain_events_awaiting_threshold_conf@[k].txid == txid)
    || (exists|k: int| 0 <= k < m.htlcs_resolved_on_chain@.len() && #[trigger] m.htlcs_resolved_on_chain@[k].resolving_txid == Some(txid))
    || (exists|k: int| 0 <= k < m.spendable_txids_confirmed@.len() && #[trigger] m.spendable_txids_confirmed@[k] == txid)
}
impl Mon {
//@extract lightning/src/chain/channelmonitor.rs :: impl ChannelMonitorImpl :: fn transactions_confirmed
//@slice R15
    if self.alternative_funding_confirmed.map(|(alternative_funding_txid, _)| $same:seq).unwrap_or(false) { continue 'tx_iter; } $rest:any if let Some(alternative_funding) = self .pending_funding .iter() .find(|funding| funding.funding_txid() == txid) {
//@with
    fn transaction_was_already_processed(&self, txid: Txid, header: &Header) -> bool {
        if self.alternative_funding_confirmed.map(|p: (Txid, u32)| -> (b: bool) ensures b == (p.0 == txid) { let alternative_funding_txid = p.0; $same }).unwrap_or(false) { return true; }
        $rest
        false
    }
//@rw * R5
    continue 'tx_iter;
//@with
    return true;
//@rw R8
    Some(txid) == self.funding_spend_confirmed
//@with
    opt_txid_eq(Some(txid), self.funding_spend_confirmed)
//@rw R8 ?
    Some(txid) == htlc.resolving_txid
//@with
    opt_txid_eq(Some(txid), htlc.resolving_txid)
//@loop 1 iter=it
    invariant it.seq().len() == self.onchain_events_awaiting_threshold_conf@.len(), forall|k: int| 0 <= k < it.seq().len() ==> *it.seq()[k] == self.onchain_events_awaiting_threshold_conf@[k],
        forall|k: int| 0 <= k < it.index@ ==> self.onchain_events_awaiting_threshold_conf@[k].txid != txid,
        forall|k: int| 0 <= k < self.onchain_events_awaiting_threshold_conf@.len() && self.onchain_events_awaiting_threshold_conf@[k].txid == txid && self.onchain_events_awaiting_threshold_conf@[k].block_hash is Some ==> self.onchain_events_awaiting_threshold_conf@[k].block_hash->Some_0 == header.hash,
//@loop 2 iter=it
    invariant it.seq().len() == self.htlcs_resolved_on_chain@.len(), forall|k: int| 0 <= k < it.seq().len() ==> *it.seq()[k] == self.htlcs_resolved_on_chain@[k],
        forall|k: int| 0 <= k < it.index@ ==> self.htlcs_resolved_on_chain@[k].resolving_txid != Some(txid),
//@loop 3 iter=it
    invariant it.seq().len() == self.spendable_txids_confirmed@.len(), forall|k: int| 0 <= k < it.seq().len() ==> *it.seq()[k] == self.spendable_txids_confirmed@[k],
        forall|k: int| 0 <= k < it.index@ ==> self.spendable_txids_confirmed@[k] != txid,
//@ret r
//@requires
    forall|k: int| 0 <= k < self.onchain_events_awaiting_threshold_conf@.len() && self.onchain_events_awaiting_threshold_conf@[k].txid == txid && self.onchain_events_awaiting_threshold_conf@[k].block_hash is Some ==> self.onchain_events_awaiting_threshold_conf@[k].block_hash->Some_0 == header.hash,
//@ensures P C11 a-transaction-delivered-again-is-skipped-exactly-when-the-monitor-already-holds-its-effects-so-re-delivery-changes-nothing-and-nothing-new-is-dropped
    r == known(*self, txid),
//@mutant transactions_that_resolved_no_htlc_skipped
    if Some(txid) == htlc.resolving_txid {
//@with
    if htlc.resolving_txid.is_some() {
//@mutant every_transaction_but_the_confirmed_alternative_funding_skipped
    |(alternative_funding_txid, _)| alternative_funding_txid == txid
//@with
    |(alternative_funding_txid, _)| alternative_funding_txid != txid
//@end
//@extract lightning/src/chain/channelmonitor.rs :: impl ChannelMonitorImpl :: fn transactions_confirmed
//@slice R15
    if $seen:cond { $first:straight } self.funding_spend_seen = true;
//@with
    fn note_that_the_funding_output_was_spent(&mut self) { if $seen { $first } self.funding_spend_seen = true; }
//@ensures P C11,C07 the-first-confirmed-spend-of-the-funding-output-is-reported-once-however-often-it-is-seen
    final(self).funding_spend_seen,
    final(self).pending_monitor_events@ == (if old(self).funding_spend_seen { old(self).pending_monitor_events@ } else { old(self).pending_monitor_events@.push(MonitorEvent::CommitmentTxConfirmed(())) }),
//@mutant funding_spend_reported_on_every_delivery
    if !self.funding_spend_seen {
//@with
    if true {
//@end
//@extract lightning/src/chain/channelmonitor.rs :: impl ChannelMonitorImpl :: fn transactions_confirmed
//@slice R15
    self.onchain_events_awaiting_threshold_conf.push(OnchainEventEntry { $fields:any event: OnchainEvent::FundingSpendConfirmation { $ev:any }, });
//@with
    fn remember_the_funding_spend(&mut self, txid: Txid, tx: &&Transaction, height: u32, block_hash: BlockHash, balance_spendable_csv: Option<u16>, commitment_tx_to_counterparty_output: Option<(u32, u64)>) {
        self.onchain_events_awaiting_threshold_conf.push(OnchainEventEntry { $fields event: OnchainEvent::FundingSpendConfirmation { $ev }, }); }
//@ensures P C11,C07 the-spend-of-the-funding-output-is-remembered-under-the-transaction-and-the-block-that-confirmed-it-with-what-was-learned-about-our-balance-output
    final(self).onchain_events_awaiting_threshold_conf@ == old(self).onchain_events_awaiting_threshold_conf@.push(OnchainEventEntry { txid, transaction: Some(**tx), height, block_hash: Some(block_hash),
        event: OnchainEvent::FundingSpendConfirmation { on_local_output_csv: balance_spendable_csv, commitment_tx_to_counterparty_output } }),
//@end
//@extract lightning/src/chain/channelmonitor.rs :: impl ChannelMonitorImpl :: fn transactions_confirmed
//@slice R15
    if $higher:cond { self.best_block.update_for_new_tip(block_hash, height); } if should_broadcast_commitment {
//@with
    fn tip_after_transactions_confirmed(&mut self, block_hash: BlockHash, height: u32) { if $higher { self.best_block.update_for_new_tip(block_hash, height); } }
//@ensures P C11 transactions-confirmed-at-or-below-the-monitors-tip-leave-the-tip-where-it-is-and-a-higher-block-becomes-the-tip
    height > old(self).best_block.height ==> final(self).best_block.height == height && final(self).best_block.block_hash == block_hash,
    height <= old(self).best_block.height ==> final(self).best_block == old(self).best_block,
//@mutant tip_moved_back_by_transactions_confirmed_below_it
    if height > self.best_block.height {
//@with
    if height != self.best_block.height {
//@end
}
// which commitment confirmed decides whether our CSV delay is remembered
//@extract lightning/src/chain/channelmonitor.rs :: impl ChannelMonitorImpl :: fn transactions_confirmed
//@slice R15
    claimable_outpoints.append(&mut new_outpoints); balance_spendable_csv = $csv:seq; } else {
//@with
    fn delay_remembered_for_our_own_confirmed_commitment(on_holder_tx_csv: u16) -> Option<u16> { let balance_spendable_csv; balance_spendable_csv = $csv; balance_spendable_csv }
//@rw R5
    self.on_holder_tx_csv
//@with
    on_holder_tx_csv
//@ret r
//@ensures P C07,C11 when-our-own-commitment-confirmed-the-delay-of-our-balance-output-is-remembered-with-the-funding-spend
    r == Some(on_holder_tx_csv),
//@end
}
fn main() {}
