//! unit: u03b
//! properties: C03 C14 C02 C10
//! note: process_onion_failure_inner: what the sender learns from a decoded failure -- a failure that did not come from the final node always blames a node or a channel next to the node that sent it (so the retry avoids it), and the payment is reported as failed permanently only on the final node's word
//! trusted: R15 (deep slice): the classification block of process_onion_failure_inner (from reading the code's debug field to the FailureLearnings value) verbatim as a function of (error_code, is_from_final_non_blinded_node, route_hop, failing_route_hop, err_packet); peeling the failure onion, the HMAC test and attribution-data handling before it are dropped and not claimed here (hold times: unit u14b)
//! trusted: env: LocalHTLCFailureReason is a three-variant skeleton (the two variants the block names + Other(code)); its predicates is_badonion / is_node / is_permanent / is_temporary / get_onion_debug_field are external_body answering uninterpreted functions of the code (any code table), is_recipient_failure unconstrained; ErrorHop / RouteHop / TrampolineHop / FailureLearnings are the function-local types re-declared (ErrorHop::{pubkey, short_channel_id} external_body with the bodies' meaning); NetworkUpdate is extracted; PublicKey opaque Copy; R3: log statements removed; R8: `v.get(a..b)` on the failure message -> get_range (Some iff a <= b <= len, then the bytes a..b), `u16::from_be_bytes(s.try_into().expect(..))` -> be16 (unconstrained value)
//! assume: the path has no trampoline hops: the hop that sent the failure and the failing hop are ErrorHop::RouteHop (that the failing hop is the sender itself exactly when the failure is the final node's is no longer assumed: slice hop_a_failure_is_attributed_to)
//! trusted: R15 (deep slice): process_onion_failure_inner: the statements that choose is_from_final_non_blinded_node and failing_route_hop, the test carried verbatim; the blinded-path arm (`break` with FailureLearnings for a blinded failure) is returned as None and not claimed; `iter.peek()` is the parameter next_hop
//! trusted: assume_specification for core::cmp::max / core::cmp::min (std definitions): present in every unit so that a change that introduces them is verified instead of being rejected by the tool
//! trusted: closing_hands_back: ChannelContext::force_shutdown: the match inside the loop that drains the holding cell, verbatim as a function of one held update (R15 deep slice; enum HTLCUpdateAwaitingACK extracted over skeleton field types); the second loop (HTLCs announced only in a blocked monitor update): the LatestCounterpartyCommitment arm's scan of the update's two HTLC lists (R6: `A.iter().map(..).chain(B.iter().map(..)).any(..)` as two index loops carrying the three closure bodies verbatim; //@oneof: a scan of a single list `E.iter().any(..)` is accepted as an alternative shape and verified against the same contract); the LatestCounterpartyCommitmentTXInfo arm is not sliced
//! trusted: onchain_failed: ChannelMonitor::get_onchain_failed_outbound_htlcs: the test that recognises the confirmed transaction as a counterparty commitment and the burial test of the funding spend are deep R15 slices; R8: `Some(x) == opt` on txids -> opt_txid_eq (verified helper); walking the HTLCs (closure inside a macro) is dropped and not claimed
use vstd::prelude::*;
verus! {
use vstd::std_specs::cmp::*;
use core::cmp;
pub assume_specification<T: core::cmp::Ord>[core::cmp::max::<T>](a: T, b: T) -> (r: T)
    ensures T::obeys_cmp_spec() ==> r == (if b.cmp_spec(&a) == core::cmp::Ordering::Less { a } else { b });
pub assume_specification<T: core::cmp::Ord>[core::cmp::min::<T>](a: T, b: T) -> (r: T)
    ensures T::obeys_cmp_spec() ==> r == (if b.cmp_spec(&a) == core::cmp::Ordering::Less { b } else { a });
#[derive(Clone, Copy)] pub struct PublicKey(pub u64);
//@extract lightning/src/routing/gossip.rs :: enum NetworkUpdate
//@end
pub enum LocalHTLCFailureReason { FinalIncorrectCLTVExpiry, FinalIncorrectHTLCAmount, Other(u16) }
pub uninterp spec fn code_badonion(c: LocalHTLCFailureReason) -> bool;
pub uninterp spec fn code_node(c: LocalHTLCFailureReason) -> bool;
pub uninterp spec fn code_permanent(c: LocalHTLCFailureReason) -> bool;
pub uninterp spec fn code_temporary(c: LocalHTLCFailureReason) -> bool;
pub uninterp spec fn code_debug_size(c: LocalHTLCFailureReason) -> usize;
impl LocalHTLCFailureReason {
    #[verifier::external_body] pub fn is_badonion(&self) -> (r: bool) ensures r == code_badonion(*self) { unimplemented!() }
    #[verifier::external_body] pub fn is_node(&self) -> (r: bool) ensures r == code_node(*self) { unimplemented!() }
    #[verifier::external_body] pub fn is_permanent(&self) -> (r: bool) ensures r == code_permanent(*self) { unimplemented!() }
    #[verifier::external_body] pub fn is_temporary(&self) -> (r: bool) ensures r == code_temporary(*self) { unimplemented!() }
    #[verifier::external_body] pub fn is_recipient_failure(&self) -> (r: bool) { unimplemented!() }
    #[verifier::external_body] pub fn get_onion_debug_field(&self) -> (r: (&'static str, usize)) ensures r.1 <= 32, r.1 == code_debug_size(*self) { unimplemented!() }
}
pub struct RouteHop { pub short_channel_id: u64, pub pubkey: PublicKey }
pub struct TrampolineHop { pub pubkey: PublicKey }
pub enum ErrorHop<'a> { RouteHop(&'a RouteHop), TrampolineHop(&'a TrampolineHop) }
impl<'a> ErrorHop<'a> {
    #[verifier::external_body] pub fn pubkey(&self) -> (r: &PublicKey) ensures *r == (match *self { ErrorHop::RouteHop(rh) => rh.pubkey, ErrorHop::TrampolineHop(th) => th.pubkey }) { unimplemented!() }
    #[verifier::external_body] pub fn short_channel_id(&self) -> (r: Option<u64>) ensures r == (match *self { ErrorHop::RouteHop(rh) => Some(rh.short_channel_id), ErrorHop::TrampolineHop(_) => None::<u64> }) { unimplemented!() }
}
pub struct DecodedOnionErrorPacket { pub failuremsg: Vec<u8> }
pub struct FailureLearnings { pub network_update: Option<NetworkUpdate>, pub short_channel_id: Option<u64>, pub payment_failed_permanently: bool, pub failed_within_blinded_path: bool }
#[verifier::external_body] pub fn get_range(v: &Vec<u8>, r: core::ops::Range<usize>) -> (o: Option<&[u8]>)
    ensures o is Some <==> (r.start <= r.end && r.end <= v@.len()), o is Some ==> o->Some_0@ == v@.subrange(r.start as int, r.end as int) { unimplemented!() }
pub uninterp spec fn be16_spec(s: Seq<u8>) -> u16;
#[verifier::external_body] pub fn be16(s: &[u8]) -> (r: u16) ensures r == be16_spec(s@) { unimplemented!() }
// a temporary failure carries, after its code (2 bytes) and its debug field, a 2-byte length and that many bytes of channel_update
pub open spec fn carries_a_whole_channel_update(msg: Seq<u8>, debug_size: int) -> bool {
    debug_size + 4 <= msg.len() && debug_size + 4 + be16_spec(msg.subrange(debug_size + 2, debug_size + 4)) as int <= msg.len()
}
pub open spec fn scid_of(h: ErrorHop) -> u64 { match h { ErrorHop::RouteHop(rh) => rh.short_channel_id, ErrorHop::TrampolineHop(_) => 0 } }

//@extract lightning/src/ln/onion_utils.rs :: fn process_onion_failure_inner
//@slice R15
    let (debug_field, debug_field_size) = error_code.get_onion_debug_field(); $body:straight res = Some(FailureLearnings { $fields:any });
//@with
    fn learn_from_decoded_failure(error_code: LocalHTLCFailureReason, is_from_final_non_blinded_node: bool, route_hop: &ErrorHop, failing_route_hop: &ErrorHop, err_packet: &DecodedOnionErrorPacket) -> FailureLearnings {
        let (debug_field, debug_field_size) = error_code.get_onion_debug_field();
        $body
        FailureLearnings { $fields }
    }
//@rw * R8
    err_packet .failuremsg .get($r:seq)
//@with
    get_range(&err_packet.failuremsg, $r)
//@rw R8
    u16::from_be_bytes(update_len_slice.try_into().expect("len is 2"))
//@with
    be16(update_len_slice)
//@ret r
//@requires
    *route_hop is RouteHop, *failing_route_hop is RouteHop,
    is_from_final_non_blinded_node ==> *failing_route_hop == *route_hop,
//@ensures P C03,C14 a-failure-from-a-hop-that-is-not-the-final-node-always-blames-that-node-or-a-channel-next-to-it
    !is_from_final_non_blinded_node ==> (r.network_update is Some || r.short_channel_id is Some),
    r.short_channel_id is Some ==> (r.short_channel_id->Some_0 == scid_of(*route_hop) || r.short_channel_id->Some_0 == scid_of(*failing_route_hop)),
    r.network_update is Some && r.network_update->Some_0 is ChannelFailure ==> r.network_update->Some_0->short_channel_id == scid_of(*failing_route_hop),
    r.network_update is Some && r.network_update->Some_0 is NodeFailure ==> r.network_update->Some_0->node_id == route_hop->RouteHop_0.pubkey,
//@ensures P C03,C14 a-temporary-failure-is-charged-to-the-channel-only-if-a-whole-channel-update-follows-its-code-and-debug-field-and-otherwise-to-the-node-that-sent-it
    !code_badonion(error_code) && !code_node(error_code) && !code_permanent(error_code) && code_temporary(error_code) ==>
        (carries_a_whole_channel_update(err_packet.failuremsg@, code_debug_size(error_code) as int)
            ==> r.network_update == Some(NetworkUpdate::ChannelFailure { short_channel_id: scid_of(*failing_route_hop), is_permanent: false }) && r.short_channel_id == Some(scid_of(*failing_route_hop)))
        && (!carries_a_whole_channel_update(err_packet.failuremsg@, code_debug_size(error_code) as int)
            ==> r.network_update == Some(NetworkUpdate::NodeFailure { node_id: route_hop->RouteHop_0.pubkey, is_permanent: true }) && r.short_channel_id == Some(scid_of(*route_hop))),
//@ensures P C03 the-payment-is-reported-as-failed-permanently-only-on-the-final-nodes-word
    r.payment_failed_permanently ==> is_from_final_non_blinded_node,
//@mutant channel_update_length_read_from_the_debug_field
    err_packet.failuremsg.get(debug_field_size + 2..debug_field_size + 4)
//@with
    err_packet.failuremsg.get(2..4)
//@mutant recipient_only_code_trusted_from_any_hop
    let payment_failed = error_code.is_recipient_failure() && is_from_final_non_blinded_node;
//@with
    let payment_failed = error_code.is_recipient_failure();
//@mutant permanent_failure_believed_from_any_hop
    payment_failed_permanently: error_code.is_permanent() && is_from_final_non_blinded_node,
//@with
    payment_failed_permanently: error_code.is_permanent(),
//@end


// ---- which hop a decoded failure is attributed to (the statement in front of the classification above) ----
pub struct SharedSecretStub { pub id: u64 }
//@extract lightning/src/ln/onion_utils.rs :: fn process_onion_failure_inner
//@slice R15
    let next_hop = iter.peek(); is_from_final_non_blinded_node = $fin:seq; let failing_route_hop = if is_from_final_non_blinded_node { route_hop } else { match next_hop { Some((_, (Some(hop), _))) => hop, _ => { $blinded:any }, } };
//@with
    fn hop_a_failure_is_attributed_to<'a, 'b>(route_hop: &'a ErrorHop<'b>, next_hop: Option<&'a (usize, (Option<ErrorHop<'b>>, SharedSecretStub))>, num_blinded_hops: usize) -> (bool, Option<&'a ErrorHop<'b>>) {
        let is_from_final_non_blinded_node = $fin;
        let failing_route_hop = if is_from_final_non_blinded_node { Some(route_hop) } else { match next_hop { Some((_, (Some(hop), _))) => Some(hop), _ => None } };
        (is_from_final_non_blinded_node, failing_route_hop)
    }
//@ret r
//@ensures P C03,C14 a-failure-is-taken-as-the-final-nodes-only-when-no-hop-follows-the-one-that-sent-it-and-at-most-one-blinded-hop-exists-otherwise-the-channel-blamed-is-the-one-to-the-next-hop
    r.0 == (next_hop is None && num_blinded_hops <= 1),
    r.0 ==> r.1 == Some(route_hop),
    !r.0 ==> r.1 == (match next_hop { Some(n) => (match &n.1.0 { Some(h) => Some(h), None => None::<&ErrorHop> }), None => None::<&ErrorHop> }),
//@mutant failure_of_the_last_unblinded_hop_before_a_blinded_path_taken_as_the_recipients
    next_hop.is_none() && num_blinded_hops <= 1
//@with
    next_hop.is_none()
//@end
// ---- restart: which outbound HTLCs a monitor reports as failed on chain (ChannelMonitor::get_onchain_failed_outbound_htlcs) ----
pub mod onchain_failed {
use vstd::prelude::*;
#[derive(Clone, Copy)] pub struct Txid(pub u64);
impl vstd::std_specs::cmp::PartialEqSpecImpl for Txid { open spec fn obeys_eq_spec() -> bool { true } open spec fn eq_spec(&self, other: &Txid) -> bool { self.0 == other.0 } }
impl PartialEq for Txid { fn eq(&self, o: &Txid) -> (r: bool) { self.0 == o.0 } }
pub struct FundingScope { pub current_counterparty_commitment_txid: Option<Txid>, pub prev_counterparty_commitment_txid: Option<Txid> }
pub fn opt_txid_eq(a: Option<Txid>, b: Option<Txid>) -> (r: bool) ensures r == (a == b) { match (a, b) { (Some(x), Some(y)) => x.0 == y.0, (None, None) => true, _ => false } }
//@const lightning/src/chain/channelmonitor.rs ANTI_REORG_DELAY
//@extract lightning/src/chain/channelmonitor.rs :: impl ChannelMonitor :: fn get_onchain_failed_outbound_htlcs
//@slice R15
    if $c:cond { let htlcs = funding.counterparty_claimable_outpoints.get(&confirmed_txid).unwrap();
//@with
    fn confirmed_tx_is_a_counterparty_commitment(confirmed_txid: Txid, funding: &FundingScope) -> bool { $c }
//@rw * R8
    Some(confirmed_txid) == funding.$f:ident
//@with
    opt_txid_eq(Some(confirmed_txid), funding.$f)
//@ret r
//@ensures P C03,C02 on-restart-a-confirmed-counterparty-commitment-is-recognised-whether-it-is-the-current-or-the-previous-unrevoked-one-so-its-live-htlcs-are-not-reported-failed
    r == (funding.current_counterparty_commitment_txid == Some(confirmed_txid) || funding.prev_counterparty_commitment_txid == Some(confirmed_txid)),
//@mutant previous_unrevoked_commitment_not_recognised
    if Some(confirmed_txid) == funding.current_counterparty_commitment_txid || Some(confirmed_txid) == funding.prev_counterparty_commitment_txid {
//@with
    if Some(confirmed_txid) == funding.current_counterparty_commitment_txid {
//@end
//@extract lightning/src/chain/channelmonitor.rs :: impl ChannelMonitor :: fn get_onchain_failed_outbound_htlcs
//@slice R15
    if let OnchainEvent::FundingSpendConfirmation { .. } = event.event { if $c:cond { Some(event.txid) } else { None } } else { None }
//@with
    fn funding_spend_is_buried(event: &EventStub, us: &MonStub) -> bool { $c }
//@ret r
//@requires
    event.height < 0xffff_0000,
//@ensures P C03,C02,C10 on-restart-htlcs-are-reported-failed-only-against-a-commitment-that-has-reached-the-anti-reorg-depth
    r == (us.best_block.height as int - event.height as int + 1 >= ANTI_REORG_DELAY as int),
//@end
pub struct EventStub { pub height: u32, pub txid: Txid }
pub struct BestBlock { pub height: u32 }
pub struct MonStub { pub best_block: BestBlock }
}
// ---- a channel that closes hands back the outbound HTLCs it never sent, so that their payments are failed ------------------------
pub mod closing_hands_back {
use vstd::prelude::*;
#[derive(Clone, Copy)] pub struct PaymentHash(pub [u8; 32]);
pub struct PaymentPreimage(pub [u8; 32]);
pub struct HTLCSource { pub id: u64 }
pub struct OnionPacket {}
pub struct OnionErrorPacket {}
pub struct AttributionData {}
#[derive(Clone, Copy)] pub struct PublicKey { pub id: u64 }
#[derive(Clone, Copy)] pub struct ChannelId { pub id: u64 }
//@extract lightning/src/ln/channel.rs :: enum HTLCUpdateAwaitingACK
//@strip msgs
//@end
impl vstd::std_specs::cmp::PartialEqSpecImpl for HTLCSource { open spec fn obeys_eq_spec() -> bool { true } open spec fn eq_spec(&self, other: &HTLCSource) -> bool { *self == *other } }
impl PartialEq for HTLCSource { #[verifier::external_body] fn eq(&self, o: &HTLCSource) -> (r: bool) { unimplemented!() } }
// the HTLCs a not-yet-applied counterparty-commitment update announces: dust ones carry their source next to the HTLC, non-dust ones in a parallel list
pub struct HTLCOutputInCommitment { pub amount_msat: u64 }
pub struct CommitmentHTLCData { pub nondust_htlc_sources: Vec<HTLCSource>, pub dust_htlcs: Vec<(HTLCOutputInCommitment, Option<HTLCSource>)> }
pub struct OutboundHTLCOutput { pub htlc_id: u64, pub source: HTLCSource }
pub open spec fn announces(d: &CommitmentHTLCData, src: HTLCSource) -> bool {
    (exists|k: int| 0 <= k < d.dust_htlcs@.len() && (#[trigger] d.dust_htlcs@[k]).1 == Some(src)) || (exists|k: int| 0 <= k < d.nondust_htlc_sources@.len() && #[trigger] d.nondust_htlc_sources@[k] == src)
}
//@extract lightning/src/ln/channel.rs :: impl ChannelContext :: fn force_shutdown
//@oneof blocked_update_scan
//@slice R15
    ChannelMonitorUpdateStep::LatestCounterpartyCommitment { htlc_data, .. } => { let dust = htlc_data.dust_htlcs.iter().map(|$p1:any| $b1:seq); let nondust = htlc_data.nondust_htlc_sources.iter().map(|$p2:any| $b2:seq); dust.chain(nondust).any(|$p3:ident| $pr:seq) },
//@with
    fn blocked_commitment_update_announces(htlc_data: &CommitmentHTLCData, htlc: &OutboundHTLCOutput) -> bool {
        // R6: `A.iter().map(|p1| B1).chain(B.iter().map(|p2| B2)).any(|p3| P)` as two index loops carrying B1, B2 and P verbatim (the closures are pure)
        let mut __any = false;
        let mut __i: usize = 0;
        while __i < htlc_data.dust_htlcs.len()
            invariant __i <= htlc_data.dust_htlcs@.len(), __any == (exists|k: int| 0 <= k < __i && (#[trigger] htlc_data.dust_htlcs@[k]).1 == Some(htlc.source)),
            decreases htlc_data.dust_htlcs@.len() - __i
        { let $p1 = &htlc_data.dust_htlcs[__i]; let $p3 = $b1; if $pr { __any = true; } __i = __i + 1; }
        let ghost __dust = __any;
        let mut __j: usize = 0;
        while __j < htlc_data.nondust_htlc_sources.len()
            invariant __j <= htlc_data.nondust_htlc_sources@.len(), __any == (__dust || (exists|k: int| 0 <= k < __j && #[trigger] htlc_data.nondust_htlc_sources@[k] == htlc.source)),
            decreases htlc_data.nondust_htlc_sources@.len() - __j
        { let $p2 = &htlc_data.nondust_htlc_sources[__j]; let $p3 = $b2; if $pr { __any = true; } __j = __j + 1; }
        __any
    }
//@ret r
//@ensures P C03 an-htlc-we-announced-only-in-a-monitor-update-that-is-still-held-back-counts-as-known-to-that-update-whether-its-output-is-dust-or-not
    r == announces(htlc_data, htlc.source),
//@mutant htlc_counted_as_announced_when_any_other_htlc_is
    dust.chain(nondust).any(|source| source == Some(&htlc.source))
//@with
    dust.chain(nondust).any(|source| source != Some(&htlc.source))
//@end
//@extract lightning/src/ln/channel.rs :: impl ChannelContext :: fn force_shutdown
//@oneof blocked_update_scan
//@slice R15
    ChannelMonitorUpdateStep::LatestCounterpartyCommitment { htlc_data, .. } => { htlc_data.nondust_htlc_sources.iter().any(|$p3:any| $pr:seq) },
//@with
    fn blocked_commitment_update_announces(htlc_data: &CommitmentHTLCData, htlc: &OutboundHTLCOutput) -> bool {
        // R6 (shape `E.iter().any(|p| P)` over one of the two lists): index loop carrying P verbatim; same contract as the two-list shape
        let mut __any = false;
        let mut __i: usize = 0;
        while __i < htlc_data.nondust_htlc_sources.len()
            invariant __i <= htlc_data.nondust_htlc_sources@.len(), __any == (exists|k: int| 0 <= k < __i && #[trigger] htlc_data.nondust_htlc_sources@[k] == htlc.source),
            decreases htlc_data.nondust_htlc_sources@.len() - __i
        { let $p3 = &htlc_data.nondust_htlc_sources[__i]; if $pr { __any = true; } __i = __i + 1; }
        __any
    }
//@ret r
//@ensures P C03 an-htlc-we-announced-only-in-a-monitor-update-that-is-still-held-back-counts-as-known-to-that-update-whether-its-output-is-dust-or-not
    r == announces(htlc_data, htlc.source),
//@end
//@extract lightning/src/ln/channel.rs :: impl ChannelContext :: fn force_shutdown
//@oneof blocked_update_scan
//@slice R15
    ChannelMonitorUpdateStep::LatestCounterpartyCommitment { htlc_data, .. } => { htlc_data.dust_htlcs.iter().any(|$p3:any| $pr:seq) },
//@with
    fn blocked_commitment_update_announces(htlc_data: &CommitmentHTLCData, htlc: &OutboundHTLCOutput) -> bool {
        // R6 (shape `E.iter().any(|p| P)` over one of the two lists): index loop carrying P verbatim; same contract as the two-list shape
        let mut __any = false;
        let mut __i: usize = 0;
        while __i < htlc_data.dust_htlcs.len()
            invariant __i <= htlc_data.dust_htlcs@.len(), __any == (exists|k: int| 0 <= k < __i && (#[trigger] htlc_data.dust_htlcs@[k]).1 == Some(htlc.source)),
            decreases htlc_data.dust_htlcs@.len() - __i
        { let $p3 = &htlc_data.dust_htlcs[__i]; if $pr { __any = true; } __i = __i + 1; }
        __any
    }
//@ret r
//@ensures P C03 an-htlc-we-announced-only-in-a-monitor-update-that-is-still-held-back-counts-as-known-to-that-update-whether-its-output-is-dust-or-not
    r == announces(htlc_data, htlc.source),
//@end
pub struct ClosingCtx { pub channel_id: ChannelId }
impl ClosingCtx {
//@extract lightning/src/ln/channel.rs :: impl ChannelContext :: fn force_shutdown
//@slice R15
    for htlc_update in self.holding_cell_htlc_updates.drain(..) { match htlc_update { $arms:any } }
//@with
    fn hand_back_unsent_htlc(&self, htlc_update: HTLCUpdateAwaitingACK, counterparty_node_id: PublicKey, dropped_outbound_htlcs: &mut Vec<(HTLCSource, PaymentHash, PublicKey, ChannelId)>) { match htlc_update { $arms } }
//@ensures P C03 an-outbound-htlc-still-in-the-holding-cell-when-the-channel-closes-is-handed-back-with-its-source-and-hash-so-its-payment-is-failed
    final(dropped_outbound_htlcs)@ == old(dropped_outbound_htlcs)@ + (match htlc_update {
        HTLCUpdateAwaitingACK::AddHTLC { source, payment_hash, .. } => seq![(source, payment_hash, counterparty_node_id, self.channel_id)],
        _ => Seq::empty() }),
//@mutant unsent_htlcs_dropped_silently
    HTLCUpdateAwaitingACK::AddHTLC { source, payment_hash, .. } => { dropped_outbound_htlcs.push(( source, payment_hash, counterparty_node_id, self.channel_id, )); },
//@with
    HTLCUpdateAwaitingACK::AddHTLC { source, payment_hash, .. } => { },
//@end
}
}
}
fn main() {}
