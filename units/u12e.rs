//! unit: u12e
//! properties: C12 C10
//! note: ChannelManager::write: a count written in front of a list is the number of records that follow, because the records are selected by the same test that counted them: funded channels (`can_resume_on_restart`), peers (`!ok_to_remove(false)`), and the legacy event list (pending events plus the splice-failure events appended to them); a reader given a count that disagrees with the records either fails or reads the following fields from the wrong position
//! trusted: R15 (deep slices): ChannelManager::write: the filter predicate of the statement that counts the funded channels and the one of the loop that writes them; the test of the statement that counts the peers and the one of the loop that writes them; the count expression of the legacy event list and the iterator expression of the loop that writes it; each verbatim as a function of one channel / one peer state / the two event lists (R6: `A.iter().chain(B.iter())` is the wrapper chained with the sequence meaning); everything else of the function is dropped and not claimed here (pending events: u12b manager_events; TLV macros: u12c)
//! trusted: R5: FundedChannel / ChannelContext / PeerState are skeletons whose can_resume_on_restart() and ok_to_remove(bool) are external_body accessors of uninterpreted answers
//! trusted: assume_specification for core::cmp::max / core::cmp::min (std definitions): present in every unit so that a change that introduces them is verified instead of being rejected by the tool
use vstd::prelude::*;
verus! {
use vstd::std_specs::cmp::*;
use core::cmp;
pub assume_specification<T: core::cmp::Ord>[core::cmp::max::<T>](a: T, b: T) -> (r: T)
    ensures T::obeys_cmp_spec() ==> r == (if b.cmp_spec(&a) == core::cmp::Ordering::Less { a } else { b });
pub assume_specification<T: core::cmp::Ord>[core::cmp::min::<T>](a: T, b: T) -> (r: T)
    ensures T::obeys_cmp_spec() ==> r == (if b.cmp_spec(&a) == core::cmp::Ordering::Less { b } else { a });
pub struct ChannelContext { pub resumable: bool, pub id: u64 }
impl ChannelContext { #[verifier::external_body] pub fn can_resume_on_restart(&self) -> (r: bool) ensures r == self.resumable { unimplemented!() } }
pub struct FundedChannel { pub context: ChannelContext }
pub struct PeerState { pub id: u64 }
pub uninterp spec fn removable(p: PeerState, require_disconnected: bool) -> bool;
impl PeerState { #[verifier::external_body] pub fn ok_to_remove(&self, require_disconnected: bool) -> (r: bool) ensures r == removable(*self, require_disconnected) { unimplemented!() } }
//@extract lightning/src/ln/channelmanager.rs :: impl Writeable for ChannelManager :: fn write
//@slice R15
    number_of_funded_channels += peer_state.channel_by_id .values() .filter_map(Channel::as_funded) .filter(|chan| $p:seq) .count();
//@with
    fn funded_channel_is_counted(chan: &FundedChannel) -> bool { $p }
//@ret r
//@ensures P C12,C10 the-funded-channels-counted-are-the-ones-that-can-be-resumed-after-a-restart
    r == chan.context.resumable,
//@end
//@extract lightning/src/ln/channelmanager.rs :: impl Writeable for ChannelManager :: fn write
//@slice R15
    for channel in peer_state.channel_by_id .values() .filter_map(Channel::as_funded) .filter(|channel| $p:seq) { channel.write(writer)?; }
//@with
    fn funded_channel_is_written(channel: &FundedChannel) -> bool { $p }
//@ret r
//@ensures P C12,C10 the-funded-channels-written-are-exactly-the-ones-counted
    r == channel.context.resumable,
//@mutant every_funded_channel_written_although_only_the_resumable_ones_were_counted
    .filter(|channel| channel.context.can_resume_on_restart()) { channel.write(writer)?;
//@with
    .filter(|channel| true || channel.context.can_resume_on_restart()) { channel.write(writer)?;
//@end
//@extract lightning/src/ln/channelmanager.rs :: impl Writeable for ChannelManager :: fn write
//@slice R15
    let peer_state = &mut *peer_state_lock; if $c:cond { serializable_peer_count += 1; }
//@with
    fn peer_is_counted(peer_state: &PeerState) -> bool { $c }
//@ret r
//@ensures P C12,C10 the-peers-counted-are-the-ones-that-may-not-be-forgotten-once-disconnected
    r == !removable(*peer_state, false),
//@end
//@extract lightning/src/ln/channelmanager.rs :: impl Writeable for ChannelManager :: fn write
//@slice R15
    for ((peer_pubkey, _), peer_state) in per_peer_state.iter().zip(peer_states.iter()) { if $c:cond { peer_pubkey.write(writer)?; peer_state.latest_features.write(writer)?;
//@with
    fn peer_is_written(peer_state: &PeerState) -> bool { $c }
//@ret r
//@ensures P C12,C10 the-peers-written-are-exactly-the-ones-counted
    r == !removable(*peer_state, false),
//@mutant connected_peers_without_channels_written_but_not_counted
    if !peer_state.ok_to_remove(false) { peer_pubkey.write(writer)?;
//@with
    if !peer_state.ok_to_remove(true) { peer_pubkey.write(writer)?;
//@end
// the legacy event list
pub struct Event { pub id: u64 }
pub struct Action { pub id: u64 }
pub struct EventList { pub v: Vec<(Event, Option<Action>)> }
impl EventList {
    #[verifier::external_body] pub fn len(&self) -> (r: usize) ensures r == self.v@.len() { unimplemented!() }
    pub fn iter(&self) -> (r: &EventList) ensures r == self { self }
    // R6: `A.iter().chain(B.iter())`: the elements of A followed by those of B
    #[verifier::external_body] pub fn chain(&self, other: &EventList) -> (r: Ghost<Seq<(Event, Option<Action>)>>) ensures r@ == self.v@ + other.v@ { unimplemented!() }
}
//@extract lightning/src/ln/channelmanager.rs :: impl Writeable for ChannelManager :: fn write
//@slice R15
    } else { ($n:seq as u64).write(writer)?; for (event, _) in $it:seq { event.write(writer)?; } }
//@with
    fn legacy_event_list(events: &EventList, splice_failed_events: &EventList) -> (u64, Ghost<Seq<(Event, Option<Action>)>>) { (($n) as u64, $it) }
//@ret r
//@requires
    events.v@.len() + splice_failed_events.v@.len() <= usize::MAX,
//@ensures P C12,C10 the-count-of-the-legacy-event-list-is-the-number-of-events-written-after-it-pending-events-first-then-the-splice-failures
    r.0 as int == r.1@.len(), r.1@ == events.v@ + splice_failed_events.v@,
//@mutant splice_failure_events_written_but_not_counted
    ((events.len() + splice_failed_events.len()) as u64).write(writer)?;
//@with
    ((events.len()) as u64).write(writer)?;
//@end
}
fn main() {}
