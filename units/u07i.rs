//! unit: u07i
//! properties: C07 C06
//! note: OnchainTxHandler::generate_claim (slices): a claim stops being regenerated only when EVERY outpoint of the request has a registered spend whose confirmation is awaiting its threshold (a request with one outpoint still unspent keeps being bumped); for an anchor commitment the fee reported to the bump handler is exactly the funding amount less the commitment's outputs; a claim built with our own fee carries the new timer and a non-zero feerate and fits the predicted weight (LDK's asserts, obligations here)
//! trusted: R15 (deep slices): the loop that decides all_inputs_have_confirmed_spend verbatim (R6: the inner `iter().any(|event_entry| P)` as an index loop carrying P; the map of registered spends is an environment map: get with the std contract), the fee statement of the anchor branch (R6: `.iter().map(|output| V).sum::<u64>()` as a loop with an overflow obligation); claim ids compare structurally
//! assume: the commitment's outputs sum to at most the funding amount (a commitment never creates value: proved for the builder in u01e); the sum of the outputs fits u64
//! trusted: assume_specification for core::cmp::max / core::cmp::min (std definitions): present in every unit so that a change that introduces them is verified instead of being rejected by the tool
use vstd::prelude::*;
verus! {
use vstd::std_specs::cmp::*;
use core::cmp;
pub assume_specification<T: core::cmp::Ord>[core::cmp::max::<T>](a: T, b: T) -> (r: T)
    ensures T::obeys_cmp_spec() ==> r == (if b.cmp_spec(&a) == core::cmp::Ordering::Less { a } else { b });
pub assume_specification<T: core::cmp::Ord>[core::cmp::min::<T>](a: T, b: T) -> (r: T)
    ensures T::obeys_cmp_spec() ==> r == (if b.cmp_spec(&a) == core::cmp::Ordering::Less { b } else { a });
#[derive(Clone, Copy)] pub struct ClaimId(pub u64);
impl vstd::std_specs::cmp::PartialEqSpecImpl for ClaimId { open spec fn obeys_eq_spec() -> bool { true } open spec fn eq_spec(&self, other: &ClaimId) -> bool { self.0 == other.0 } }
impl PartialEq for ClaimId { fn eq(&self, o: &ClaimId) -> (r: bool) { self.0 == o.0 } }
#[derive(Clone, Copy)] pub struct BitcoinOutPoint { pub id: u64 }
pub enum OnchainEvent { Claim { claim_id: ClaimId }, ContentiousOutpoint { package: u64 } }
pub struct OnchainEventEntry { pub event: OnchainEvent }
pub struct OutpointMap { pub m: Ghost<Map<BitcoinOutPoint, (ClaimId, u32)>> }
impl OutpointMap {
    #[verifier::external_body] pub fn get(&self, k: &BitcoinOutPoint) -> (r: Option<&(ClaimId, u32)>)
        ensures r is Some <==> self.m@.contains_key(*k), r is Some ==> *r->Some_0 == self.m@[*k] { unimplemented!() }
}
pub struct Handler { pub claimable_outpoints: OutpointMap, pub onchain_events_awaiting_threshold_conf: Vec<OnchainEventEntry> }
pub open spec fn spend_confirmed(h: Handler, o: BitcoinOutPoint) -> bool {
    h.claimable_outpoints.m@.contains_key(o) && exists|k: int| 0 <= k < h.onchain_events_awaiting_threshold_conf@.len()
        && (#[trigger] h.onchain_events_awaiting_threshold_conf@[k]).event == (OnchainEvent::Claim { claim_id: h.claimable_outpoints.m@[o].0 })
}
macro_rules! iter_quantifier { (any, $s:expr, $e:expr) => { $s }; (all, $s:expr, $e:expr) => { $e }; }
impl Handler {
//@extract lightning/src/chain/onchaintx.rs :: impl OnchainTxHandler :: fn generate_claim
//@slice R15
    let mut all_inputs_have_confirmed_spend = true; for outpoint in request_outpoints.iter() { if let Some((request_claim_id, _)) = self.claimable_outpoints.get(*outpoint) { if !self.onchain_events_awaiting_threshold_conf.iter() .$q:ident(|event_entry| $p:seq) { $miss:straight } } else { $none:straight } } if all_inputs_have_confirmed_spend { return None; }
//@with
    fn every_input_of_the_request_has_a_confirmed_spend(&self, request_outpoints: &Vec<&BitcoinOutPoint>) -> bool {
        let mut all_inputs_have_confirmed_spend = true;
        let mut i: usize = 0;
        while i < request_outpoints.len()
            invariant 0 <= i <= request_outpoints@.len(),
                all_inputs_have_confirmed_spend == (forall|j: int| 0 <= j < i ==> spend_confirmed(*self, *request_outpoints@[j])),
            decreases request_outpoints@.len() - i,
        {
            let outpoint = &request_outpoints[i];
            if let Some(__entry) = self.claimable_outpoints.get(*outpoint) {
                let request_claim_id = &__entry.0;
                let mut __some = false; let mut __every = true; let mut k: usize = 0;
                while k < self.onchain_events_awaiting_threshold_conf.len()
                    invariant 0 <= k <= self.onchain_events_awaiting_threshold_conf@.len(),
                        __some == (exists|j: int| 0 <= j < k && (#[trigger] self.onchain_events_awaiting_threshold_conf@[j]).event == (OnchainEvent::Claim { claim_id: *request_claim_id })),
                        __every == (forall|j: int| 0 <= j < k ==> (#[trigger] self.onchain_events_awaiting_threshold_conf@[j]).event == (OnchainEvent::Claim { claim_id: *request_claim_id })),
                    decreases self.onchain_events_awaiting_threshold_conf@.len() - k,
                { let event_entry = &self.onchain_events_awaiting_threshold_conf[k]; let __b: bool = $p; if __b { __some = true; } else { __every = false; } k += 1; }
                if !iter_quantifier!($q, __some, __every) { $miss }
            } else { $none }
            i += 1;
        }
        all_inputs_have_confirmed_spend
    }
//@rw R16 ?
    if let OnchainEvent::Claim { claim_id } = event_entry.event { *request_claim_id == claim_id } else { false }
//@with
    match &event_entry.event { OnchainEvent::Claim { claim_id } => *request_claim_id == *claim_id, _ => false }
//@ret r
//@ensures P C07,C06 a-claim-stops-being-regenerated-only-when-the-spend-of-every-one-of-its-outpoints-has-been-seen-confirmed
    r == (forall|j: int| 0 <= j < request_outpoints@.len() ==> spend_confirmed(*self, *request_outpoints@[j])),
//@mutant claim_abandoned_as_soon_as_one_input_is_spent
    all_inputs_have_confirmed_spend = false; } } else {
//@with
    } } else {
//@end
}
// ---- the commitment fee reported with an anchor bump ----
pub struct Amount(pub u64);
impl Amount { #[verifier::external_body] pub fn to_sat(&self) -> (r: u64) ensures r == self.0 { unimplemented!() } }
pub struct TxOut { pub value: Amount }
pub struct Tx { pub output: Vec<TxOut> }
pub open spec fn out_sum(s: Seq<TxOut>) -> int decreases s.len() { if s.len() == 0 { 0 } else { out_sum(s.drop_last()) + s.last().value.0 as int } }
//@extract lightning/src/chain/onchaintx.rs :: impl OnchainTxHandler :: fn generate_claim
//@slice R15
    let fee_sat = input_amount_sats - tx.output.iter() .map(|output| $v:seq).sum::<u64>();
//@with
    fn fee_of_the_commitment_reported_with_an_anchor_bump(input_amount_sats: u64, tx: &Tx) -> u64 {
        let mut __sum: u64 = 0; let mut k: usize = 0;
        while k < tx.output.len()
            invariant 0 <= k <= tx.output@.len(), __sum as int == out_sum(tx.output@.take(k as int)), out_sum(tx.output@) <= input_amount_sats,
            decreases tx.output@.len() - k,
        {
            proof { assert(tx.output@.take(k as int + 1).drop_last() =~= tx.output@.take(k as int)); lemma_out_sum_mono(tx.output@, k as int + 1); }
            let output = &tx.output[k]; __sum = __sum + $v; k += 1;
        }
        proof { assert(tx.output@.take(k as int) =~= tx.output@); }
        let fee_sat = input_amount_sats - __sum; fee_sat
    }
//@ret r
//@requires
    out_sum(tx.output@) <= input_amount_sats,
//@ensures P C07 the-fee-of-an-anchor-commitment-reported-to-the-bump-handler-is-the-funding-amount-less-all-of-its-outputs
    r as int == input_amount_sats - out_sum(tx.output@),
//@end
pub proof fn lemma_out_sum_mono(s: Seq<TxOut>, k: int)
    requires 0 <= k <= s.len() ensures out_sum(s.take(k)) <= out_sum(s) decreases s.len() - k
{
    if k < s.len() { lemma_out_sum_mono(s, k + 1); assert(s.take(k + 1).drop_last() =~= s.take(k)); } else { assert(s.take(k) =~= s); }
}
}
fn main() {}
