//! unit: u15h
//! properties: C15 C13
//! note: PeerManager::do_read_event, what a message that does not decode does to the connection (slice: the match on the decode error), with is_gossip_msg and the seven gossip type numbers extracted: an undecodable message of any kind but gossip DISCONNECTS the peer whatever the error (unknown version, unknown required feature, invalid value, short read, bad length, i/o, dangerous value); the only exceptions keep the connection and skip that one message: a gossip message (ignored silently for an unknown required feature, answered with a warning otherwise) and a message with zlib-compressed fields (warning). Nothing undecodable is ever handed on to a message handler; a message of a type the node does not know (do_handle_message_without_peer_lock, the two `Unknown` arms) disconnects the peer when the type is even and is ignored when it is odd (`Message::is_even`: u13b)
//! trusted: R15 (deep slice): the inner `match e { .. }` of the `Err(e)` arm of `let message = match message_result`, arms verbatim; R8: is_gossip_msg's or-pattern of seven associated constants is written as seven equality tests (this Verus version has no associated constants in patterns); `continue` (on to the next message of the read buffer) is the function returning Ok(whether a warning was queued) and `return Err(PeerHandleError {})` its Err; `let _ = self.enqueue_message(..)` sets that flag; env: DecodeError with its variants (Io's payload opaque), `format!` / `to_owned` of the warning text are opaque strings, log macros dropped (R3); the message type numbers come from the `impl Encode` items of wire.rs
//! trusted: assume_specification for core::cmp::max / core::cmp::min (std definitions): present in every unit so that a change that introduces them is verified instead of being rejected by the tool
use vstd::prelude::*;
verus! {
use vstd::std_specs::cmp::*;
use core::cmp;
pub assume_specification<T: core::cmp::Ord>[core::cmp::max::<T>](a: T, b: T) -> (r: T)
    ensures T::obeys_cmp_spec() ==> r == (if b.cmp_spec(&a) == core::cmp::Ordering::Less { a } else { b });
pub assume_specification<T: core::cmp::Ord>[core::cmp::min::<T>](a: T, b: T) -> (r: T)
    ensures T::obeys_cmp_spec() ==> r == (if b.cmp_spec(&a) == core::cmp::Ordering::Less { b } else { a });
pub trait Encode { const TYPE: u16; }
pub struct IoErrorKind {}
pub struct Text {}
pub mod msgs {
    pub struct ChannelAnnouncement {} pub struct ChannelUpdate {} pub struct NodeAnnouncement {} pub struct QueryChannelRange {} pub struct ReplyChannelRange {} pub struct QueryShortChannelIds {} pub struct ReplyShortChannelIdsEnd {}
    pub enum DecodeError { UnknownVersion, UnknownRequiredFeature, InvalidValue, ShortRead, BadLengthDescriptor, Io(super::IoErrorKind), UnsupportedCompression, DangerousValue }
    pub struct WarningMessage { pub channel_id: super::ChannelId, pub data: super::Text }
}
//@extract lightning/src/ln/wire.rs :: impl Encode for msgs::ChannelAnnouncement
//@end
//@extract lightning/src/ln/wire.rs :: impl Encode for msgs::ChannelUpdate
//@end
//@extract lightning/src/ln/wire.rs :: impl Encode for msgs::NodeAnnouncement
//@end
//@extract lightning/src/ln/wire.rs :: impl Encode for msgs::QueryChannelRange
//@end
//@extract lightning/src/ln/wire.rs :: impl Encode for msgs::ReplyChannelRange
//@end
//@extract lightning/src/ln/wire.rs :: impl Encode for msgs::QueryShortChannelIds
//@end
//@extract lightning/src/ln/wire.rs :: impl Encode for msgs::ReplyShortChannelIdsEnd
//@end
// BOLT 7: the gossip messages
pub open spec fn gossip(ty: u16) -> bool { ty == 256 || ty == 257 || ty == 258 || ty == 261 || ty == 262 || ty == 263 || ty == 264 }
//@extract lightning/src/ln/peer_handler.rs :: fn is_gossip_msg
//@rw R8
    match type_id { $a:seq | $b:seq | $c:seq | $d:seq | $e:seq | $f:seq | $g:seq => true, _ => false, }
//@with
    if type_id == $a || type_id == $b || type_id == $c || type_id == $d || type_id == $e || type_id == $f || type_id == $g { true } else { false }
//@ret r
//@ensures P C15,C13 the-messages-an-undecodable-copy-of-which-is-tolerated-are-exactly-the-bolt7-gossip-messages
    r == gossip(type_id),
//@end
pub struct ChannelId {}
impl ChannelId { #[verifier::external_body] pub fn new_zero() -> ChannelId { unimplemented!() } }
pub enum Message { Warning(msgs::WarningMessage), Other }
pub struct Peer {}
pub struct PeerHandleError {}
#[verifier::external_body] pub fn unsupported_compression_text() -> Text { unimplemented!() }
#[verifier::external_body] pub fn bogus_gossip_text(ty: u16) -> Text { unimplemented!() }
pub struct PeerManager {}
impl PeerManager {
    // (the queue itself is u15e's; here only THAT a warning was handed to it: the `let _ =` of the source becomes the flag the function returns)
    #[verifier::external_body] pub fn enqueue_message(&self, peer: &Peer, msg: Message) -> (r: bool) ensures r { unimplemented!() }
//@extract lightning/src/ln/peer_handler.rs :: impl PeerManager :: fn do_read_event
//@slice R15
    let message = match message_result { Ok(x) => x, Err(e) => { match e { $arms:any } }, };
//@with
    fn what_an_undecodable_message_does_to_the_connection(&self, peer: &Peer, e: (msgs::DecodeError, Option<u16>)) -> Result<bool, PeerHandleError> { let mut __warned = false; match e { $arms } }
//@rw * R8
    continue;
//@with
    return Ok(__warned);
//@rw * R8
    let _ = self.enqueue_message(peer, msg);
//@with
    __warned = self.enqueue_message(peer, msg);
//@rw R8 ?
    "Unsupported message compression: zlib" .to_owned()
//@with
    unsupported_compression_text()
//@rw R8 ?
    format!( "Unreadable/bogus gossip message of type {}", ty )
//@with
    bogus_gossip_text(ty)
//@ret r
//@ensures P C15,C13 an-undecodable-message-disconnects-the-peer-unless-it-is-gossip-or-only-uses-zlib-compression-in-which-case-that-one-message-is-skipped
    r is Ok <==> (e.0 is UnsupportedCompression || (e.1 is Some && gossip(e.1->Some_0))),
    r is Ok ==> r->Ok_0 == !(e.0 is UnknownRequiredFeature && e.1 is Some && gossip(e.1->Some_0)),     // skipped with a warning to the peer, except gossip with an unknown required feature (skipped silently)
//@mutant message_of_an_unknown_version_skipped_instead_of_disconnecting
    (msgs::DecodeError::UnknownVersion, _) => { return Err(PeerHandleError {}) },
//@with
    (msgs::DecodeError::UnknownVersion, _) => { continue; },
//@mutant any_message_with_a_type_tolerated_like_gossip
    (_, Some(ty)) if is_gossip_msg(ty) => {
//@with
    (_, Some(ty)) if ty >= 256 => {
//@end
}
// a message of a type the node does not know: it's OK to be odd (BOLT 1) - an unknown EVEN type disconnects the peer, an unknown odd one is ignored
pub struct MessageHandlingError {}
impl PeerHandleError { #[verifier::external_body] pub fn into(self) -> MessageHandlingError { unimplemented!() } }
//@extract lightning/src/ln/peer_handler.rs :: impl PeerManager :: fn do_handle_message_without_peer_lock
//@slice R15
    Message::Unknown(type_id) if $g:cond => { $a:any }, Message::Unknown(type_id) => { $b:any },
//@with
    fn what_a_message_of_an_unknown_type_does(type_id: u16, message_is_even: bool) -> Result<(), MessageHandlingError> { if $g { $a } else { $b } Ok(()) }
//@rw R8 ?
    message.is_even()
//@with
    message_is_even
//@ret r
//@ensures P C15,C13 a-message-of-an-unknown-even-type-disconnects-the-peer-and-one-of-an-unknown-odd-type-is-ignored
    r is Err <==> message_is_even,
//@mutant unknown_even_messages_ignored
    Message::Unknown(type_id) if message.is_even() => {
//@with
    Message::Unknown(type_id) if !message.is_even() && false => {
//@end
}
fn main() {}
