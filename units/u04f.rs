//! unit: u04f
//! properties: C04 C08
//! note: ChannelManager::process_receive_htlcs (slices): the part recorded for a received HTLC carries the amount actually received as its value (the amount the sender intended is kept separately, so an underpaying hop cannot complete a payment early), its own expiry, a fresh timer and no recorded total; the source recorded for failing or claiming it names the channel, outpoint and HTLC id it came in on; and an HTLC for an invoice with a custom final CLTV delta is refused when its expiry is below the current height plus that delta
//! trusted: R15 (deep slices): the two struct literals that build the HTLC's source and its claimable record, verbatim over skeleton types with exactly those fields (PendingAddHTLCInfo's previous-hop data is the skeleton PrevHop); the custom-delta expiry test verbatim as a function of (cltv_expiry, best height, delta)
//! assume: block heights are below 2^31 (height + delta as u32 is computed in u32)
//! trusted: assume_specification for core::cmp::max / core::cmp::min (std definitions): present in every unit so that a change that introduces them is verified instead of being rejected by the tool
use vstd::prelude::*;
verus! {
use vstd::std_specs::cmp::*;
use core::cmp;
pub assume_specification<T: core::cmp::Ord>[core::cmp::max::<T>](a: T, b: T) -> (r: T)
    ensures T::obeys_cmp_spec() ==> r == (if b.cmp_spec(&a) == core::cmp::Ordering::Less { a } else { b });
pub assume_specification<T: core::cmp::Ord>[core::cmp::min::<T>](a: T, b: T) -> (r: T)
    ensures T::obeys_cmp_spec() ==> r == (if b.cmp_spec(&a) == core::cmp::Ordering::Less { b } else { a });
#[derive(Clone, Copy)] pub struct ChannelId(pub u64);
#[derive(Clone, Copy)] pub struct OutPoint(pub u64);
#[derive(Clone, Copy)] pub struct PublicKey(pub u64);
#[derive(Clone, Copy)] pub struct BlindedFailure(pub u8);
#[derive(Clone, Copy)] pub struct OnionPayload(pub u64);
#[derive(Clone, Copy)] pub struct PrevHop { pub prev_outbound_scid_alias: u64, pub user_channel_id: Option<u128>, pub counterparty_node_id: Option<PublicKey>, pub htlc_id: u64, pub incoming_packet_shared_secret: [u8; 32], pub phantom_shared_secret: Option<[u8; 32]> }
pub struct HTLCPreviousHopData { pub prev_outbound_scid_alias: u64, pub user_channel_id: Option<u128>, pub amount_msat: Option<u64>, pub counterparty_node_id: Option<PublicKey>, pub channel_id: ChannelId, pub outpoint: OutPoint,
    pub htlc_id: u64, pub incoming_packet_shared_secret: [u8; 32], pub phantom_shared_secret: Option<[u8; 32]>, pub trampoline_shared_secret: Option<[u8; 32]>, pub blinded_failure: Option<BlindedFailure>, pub cltv_expiry: Option<u32> }
pub enum HTLCSource { PreviousHopData(HTLCPreviousHopData), Other }
pub struct MppPart { pub prev_hop: PrevHop, pub cltv_expiry: u32, pub value: u64, pub sender_intended_value: u64, pub timer_ticks: u8, pub total_value_received: Option<u64> }
pub struct ClaimableHTLC { pub mpp_part: MppPart, pub onion_payload: OnionPayload, pub counterparty_skimmed_fee_msat: Option<u64> }
//@extract lightning/src/ln/channelmanager.rs :: impl ChannelManager :: fn process_receive_htlcs
//@slice R15
    let htlc_source = HTLCSource::PreviousHopData(HTLCPreviousHopData { $hf:any }); let claimable_htlc = ClaimableHTLC { $cf:any };
//@with
    fn record_a_received_htlc(prev_hop: PrevHop, prev_channel_id: ChannelId, prev_funding_outpoint: OutPoint, incoming_amt_msat: Option<u64>, outgoing_amt_msat: u64, skimmed_fee_msat: Option<u64>, cltv_expiry: u32,
        onion_payload: OnionPayload, phantom_shared_secret: Option<[u8; 32]>, trampoline_shared_secret: Option<[u8; 32]>, blinded_failure: Option<BlindedFailure>) -> (HTLCSource, ClaimableHTLC) {
        let value = incoming_amt_msat.unwrap_or(outgoing_amt_msat);
        let htlc_source = HTLCSource::PreviousHopData(HTLCPreviousHopData { $hf }); let claimable_htlc = ClaimableHTLC { $cf };
        (htlc_source, claimable_htlc)
    }
//@ret r
//@ensures P C04,C08 the-part-recorded-for-a-received-htlc-holds-what-was-received-what-the-sender-intended-its-own-expiry-and-no-total-yet-and-its-source-names-the-channel-and-htlc-it-came-in-on
    ({ let value = if incoming_amt_msat is Some { incoming_amt_msat->Some_0 } else { outgoing_amt_msat };
       r.1.mpp_part == (MppPart { prev_hop, cltv_expiry, value, sender_intended_value: outgoing_amt_msat, timer_ticks: 0, total_value_received: None })
       && r.1.counterparty_skimmed_fee_msat == skimmed_fee_msat && r.1.onion_payload == onion_payload
       && r.0 == HTLCSource::PreviousHopData(HTLCPreviousHopData { prev_outbound_scid_alias: prev_hop.prev_outbound_scid_alias, user_channel_id: prev_hop.user_channel_id, amount_msat: Some(value),
            counterparty_node_id: prev_hop.counterparty_node_id, channel_id: prev_channel_id, outpoint: prev_funding_outpoint, htlc_id: prev_hop.htlc_id, incoming_packet_shared_secret: prev_hop.incoming_packet_shared_secret,
            phantom_shared_secret, trampoline_shared_secret, blinded_failure, cltv_expiry: Some(cltv_expiry) }) }),
//@mutant intended_amount_recorded_as_received
    value, sender_intended_value: outgoing_amt_msat, timer_ticks: 0, total_value_received: None, }, onion_payload,
//@with
    value: outgoing_amt_msat, sender_intended_value: outgoing_amt_msat, timer_ticks: 0, total_value_received: None, }, onion_payload,
//@end
pub struct Best { pub height: u32 }
pub struct MgrH { pub best: Best }
impl MgrH { #[verifier::external_body] pub fn current_best_block(&self) -> (r: Best) ensures r.height == self.best.height { unimplemented!() }
//@extract lightning/src/ln/channelmanager.rs :: impl ChannelManager :: fn process_receive_htlcs
//@slice R15
    if let Some(min_final_cltv_expiry_delta) = min_final_cltv_expiry_delta { let expected_min_expiry_height = $exp:seq; if $c:cond { fail_htlc!(payment_hash); } } payment_preimage
//@with
    fn htlc_expires_before_the_invoices_own_final_delta(&self, cltv_expiry: u32, min_final_cltv_expiry_delta_: Option<u16>) -> bool {
        if let Some(min_final_cltv_expiry_delta) = min_final_cltv_expiry_delta_ { let expected_min_expiry_height = $exp; if $c { return true; } } false }
//@ret r
//@requires
    self.best.height <= 0x7fff_ffff,
//@ensures P C04,C08 an-htlc-for-an-invoice-with-its-own-final-cltv-delta-is-refused-exactly-when-it-expires-before-the-current-height-plus-that-delta
    r == (min_final_cltv_expiry_delta_ is Some && (cltv_expiry as int) < self.best.height + min_final_cltv_expiry_delta_->Some_0),
//@mutant custom_final_delta_ignored_when_the_expiry_is_checked
    (cltv_expiry as u64) < expected_min_expiry_height
//@with
    (cltv_expiry as u64) < self.current_best_block().height as u64
//@end
}
}
fn main() {}
