//! unit: u09c
//! properties: C09 C02 C10 C03
//! note: also run for C03: the code it constrains lies inside mechanisms those properties name (a change made there for their sake must meet these clauses too)
//! note: FundedChannel::monitor_updating_restored from `let mut pending_update_adds` to the end of the function (both exits): when a monitor update completes, the update_add_htlcs waiting to be decoded and the sources of the outbound HTLCs that this update committed (those in LocalAnnounced with a previous hop: they tell the manager which inbound HTLCs are now irrevocably forwarded, so that a restart does not forward them again) are handed over WHETHER OR NOT the peer is connected, together with everything computed above (forwards, failures, finalized claims, funding broadcast, channel_ready); only the revoke_and_ack / commitment update are withheld from a disconnected peer (reestablish regenerates them), and with a connected one they are released only if held; nothing stays held
//! trusted: R15 (deep slice) with the field lists of the two MonitorRestoreUpdates expressions captured whole; R6: `E.iter().filter_map(|htlc| B).collect()` as an index loop, B carried verbatim as the body of a helper function (its `return Some(..)` / trailing `None` keep their meaning); R16 on `if let &P = &e`; R10: arguments of get_last_revoke_and_ack / get_last_commitment_update_for_send (a path callback, the logger) dropped; R9: `a |= b` on bools written `a = a || b`; R3: the log statement dropped
//! trusted: env: FundedChannel / ChannelContext field skeletons; MonitorRestoreUpdates is the real field list over opaque items; HTLCPreviousHopData an opaque value with clone(); OutboundHTLCState / HTLCSource restricted to two variants each plus a catch-all; get_last_revoke_and_ack / get_last_commitment_update_for_send leave the context as it is and answer anything
//! trusted: assume_specification for core::cmp::max / core::cmp::min (std definitions): present in every unit so that a change that introduces them is verified instead of being rejected by the tool
use vstd::prelude::*;
verus! {
use vstd::std_specs::cmp::*;
use core::cmp;
use core::mem;
pub assume_specification<T: core::cmp::Ord>[core::cmp::max::<T>](a: T, b: T) -> (r: T)
    ensures T::obeys_cmp_spec() ==> r == (if b.cmp_spec(&a) == core::cmp::Ordering::Less { a } else { b });
pub assume_specification<T: core::cmp::Ord>[core::cmp::min::<T>](a: T, b: T) -> (r: T)
    ensures T::obeys_cmp_spec() ==> r == (if b.cmp_spec(&a) == core::cmp::Ordering::Less { b } else { a });
pub struct Held { pub id: u64 }
pub struct ChannelState { pub peer_disconnected: bool }
impl ChannelState { #[verifier::external_body] pub fn is_peer_disconnected(&self) -> (r: bool) ensures r == self.peer_disconnected { unimplemented!() } }
#[derive(Copy)] pub enum RAACommitmentOrder { CommitmentFirst, RevokeAndACKFirst }
impl vstd::std_specs::cmp::PartialEqSpecImpl for RAACommitmentOrder { open spec fn obeys_eq_spec() -> bool { true } open spec fn eq_spec(&self, other: &RAACommitmentOrder) -> bool { *self == *other } }
impl PartialEq for RAACommitmentOrder { #[verifier::external_body] fn eq(&self, o: &RAACommitmentOrder) -> (r: bool) ensures r == (*self == *o) { unimplemented!() } }
impl Clone for RAACommitmentOrder { #[verifier::external_body] fn clone(&self) -> (r: Self) ensures r == *self { unimplemented!() } }
pub struct RevokeAndACK { pub id: u64 }
pub struct CommitmentUpdate { pub id: u64 }
#[derive(Copy)] pub struct HTLCPreviousHopData { pub id: u64 }
impl Clone for HTLCPreviousHopData { #[verifier::external_body] fn clone(&self) -> (r: Self) ensures r == *self { unimplemented!() } }
pub enum OutboundHTLCState { LocalAnnounced(u64), Committed, Other }
pub enum HTLCSource { PreviousHopData(HTLCPreviousHopData), OutboundRoute { id: u64 }, TrampolineForward { id: u64 } }
pub struct OutboundHTLCOutput { pub state: OutboundHTLCState, pub source: HTLCSource, pub amount_msat: u64 }
pub struct ChannelContext {
    pub monitor_pending_revoke_and_ack: bool, pub monitor_pending_commitment_signed: bool,
    pub monitor_pending_update_adds: Vec<Held>, pub pending_outbound_htlcs: Vec<OutboundHTLCOutput>,
    pub channel_state: ChannelState, pub resend_order: RAACommitmentOrder, pub signer_pending_commitment_update: bool, pub signer_pending_revoke_and_ack: bool,
}
pub struct MonitorRestoreUpdates {
    pub raa: Option<RevokeAndACK>, pub commitment_update: Option<CommitmentUpdate>, pub commitment_order: RAACommitmentOrder,
    pub accepted_htlcs: Vec<Held>, pub failed_htlcs: Vec<Held>, pub finalized_claimed_htlcs: Vec<Held>, pub pending_update_adds: Vec<Held>,
    pub funding_broadcastable: Option<Held>, pub channel_ready: Option<Held>, pub channel_ready_order: u8, pub announcement_sigs: Option<Held>, pub funding_tx_signed: Option<Held>,
    pub committed_outbound_htlc_sources: Vec<(HTLCPreviousHopData, u64)>, pub requires_channel_manager_persistence: bool,
}
pub struct FundedChannel { pub context: ChannelContext }
// the source of an outbound HTLC that the completed update committed
pub open spec fn committed_source(h: OutboundHTLCOutput) -> Option<(HTLCPreviousHopData, u64)> {
    if h.state is LocalAnnounced && h.source is PreviousHopData { Some((h.source->PreviousHopData_0, h.amount_msat)) } else { None }
}
pub open spec fn committed_sources(s: Seq<OutboundHTLCOutput>) -> Seq<(HTLCPreviousHopData, u64)> decreases s.len() {
    if s.len() == 0 { Seq::empty() } else if committed_source(s.last()) is Some { committed_sources(s.drop_last()).push(committed_source(s.last())->Some_0) } else { committed_sources(s.drop_last()) }
}
impl FundedChannel {
    #[verifier::external_body] pub fn get_last_revoke_and_ack(&mut self) -> (r: Option<RevokeAndACK>) ensures final(self).context == old(self).context { unimplemented!() }
    #[verifier::external_body] pub fn get_last_commitment_update_for_send(&mut self) -> (r: Result<CommitmentUpdate, ()>) ensures final(self).context == old(self).context { unimplemented!() }
//@extract lightning/src/ln/channel.rs :: impl FundedChannel :: fn monitor_updating_restored
//@slice R15
    let mut pending_update_adds = Vec::new(); $swap:straight let committed_outbound_htlc_sources: Vec<(HTLCPreviousHopData, u64)> = self.context.pending_outbound_htlcs.iter().filter_map(|htlc| { $cl:any }).collect(); $rq:straight if self.context.channel_state.is_peer_disconnected() { $clear:straight return MonitorRestoreUpdates { $f1:any }; } $mid:any MonitorRestoreUpdates { $f2:any } }
//@with
    fn hand_over_at_completion(&mut self, accepted_htlcs: Vec<Held>, failed_htlcs: Vec<Held>, finalized_claimed_htlcs: Vec<Held>, funding_broadcastable: Option<Held>, channel_ready: Option<Held>, channel_ready_order: u8,
        announcement_sigs: Option<Held>, funding_tx_signed: Option<Held>, persist: bool) -> MonitorRestoreUpdates {
        let mut requires_channel_manager_persistence = persist;
        let mut pending_update_adds = Vec::new(); $swap
        let mut committed_outbound_htlc_sources: Vec<(HTLCPreviousHopData, u64)> = Vec::new();
        let mut __k: usize = 0;
        while __k < self.context.pending_outbound_htlcs.len()
            invariant __k <= self.context.pending_outbound_htlcs@.len(), committed_outbound_htlc_sources@ == committed_sources(self.context.pending_outbound_htlcs@.take(__k as int)),
                self.context == old(self).context.with_adds(self.context.monitor_pending_update_adds),
            decreases self.context.pending_outbound_htlcs@.len() - __k
        {
            proof { assert(self.context.pending_outbound_htlcs@.take(__k as int + 1).drop_last() =~= self.context.pending_outbound_htlcs@.take(__k as int)); }
            if let Some(__s) = Self::source_of_a_committed_outbound_htlc(&self.context.pending_outbound_htlcs[__k]) { committed_outbound_htlc_sources.push(__s); }
            __k = __k + 1;
        }
        proof { assert(self.context.pending_outbound_htlcs@.take(__k as int) =~= self.context.pending_outbound_htlcs@); }
        $rq
        if self.context.channel_state.is_peer_disconnected() { $clear return MonitorRestoreUpdates { $f1 }; }
        $mid
        MonitorRestoreUpdates { $f2 }
    }
    fn source_of_a_committed_outbound_htlc(htlc: &OutboundHTLCOutput) -> (s: Option<(HTLCPreviousHopData, u64)>) ensures s == committed_source(*htlc) { $cl }
//@rw * R9
    requires_channel_manager_persistence |= $r:cond;
//@with
    requires_channel_manager_persistence = requires_channel_manager_persistence || $r;
//@rw R16 ?
    if let &OutboundHTLCState::$v:ident($b:tt) = &htlc.state {
//@with
    if let OutboundHTLCState::$v($b) = &htlc.state {
//@rw R10
    self.get_last_revoke_and_ack(path_for_release_htlc, logger)
//@with
    self.get_last_revoke_and_ack()
//@rw R10
    self.get_last_commitment_update_for_send(logger)
//@with
    self.get_last_commitment_update_for_send()
//@ret r
//@ensures P C09,C02,C10 at-completion-the-update-adds-to-decode-and-the-sources-of-the-outbound-htlcs-now-committed-are-handed-over-whether-or-not-the-peer-is-connected-only-the-revoke-and-ack-and-commitment-update-are-withheld-from-a-disconnected-peer
    r.pending_update_adds@ == old(self).context.monitor_pending_update_adds@, final(self).context.monitor_pending_update_adds@.len() == 0,
    r.committed_outbound_htlc_sources@ == committed_sources(old(self).context.pending_outbound_htlcs@),
    r.accepted_htlcs == accepted_htlcs, r.failed_htlcs == failed_htlcs, r.finalized_claimed_htlcs == finalized_claimed_htlcs,
    r.funding_broadcastable == funding_broadcastable, r.channel_ready == channel_ready, r.channel_ready_order == channel_ready_order, r.announcement_sigs == announcement_sigs, r.funding_tx_signed == funding_tx_signed,
    persist || r.pending_update_adds@.len() > 0 || r.committed_outbound_htlc_sources@.len() > 0 ==> r.requires_channel_manager_persistence,
    old(self).context.channel_state.peer_disconnected ==> r.raa is None && r.commitment_update is None,
    r.raa is Some ==> old(self).context.monitor_pending_revoke_and_ack, r.commitment_update is Some ==> old(self).context.monitor_pending_commitment_signed,
    !final(self).context.monitor_pending_revoke_and_ack && !final(self).context.monitor_pending_commitment_signed,
    !old(self).context.channel_state.peer_disconnected ==> r.commitment_order == old(self).context.resend_order,
    final(self).context.pending_outbound_htlcs == old(self).context.pending_outbound_htlcs,
//@mutant committed_sources_dropped_while_the_peer_is_disconnected
    funding_tx_signed, committed_outbound_htlc_sources, requires_channel_manager_persistence, }; }
//@with
    funding_tx_signed, committed_outbound_htlc_sources: Vec::new(), requires_channel_manager_persistence, }; }
//@mutant update_adds_left_behind
    mem::swap(&mut pending_update_adds, &mut self.context.monitor_pending_update_adds);
//@with

//@mutant an_htlc_we_originated_reported_as_a_committed_forward
    if let HTLCSource::PreviousHopData(prev_hop_data) = &htlc.source { return Some((prev_hop_data.clone(), htlc.amount_msat)) }
//@with
    if let HTLCSource::PreviousHopData(prev_hop_data) = &htlc.source { return Some((prev_hop_data.clone(), 0)) }
//@mutant htlcs_already_committed_earlier_reported_again
    if let &OutboundHTLCState::LocalAnnounced(_) = &htlc.state {
//@with
    if true {
//@end
}
impl ChannelContext {
    pub open spec fn with_adds(self, a: Vec<Held>) -> ChannelContext { ChannelContext { monitor_pending_update_adds: a, ..self } }
}
}
fn main() {}
