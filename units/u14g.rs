//! unit: u14g
//! properties: C14 C04
//! note: peel_dummy_hop_update_add_htlc: the HTLC message the next onion layer is checked against after a dummy hop of a blinded path has been peeled locally. It carries the amount and the expiry the DUMMY HOP WAS TOLD TO FORWARD (outgoing_amt_msat / outgoing_cltv_value of the peeled layer: the received amount less the dummy hop's fee, the received expiry less its delta), the next layer's onion packet and blinding point, and everything else of the received message unchanged; a next layer checked against the received amount would accept a payer who skipped the dummy hops' fees
//! trusted: R15 (deep slice): the destructuring of the peeled layer's NextPacketDetails and the final UpdateAddHTLC literal, verbatim, as a function of the received message, the peeled details and the two values built in between (the next onion packet and the next blinding point: their construction - ECDH with the node key, next_hop_pubkey (u14e) - is not sliced); env: field skeletons of UpdateAddHTLC (all ten fields) and NextPacketDetails, keys / packets opaque copyable values, `..msg.clone()` with a clone equal to the message
//! trusted: assume_specification for core::cmp::max / core::cmp::min (std definitions): present in every unit so that a change that introduces them is verified instead of being rejected by the tool
use vstd::prelude::*;
verus! {
use vstd::std_specs::cmp::*;
use core::cmp;
pub assume_specification<T: core::cmp::Ord>[core::cmp::max::<T>](a: T, b: T) -> (r: T)
    ensures T::obeys_cmp_spec() ==> r == (if b.cmp_spec(&a) == core::cmp::Ordering::Less { a } else { b });
pub assume_specification<T: core::cmp::Ord>[core::cmp::min::<T>](a: T, b: T) -> (r: T)
    ensures T::obeys_cmp_spec() ==> r == (if b.cmp_spec(&a) == core::cmp::Ordering::Less { b } else { a });
#[derive(Clone, Copy, PartialEq, Eq)] pub struct ChannelId(pub u64);
#[derive(Clone, Copy, PartialEq, Eq)] pub struct PaymentHash(pub u64);
#[derive(Clone, Copy, PartialEq, Eq)] pub struct PublicKey(pub u64);
#[derive(Clone, Copy, PartialEq, Eq)] pub struct OnionPacket(pub u64);
#[derive(Clone, Copy, PartialEq, Eq)] pub enum HopConnector { ShortChannelId(u64), Dummy, Trampoline(PublicKey) }
#[derive(Copy, PartialEq, Eq)] pub struct UpdateAddHTLC { pub channel_id: ChannelId, pub htlc_id: u64, pub amount_msat: u64, pub payment_hash: PaymentHash, pub cltv_expiry: u32, pub skimmed_fee_msat: Option<u64>,
    pub onion_routing_packet: OnionPacket, pub blinding_point: Option<PublicKey>, pub hold_htlc: Option<()>, pub accountable: Option<bool> }
impl Clone for UpdateAddHTLC { fn clone(&self) -> (r: Self) ensures r == *self { *self } }
pub struct NextPacketDetails { pub next_packet_pubkey: Result<PublicKey, ()>, pub outgoing_connector: HopConnector, pub outgoing_amt_msat: u64, pub outgoing_cltv_value: u32 }
//@extract lightning/src/ln/onion_utils.rs :: fn peel_dummy_hop_update_add_htlc
//@slice R15
    let NextPacketDetails { $d:any } = next_packet_details; $mid:any UpdateAddHTLC { $lit:any }
//@with
    fn message_the_next_layer_is_checked_against(msg: &UpdateAddHTLC, next_packet_details: NextPacketDetails, new_onion_packet: OnionPacket, next_blinding_point: Option<PublicKey>) -> UpdateAddHTLC {
        let NextPacketDetails { $d } = next_packet_details; UpdateAddHTLC { $lit } }
//@ret r
//@ensures P C14,C04 after-a-dummy-hop-the-next-layer-sees-the-amount-and-expiry-that-hop-was-told-to-forward-the-next-packet-and-blinding-point-and-the-rest-of-the-message-unchanged
    r == (UpdateAddHTLC { amount_msat: next_packet_details.outgoing_amt_msat, cltv_expiry: next_packet_details.outgoing_cltv_value, onion_routing_packet: new_onion_packet, blinding_point: next_blinding_point,
        channel_id: msg.channel_id, htlc_id: msg.htlc_id, payment_hash: msg.payment_hash, skimmed_fee_msat: msg.skimmed_fee_msat, hold_htlc: msg.hold_htlc, accountable: msg.accountable }),
//@mutant next_layer_checked_against_the_received_amount
    amount_msat: outgoing_amt_msat,
//@with

//@end
}
fn main() {}
