//! unit: u05c
//! properties: C05
//! note: "fully signed newer commitment": the signature checks of ChannelContext::validate_commitment_signed (the only verifier of a peer's commitment_signed: plain, batched splice and initial splice commitments all pass through it)
//! trusted: R15 (statement slicing): validate_commitment_signed builds bitcoin transactions and sighashes through rust-bitcoin/secp256k1; the unit extracts, on every run, its three checks verbatim - the commitment signature test, the HTLC-signature count test and the per-HTLC signature test inside the zip loop - in their original order; building the transactions, the fee check (validate_update_fee), HolderCommitmentTransaction::new and the signer's validate_holder_commitment are dropped and not claimed; the dropped statements between and after the first check are matched with a capture kind that refuses return / break / continue, so nothing dropped can leave the function or the loop early with Ok
//! trusted: R6: `for (htlc, counterparty_sig) in A.iter().zip(B.iter())` becomes an index loop over min(A.len(), B.len()) (std semantics of Iterator::zip) with the two bindings taken by index
//! trusted: env: Secp256k1::verify_ecdsa is external_body whose result is Ok exactly when the uninterpreted predicate sig_valid(msg, sig, key) holds (any signature scheme); the sighash of the commitment transaction and the sighash of each second-stage HTLC transaction are opaque values (commitment_sighash / htlc_sighash_of(htlc), uninterpreted functions of the built transaction / the HTLC); PublicKey, Signature, Message opaque; CommitmentSigned skeleton {signature, htlc_signatures}; CommitmentTransaction skeleton with external_body nondust_htlcs() returning the stored list
use vstd::prelude::*;
verus! {
#[derive(Clone, Copy)] pub struct PublicKey(pub [u8; 33]);
#[derive(Clone, Copy)] pub struct Signature(pub [u8; 64]);
#[derive(Clone, Copy)] pub struct Message(pub [u8; 32]);
pub struct HTLCOutputInCommitment { pub amount_msat: u64, pub cltv_expiry: u32, pub offered: bool, pub transaction_output_index: Option<u32> }
pub struct CommitmentSigned { pub signature: Signature, pub htlc_signatures: Vec<Signature> }
pub struct CommitmentTransaction { pub nondust: Vec<HTLCOutputInCommitment> }
impl CommitmentTransaction {
    #[verifier::external_body] pub fn nondust_htlcs(&self) -> (r: &Vec<HTLCOutputInCommitment>) ensures *r == self.nondust { unimplemented!() }
}
pub struct CommitmentData { pub tx: CommitmentTransaction }
pub enum ChannelError { Close(u8) }
impl ChannelError {
    #[verifier::external_body] pub fn close(_m: u8) -> (r: ChannelError) { unimplemented!() }
}
// any signature scheme
pub uninterp spec fn sig_valid(m: Message, s: Signature, k: PublicKey) -> bool;
// the sighash of the second-stage transaction spending this HTLC output (built by chan_utils::build_htlc_transaction; opaque here)
pub uninterp spec fn htlc_sighash_of(h: HTLCOutputInCommitment) -> Message;
#[verifier::external_body]
pub fn compute_htlc_sighash(h: &HTLCOutputInCommitment) -> (r: Message) ensures r == htlc_sighash_of(*h) { unimplemented!() }
pub struct Secp256k1 {}
impl Secp256k1 {
    #[verifier::external_body]
    pub fn verify_ecdsa(&self, m: &Message, s: &Signature, k: &PublicKey) -> (r: Result<(), ()>)
        ensures r is Ok <==> sig_valid(*m, *s, *k)
    { unimplemented!() }
}
pub struct ChannelContext { pub secp_ctx: Secp256k1 }

impl ChannelContext {
//@extract lightning/src/ln/channel.rs :: impl ChannelContext :: fn validate_commitment_signed
//@strip msgs
//@rw R15
    fn validate_commitment_signed<F: FeeEstimator, L: Logger>($params:any) -> $ret { $p0:any let commitment_txid = { $q0:any if let Err(_) = self.secp_ctx.verify_ecdsa( &sighash, &msg.signature, &funding.counterparty_funding_pubkey(), ) { return Err($e1); } $q1:straight }; $p1:straight if msg.htlc_signatures.len() $op:tt commitment_data.tx.nondust_htlcs().len() { return Err($e2); } $p2:straight for (htlc, counterparty_sig) in commitment_data.tx.nondust_htlcs().iter().zip(msg.htlc_signatures.iter()) { $b:straight if let Err(_) = self.secp_ctx.verify_ecdsa( &htlc_sighash, &counterparty_sig, &holder_keys.countersignatory_htlc_key.to_public_key(), ) { return Err($e3); } } $rest:any }
//@with
    fn commitment_signed_signature_checks(&self, sighash: Message, commitment_data: &CommitmentData, msg: &CommitmentSigned,
        counterparty_funding_pubkey: PublicKey, countersignatory_htlc_key: PublicKey) -> Result<(), ChannelError>
    {
        if let Err(_) = self.secp_ctx.verify_ecdsa( &sighash, &msg.signature, &counterparty_funding_pubkey, ) { return Err(ChannelError::close(1)); }
        if msg.htlc_signatures.len() $op commitment_data.tx.nondust_htlcs().len() { return Err(ChannelError::close(2)); }
        // R6: for (htlc, counterparty_sig) in A.iter().zip(B.iter())
        let mut __i: usize = 0;
        while __i < commitment_data.tx.nondust_htlcs().len() && __i < msg.htlc_signatures.len()
            invariant
                forall|k: int| 0 <= k < __i ==> sig_valid(htlc_sighash_of(#[trigger] commitment_data.tx.nondust@[k]), msg.htlc_signatures@[k], countersignatory_htlc_key),
            decreases commitment_data.tx.nondust@.len() - __i
        {
            let htlc = &commitment_data.tx.nondust_htlcs()[__i];
            let counterparty_sig = &msg.htlc_signatures[__i];
            let htlc_sighash = compute_htlc_sighash(htlc);
            if let Err(_) = self.secp_ctx.verify_ecdsa( &htlc_sighash, &counterparty_sig, &countersignatory_htlc_key, ) { return Err(ChannelError::close(3)); }
            __i = __i + 1;
        }
        Ok(())
    }
//@ret r
//@ensures P C05 a-commitment-is-accepted-only-when-its-signature-and-one-signature-per-non-dust-htlc-verify
    r is Ok ==> sig_valid(sighash, msg.signature, counterparty_funding_pubkey)
        && msg.htlc_signatures@.len() == commitment_data.tx.nondust@.len()
        && forall|k: int| 0 <= k < commitment_data.tx.nondust@.len() ==>
               sig_valid(htlc_sighash_of(#[trigger] commitment_data.tx.nondust@[k]), msg.htlc_signatures@[k], countersignatory_htlc_key),
//@mutant too_few_htlc_signatures_accepted
    msg.htlc_signatures.len() != commitment_data.tx.nondust_htlcs().len()
//@with
    msg.htlc_signatures.len() > commitment_data.tx.nondust_htlcs().len()
//@end
}
}
fn main() {}
