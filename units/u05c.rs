//! unit: u05c
//! properties: C05 C10 C01 C02 C09
//! note: also run for C02, C09: the code it constrains lies inside mechanisms those properties name (a change made there for their sake must meet these clauses too)
//! note: "fully signed newer commitment": the signature checks of ChannelContext::validate_commitment_signed (the only verifier of a peer's commitment_signed: plain, batched splice and initial splice commitments all pass through it)
//! trusted: R15 (statement slicing): validate_commitment_signed builds bitcoin transactions and sighashes through rust-bitcoin/secp256k1; the unit extracts, on every run, its three checks verbatim - the commitment signature test, the HTLC-signature count test and the per-HTLC signature test inside the zip loop - in their original order; building the transactions, the fee check (validate_update_fee), HolderCommitmentTransaction::new and the signer's validate_holder_commitment are dropped and not claimed; the dropped statements between and after the first check are matched with a capture kind that refuses return / break / continue, so nothing dropped can leave the function or the loop early with Ok
//! trusted: R15 (statement slicing): revoke_and_ack: the unit extracts the statements from `let secret = ..` to the signer validation (the two acceptance gates), the provide_secret call and the three statements advancing the counterparty's commitment number and points, verbatim and in order; the state pre-checks before them (quiescent / not ready / disconnected / closing: all early Err returns), the signer's validate_counterparty_revocation, the monitor update and the HTLC state walk after them are dropped and not claimed; secp_check!(SecretKey::from_slice(..)) becomes the parameter `secret` (any valid scalar)
//! trusted: env (revoke_and_ack): PublicKey::from_secret_key is external_body returning the uninterpreted point_of(secret); PublicKey equality is structural; ChannelState skeleton {awaiting_remote_revoke}; CounterpartyCommitmentSecrets::provide_secret (verified in u05a) is a stub recording (idx, secret) in a ghost log; mark_response_received external_body (frame: context untouched); ChannelError::close loses its message
//! assume: 1 <= counterparty_next_commitment_transaction_number < 2^48
//! trusted: R15 (statement slicing): channel_reestablish: the unit extracts everything between the `peer must be disconnected` pre-check and clear_peer_disconnected() - the commitment-number sanity test, the stale-state proof handling and the very-old-state warning - verbatim; the ~400 lines of retransmission logic after it are dropped and not claimed; error messages are dropped (R8); panic_on_stale_state is external_body `ensures false` (it panics on purpose); Signer::get_per_commitment_point unconstrained; HolderCommitmentPoint is a field skeleton whose accessors are verified on the real struct in u05b; SecretKey::from_slice external_body (Ok => the scalar is the given bytes)
//! assume: HolderCommitmentPoint invariant: the last / previous revoked point is recorded once one / two commitments have been revoked; 1 <= next_transaction_number < 2^48 - 1
//! trusted: R15 (deep slice): ChannelManager::from_channel_manager_data (~1700 lines): the unit extracts the staleness test that decides between resuming a channel and force-closing it from the monitor's state verbatim as a function of the four channel counters and the four monitor counters (accessors are external_body field reads); the force-close itself and everything else of the function are dropped and not claimed
//! trusted: R6: `for (htlc, counterparty_sig) in A.iter().zip(B.iter())` becomes an index loop over min(A.len(), B.len()) (std semantics of Iterator::zip) with the two bindings taken by index
//! trusted: env: Secp256k1::verify_ecdsa is external_body whose result is Ok exactly when the uninterpreted predicate sig_valid(msg, sig, key) holds (any signature scheme); the sighash of the commitment transaction and the sighash of each second-stage HTLC transaction are opaque values (commitment_sighash / htlc_sighash_of(htlc), uninterpreted functions of the built transaction / the HTLC); PublicKey, Signature, Message opaque; CommitmentSigned skeleton {signature, htlc_signatures}; CommitmentTransaction skeleton with external_body nondust_htlcs() returning the stored list
//! trusted: assume_specification for core::cmp::max / core::cmp::min (std definitions): present in every unit so that a change that introduces them is verified instead of being rejected by the tool
//! trusted: closed_monitor: ChannelMonitorImpl::no_further_updates_allowed is extracted whole (three-flag skeleton of the monitor); update_monitor: the match that classifies each step of an update as pre-close and the condition of the final refusal are deep R15 slices; ChannelMonitorUpdateStep is re-declared with its eleven variant names and dummy payloads (the source patterns use `{ .. }`); applying the steps is dropped and not claimed
//! trusted: holder_funding_claim: HolderFundingOutput::get_maybe_signed_commitment_tx: the expression that chooses the holder commitment to sign is sliced; OnchainTxHandler is a two-field skeleton with current_holder_commitment_tx / prev_holder_commitment_tx; signing itself is dropped and not claimed; assume_specification for Option::or (std definition; environment completeness)
//! trusted: R15 (deep slice): channel_reestablish: the statement `let required_revoke = ..;` verbatim as a function of the message and our commitment number (self is the skeleton {channel_state.in_progress, the three monitor_pending flags}; get_last_revoke_and_ack is a recorder returning an uninterpreted message; the relation between the two numbers established by the stale-state checks before it is the precondition, so the `debug_assert!(false)` of the last arm is proved unreachable)
//! trusted: R15 (deep slice): update_monitor: the arm of the step ChannelForceClosed verbatim as a function of the monitor (skeleton {lockdown_from_offchain, holder_tx_signed, funding_spend_confirmed, onchain_events_awaiting_threshold_conf, ghost log of queue_latest_holder_commitment_txn_for_broadcast calls}); the arm's `continue` is `return` (the loop body is the match alone); the two log-only branches after the broadcast are dropped; R6: `.iter().any(|event| P)` is an index loop carrying P verbatim, the quantifier written in the source selects the result (macro iter_quantifier!)
use vstd::prelude::*;
macro_rules! iter_quantifier { (any, $some:expr, $every:expr) => { $some }; (all, $some:expr, $every:expr) => { $every }; }
verus! {
use vstd::std_specs::cmp::*;
use core::cmp;
pub assume_specification<T: core::cmp::Ord>[core::cmp::max::<T>](a: T, b: T) -> (r: T)
    ensures T::obeys_cmp_spec() ==> r == (if b.cmp_spec(&a) == core::cmp::Ordering::Less { a } else { b });
pub assume_specification<T: core::cmp::Ord>[core::cmp::min::<T>](a: T, b: T) -> (r: T)
    ensures T::obeys_cmp_spec() ==> r == (if b.cmp_spec(&a) == core::cmp::Ordering::Less { b } else { a });
#[derive(Clone, Copy)] pub struct PublicKey(pub [u8; 33]);
#[derive(Clone, Copy)] pub struct Signature(pub [u8; 64]);
#[derive(Clone, Copy)] pub struct Message(pub [u8; 32]);
pub struct HTLCOutputInCommitment { pub amount_msat: u64, pub cltv_expiry: u32, pub offered: bool, pub transaction_output_index: Option<u32> }
pub struct CommitmentSigned { pub signature: Signature, pub htlc_signatures: Vec<Signature> }
pub struct CommitmentTransaction { pub nondust: Vec<HTLCOutputInCommitment> }
impl CommitmentTransaction {
    #[verifier::external_body] pub fn nondust_htlcs(&self) -> (r: &Vec<HTLCOutputInCommitment>) ensures *r == self.nondust { unimplemented!() }
}
pub struct CommitmentData { pub tx: CommitmentTransaction }
pub enum ChannelError { Close(u8) }
impl ChannelError {
    #[verifier::external_body] pub fn close(_m: u8) -> (r: ChannelError) { unimplemented!() }
}
// any signature scheme
pub uninterp spec fn sig_valid(m: Message, s: Signature, k: PublicKey) -> bool;
// the sighash of the second-stage transaction spending this HTLC output (built by chan_utils::build_htlc_transaction; opaque here)
pub uninterp spec fn htlc_sighash_of(h: HTLCOutputInCommitment) -> Message;
#[verifier::external_body]
pub fn compute_htlc_sighash(h: &HTLCOutputInCommitment) -> (r: Message) ensures r == htlc_sighash_of(*h) { unimplemented!() }
pub struct Secp256k1 {}
impl Secp256k1 {
    #[verifier::external_body]
    pub fn verify_ecdsa(&self, m: &Message, s: &Signature, k: &PublicKey) -> (r: Result<(), ()>)
        ensures r is Ok <==> sig_valid(*m, *s, *k)
    { unimplemented!() }
}
pub struct ChannelContext { pub secp_ctx: Secp256k1 }

impl ChannelContext {
//@extract lightning/src/ln/channel.rs :: impl ChannelContext :: fn validate_commitment_signed
//@strip msgs
//@rw R15
    fn validate_commitment_signed<F: FeeEstimator, L: Logger>($params:any) -> $ret { $p0:any let commitment_txid = { $q0:any if let Err(_) = self.secp_ctx.verify_ecdsa( &sighash, &msg.signature, &funding.counterparty_funding_pubkey(), ) { return Err($e1); } $q1:straight }; $p1:straight if $cnt:cond { return Err(ChannelError::close(format!( "Got wrong number of HTLC signatures ({}) from remote. It must be {}", $fa:any ))); } $p2:straight for (htlc, counterparty_sig) in commitment_data.tx.nondust_htlcs().iter().zip(msg.htlc_signatures.iter()) { $b:straight if let Err(_) = self.secp_ctx.verify_ecdsa( &htlc_sighash, &counterparty_sig, &holder_keys.countersignatory_htlc_key.to_public_key(), ) { return Err($e3); } } $rest:any }
//@with
    fn commitment_signed_signature_checks(&self, sighash: Message, commitment_data: &CommitmentData, msg: &CommitmentSigned,
        counterparty_funding_pubkey: PublicKey, countersignatory_htlc_key: PublicKey) -> Result<(), ChannelError>
    {
        if let Err(_) = self.secp_ctx.verify_ecdsa( &sighash, &msg.signature, &counterparty_funding_pubkey, ) { return Err(ChannelError::close(1)); }
        if $cnt { return Err(ChannelError::close(2)); }
        // R6: for (htlc, counterparty_sig) in A.iter().zip(B.iter())
        let mut __i: usize = 0;
        while __i < commitment_data.tx.nondust_htlcs().len() && __i < msg.htlc_signatures.len()
            invariant
                forall|k: int| 0 <= k < __i ==> sig_valid(htlc_sighash_of(#[trigger] commitment_data.tx.nondust@[k]), msg.htlc_signatures@[k], countersignatory_htlc_key),
            decreases commitment_data.tx.nondust@.len() - __i
        {
            let htlc = &commitment_data.tx.nondust_htlcs()[__i];
            let counterparty_sig = &msg.htlc_signatures[__i];
            let htlc_sighash = compute_htlc_sighash(htlc);
            if let Err(_) = self.secp_ctx.verify_ecdsa( &htlc_sighash, &counterparty_sig, &countersignatory_htlc_key, ) { return Err(ChannelError::close(3)); }
            __i = __i + 1;
        }
        Ok(())
    }
//@ret r
//@ensures P C05 a-commitment-is-accepted-only-when-its-signature-and-one-signature-per-non-dust-htlc-verify
    r is Ok ==> sig_valid(sighash, msg.signature, counterparty_funding_pubkey)
        && msg.htlc_signatures@.len() == commitment_data.tx.nondust@.len()
        && forall|k: int| 0 <= k < commitment_data.tx.nondust@.len() ==>
               sig_valid(htlc_sighash_of(#[trigger] commitment_data.tx.nondust@[k]), msg.htlc_signatures@[k], countersignatory_htlc_key),
//@mutant too_few_htlc_signatures_accepted
    msg.htlc_signatures.len() != commitment_data.tx.nondust_htlcs().len()
//@with
    msg.htlc_signatures.len() > commitment_data.tx.nondust_htlcs().len()
//@end
}

// ---- accepting the peer's revocation (R15 slice of FundedChannel::revoke_and_ack) ----
impl vstd::std_specs::cmp::PartialEqSpecImpl for PublicKey { open spec fn obeys_eq_spec() -> bool { true } open spec fn eq_spec(&self, other: &PublicKey) -> bool { *self == *other } }
impl PartialEq for PublicKey { #[verifier::external_body] fn eq(&self, o: &PublicKey) -> (r: bool) { self.0 == o.0 } }
#[derive(Clone, Copy)] pub struct SecretKey(pub [u8; 32]);
// the per-commitment point of a per-commitment secret (secp256k1 scalar multiplication; opaque)
pub uninterp spec fn point_of(s: SecretKey) -> PublicKey;
impl PublicKey {
    #[verifier::external_body] pub fn from_secret_key(_ctx: &Secp256k1, s: &SecretKey) -> (r: PublicKey) ensures r == point_of(*s) { unimplemented!() }
}
pub struct ChannelState { pub awaiting_remote_revoke: bool }
impl ChannelState {
    #[verifier::external_body] pub fn is_awaiting_remote_revoke(&self) -> (r: bool) ensures r == self.awaiting_remote_revoke { unimplemented!() }
    #[verifier::external_body] pub fn clear_awaiting_remote_revoke(&mut self) ensures !final(self).awaiting_remote_revoke { unimplemented!() }
    // other state predicates a guard could be written with (environment completeness): unconstrained, except that a channel that can
    // generate a new commitment is by definition (channel.rs: can_generate_new_commitment) not awaiting a remote revocation
    #[verifier::external_body] pub fn can_generate_new_commitment(&self) -> (r: bool) ensures r ==> !self.awaiting_remote_revoke { unimplemented!() }
    #[verifier::external_body] pub fn is_monitor_update_in_progress(&self) -> (r: bool) { unimplemented!() }
    #[verifier::external_body] pub fn is_peer_disconnected(&self) -> (r: bool) { unimplemented!() }
    #[verifier::external_body] pub fn is_quiescent(&self) -> (r: bool) { unimplemented!() }
    #[verifier::external_body] pub fn is_local_stfu_sent(&self) -> (r: bool) { unimplemented!() }
    #[verifier::external_body] pub fn is_remote_stfu_sent(&self) -> (r: bool) { unimplemented!() }
}
// CounterpartyCommitmentSecrets::provide_secret is verified in unit u05a; here only what it was asked to store is recorded
pub struct CounterpartyCommitmentSecrets { pub asked: Ghost<Seq<(u64, [u8; 32])>> }
impl CounterpartyCommitmentSecrets {
    #[verifier::external_body]
    pub fn provide_secret(&mut self, idx: u64, secret: [u8; 32]) -> (r: Result<(), ()>)
        ensures r is Ok ==> final(self).asked@ == old(self).asked@.push((idx, secret)), r is Err ==> final(self).asked@ == old(self).asked@
    { unimplemented!() }
}
pub struct RevokeAndACK { pub per_commitment_secret: [u8; 32], pub next_per_commitment_point: PublicKey }
pub struct RaaContext {
    pub secp_ctx: Secp256k1, pub channel_state: ChannelState, pub commitment_secrets: CounterpartyCommitmentSecrets,
    pub counterparty_current_commitment_point: Option<PublicKey>, pub counterparty_next_commitment_point: Option<PublicKey>,
    pub counterparty_next_commitment_transaction_number: u64,
}
pub struct FundedChannel { pub context: RaaContext }
impl FundedChannel {
    #[verifier::external_body] pub fn mark_response_received(&mut self) ensures final(self).context == old(self).context { unimplemented!() }
//@extract lightning/src/ln/channel.rs :: impl FundedChannel :: fn revoke_and_ack
//@strip msgs
//@rw R15
    fn revoke_and_ack<F: FeeEstimator, L: Logger>($params:any) -> $ret { $p0:any let secret = secp_check!($sk); $gates:any self.context .holder_signer .validate_counterparty_revocation($va) .map_err($vm)?; self.context .commitment_secrets .provide_secret($pa) .map_err(|_| { $pm })?; $mon:straight self.context.channel_state.clear_awaiting_remote_revoke(); self.mark_response_received(); $adv:straight if self.context.announcement_sigs_state == $as { $asb:any } $rest:any }
//@with
    fn accept_revocation(&mut self, msg: &RevokeAndACK, secret: SecretKey) -> Result<(), ChannelError> {
        $gates
        self.context.commitment_secrets.provide_secret($pa).map_err(|_e: ()| -> (o: ChannelError) { $pm })?;
        self.context.channel_state.clear_awaiting_remote_revoke();
        self.mark_response_received();
        $adv
        Ok(())
    }
//@rw R8 *
    ChannelError::close($m)
//@with
    ChannelError::close(0)
//@ret r
//@requires
    1 <= old(self).context.counterparty_next_commitment_transaction_number < 0x1_0000_0000_0000,
//@ensures P C05 a-revocation-is-accepted-only-when-one-is-due-its-secret-matches-the-point-the-peer-committed-to-and-it-is-stored-under-that-commitments-number
    r is Ok ==> old(self).context.channel_state.awaiting_remote_revoke
        && (old(self).context.counterparty_current_commitment_point is Some ==> point_of(secret) == old(self).context.counterparty_current_commitment_point->Some_0)
        && final(self).context.commitment_secrets.asked@ == old(self).context.commitment_secrets.asked@.push(
               ((old(self).context.counterparty_next_commitment_transaction_number + 1) as u64, msg.per_commitment_secret)),
//@ensures P C05 accepting-a-revocation-advances-the-peers-commitment-number-by-exactly-one-and-rotates-its-points
    r is Ok ==> final(self).context.counterparty_next_commitment_transaction_number == old(self).context.counterparty_next_commitment_transaction_number - 1
        && final(self).context.counterparty_current_commitment_point == old(self).context.counterparty_next_commitment_point
        && final(self).context.counterparty_next_commitment_point == Some(msg.next_per_commitment_point)
        && !final(self).context.channel_state.awaiting_remote_revoke,
//@mutant unexpected_revocation_accepted
    if !self.context.channel_state.is_awaiting_remote_revoke() {
//@with
    if false {
//@mutant secret_stored_under_the_wrong_number
    self.context.counterparty_next_commitment_transaction_number + 1, msg.per_commitment_secret,
//@with
    self.context.counterparty_next_commitment_transaction_number, msg.per_commitment_secret,
//@mutant secret_not_compared_with_the_committed_point
    != counterparty_current_commitment_point
//@with
    != counterparty_current_commitment_point && false
//@end
}

// ---- reconnection: never continue from a state the peer proves to be stale (R15 slice of FundedChannel::channel_reestablish) ----
//@extract lightning/src/ln/channel.rs :: const INITIAL_COMMITMENT_NUMBER
//@fold
//@end
impl SecretKey {
    #[verifier::external_body] pub fn from_slice(b: &[u8; 32]) -> (r: Result<SecretKey, ()>) ensures r is Ok ==> r->Ok_0.0 == *b { unimplemented!() }
}
pub struct ChannelReestablish { pub next_local_commitment_number: u64, pub next_remote_commitment_number: u64, pub your_last_per_commitment_secret: [u8; 32] }
pub struct Signer {}
impl Signer {
    #[verifier::external_body] pub fn get_per_commitment_point(&self, idx: u64, ctx: &Secp256k1) -> (r: Result<PublicKey, ()>) { unimplemented!() }
}
// field skeleton of HolderCommitmentPoint; the three accessors are verified on the real struct in unit u05b
pub struct HolderCommitmentPoint { pub next_transaction_number: u64, pub previous_revoked_point: Option<PublicKey>, pub last_revoked_point: Option<PublicKey> }
impl HolderCommitmentPoint {
    #[verifier::external_body] pub fn previous_revoked_point(&self) -> (r: Option<PublicKey>) ensures r == self.previous_revoked_point { unimplemented!() }
    #[verifier::external_body] pub fn last_revoked_point(&self) -> (r: Option<PublicKey>) ensures r == self.last_revoked_point { unimplemented!() }
    #[verifier::external_body] pub fn current_transaction_number(&self) -> (r: u64) requires self.next_transaction_number < u64::MAX ensures r == self.next_transaction_number + 1 { unimplemented!() }
}
pub struct ReestCtx { pub secp_ctx: Secp256k1, pub holder_signer: Signer, pub signer_pending_stale_state_verification: Option<(u64, SecretKey)> }
pub struct ReestChannel { pub context: ReestCtx, pub holder_commitment_point: HolderCommitmentPoint }
pub enum ReestError { Close(u8), Warn(u8), WarnAndDisconnect(u8) }
impl ReestError { #[verifier::external_body] pub fn close(_m: u8) -> (r: ReestError) { unimplemented!() } }
pub trait Logger {}
// how many of our commitments have been revoked so far, as channel_reestablish computes it
pub open spec fn our_revoked_count(c: ReestChannel) -> int { INITIAL_COMMITMENT_NUMBER - (c.holder_commitment_point.next_transaction_number + 1) }
impl ReestChannel {
    // logs and panics on purpose (the peer proved we lost state): never returns
    #[verifier::external_body] pub fn panic_on_stale_state<L: Logger>(logger: &L) ensures false { unimplemented!() }
//@extract lightning/src/ln/channel.rs :: impl FundedChannel :: fn channel_reestablish
//@strip msgs
//@rw R15
    fn channel_reestablish<L: Logger, NS: NodeSigner, CBP>($params:any) -> $ret where $w:any { if !self.context.channel_state.is_peer_disconnected() { $e0:any } $checks:any self.context.channel_state.clear_peer_disconnected(); $rest:any }
//@with
    fn reestablish_stale_state_checks<L: Logger>(&mut self, msg: &ChannelReestablish, logger: &L) -> Result<(), ReestError> {
        $checks
        Ok(())
    }
//@rw R8 *
    ChannelError::close($m)
//@with
    ReestError::close(0)
//@rw R8 *
    ChannelError::WarnAndDisconnect($m)
//@with
    ReestError::WarnAndDisconnect(0)
//@rw R8 *
    ChannelError::Warn($m)
//@with
    ReestError::Warn(0)
//@rw R9 *
    .map_err(|_| $e)?
//@with
    .map_err(|_e: ()| -> (o: ReestError) { $e })?
//@ret r
//@requires
    1 <= old(self).holder_commitment_point.next_transaction_number < INITIAL_COMMITMENT_NUMBER,
    // representation invariant of HolderCommitmentPoint (established by advance(), unit u05b): after n >= 1 (n >= 2) revocations the last (previous) revoked point is recorded
    our_revoked_count(*old(self)) >= 1 ==> old(self).holder_commitment_point.last_revoked_point is Some,
    our_revoked_count(*old(self)) >= 2 ==> old(self).holder_commitment_point.previous_revoked_point is Some,
//@ensures P C05 after-reconnection-the-channel-continues-only-if-the-peers-view-of-our-revocations-is-ours-or-one-behind-and-its-proof-secret-matches-the-revoked-point
    r is Ok ==> 1 <= msg.next_local_commitment_number < INITIAL_COMMITMENT_NUMBER
        && msg.next_remote_commitment_number as int <= our_revoked_count(*old(self))
        && msg.next_remote_commitment_number as int + 1 >= our_revoked_count(*old(self))
        && (msg.next_remote_commitment_number > 0 && msg.next_remote_commitment_number as int == our_revoked_count(*old(self))
              ==> Some(point_of(SecretKey(msg.your_last_per_commitment_secret))) == old(self).holder_commitment_point.last_revoked_point)
        && (msg.next_remote_commitment_number > 0 && msg.next_remote_commitment_number as int + 1 == our_revoked_count(*old(self))
              ==> Some(point_of(SecretKey(msg.your_last_per_commitment_secret))) == old(self).holder_commitment_point.previous_revoked_point),
//@mutant peer_ahead_of_us_tolerated
    if msg.next_remote_commitment_number > our_commitment_transaction {
//@with
    if msg.next_remote_commitment_number > our_commitment_transaction + 1 {
//@mutant proof_secret_not_compared
    if expected_point != PublicKey::from_secret_key(&self.context.secp_ctx, &given_secret) { return Err(ChannelError::close("Peer sent a garbage channel_reestablish with secret key not matching the commitment height provided".to_owned())); } } else if msg.next_remote_commitment_number + 1 == our_commitment_transaction {
//@with
    } else if msg.next_remote_commitment_number + 1 == our_commitment_transaction {
//@end
}

// ---- reconnection: a revoke_and_ack the peer did not get is sent again, now or as soon as the monitor update in flight completes ----
pub mod reest_resend {
use vstd::prelude::*;
use super::{ChannelReestablish, ReestError, Logger};
pub struct RevokeAndACK { pub id: u64 }
pub struct PathFn {}
pub struct ResendState { pub in_progress: bool }
impl ResendState { #[verifier::external_body] pub fn is_monitor_update_in_progress(&self) -> (r: bool) ensures r == self.in_progress { unimplemented!() } }
pub struct ResendCtx { pub channel_state: ResendState, pub monitor_pending_revoke_and_ack: bool, pub monitor_pending_commitment_signed: bool, pub monitor_pending_channel_ready: bool }
// `built_last_raa`: ghost record that get_last_revoke_and_ack was called (it builds the message from the signer, or notes that the signer owes it)
pub struct ResendChannel { pub context: ResendCtx, pub built_last_raa: Ghost<bool> }
pub uninterp spec fn last_raa_of(c: ResendChannel) -> Option<RevokeAndACK>;
impl ResendChannel {
    #[verifier::external_body] pub fn get_last_revoke_and_ack<L: Logger>(&mut self, path_for_release_htlc: &PathFn, logger: &L) -> (r: Option<RevokeAndACK>)
        ensures final(self).context == old(self).context, final(self).built_last_raa@, r == last_raa_of(*old(self)) { unimplemented!() }
//@extract lightning/src/ln/channel.rs :: impl FundedChannel :: fn channel_reestablish
//@strip msgs
//@slice R15
    let required_revoke = $e:any; let is_awaiting_remote_revoke
//@with
    fn revoke_and_ack_owed_after_reconnect<L: Logger>(&mut self, msg: &ChannelReestablish, our_commitment_transaction: u64, path_for_release_htlc: &PathFn, logger: &L) -> Result<Option<RevokeAndACK>, ReestError> {
        let required_revoke = $e;
        Ok(required_revoke) }
//@rw R8 *
    ChannelError::close($m)
//@with
    ReestError::close(0)
//@ret r
//@requires
    !old(self).built_last_raa@, our_commitment_transaction < u64::MAX,
    // established by the stale-state checks above it (reestablish_stale_state_checks): the peer is where we are or one revocation behind
    msg.next_remote_commitment_number <= our_commitment_transaction <= msg.next_remote_commitment_number + 1,
//@ensures P C01,C05 a-revocation-the-peer-did-not-get-is-sent-again-now-or-owed-when-the-monitor-update-in-flight-completes
    final(self).context.channel_state == old(self).context.channel_state,
    final(self).context.monitor_pending_commitment_signed == old(self).context.monitor_pending_commitment_signed,
    final(self).context.monitor_pending_channel_ready == old(self).context.monitor_pending_channel_ready,
    msg.next_remote_commitment_number == our_commitment_transaction ==>
        r == Ok::<Option<RevokeAndACK>, ReestError>(None) && !final(self).context.monitor_pending_revoke_and_ack && !final(self).built_last_raa@,
    msg.next_remote_commitment_number + 1 == our_commitment_transaction && old(self).context.channel_state.in_progress ==>
        r == Ok::<Option<RevokeAndACK>, ReestError>(None) && final(self).context.monitor_pending_revoke_and_ack && !final(self).built_last_raa@,
    msg.next_remote_commitment_number + 1 == our_commitment_transaction && !old(self).context.channel_state.in_progress ==>
        r == Ok::<Option<RevokeAndACK>, ReestError>(last_raa_of(*old(self))) && final(self).built_last_raa@
        && final(self).context.monitor_pending_revoke_and_ack == old(self).context.monitor_pending_revoke_and_ack,
//@mutant lost_revocation_forgotten_while_a_monitor_update_is_in_flight
    self.context.monitor_pending_revoke_and_ack = true;
//@with
    self.context.monitor_pending_commitment_signed = true;
//@mutant lost_revocation_sent_past_a_monitor_update_in_flight
    if self.context.channel_state.is_monitor_update_in_progress() { self.context.monitor_pending_revoke_and_ack = true;
//@with
    if false && self.context.channel_state.is_monitor_update_in_progress() { self.context.monitor_pending_revoke_and_ack = true;
//@end
}
}
// ---- restart: a channel whose manager state is older than its monitor is never resumed (deep R15 slice of ChannelManager::from_channel_manager_data) ----
// commitment numbers count down from 2^48 - 1: a larger number is an older state
pub struct RestartChanCtx { pub latest_monitor_update_id: u64 }
impl RestartChanCtx { #[verifier::external_body] pub fn get_latest_monitor_update_id(&self) -> (r: u64) ensures r == self.latest_monitor_update_id { unimplemented!() } }
pub struct RestartChan { pub context: RestartChanCtx, pub holder_num: u64, pub revoked_cp_num: u64, pub cur_cp_num: u64 }
impl RestartChan {
    #[verifier::external_body] pub fn get_cur_holder_commitment_transaction_number(&self) -> (r: u64) ensures r == self.holder_num { unimplemented!() }
    #[verifier::external_body] pub fn get_revoked_counterparty_commitment_transaction_number(&self) -> (r: u64) ensures r == self.revoked_cp_num { unimplemented!() }
    #[verifier::external_body] pub fn get_cur_counterparty_commitment_transaction_number(&self) -> (r: u64) ensures r == self.cur_cp_num { unimplemented!() }
}
pub struct RestartMon { pub holder_num: u64, pub min_seen_secret: u64, pub cur_cp_num: u64, pub latest_update_id: u64 }
impl RestartMon {
    #[verifier::external_body] pub fn get_cur_holder_commitment_number(&self) -> (r: u64) ensures r == self.holder_num { unimplemented!() }
    #[verifier::external_body] pub fn get_min_seen_secret(&self) -> (r: u64) ensures r == self.min_seen_secret { unimplemented!() }
    #[verifier::external_body] pub fn get_cur_counterparty_commitment_number(&self) -> (r: u64) ensures r == self.cur_cp_num { unimplemented!() }
    #[verifier::external_body] pub fn get_latest_update_id(&self) -> (r: u64) ensures r == self.latest_update_id { unimplemented!() }
}
//@extract lightning/src/ln/channelmanager.rs :: impl ChannelManager :: fn from_channel_manager_data
//@slice R15
    if let Some(ref mut monitor) = args.channel_monitors.get_mut(&channel_id) { if $stale:cond { $a:straight let shutdown_result = channel.force_shutdown(ClosureReason::OutdatedChannelManager);
//@with
    fn manager_is_behind_its_monitor(channel: &RestartChan, monitor: &RestartMon) -> bool { $stale }
//@ret stale
//@ensures P C05,C10 after-a-restart-a-channel-is-resumed-only-if-its-manager-state-is-at-least-as-new-as-its-monitor-in-all-four-counters
    !stale ==> channel.holder_num <= monitor.holder_num && channel.revoked_cp_num <= monitor.min_seen_secret
        && channel.cur_cp_num <= monitor.cur_cp_num && channel.context.latest_monitor_update_id >= monitor.latest_update_id,
    stale ==> channel.holder_num > monitor.holder_num || channel.revoked_cp_num > monitor.min_seen_secret
        || channel.cur_cp_num > monitor.cur_cp_num || channel.context.latest_monitor_update_id < monitor.latest_update_id,
//@mutant channel_with_unseen_revocations_resumed
    || channel.get_revoked_counterparty_commitment_transaction_number() > monitor.get_min_seen_secret()
//@with
    
//@end

// ---- ChannelMonitor: once the channel is closed (our commitment signed for broadcast, lockdown, or a funding spend seen) ----------
// no update that advances commitment state is accepted any more, so the broadcast commitment is never revoked behind the monitor's back
pub mod closed_monitor {
use vstd::prelude::*;
pub enum ChannelMonitorUpdateStep {
    LatestHolderCommitmentTXInfo { x: u8 }, LatestHolderCommitment { x: u8 }, LatestCounterpartyCommitmentTXInfo { x: u8 }, LatestCounterpartyCommitment { x: u8 },
    PaymentPreimage { x: u8 }, CommitmentSecret { x: u8 }, ChannelForceClosed { should_broadcast: bool }, ShutdownScript { x: u8 }, RenegotiatedFunding { x: u8 },
    RenegotiatedFundingLocked { x: u8 }, ReleasePaymentComplete { x: u8 },
}
pub open spec fn advances_channel_state(u: ChannelMonitorUpdateStep) -> bool { !(u is PaymentPreimage || u is ChannelForceClosed || u is ReleasePaymentComplete) }
pub struct ChannelMonitorImpl { pub funding_spend_seen: bool, pub lockdown_from_offchain: bool, pub holder_tx_signed: bool }
impl ChannelMonitorImpl {
//@extract lightning/src/chain/channelmonitor.rs :: impl ChannelMonitorImpl :: fn no_further_updates_allowed
//@ret r
//@ensures P C05,C10 a-monitor-counts-as-closed-once-a-funding-spend-was-seen-it-was-locked-down-or-its-holder-commitment-was-signed-for-broadcast
    r == (self.funding_spend_seen || self.lockdown_from_offchain || self.holder_tx_signed),
//@mutant signed_holder_commitment_does_not_close_the_monitor
    self.funding_spend_seen || self.lockdown_from_offchain || self.holder_tx_signed
//@with
    self.funding_spend_seen || self.lockdown_from_offchain
//@end
//@extract lightning/src/chain/channelmonitor.rs :: impl ChannelMonitorImpl :: fn update_monitor
//@slice R15
    for update in updates.updates.iter() { match update { $arms:any } } if ret.is_ok() && self.no_further_updates_allowed() && is_pre_close_update {
//@with
    fn step_is_a_pre_close_update(update: &ChannelMonitorUpdateStep) -> bool { let mut is_pre_close_update = false; match update { $arms } is_pre_close_update }
//@ret r
//@ensures P C05,C10 every-update-step-that-advances-commitment-state-is-classified-as-a-pre-close-update
    r == advances_channel_state(*update),
//@mutant commitment_secret_still_accepted_after_close
    |ChannelMonitorUpdateStep::CommitmentSecret { .. } |ChannelMonitorUpdateStep::RenegotiatedFunding { .. } |ChannelMonitorUpdateStep::RenegotiatedFundingLocked { .. } => is_pre_close_update = true,
//@with
    |ChannelMonitorUpdateStep::RenegotiatedFunding { .. } |ChannelMonitorUpdateStep::RenegotiatedFundingLocked { .. } => is_pre_close_update = true, ChannelMonitorUpdateStep::CommitmentSecret { .. } => {},
//@end
//@extract lightning/src/chain/channelmonitor.rs :: impl ChannelMonitorImpl :: fn update_monitor
//@slice R15
    if $c:cond { Err(()) } else { ret } }
//@with
    fn update_refused_on_closed_monitor(&self, ret: &Result<(), ()>, is_pre_close_update: bool) -> bool { $c }
//@ret r
//@ensures P C05,C10 an-otherwise-valid-update-that-advances-commitment-state-is-refused-once-the-monitor-is-closed
    r == (*ret is Ok && (self.funding_spend_seen || self.lockdown_from_offchain || self.holder_tx_signed) && is_pre_close_update),
//@end
}
}

// ---- update_monitor, step ChannelForceClosed: the monitor is locked down first, and our commitment is queued for broadcast
// exactly when the manager asked for it and no spend of the funding output has been seen confirmed -------------------------
pub mod force_closed_step {
use vstd::prelude::*;
pub struct Txid {}
pub enum OnchainEvent { HTLCUpdate { x: u8 }, MaturingOutput { x: u8 }, FundingSpendConfirmation { x: u8 }, HTLCSpendConfirmation { x: u8 }, AlternativeFundingConfirmation {} }
pub struct OnchainEventEntry { pub event: OnchainEvent, pub height: u32 }
pub struct Broadcaster {} pub struct Estimator {} pub struct Logger {}
// `queued`: ghost record of the call that hands our latest commitment to the claim handler (it marks it as signed: holder_tx_signed)
// funding_spend_seen (a spend was seen once, never cleared by a reorg) and funding_seen_onchain are in the skeleton so that a test written over them is verified rather than refused
pub struct ChannelMonitorImpl { pub lockdown_from_offchain: bool, pub holder_tx_signed: bool, pub funding_spend_confirmed: Option<Txid>, pub funding_spend_seen: bool, pub funding_seen_onchain: bool,
    pub onchain_events_awaiting_threshold_conf: Vec<OnchainEventEntry>, pub queued: Ghost<Seq<bool>> }
pub open spec fn spend_of_the_funding_output_seen_confirmed(m: ChannelMonitorImpl) -> bool {
    m.funding_spend_confirmed is Some || exists|k: int| 0 <= k < m.onchain_events_awaiting_threshold_conf@.len() && (#[trigger] m.onchain_events_awaiting_threshold_conf@[k]).event is FundingSpendConfirmation
}
impl ChannelMonitorImpl {
    #[verifier::external_body] pub fn queue_latest_holder_commitment_txn_for_broadcast(&mut self, broadcaster: &Broadcaster, fee_estimator: &Estimator, logger: &Logger, require_funding_seen: bool)
        ensures final(self).queued@ == old(self).queued@.push(require_funding_seen), final(self).holder_tx_signed, final(self).lockdown_from_offchain == old(self).lockdown_from_offchain,
            final(self).funding_spend_confirmed == old(self).funding_spend_confirmed, final(self).onchain_events_awaiting_threshold_conf == old(self).onchain_events_awaiting_threshold_conf { unimplemented!() }
//@extract lightning/src/chain/channelmonitor.rs :: impl ChannelMonitorImpl :: fn update_monitor
//@slice R15
    ChannelMonitorUpdateStep::ChannelForceClosed { should_broadcast } => { $lock:straight if $sb:cond { let detected_funding_spend = $fs:seq || self.onchain_events_awaiting_threshold_conf.iter().$q:ident(|event| $p:seq); if $det:cond { continue; } $bc:straight } else $rest:any }, ChannelMonitorUpdateStep::ShutdownScript
//@with
    fn apply_channel_force_closed(&mut self, should_broadcast: &bool, broadcaster: &Broadcaster, bounded_fee_estimator: Estimator, logger: &Logger) {
        $lock
        if $sb {
            // R6: `E.iter().any(|p| P)` / `.all(|p| P)` as an index loop carrying P verbatim
            let mut __some = false; let mut __every = true; let mut __i: usize = 0;
            while __i < self.onchain_events_awaiting_threshold_conf.len()
                invariant __i <= self.onchain_events_awaiting_threshold_conf@.len(),
                    __some == (exists|k: int| 0 <= k < __i && (#[trigger] self.onchain_events_awaiting_threshold_conf@[k]).event is FundingSpendConfirmation),
                    __every == (forall|k: int| 0 <= k < __i ==> (#[trigger] self.onchain_events_awaiting_threshold_conf@[k]).event is FundingSpendConfirmation),
                decreases self.onchain_events_awaiting_threshold_conf@.len() - __i
            { let event = &self.onchain_events_awaiting_threshold_conf[__i]; let __b: bool = $p; if __b { __some = true; } else { __every = false; } __i = __i + 1; }
            let detected_funding_spend = $fs || iter_quantifier!($q, __some, __every);
            // the loop body is this match alone: `continue` leaves the step
            if $det { return; }
            $bc
        } }
//@ensures P C05,C10 a-force-closed-step-locks-the-monitor-down-and-queues-our-commitment-for-broadcast-only-when-asked-to-and-no-funding-spend-was-seen-confirmed
    final(self).lockdown_from_offchain,
    *should_broadcast && !spend_of_the_funding_output_seen_confirmed(*old(self)) ==> final(self).queued@ == old(self).queued@.push(true) && final(self).holder_tx_signed,
    !(*should_broadcast && !spend_of_the_funding_output_seen_confirmed(*old(self))) ==> final(self).queued@ == old(self).queued@ && final(self).holder_tx_signed == old(self).holder_tx_signed,
//@mutant monitor_locked_down_only_when_it_broadcasts
    self.lockdown_from_offchain = true;
//@with
    self.lockdown_from_offchain = *should_broadcast;
//@mutant commitment_broadcast_unless_every_awaited_event_is_a_funding_spend
    self.onchain_events_awaiting_threshold_conf.iter().any( |event| matches!(event.event, OnchainEvent::FundingSpendConfirmation
//@with
    self.onchain_events_awaiting_threshold_conf.iter().all( |event| matches!(event.event, OnchainEvent::FundingSpendConfirmation
//@mutant commitment_broadcast_only_after_a_funding_spend_was_seen
    if detected_funding_spend {
//@with
    if !detected_funding_spend {
//@end
}
}

// ---- which holder commitment a funding-output claim signs (package.rs HolderFundingOutput) -----------------------------
pub mod holder_funding_claim {
use vstd::prelude::*;
pub assume_specification<T>[Option::<T>::or](a: Option<T>, b: Option<T>) -> (r: Option<T>) ensures r == (if a is Some { a } else { b });
pub struct HolderCommitmentTransaction { pub id: u64 }
pub struct OnchainTxHandler { pub holder_commitment: HolderCommitmentTransaction, pub prev_holder_commitment: Option<HolderCommitmentTransaction> }
impl OnchainTxHandler {
    pub fn current_holder_commitment_tx(&self) -> (r: &HolderCommitmentTransaction) ensures *r == self.holder_commitment { &self.holder_commitment }
    pub fn prev_holder_commitment_tx(&self) -> (r: Option<&HolderCommitmentTransaction>) ensures r is Some == self.prev_holder_commitment is Some, r is Some ==> *r->Some_0 == self.prev_holder_commitment->Some_0 { self.prev_holder_commitment.as_ref() }
}
pub struct HolderFundingOutput { pub commitment_tx: Option<HolderCommitmentTransaction> }
impl HolderFundingOutput {
//@extract lightning/src/chain/package.rs :: impl HolderFundingOutput :: fn get_maybe_signed_commitment_tx
//@slice R15
    let commitment_tx = $e:seq; let maybe_signed_tx = onchain_tx_handler.signer
//@with
    fn commitment_to_sign<'a>(&'a self, onchain_tx_handler: &'a OnchainTxHandler) -> &'a HolderCommitmentTransaction { $e }
//@ret r
//@ensures P C05,C10 a-funding-output-claim-signs-the-holder-commitment-it-was-created-for-or-failing-that-the-handlers-current-one-never-the-previous-one
    self.commitment_tx is Some ==> *r == self.commitment_tx->Some_0,
    self.commitment_tx is None ==> *r == onchain_tx_handler.holder_commitment,
//@mutant legacy_claim_signs_the_previous_commitment
    .unwrap_or(onchain_tx_handler.current_holder_commitment_tx());
//@with
    .or(onchain_tx_handler.prev_holder_commitment_tx()) .unwrap_or(onchain_tx_handler.current_holder_commitment_tx());
//@end
}
}
}
fn main() {}
