//! unit: u10
//! properties: C10
//! note: narrow claim for C10 (restart from a stale manager): blocked monitor updates that the loaded monitor already contains are dropped and newer ones kept; the close update generated for a channel whose manager is older than its monitor takes the update id right after the monitor's latest; an HTLC the stale manager still holds is looked up in the monitor by its source. Further kernel statements of C10's mechanisms are under contract in other units and tagged C10 there: the manager-older-than-monitor test (u05c), re-registering RAA blockers on reload (u02b), what FundedChannel::write leaves out (u12b), forgetting the peer's uncommitted updates (u01j)
//! trusted: R15 (deep slices): FundedChannel::on_startup_drop_completed_blocked_mon_updates_through (the retain closure body, log statement removed R3), ChannelManager::from_channel_manager_data (the expression of the close update's id; the test that matches a manager HTLC against the monitor's outbound HTLCs), reconcile_pending_htlcs_with_monitor (the body of the closure that decides which held forwards / intercepted HTLCs are purged), verbatim as functions; PendingUpdate / HTLCSource are skeletons; HTLCSource equality is structural
//! trusted: R15/R18 (deep slices of the function-local macro handle_in_flight_updates!): the predicate of the `.filter` that counts completed in-flight updates (the statement that tracks the maximum id is dropped) and the `replay` predicate of the `.retain`; the pushes of the background events and the bookkeeping around them are dropped and not claimed
//! assume: nothing here decides the crash-point quantifier of C10 (every prefix of the sequence of durable writes): that is a whole-history statement outside function contracts; only the listed statements of the recovery path are decided
use vstd::prelude::*;
verus! {
pub struct MonitorUpdate { pub update_id: u64 }
pub struct PendingUpdate { pub update: MonitorUpdate }
pub struct HTLCSource { pub id: u64 }
impl vstd::std_specs::cmp::PartialEqSpecImpl for HTLCSource { open spec fn obeys_eq_spec() -> bool { true } open spec fn eq_spec(&self, other: &HTLCSource) -> bool { *self == *other } }
impl PartialEq for HTLCSource { #[verifier::external_body] fn eq(&self, o: &HTLCSource) -> (r: bool) { unimplemented!() } }
//@extract lightning/src/ln/channel.rs :: impl FundedChannel :: fn on_startup_drop_completed_blocked_mon_updates_through
//@slice R15
    self.context.blocked_monitor_updates.retain(|update| { $body:any });
//@with
    fn blocked_update_is_kept_on_startup(update: &PendingUpdate, loaded_mon_update_id: u64) -> bool { $body }
//@ret r
//@ensures P C10 on-startup-a-blocked-monitor-update-the-loaded-monitor-already-contains-is-dropped-and-a-newer-one-is-kept
    r == (update.update.update_id > loaded_mon_update_id),
//@mutant update_the_monitor_lacks_dropped
    update.update.update_id <= loaded_mon_update_id
//@with
    update.update.update_id <= loaded_mon_update_id + 1
//@end
//@extract lightning/src/ln/channelmanager.rs :: impl ChannelManager :: fn from_channel_manager_data
//@slice R15
    let latest_update_id = $e:seq; update.update_id = latest_update_id;
//@with
    fn close_update_id_for_stale_manager(monitor: &MonitorStub) -> u64 { $e }
//@ret r
//@ensures P C10 the-close-update-for-a-channel-whose-manager-is-stale-takes-the-id-right-after-the-monitors-latest
    monitor.latest < u64::MAX ==> r == monitor.latest + 1,
//@end
//@extract lightning/src/ln/channelmanager.rs :: impl ChannelManager :: fn from_channel_manager_data
//@slice R15
    for (monitor_htlc_source, _) in monitor.get_all_current_outbound_htlcs() { if $c:cond { found_htlc = true; break; } }
//@with
    fn manager_htlc_is_the_monitors(channel_htlc_source: &HTLCSource, monitor_htlc_source: HTLCSource) -> bool { $c }
//@ret r
//@ensures P C10 an-htlc-of-the-stale-manager-counts-as-known-to-the-monitor-only-if-the-monitor-holds-that-very-htlc
    r == (*channel_htlc_source == monitor_htlc_source),
//@end
#[derive(Clone, Copy)] pub struct OutPoint { pub txid: u64, pub index: u16 }
impl vstd::std_specs::cmp::PartialEqSpecImpl for OutPoint { open spec fn obeys_eq_spec() -> bool { true } open spec fn eq_spec(&self, other: &OutPoint) -> bool { *self == *other } }
impl PartialEq for OutPoint { #[verifier::external_body] fn eq(&self, o: &OutPoint) -> (r: bool) { unimplemented!() } }
pub struct PendingAddHTLCInfo { pub prev_funding_outpoint: OutPoint, pub prev_htlc_id: u64 }
pub struct HTLCPreviousHopData { pub outpoint: OutPoint, pub htlc_id: u64 }
//@extract lightning/src/ln/channelmanager.rs :: fn reconcile_pending_htlcs_with_monitor
//@slice R15
    let pending_forward_matches_htlc = |info: &PendingAddHTLCInfo| $e:seq;
//@with
    fn pending_forward_is_the_monitors_htlc(info: &PendingAddHTLCInfo, prev_hop_data: &HTLCPreviousHopData) -> bool { $e }
//@ret r
//@ensures P C10 on-restart-a-held-forward-is-purged-only-if-it-is-the-very-htlc-same-inbound-channel-and-id-that-the-closed-channels-monitor-took-over
    r == (info.prev_funding_outpoint == prev_hop_data.outpoint && info.prev_htlc_id == prev_hop_data.htlc_id),
//@mutant any_inbound_channels_htlc_with_that_id_purged
    info.prev_funding_outpoint == prev_hop_data.outpoint && info.prev_htlc_id == prev_hop_data.htlc_id
//@with
    info.prev_htlc_id == prev_hop_data.htlc_id
//@end
// handle_in_flight_updates! (function-local macro of from_channel_manager_data): which in-flight updates of the stale manager count as completed
// and which are replayed into the loaded monitor
//@extract lightning/src/ln/channelmanager.rs :: impl ChannelManager :: fn from_channel_manager_data
//@metavars
//@slice R15
    .filter(|update| { max_in_flight_update_id = cmp::max(max_in_flight_update_id, update.update_id); $p:seq }) .count();
//@with
    fn in_flight_update_counts_as_completed(update: &MonitorUpdate, m_monitor: &MonitorStub) -> bool { $p }
//@ret r
//@ensures P C10 an-in-flight-update-counts-as-completed-on-restart-exactly-when-the-loaded-monitor-already-contains-it
    r == (update.update_id <= m_monitor.latest),
//@end
//@extract lightning/src/ln/channelmanager.rs :: impl ChannelManager :: fn from_channel_manager_data
//@metavars
//@slice R15
    let replay = $e:seq; if replay {
//@with
    fn in_flight_update_is_replayed(update: &MonitorUpdate, m_monitor: &MonitorStub) -> bool { let replay = $e; replay }
//@ret r
//@ensures P C10 an-in-flight-update-is-replayed-on-restart-exactly-when-the-loaded-monitor-does-not-contain-it-yet
    r == (update.update_id > m_monitor.latest),
//@mutant update_the_monitor_already_has_replayed
    let replay = update.update_id > m_monitor.get_latest_update_id();
//@with
    let replay = update.update_id >= m_monitor.get_latest_update_id();
//@end
pub struct MonitorStub { pub latest: u64 }
impl MonitorStub { #[verifier::external_body] pub fn get_latest_update_id(&self) -> (r: u64) ensures r == self.latest { unimplemented!() } }
}
fn main() {}
