//! unit: u10
//! properties: C10 C05 C11
//! note: also run for C05, C11: the code it constrains lies inside mechanisms those properties name (a change made there for their sake must meet these clauses too)
//! note: narrow claim for C10 (restart from a stale manager): blocked monitor updates that the loaded monitor already contains are dropped and newer ones kept; the close update generated for a channel whose manager is older than its monitor takes the update id right after the monitor's latest; an HTLC the stale manager still holds is looked up in the monitor by its source. Further kernel statements of C10's mechanisms are under contract in other units and tagged C10 there: the manager-older-than-monitor test (u05c), re-registering RAA blockers on reload (u02b), what FundedChannel::write leaves out (u12b), forgetting the peer's uncommitted updates (u01j)
//! trusted: R15 (deep slices): FundedChannel::on_startup_drop_completed_blocked_mon_updates_through (the retain closure body, log statement removed R3), ChannelManager::from_channel_manager_data (the expression of the close update's id; the test that matches a manager HTLC against the monitor's outbound HTLCs), reconcile_pending_htlcs_with_monitor (the body of the closure that decides which held forwards / intercepted HTLCs are purged), verbatim as functions; PendingUpdate / HTLCSource are skeletons; HTLCSource equality is structural
//! trusted: R15/R18 (deep slices of the function-local macro handle_in_flight_updates!): the predicate of the `.filter` that counts completed in-flight updates (the statement that tracks the maximum id is dropped) and the `replay` predicate of the `.retain`; the pushes of the background events and the bookkeeping around them are dropped and not claimed
//! trusted: R15 (deep slices): process_background_events: the match that acts on one background event (R5: the manager is a stub whose three callees record their arguments in a ghost log; `&self` written `&mut self`) and the empty / non-empty result; PersistenceNotifierGuard::optionally_notify: the match that combines the operation's and the background events' notification, verbatim; handle_post_event_actions: the statements of the ReleasePaymentComplete arm that advance the closed channel's update id, build the update and test whether start-up is finished (ChannelMonitorUpdate instantiated as the skeleton PostCloseUpdate, R5); BackgroundEvent and NotifyOption are extracted (PublicKey, ChannelId, OutPoint, ChannelMonitorUpdate skeletons)
//! trusted: R15 (deep slices) of from_channel_manager_data, stale-manager branch: the loop body that queues the HTLCs force_shutdown handed back, the `if !found_htlc` block (the logger statements in front of the push are dropped) and the value the closed channel's update-id entry takes (`and_modify` closure body and `or_insert` argument; the HashMap entry chain is dropped), verbatim as functions
//! trusted: R15 (captures): the PersistenceNotifierGuard constructor named in blocks_disconnected / transactions_confirmed / best_block_updated / transaction_unconfirmed of ChannelManager, compared by macro with the one constructor that does not run process_background_events
//! trusted: release_update: R15 (deep slice, //@oneof: with or without an else branch): handle_post_event_actions, arm ReleasePaymentCompleteChannelMonitorUpdate, from the id increment to the end of the arm, verbatim as a method of a skeleton {start-up flag, pending background events, ghost log of updates applied through handle_post_close_monitor_update}; the two guard drops are removed (R8: the guards are not modelled)
//! assume: nothing here decides the crash-point quantifier of C10 (every prefix of the sequence of durable writes): that is a whole-history statement outside function contracts; only the listed statements of the recovery path are decided
use vstd::prelude::*;
// which constructor of PersistenceNotifierGuard a method uses: only this one does not run process_background_events
macro_rules! guard_ctor_skips_background_events { (optionally_notify_skipping_background_events) => { true }; ($other:ident) => { false }; }
verus! {
pub struct MonitorUpdate { pub update_id: u64 }
pub struct PendingUpdate { pub update: MonitorUpdate }
pub struct HTLCSource { pub id: u64 }
impl vstd::std_specs::cmp::PartialEqSpecImpl for HTLCSource { open spec fn obeys_eq_spec() -> bool { true } open spec fn eq_spec(&self, other: &HTLCSource) -> bool { *self == *other } }
impl PartialEq for HTLCSource { #[verifier::external_body] fn eq(&self, o: &HTLCSource) -> (r: bool) { unimplemented!() } }
//@extract lightning/src/ln/channel.rs :: impl FundedChannel :: fn on_startup_drop_completed_blocked_mon_updates_through
//@slice R15
    self.context.blocked_monitor_updates.retain(|update| { $body:any });
//@with
    fn blocked_update_is_kept_on_startup(update: &PendingUpdate, loaded_mon_update_id: u64) -> bool { $body }
//@ret r
//@ensures P C10 on-startup-a-blocked-monitor-update-the-loaded-monitor-already-contains-is-dropped-and-a-newer-one-is-kept
    r == (update.update.update_id > loaded_mon_update_id),
//@mutant update_the_monitor_lacks_dropped
    update.update.update_id <= loaded_mon_update_id
//@with
    update.update.update_id <= loaded_mon_update_id + 1
//@end
//@extract lightning/src/ln/channelmanager.rs :: impl ChannelManager :: fn from_channel_manager_data
//@slice R15
    let latest_update_id = $e:seq; update.update_id = latest_update_id;
//@with
    fn close_update_id_for_stale_manager(monitor: &MonitorStub) -> u64 { $e }
//@ret r
//@ensures P C10 the-close-update-for-a-channel-whose-manager-is-stale-takes-the-id-right-after-the-monitors-latest
    monitor.latest < u64::MAX ==> r == monitor.latest + 1,
//@end
//@extract lightning/src/ln/channelmanager.rs :: impl ChannelManager :: fn from_channel_manager_data
//@slice R15
    for (monitor_htlc_source, _) in monitor.get_all_current_outbound_htlcs() { if $c:cond { found_htlc = true; break; } }
//@with
    fn manager_htlc_is_the_monitors(channel_htlc_source: &HTLCSource, monitor_htlc_source: HTLCSource) -> bool { $c }
//@ret r
//@ensures P C10 an-htlc-of-the-stale-manager-counts-as-known-to-the-monitor-only-if-the-monitor-holds-that-very-htlc
    r == (*channel_htlc_source == monitor_htlc_source),
//@end
#[derive(Clone, Copy)] pub struct OutPoint { pub txid: u64, pub index: u16 }
impl vstd::std_specs::cmp::PartialEqSpecImpl for OutPoint { open spec fn obeys_eq_spec() -> bool { true } open spec fn eq_spec(&self, other: &OutPoint) -> bool { *self == *other } }
impl PartialEq for OutPoint { #[verifier::external_body] fn eq(&self, o: &OutPoint) -> (r: bool) { unimplemented!() } }
// field skeletons with every field of the real structs that identifies the inbound edge (a change that compares other identifying fields is verified, not rejected)
#[derive(Clone, Copy)] pub struct NodeKey { pub id: u64 }
impl vstd::std_specs::cmp::PartialEqSpecImpl for NodeKey { open spec fn obeys_eq_spec() -> bool { true } open spec fn eq_spec(&self, other: &NodeKey) -> bool { *self == *other } }
impl PartialEq for NodeKey { #[verifier::external_body] fn eq(&self, o: &NodeKey) -> (r: bool) { unimplemented!() } }
#[derive(Clone, Copy)] pub struct ChanId { pub id: u64 }
impl vstd::std_specs::cmp::PartialEqSpecImpl for ChanId { open spec fn obeys_eq_spec() -> bool { true } open spec fn eq_spec(&self, other: &ChanId) -> bool { *self == *other } }
impl PartialEq for ChanId { #[verifier::external_body] fn eq(&self, o: &ChanId) -> (r: bool) { unimplemented!() } }
pub struct PendingAddHTLCInfo { pub prev_funding_outpoint: OutPoint, pub prev_htlc_id: u64, pub prev_outbound_scid_alias: u64, pub prev_counterparty_node_id: NodeKey, pub prev_channel_id: ChanId, pub prev_user_channel_id: u128 }
pub struct HTLCPreviousHopData { pub outpoint: OutPoint, pub htlc_id: u64, pub prev_outbound_scid_alias: u64, pub user_channel_id: Option<u128>, pub counterparty_node_id: Option<NodeKey>, pub channel_id: ChanId, pub amount_msat: Option<u64>, pub cltv_expiry: Option<u32> }
//@extract lightning/src/ln/channelmanager.rs :: fn reconcile_pending_htlcs_with_monitor
//@slice R15
    let pending_forward_matches_htlc = |info: &PendingAddHTLCInfo| $e:seq;
//@with
    fn pending_forward_is_the_monitors_htlc(info: &PendingAddHTLCInfo, prev_hop_data: &HTLCPreviousHopData) -> bool { $e }
//@ret r
//@ensures P C10 on-restart-a-held-forward-is-purged-only-if-it-is-the-very-htlc-same-inbound-channel-and-id-that-the-closed-channels-monitor-took-over
    r == (info.prev_funding_outpoint == prev_hop_data.outpoint && info.prev_htlc_id == prev_hop_data.htlc_id),
//@mutant any_inbound_channels_htlc_with_that_id_purged
    info.prev_funding_outpoint == prev_hop_data.outpoint && info.prev_htlc_id == prev_hop_data.htlc_id
//@with
    info.prev_htlc_id == prev_hop_data.htlc_id
//@end
// handle_in_flight_updates! (function-local macro of from_channel_manager_data): which in-flight updates of the stale manager count as completed
// and which are replayed into the loaded monitor
//@extract lightning/src/ln/channelmanager.rs :: impl ChannelManager :: fn from_channel_manager_data
//@metavars
//@slice R15
    .filter(|update| { max_in_flight_update_id = cmp::max(max_in_flight_update_id, update.update_id); $p:seq }) .count();
//@with
    fn in_flight_update_counts_as_completed(update: &MonitorUpdate, m_monitor: &MonitorStub) -> bool { $p }
//@ret r
//@ensures P C10 an-in-flight-update-counts-as-completed-on-restart-exactly-when-the-loaded-monitor-already-contains-it
    r == (update.update_id <= m_monitor.latest),
//@end
//@extract lightning/src/ln/channelmanager.rs :: impl ChannelManager :: fn from_channel_manager_data
//@metavars
//@slice R15
    let replay = $e:seq; if replay {
//@with
    fn in_flight_update_is_replayed(update: &MonitorUpdate, m_monitor: &MonitorStub) -> bool { let replay = $e; replay }
//@ret r
//@ensures P C10 an-in-flight-update-is-replayed-on-restart-exactly-when-the-loaded-monitor-does-not-contain-it-yet
    r == (update.update_id > m_monitor.latest),
//@mutant update_the_monitor_already_has_replayed
    let replay = update.update_id > m_monitor.get_latest_update_id();
//@with
    let replay = update.update_id >= m_monitor.get_latest_update_id();
//@end
// (finding F17) whether the channel is resumed at start-up because the updates that were in flight have all reached the monitor: never when the
// monitor allows no further updates - while the node ran, such a monitor kept those updates "in progress" until its own event closed the channel, and a
// channel resumed before that event is processed answers a reconnecting peer with the revocation of the commitment the monitor has broadcast
//@extract lightning/src/ln/channelmanager.rs :: impl ChannelManager :: fn from_channel_manager_data
//@metavars
//@slice R15
    let all_updates_completed = $e:seq; let funding_txo = m_monitor.get_funding_txo();
//@with
    fn channel_is_resumed_at_start_up(num_updates_completed: usize, m_chan_in_flight_upds: &Vec<MonitorUpdate>, m_monitor: &MonitorStub) -> bool { let all_updates_completed = $e; all_updates_completed }
//@ret r
//@ensures P C05,C10 a-channel-whose-monitor-allows-no-further-updates-is-not-resumed-at-start-up-and-any-other-exactly-when-every-in-flight-update-reached-the-monitor
    r == (num_updates_completed == m_chan_in_flight_upds@.len() && !m_monitor.closed),
//@mutant channel_resumed_although_its_monitor_went_on_chain
    && !m_monitor.no_further_updates_allowed()
//@with

//@end
// ---- background events regenerated at start-up are acted on first, and acting on them makes the manager persist again ----------
pub mod background {
use vstd::prelude::*;
#[derive(Clone, Copy)] pub struct PublicKey { pub id: u64 }
#[derive(Clone, Copy)] pub struct ChannelId { pub id: u64 }
#[derive(Clone, Copy)] pub struct OutPoint { pub txid: u64, pub index: u16 }
pub struct ChannelMonitorUpdate { pub update_id: u64 }
pub struct BlockingAction { pub id: u64 }
//@extract lightning/src/ln/channelmanager.rs :: enum BackgroundEvent
//@end
//@extract lightning/src/ln/channelmanager.rs :: enum NotifyOption
//@end
pub enum Did {
    AppliedPostCloseUpdate { counterparty_node_id: PublicKey, channel_id: ChannelId, funding_txo: OutPoint, update: ChannelMonitorUpdate },
    MonitorUpdated { channel_id: ChannelId, highest_applied_update_id: Option<u64>, counterparty_node_id: PublicKey },
    ReleasedHeldUpdates { counterparty_node_id: PublicKey, channel_id: ChannelId, completed_blocker: Option<BlockingAction> },
}
pub struct Manager { pub did: Ghost<Seq<Did>> }
impl Manager {
    #[verifier::external_body] pub fn apply_post_close_monitor_update(&mut self, counterparty_node_id: PublicKey, channel_id: ChannelId, funding_txo: OutPoint, update: ChannelMonitorUpdate)
        ensures final(self).did@ == old(self).did@.push(Did::AppliedPostCloseUpdate { counterparty_node_id, channel_id, funding_txo, update }) { unimplemented!() }
    #[verifier::external_body] pub fn channel_monitor_updated(&mut self, channel_id: &ChannelId, highest_applied_update_id: Option<u64>, counterparty_node_id: &PublicKey)
        ensures final(self).did@ == old(self).did@.push(Did::MonitorUpdated { channel_id: *channel_id, highest_applied_update_id, counterparty_node_id: *counterparty_node_id }) { unimplemented!() }
    #[verifier::external_body] pub fn handle_monitor_update_release(&mut self, counterparty_node_id: PublicKey, channel_id: ChannelId, completed_blocker: Option<BlockingAction>)
        ensures final(self).did@ == old(self).did@.push(Did::ReleasedHeldUpdates { counterparty_node_id, channel_id, completed_blocker }) { unimplemented!() }
//@extract lightning/src/ln/channelmanager.rs :: impl ChannelManager :: fn process_background_events
//@slice R15
    for event in background_events.drain(..) { match event { $arms:any } } NotifyOption::DoPersist
//@with
    fn act_on_background_event(&mut self, event: BackgroundEvent) { match event { $arms } }
//@ensures P C10 each-background-event-regenerated-at-start-up-is-acted-on-with-exactly-the-channel-peer-and-update-it-names
    final(self).did@ == old(self).did@.push(match event {
        BackgroundEvent::MonitorUpdateRegeneratedOnStartup { counterparty_node_id, funding_txo, channel_id, update } => Did::AppliedPostCloseUpdate { counterparty_node_id, channel_id, funding_txo, update },
        BackgroundEvent::MonitorUpdatesComplete { counterparty_node_id, channel_id, highest_update_id_completed } => Did::MonitorUpdated { channel_id, highest_applied_update_id: Some(highest_update_id_completed), counterparty_node_id },
        BackgroundEvent::AttemptUnblockMonitorUpdates { counterparty_node_id, channel_id } => Did::ReleasedHeldUpdates { counterparty_node_id, channel_id, completed_blocker: None },
    }),
//@mutant completed_updates_reported_without_their_highest_id
    Some(highest_update_id_completed),
//@with
    None,
//@end
}
//@extract lightning/src/ln/channelmanager.rs :: impl ChannelManager :: fn process_background_events
//@slice R15
    if background_events.is_empty() { return $none:seq; } for event in background_events.drain(..) { $body:any } $some:seq }
//@with
    fn persist_after_background_events(background_events: &Vec<BackgroundEvent>) -> NotifyOption { if background_events.is_empty() { return $none; } $some }
//@ret r
//@ensures P C10 acting-on-any-background-event-makes-the-manager-persist-again
    background_events@.len() > 0 ==> r is DoPersist,
    background_events@.len() == 0 ==> r is SkipPersistNoEvents,
//@end
// an event the user has handled releases a monitor update for a closed channel: next id of that channel, held back for the background events while starting up
pub struct SentHTLCId { pub id: u64 }
pub enum ChannelMonitorUpdateStep { ReleasePaymentComplete { htlc: SentHTLCId }, Other }
pub struct PostCloseUpdate { pub update_id: u64, pub channel_id: Option<ChannelId>, pub updates: Vec<ChannelMonitorUpdateStep> }
pub struct AtomicFlag { pub v: bool }
pub enum Ordering { Acquire, Release, Relaxed }
impl AtomicFlag { #[verifier::external_body] pub fn load(&self, o: Ordering) -> (r: bool) ensures r == self.v { unimplemented!() } }
//@extract lightning/src/ln/channelmanager.rs :: impl PersistenceNotifierGuard :: fn optionally_notify
//@slice R15
    let notify = persist_check(); match (notify, force_notify) { $arms:any }
//@with
    fn most_of_the_two_notifications(notify: NotifyOption, force_notify: NotifyOption) -> NotifyOption { match (notify, force_notify) { $arms } }
//@ret r
//@ensures P C10 a-persist-demanded-by-the-background-events-is-never-downgraded-by-the-operation-that-ran-them
    (notify is DoPersist || force_notify is DoPersist) ==> r is DoPersist,
    !(notify is DoPersist || force_notify is DoPersist) && (notify is SkipPersistHandleEvents || force_notify is SkipPersistHandleEvents) ==> r is SkipPersistHandleEvents,
    (notify is SkipPersistNoEvents && force_notify is SkipPersistNoEvents) ==> r is SkipPersistNoEvents,
//@mutant background_persist_dropped_when_the_operation_skips
    (_, NotifyOption::DoPersist) => NotifyOption::DoPersist,
//@with
    (_, NotifyOption::DoPersist) => NotifyOption::SkipPersistHandleEvents,
//@end
}
pub mod release_update {
use vstd::prelude::*;
#[derive(Clone, Copy)] pub struct PublicKey { pub id: u64 }
#[derive(Clone, Copy)] pub struct ChannelId { pub id: u64 }
pub struct SentHTLCId { pub id: u64 }
pub enum ChannelMonitorUpdateStep { ReleasePaymentComplete { htlc: SentHTLCId }, Other }
pub struct PostCloseUpdate { pub update_id: u64, pub channel_id: Option<ChannelId>, pub updates: Vec<ChannelMonitorUpdateStep> }
pub struct AtomicFlag { pub v: bool }
pub enum Ordering { Acquire, Release, Relaxed }
impl AtomicFlag { #[verifier::external_body] pub fn load(&self, o: Ordering) -> (r: bool) ensures r == self.v { unimplemented!() } }
#[derive(Clone, Copy)] pub struct OutPoint { pub id: u64 }
pub struct PostCloseUpdateSpec { pub update_id: u64, pub channel_id: Option<ChannelId>, pub htlc: SentHTLCId }
pub open spec fn same_update(u: PostCloseUpdate, s: PostCloseUpdateSpec) -> bool {
    u.update_id == s.update_id && u.channel_id == s.channel_id && u.updates@ =~= seq![ChannelMonitorUpdateStep::ReleasePaymentComplete { htlc: s.htlc }]
}
pub enum BackgroundEvent { MonitorUpdateRegeneratedOnStartup { counterparty_node_id: PublicKey, funding_txo: OutPoint, channel_id: ChannelId, update: PostCloseUpdate }, Other }
pub open spec fn regenerated_for(e: BackgroundEvent, cp: PublicKey, txo: OutPoint, chan: ChannelId, s: PostCloseUpdateSpec) -> bool {
    e matches BackgroundEvent::MonitorUpdateRegeneratedOnStartup { counterparty_node_id, funding_txo, channel_id, update }
        && counterparty_node_id == cp && funding_txo == txo && channel_id == chan && same_update(update, s)
}
pub struct BackgroundEvents { pub v: Vec<BackgroundEvent> }
impl BackgroundEvents { #[verifier::external_body] pub fn push(&mut self, e: BackgroundEvent) ensures final(self).v@ == old(self).v@.push(e) { unimplemented!() } }
pub struct InFlight {} pub struct Blocked {} pub struct Actions {}
pub struct PeerStateStub { pub in_flight_monitor_updates: InFlight, pub monitor_update_blocked_actions: Blocked }
pub struct StartUp { pub background_events_processed_since_startup: AtomicFlag, pub pending_background_events: BackgroundEvents, pub applied: Ghost<Seq<PostCloseUpdate>> }
impl StartUp {
    // applies the update to the closed channel's monitor (recorded)
    #[verifier::external_body] pub fn handle_post_close_monitor_update(&mut self, in_flight: &mut InFlight, blocked: &mut Blocked, funding_txo: OutPoint, update: PostCloseUpdate, counterparty_node_id: PublicKey, channel_id: ChannelId) -> (r: Option<Actions>)
        ensures final(self).applied@ == old(self).applied@.push(update), final(self).pending_background_events == old(self).pending_background_events,
            final(self).background_events_processed_since_startup == old(self).background_events_processed_since_startup { unimplemented!() }
    #[verifier::external_body] pub fn handle_monitor_update_completion_actions(&mut self, actions: Actions)
        ensures final(self).applied == old(self).applied, final(self).pending_background_events == old(self).pending_background_events,
            final(self).background_events_processed_since_startup == old(self).background_events_processed_since_startup { unimplemented!() }
//@extract lightning/src/ln/channelmanager.rs :: impl ChannelManager :: fn handle_post_event_actions
//@oneof release_update
//@slice R15
    *update_id = update_id.saturating_add(1); let update = $u:seq; let during_startup = $d:seq; if $c:cond { $then:any } else { $else:any } },
//@with
    fn release_payment_complete_update(&mut self, update_id: &mut u64, channel_id: ChannelId, htlc_id: SentHTLCId, counterparty_node_id: PublicKey, channel_funding_outpoint: OutPoint, peer_state: &mut PeerStateStub) -> bool {
        *update_id = update_id.saturating_add(1); let update = $u; let during_startup = $d; if $c { $then } else { $else } during_startup }
//@rw R5
    let update = ChannelMonitorUpdate {
//@with
    let update = PostCloseUpdate {
//@rw R5 ?
    self.pending_background_events.lock().unwrap().push(event);
//@with
    self.pending_background_events.push(event);
//@rw R8 ?
    mem::drop(peer_state_lock); mem::drop(per_peer_state);
//@with
//@ret r
//@ensures P C10 the-update-that-releases-a-completed-payment-takes-the-closed-channels-next-id-names-that-channel-and-htlc-and-is-queued-not-applied-while-start-up-is-unfinished
    *final(update_id) == (if *old(update_id) == u64::MAX { u64::MAX } else { (*old(update_id) + 1) as u64 }),
    r == !old(self).background_events_processed_since_startup.v,
    ({ let upd = PostCloseUpdateSpec { update_id: *final(update_id), channel_id: Some(channel_id), htlc: htlc_id };
       &&& r ==> final(self).pending_background_events.v@.len() == old(self).pending_background_events.v@.len() + 1
                 && final(self).pending_background_events.v@.drop_last() =~= old(self).pending_background_events.v@
                 && regenerated_for(final(self).pending_background_events.v@.last(), counterparty_node_id, channel_funding_outpoint, channel_id, upd)
                 && final(self).applied@ == old(self).applied@
       &&& !r ==> final(self).pending_background_events.v@ == old(self).pending_background_events.v@
                 && final(self).applied@.len() == old(self).applied@.len() + 1 && final(self).applied@.drop_last() =~= old(self).applied@
                 && same_update(final(self).applied@.last(), upd) }),
//@mutant release_update_reuses_the_last_id
    let update = ChannelMonitorUpdate { update_id: *update_id,
//@with
    let update = ChannelMonitorUpdate { update_id: *update_id - 1,
//@mutant release_update_applied_at_once_during_start_up
    if during_startup {
//@with
    if false && during_startup {
//@end
//@extract lightning/src/ln/channelmanager.rs :: impl ChannelManager :: fn handle_post_event_actions
//@oneof release_update
//@slice R15
    *update_id = update_id.saturating_add(1); let update = $u:seq; let during_startup = $d:seq; if $c:cond { $then:any } },
//@with
    fn release_payment_complete_update_without_else(&mut self, update_id: &mut u64, channel_id: ChannelId, htlc_id: SentHTLCId, counterparty_node_id: PublicKey, channel_funding_outpoint: OutPoint, peer_state: &mut PeerStateStub) -> bool {
        *update_id = update_id.saturating_add(1); let update = $u; let during_startup = $d; if $c { $then } during_startup }
//@rw R5
    let update = ChannelMonitorUpdate {
//@with
    let update = PostCloseUpdate {
//@rw R5 ?
    self.pending_background_events.lock().unwrap().push(event);
//@with
    self.pending_background_events.push(event);
//@rw R8 ?
    mem::drop(peer_state_lock); mem::drop(per_peer_state);
//@with
//@ret r
//@ensures P C10 the-update-that-releases-a-completed-payment-takes-the-closed-channels-next-id-names-that-channel-and-htlc-and-is-queued-not-applied-while-start-up-is-unfinished
    *final(update_id) == (if *old(update_id) == u64::MAX { u64::MAX } else { (*old(update_id) + 1) as u64 }),
    r == !old(self).background_events_processed_since_startup.v,
    ({ let upd = PostCloseUpdateSpec { update_id: *final(update_id), channel_id: Some(channel_id), htlc: htlc_id };
       &&& r ==> final(self).pending_background_events.v@.len() == old(self).pending_background_events.v@.len() + 1
                 && final(self).pending_background_events.v@.drop_last() =~= old(self).pending_background_events.v@
                 && regenerated_for(final(self).pending_background_events.v@.last(), counterparty_node_id, channel_funding_outpoint, channel_id, upd)
                 && final(self).applied@ == old(self).applied@
       &&& !r ==> final(self).pending_background_events.v@ == old(self).pending_background_events.v@
                 && final(self).applied@.len() == old(self).applied@.len() + 1 && final(self).applied@.drop_last() =~= old(self).applied@
                 && same_update(final(self).applied@.last(), upd) }),
//@end
}
}
// ---- the stale manager's channel is closed: what it hands back is failed, what the monitor no longer has is failed, the id counter never goes back ----
pub mod stale_close {
use vstd::prelude::*;
use vstd::std_specs::cmp::*;
use core::cmp;
pub assume_specification<T: core::cmp::Ord>[core::cmp::max::<T>](a: T, b: T) -> (r: T)
    ensures T::obeys_cmp_spec() ==> r == (if b.cmp_spec(&a) == core::cmp::Ordering::Less { a } else { b });
pub assume_specification<T: core::cmp::Ord>[core::cmp::min::<T>](a: T, b: T) -> (r: T)
    ensures T::obeys_cmp_spec() ==> r == (if b.cmp_spec(&a) == core::cmp::Ordering::Less { b } else { a });
#[derive(Clone, Copy)] pub struct PaymentHash(pub [u8; 32]);
#[derive(Clone, Copy)] pub struct PublicKey { pub id: u64 }
#[derive(Clone, Copy)] pub struct ChannelId { pub id: u64 }
pub struct HTLCSource { pub id: u64 }
impl Clone for HTLCSource { #[verifier::external_body] fn clone(&self) -> (r: HTLCSource) ensures r == *self { unimplemented!() } }
pub enum LocalHTLCFailureReason { ChannelClosed, Other }
pub struct Extra {}
pub struct Ctx { pub cp: PublicKey, pub id: ChannelId }
impl Ctx {
    #[verifier::external_body] pub fn get_counterparty_node_id(&self) -> (r: PublicKey) ensures r == self.cp { unimplemented!() }
    #[verifier::external_body] pub fn channel_id(&self) -> (r: ChannelId) ensures r == self.id { unimplemented!() }
}
pub struct Chan { pub context: Ctx }
//@extract lightning/src/ln/channelmanager.rs :: impl ChannelManager :: fn from_channel_manager_data
//@slice R15
    for (source, hash, cp_id, chan_id) in shutdown_result.dropped_outbound_htlcs { $body:straight } channel_closures.push_back
//@with
    fn fail_htlc_the_closed_channel_handed_back(source: HTLCSource, hash: PaymentHash, cp_id: PublicKey, chan_id: ChannelId, failed_htlcs: &mut Vec<(HTLCSource, PaymentHash, PublicKey, ChannelId, LocalHTLCFailureReason, Option<Extra>)>) { $body }
//@ensures P C10 every-outbound-htlc-the-force-closed-channel-of-a-stale-manager-hands-back-is-queued-to-be-failed
    final(failed_htlcs)@ == old(failed_htlcs)@.push((source, hash, cp_id, chan_id, LocalHTLCFailureReason::ChannelClosed, None)),
//@end
//@extract lightning/src/ln/channelmanager.rs :: impl ChannelManager :: fn from_channel_manager_data
//@slice R15
    for (monitor_htlc_source, _) in monitor.get_all_current_outbound_htlcs() { $scan:any } if $c:cond { $pre:any failed_htlcs.push($t:seq); }
//@with
    fn fail_htlc_the_monitor_no_longer_has(found_htlc: bool, channel: &Chan, channel_htlc_source: &HTLCSource, payment_hash: &PaymentHash, failed_htlcs: &mut Vec<(HTLCSource, PaymentHash, PublicKey, ChannelId, LocalHTLCFailureReason, Option<Extra>)>) { if $c { failed_htlcs.push($t); } }
//@ensures P C10 an-htlc-of-the-stale-manager-that-the-newer-monitor-no-longer-has-is-queued-to-be-failed-back-and-one-the-monitor-has-is-left-to-the-monitor
    !found_htlc ==> final(failed_htlcs)@ == old(failed_htlcs)@.push((*channel_htlc_source, *payment_hash, channel.context.cp, channel.context.id, LocalHTLCFailureReason::ChannelClosed, None)),
    found_htlc ==> final(failed_htlcs)@ == old(failed_htlcs)@,
//@mutant htlc_the_monitor_still_has_failed_back
    if !found_htlc {
//@with
    if found_htlc {
//@end
//@extract lightning/src/ln/channelmanager.rs :: impl ChannelManager :: fn from_channel_manager_data
//@slice R15
    let latest_update_id = monitor.get_latest_update_id().saturating_add(1); update.update_id = latest_update_id; $chain:any .and_modify(|v| *v = $m:seq) .or_insert($i:seq);
//@with
    fn closed_channel_update_id_after_stale_close(v: &mut u64, latest_update_id: u64) -> u64 { *v = $m; $i }
//@ret r
//@ensures P C10 the-update-id-remembered-for-a-closed-channel-never-goes-backwards-and-covers-the-close-update
    *final(v) >= *old(v), *final(v) >= latest_update_id, *final(v) == *old(v) || *final(v) == latest_update_id,
    r == latest_update_id,
//@end
}
// ---- chain notifications reach the manager during start-up, before the background events may run: they must use the guard that skips them ----
//@extract lightning/src/ln/channelmanager.rs :: impl chain::Listen for ChannelManager :: fn blocks_disconnected
//@slice R15
    let _persistence_guard = PersistenceNotifierGuard::$ctor:ident(
//@with
    fn blocks_disconnected_does_not_run_background_events() -> bool { guard_ctor_skips_background_events!($ctor) }
//@ret r
//@ensures P C10 telling-the-manager-of-a-disconnection-which-also-happens-during-start-up-before-the-chain-monitor-is-ready-never-runs-the-background-events
    r,
//@end
//@extract lightning/src/ln/channelmanager.rs :: impl chain::Confirm for ChannelManager :: fn transactions_confirmed
//@slice R15
    let _persistence_guard = PersistenceNotifierGuard::$ctor:ident(
//@with
    fn transactions_confirmed_does_not_run_background_events() -> bool { guard_ctor_skips_background_events!($ctor) }
//@ret r
//@ensures P C10 telling-the-manager-of-confirmed-transactions-which-also-happens-during-start-up-before-the-chain-monitor-is-ready-never-runs-the-background-events
    r,
//@end
//@extract lightning/src/ln/channelmanager.rs :: impl chain::Confirm for ChannelManager :: fn best_block_updated
//@slice R15
    let _persistence_guard = PersistenceNotifierGuard::$ctor:ident(
//@with
    fn best_block_updated_does_not_run_background_events() -> bool { guard_ctor_skips_background_events!($ctor) }
//@ret r
//@ensures P C10 telling-the-manager-of-a-new-best-block-which-also-happens-during-start-up-before-the-chain-monitor-is-ready-never-runs-the-background-events
    r,
//@end
//@extract lightning/src/ln/channelmanager.rs :: impl chain::Confirm for ChannelManager :: fn transaction_unconfirmed
//@slice R15
    let _persistence_guard = PersistenceNotifierGuard::$ctor:ident(
//@with
    fn transaction_unconfirmed_does_not_run_background_events() -> bool { guard_ctor_skips_background_events!($ctor) }
//@ret r
//@ensures P C10 telling-the-manager-of-an-unconfirmed-transaction-which-also-happens-during-start-up-before-the-chain-monitor-is-ready-never-runs-the-background-events
    r,
//@end
pub struct MonitorStub { pub latest: u64, pub closed: bool }   // closed: the monitor allows no further updates (it signed our commitment for broadcast, was told to, or saw the funding output spent)
impl MonitorStub { #[verifier::external_body] pub fn get_latest_update_id(&self) -> (r: u64) ensures r == self.latest { unimplemented!() }
    #[verifier::external_body] pub fn no_further_updates_allowed(&self) -> (r: bool) ensures r == self.closed { unimplemented!() } }
}
fn main() {}
