//! unit: u11g
//! properties: C11
//! note: the manager-side conclusion "the funding transaction is confirmed" (channel.rs, ChannelContext): check_for_funding_tx_confirmed WHOLE - a transaction is taken for the funding transaction only if it has the funding txid and pays exactly the channel value to the funding script at the funding output index, its height, block and short channel id (from that height, its position in the block and the output index) are recorded, and a transaction shown again, or any other transaction, or a second look after the confirmation was recorded, changes nothing (re-delivery is idempotent); a transaction with the funding txid that does not pay the channel closes an inbound channel without recording a confirmation. check_funding_meets_minimum_depth WHOLE - the depth is counted from the recorded height, inclusive, a 0-conf channel always has it, an unconfirmed one never
//! trusted: both functions are extracted whole; env: FundingScope / ChannelContext / ConfirmedTransaction / Transaction / TxOut field skeletons; txid / script equality are value equalities of opaque ids; get_funding_redeemscript().to_p2wsh() is the funding script id of the scope; scid_from_parts is external_body: the uninterpreted pack(block, tx index, output index) when the three fit 24 / 24 / 16 bits, an error otherwise (the real function's own tests and shape; not verified here); R11: the three `panic!` calls are `unreachable!()` obligations
//! assume: a channel we funded confirms with the transaction we built (right script, value, index, non-malleable inputs) and in a block whose height / position fit a short channel id: LDK panics otherwise, by design ("Client called funding_transaction_generated with bogus transaction", "Block was bogus")
//! trusted: assume_specification for core::cmp::max / core::cmp::min (std definitions): present in every unit so that a change that introduces them is verified instead of being rejected by the tool
use vstd::prelude::*;
verus! {
use vstd::std_specs::cmp::*;
use core::cmp;
pub assume_specification<T: core::cmp::Ord>[core::cmp::max::<T>](a: T, b: T) -> (r: T)
    ensures T::obeys_cmp_spec() ==> r == (if b.cmp_spec(&a) == core::cmp::Ordering::Less { a } else { b });
pub assume_specification<T: core::cmp::Ord>[core::cmp::min::<T>](a: T, b: T) -> (r: T)
    ensures T::obeys_cmp_spec() ==> r == (if b.cmp_spec(&a) == core::cmp::Ordering::Less { b } else { a });
#[derive(Clone, Copy)] pub struct Txid(pub u64);
impl vstd::std_specs::cmp::PartialEqSpecImpl for Txid { open spec fn obeys_eq_spec() -> bool { true } open spec fn eq_spec(&self, o: &Txid) -> bool { self.0 == o.0 } }
impl PartialEq for Txid { fn eq(&self, o: &Txid) -> (r: bool) { self.0 == o.0 } }
#[derive(Clone, Copy)] pub struct BlockHash(pub u64);
#[derive(Clone, Copy)] pub struct ScriptBuf(pub u64);
impl vstd::std_specs::cmp::PartialEqSpecImpl for ScriptBuf { open spec fn obeys_eq_spec() -> bool { true } open spec fn eq_spec(&self, o: &ScriptBuf) -> bool { self.0 == o.0 } }
impl PartialEq for ScriptBuf { fn eq(&self, o: &ScriptBuf) -> (r: bool) { self.0 == o.0 } }
impl ScriptBuf { pub fn to_p2wsh(&self) -> (r: ScriptBuf) ensures r == *self { *self } }
pub struct Amount(pub u64);
impl Amount { #[verifier::external_body] pub fn to_sat(&self) -> (r: u64) ensures r == self.0 { unimplemented!() } }
pub struct Witness { pub empty: bool }
impl Witness { #[verifier::external_body] pub fn is_empty(&self) -> (r: bool) ensures r == self.empty { unimplemented!() } }
pub struct TxIn { pub witness: Witness }
pub struct TxOut { pub script_pubkey: ScriptBuf, pub value: Amount }
pub struct Transaction { pub id: Txid, pub input: Vec<TxIn>, pub output: Vec<TxOut>, pub coinbase: bool }
impl Transaction { #[verifier::external_body] pub fn is_coinbase(&self) -> (r: bool) ensures r == self.coinbase { unimplemented!() } }
pub struct ConfirmedTransaction { pub t: Transaction }
impl ConfirmedTransaction {
    #[verifier::external_body] pub fn txid(&mut self) -> (r: Txid) ensures r == old(self).t.id, final(self).t == old(self).t { unimplemented!() }
    #[verifier::external_body] pub fn tx(&self) -> (r: &Transaction) ensures *r == self.t { unimplemented!() }
}
#[derive(Clone, Copy)] pub struct OutPoint { pub txid: Txid, pub index: u16 }
pub struct FundingScope { pub funding_txo: Option<OutPoint>, pub funding_tx_confirmation_height: u32, pub funding_tx_confirmed_in: Option<BlockHash>, pub short_channel_id: Option<u64>,
    pub funding_script: ScriptBuf, pub value_satoshis: u64, pub outbound: bool, pub minimum_depth_override: Option<u32> }
impl FundingScope {
    #[verifier::external_body] pub fn get_funding_txo(&self) -> (r: Option<OutPoint>) ensures r == self.funding_txo { unimplemented!() }
    #[verifier::external_body] pub fn get_funding_redeemscript(&self) -> (r: ScriptBuf) ensures r == self.funding_script { unimplemented!() }
    #[verifier::external_body] pub fn get_value_satoshis(&self) -> (r: u64) ensures r == self.value_satoshis { unimplemented!() }
    #[verifier::external_body] pub fn is_outbound(&self) -> (r: bool) ensures r == self.outbound { unimplemented!() }
}
pub enum ShortChannelIdError { BlockOverflow, TxIndexOverflow, VoutIndexOverflow }
pub uninterp spec fn pack(block: u64, tx_index: u64, vout: u64) -> u64;
pub open spec fn scid_fits(block: u64, tx_index: u64, vout: u64) -> bool { block <= 0xff_ffff && tx_index <= 0xff_ffff && vout <= 0xffff }
#[verifier::external_body] pub fn scid_from_parts(block: u64, tx_index: u64, vout_index: u64) -> (r: Result<u64, ShortChannelIdError>)
    ensures scid_fits(block, tx_index, vout_index) ==> r == Ok::<u64, ShortChannelIdError>(pack(block, tx_index, vout_index)), !scid_fits(block, tx_index, vout_index) ==> r is Err { unimplemented!() }
pub enum ClosureReason { ProcessingError { err: String } }
pub struct ChannelContext { pub update_time_counter: u32, pub minimum_depth: Option<u32> }
pub struct LoggerStub {}
// the transaction pays the channel: the funding output index exists and carries exactly the channel value to the funding script
pub open spec fn pays_the_channel(f: FundingScope, t: Transaction) -> bool {
    f.funding_txo is Some && (f.funding_txo->Some_0.index as int) < t.output@.len()
        && t.output@[f.funding_txo->Some_0.index as int].script_pubkey == f.funding_script && t.output@[f.funding_txo->Some_0.index as int].value.0 == f.value_satoshis
}
pub open spec fn no_empty_witness(t: Transaction) -> bool { forall|k: int| 0 <= k < t.input@.len() ==> !(#[trigger] t.input@[k]).witness.empty }
impl ChannelContext {
    #[verifier::external_body] pub fn minimum_depth(&self, funding: &FundingScope) -> (r: Option<u32>) ensures r == (if funding.minimum_depth_override is Some { funding.minimum_depth_override } else { self.minimum_depth }) { unimplemented!() }
//@extract lightning/src/ln/channel.rs :: impl ChannelContext :: fn check_funding_meets_minimum_depth
//@ret r
//@requires
    self.minimum_depth is Some || funding.minimum_depth_override is Some,
//@ensures P C11 the-funding-has-its-depth-exactly-when-the-channel-needs-none-or-the-recorded-confirmation-height-is-at-least-that-many-blocks-deep-counting-its-own-block
    ({ let d = if funding.minimum_depth_override is Some { funding.minimum_depth_override->Some_0 } else { self.minimum_depth->Some_0 };
       r == (d == 0 || (funding.funding_tx_confirmation_height != 0 && height as int - funding.funding_tx_confirmation_height as int + 1 >= d as int)) }),
//@mutant depth_counted_without_the_confirming_block
    height as i64 - funding.funding_tx_confirmation_height as i64 + 1
//@with
    height as i64 - funding.funding_tx_confirmation_height as i64
//@end
//@extract lightning/src/ln/channel.rs :: impl ChannelContext :: fn check_for_funding_tx_confirmed
//@rw R5
    fn check_for_funding_tx_confirmed<L: Logger>
//@with
    fn check_for_funding_tx_confirmed
//@rw R5
    logger: &L,
//@with
    logger: &LoggerStub,
//@rw R8
    return Err(ClosureReason::ProcessingError { err: err_reason.to_owned() });
//@with
    return Err(closure_for(err_reason));
//@loop 1 iter=it
    invariant it.seq().len() == tx.input@.len(), forall|k: int| 0 <= k < tx.input@.len() ==> *it.seq()[k] == tx.input@[k], no_empty_witness(*tx),
//@ret r
//@requires
    old(funding).funding_txo is Some,
    old(self).update_time_counter < u32::MAX,
    // we built the funding transaction of a channel we fund (LDK panics otherwise, by design)
    old(funding).outbound && old(funding).funding_tx_confirmation_height == 0 && old(tx).t.id == old(funding).funding_txo->Some_0.txid ==> pays_the_channel(*old(funding), old(tx).t) && (old(tx).t.coinbase || no_empty_witness(old(tx).t)),
    // the block fits a short channel id (LDK panics otherwise: "Block was bogus")
    height <= 0xff_ffff && index_in_block <= 0xff_ffff,
//@ensures P C11 a-transaction-is-taken-for-the-funding-transaction-only-once-only-with-the-funding-txid-and-only-if-it-pays-the-channel-its-height-block-and-position-are-recorded-and-everything-else-leaves-the-record-as-it-is
    final(tx).t == old(tx).t,
    ({ let is_it = old(funding).funding_tx_confirmation_height == 0 && old(tx).t.id == old(funding).funding_txo->Some_0.txid;
       &&& !is_it ==> r == Ok::<bool, ClosureReason>(false) && *final(funding) == *old(funding)
       &&& is_it && pays_the_channel(*old(funding), old(tx).t) ==> r == Ok::<bool, ClosureReason>(true)
            && *final(funding) == (FundingScope { funding_tx_confirmation_height: height, funding_tx_confirmed_in: Some(*block_hash),
                   short_channel_id: Some(pack(height as u64, index_in_block as u64, old(funding).funding_txo->Some_0.index as u64)), ..*old(funding) })
       &&& is_it && !pays_the_channel(*old(funding), old(tx).t) ==> r is Err && *final(funding) == *old(funding) }),
//@mutant funding_recorded_again_at_a_later_sighting
    if funding.funding_tx_confirmation_height == 0 {
//@with
    if true {
//@mutant funding_output_value_not_compared
    tx.output[txo_idx].value.to_sat() != funding.get_value_satoshis() {
//@with
    false {
//@mutant short_channel_id_from_the_wrong_position
    scid_from_parts(height as u64, index_in_block as u64, txo_idx as u64)
//@with
    scid_from_parts(height as u64, txo_idx as u64, index_in_block as u64)
//@end
}
pub struct String {}
#[verifier::external_body] pub fn closure_for(s: &str) -> (r: ClosureReason) { unimplemented!() }
}
fn main() {}
