//! unit: u17d
//! properties: C17
//! note: PendingChecks::check_hold_pending_channel_update (routing/utxo.rs): a channel_update that arrives while its channel's announcement waits for an asynchronous UTXO lookup is held, per direction, until the lookup resolves: the slot it is held in is chosen by the DIRECTION BIT of its flags alone (bit 0; the disable bit and the others play no part - so an update of direction one never displaces, or is displaced by, one of direction zero), and within a slot the update with the strictly higher timestamp stays (an equal or older one does not replace what is held). Otherwise the graph after the lookup depends on the order and the flags of what arrived during it
//! trusted: R15 (deep slices): the statement `let is_from_a = ..;` and the test that decides whether the held update of the slot is replaced, verbatim as functions of the message and the held update's timestamp; the slot selection by `is_from_a`, the map and the weak reference around them are not sliced; env: UnsignedChannelUpdate field skeleton, the held update is its timestamp
//! trusted: assume_specification for core::cmp::max / core::cmp::min (std definitions): present in every unit so that a change that introduces them is verified instead of being rejected by the tool
use vstd::prelude::*;
verus! {
use vstd::std_specs::cmp::*;
use core::cmp;
pub assume_specification<T: core::cmp::Ord>[core::cmp::max::<T>](a: T, b: T) -> (r: T)
    ensures T::obeys_cmp_spec() ==> r == (if b.cmp_spec(&a) == core::cmp::Ordering::Less { a } else { b });
pub assume_specification<T: core::cmp::Ord>[core::cmp::min::<T>](a: T, b: T) -> (r: T)
    ensures T::obeys_cmp_spec() ==> r == (if b.cmp_spec(&a) == core::cmp::Ordering::Less { b } else { a });
pub struct UnsignedChannelUpdate { pub short_channel_id: u64, pub timestamp: u32, pub message_flags: u8, pub channel_flags: u8, pub cltv_expiry_delta: u16, pub htlc_minimum_msat: u64, pub htlc_maximum_msat: u64, pub fee_base_msat: u32, pub fee_proportional_millionths: u32 }
pub struct HeldUpdate { pub ts: u32 }
impl HeldUpdate { pub fn timestamp(&self) -> (r: u32) ensures r == self.ts { self.ts } }
//@extract lightning/src/routing/utxo.rs :: impl PendingChecks :: fn check_hold_pending_channel_update
//@slice R15
    let is_from_a = $e:seq; match Weak::upgrade(e.get()) {
//@with
    fn held_update_goes_to_the_slot_of_direction_one(msg: &UnsignedChannelUpdate) -> bool { let is_from_a = $e; is_from_a }
//@ret r
//@ensures P C17 the-slot-a-held-channel-update-goes-to-is-chosen-by-the-direction-bit-alone
    r == (msg.channel_flags & 1 == 1),
//@mutant disabled_update_of_direction_one_held_as_direction_zero
    (msg.channel_flags & 1) == 1
//@with
    msg.channel_flags == 1
//@end
//@extract lightning/src/routing/utxo.rs :: impl PendingChecks :: fn check_hold_pending_channel_update
//@slice R15
    if $c:cond { *latest_update = Some(
//@with
    fn held_update_is_replaced(latest_update: &Option<HeldUpdate>, msg: &UnsignedChannelUpdate) -> bool { $c }
//@ret r
//@ensures P C17 within-a-direction-the-held-channel-update-is-replaced-only-by-one-with-a-strictly-higher-timestamp
    r == (*latest_update is None || latest_update->Some_0.ts < msg.timestamp),
//@mutant equal_timestamp_replaces_the_held_update
    .timestamp() < msg.timestamp
//@with
    .timestamp() <= msg.timestamp
//@end
}
fn main() {}
