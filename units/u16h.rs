//! unit: u16h
//! properties: C16
//! note: what the default scorer says about a blinded path and about exactly-known capacities (ProbabilisticScorer::channel_penalty_msat, two arms): a blinded path is ruled out (penalty u64::MAX, which makes get_route skip the candidate) ONLY when the HTLC itself exceeds the path's htlc_maximum_msat; amounts already in flight over it only make it expensive (the considered-impossible penalty, still routable when nothing else is), and otherwise it costs nothing; a hop whose liquidity or hint maximum is known exactly is ruled out only when the HTLC itself exceeds it. So a path whose limits suffice for the payment is never made unroutable by the scorer because of other payments in flight ("when some single path has sufficient limits the router does not report failure")
//! trusted: R15 (deep slices): the body of the `CandidateRouteHop::Blinded` arm and the body of the `ExactLiquidity | HintMaxHTLC` arm, verbatim as functions of the usage, the limit and the parameters; `return X;` of the arms is the function's return
//! trusted: assume_specification for core::cmp::max / core::cmp::min (std definitions): present in every unit so that a change that introduces them is verified instead of being rejected by the tool
use vstd::prelude::*;
verus! {
use vstd::std_specs::cmp::*;
use core::cmp;
pub assume_specification<T: core::cmp::Ord>[core::cmp::max::<T>](a: T, b: T) -> (r: T)
    ensures T::obeys_cmp_spec() ==> r == (if b.cmp_spec(&a) == core::cmp::Ordering::Less { a } else { b });
pub assume_specification<T: core::cmp::Ord>[core::cmp::min::<T>](a: T, b: T) -> (r: T)
    ensures T::obeys_cmp_spec() ==> r == (if b.cmp_spec(&a) == core::cmp::Ordering::Less { b } else { a });
pub struct ChannelUsage { pub amount_msat: u64, pub inflight_htlc_msat: u64 }
pub struct PayInfo { pub htlc_maximum_msat: u64 }
pub struct Hint { pub payinfo: PayInfo }
pub struct Params { pub considered_impossible_penalty_msat: u64 }
//@extract lightning/src/routing/scoring.rs :: impl ScoreLookUp for ProbabilisticScorer :: fn channel_penalty_msat
//@slice R15
    CandidateRouteHop::Blinded(BlindedPathCandidate { hint, .. }) => { $body:any }, _ => return 0,
//@with
    fn penalty_of_a_blinded_path(usage: ChannelUsage, hint: &Hint, score_params: &Params) -> u64 { $body }
//@ret r
//@ensures P C16 the-scorer-rules-a-blinded-path-out-only-when-the-htlc-itself-exceeds-its-maximum-amounts-already-in-flight-make-it-expensive-not-impossible
    r == (if usage.amount_msat > hint.payinfo.htlc_maximum_msat { u64::MAX }
          else if usage.amount_msat as int + usage.inflight_htlc_msat as int > hint.payinfo.htlc_maximum_msat && hint.payinfo.htlc_maximum_msat < u64::MAX { score_params.considered_impossible_penalty_msat } else { 0 }),   // (the sum saturates at u64::MAX: a path without a maximum is never exceeded)
//@mutant blinded_path_ruled_out_by_amounts_already_in_flight
    if usage.amount_msat > hint.payinfo.htlc_maximum_msat { return u64::MAX; } else if total_inflight_amount_msat > hint.payinfo.htlc_maximum_msat {
//@with
    if total_inflight_amount_msat > hint.payinfo.htlc_maximum_msat { return u64::MAX; } else if usage.amount_msat > hint.payinfo.htlc_maximum_msat {
//@end
//@extract lightning/src/routing/scoring.rs :: impl ScoreLookUp for ProbabilisticScorer :: fn channel_penalty_msat
//@slice R15
    EffectiveCapacity::HintMaxHTLC { amount_msat } => { $body:any },
//@with
    fn penalty_with_an_exactly_known_limit(usage: ChannelUsage, amount_msat: u64, base_penalty_msat: u64) -> u64 { $body }
//@ret r
//@ensures P C16 a-hop-whose-liquidity-or-hint-maximum-is-known-exactly-is-ruled-out-only-when-the-htlc-itself-exceeds-it
    r == (if usage.amount_msat > amount_msat { u64::MAX } else { base_penalty_msat }),
//@end
}
fn main() {}
