//! unit: u01r
//! properties: C01 C02 C03
//! note: a channel that starts shutting down empties its holding cell of everything that may no longer be sent (channel.rs, FundedChannel::shutdown for the peer's shutdown and get_shutdown for ours, the statements between the shutdown message and the local-shutdown flag): a fee update waiting in the holding cell is dropped (freeing it later would reach send_update_fee on a shutting-down channel, which panics), every HTLC still waiting to be ADDED is taken out and handed back in order so that its payment is failed, and claims / failures of HTLCs already in the channel stay where they are
//! trusted: R15 (deep slices) of both functions: the statements in front of the `retain` are captured whole and the arms of its closure verbatim; R6: `V.retain(|x| match x { arms })` as an index loop that keeps or removes in place, arms carried verbatim (the closure pushes onto a captured vector); R16 on the `&Variant { ref a, ref b, .. }` pattern of the closure; env: HTLCUpdateAwaitingACK is a three-variant skeleton with the fields the arms read, HTLCSource / PaymentHash opaque clonable values
//! trusted: assume_specification for core::cmp::max / core::cmp::min (std definitions): present in every unit so that a change that introduces them is verified instead of being rejected by the tool
use vstd::prelude::*;
verus! {
use vstd::std_specs::cmp::*;
use core::cmp;
pub assume_specification<T: core::cmp::Ord>[core::cmp::max::<T>](a: T, b: T) -> (r: T)
    ensures T::obeys_cmp_spec() ==> r == (if b.cmp_spec(&a) == core::cmp::Ordering::Less { a } else { b });
pub assume_specification<T: core::cmp::Ord>[core::cmp::min::<T>](a: T, b: T) -> (r: T)
    ensures T::obeys_cmp_spec() ==> r == (if b.cmp_spec(&a) == core::cmp::Ordering::Less { b } else { a });
#[derive(Copy)] pub struct HTLCSource { pub id: u64 }
#[derive(Copy)] pub struct PaymentHash(pub u64);
impl Clone for HTLCSource { #[verifier::external_body] fn clone(&self) -> (r: Self) ensures r == *self { unimplemented!() } }
impl Clone for PaymentHash { #[verifier::external_body] fn clone(&self) -> (r: Self) ensures r == *self { unimplemented!() } }
pub enum HTLCUpdateAwaitingACK { AddHTLC { amount_msat: u64, payment_hash: PaymentHash, source: HTLCSource }, ClaimHTLC { htlc_id: u64 }, FailHTLC { htlc_id: u64 } }
pub struct ChannelContext { pub holding_cell_update_fee: Option<u32>, pub holding_cell_htlc_updates: Vec<HTLCUpdateAwaitingACK> }
pub struct FundedChannel { pub context: ChannelContext }
pub open spec fn not_adds(s: Seq<HTLCUpdateAwaitingACK>) -> Seq<HTLCUpdateAwaitingACK> { s.filter(|u: HTLCUpdateAwaitingACK| !(u is AddHTLC)) }
pub open spec fn adds(s: Seq<HTLCUpdateAwaitingACK>) -> Seq<(HTLCSource, PaymentHash)> decreases s.len() {
    if s.len() == 0 { Seq::empty() } else if s.last() is AddHTLC { adds(s.drop_last()).push((s.last()->AddHTLC_source, s.last()->AddHTLC_payment_hash)) } else { adds(s.drop_last()) }
}
pub proof fn lemma_filter_push(s: Seq<HTLCUpdateAwaitingACK>, x: HTLCUpdateAwaitingACK)
    ensures not_adds(s.push(x)) == (if x is AddHTLC { not_adds(s) } else { not_adds(s).push(x) })
{
    reveal(Seq::filter);
    assert(s.push(x).drop_last() =~= s);
}
impl FundedChannel {
//@extract lightning/src/ln/channel.rs :: impl FundedChannel :: fn shutdown
//@slice R15
    Some(msgs::Shutdown { channel_id: self.context.channel_id, scriptpubkey: self.get_closing_scriptpubkey(), }) } else { None }; $pre:straight let mut dropped_outbound_htlcs = Vec::with_capacity(self.context.holding_cell_htlc_updates.len()); self.context.holding_cell_htlc_updates.retain(|htlc_update| match htlc_update { $arms:any }); self.context.channel_state.set_local_shutdown_sent();
//@with
    fn empty_the_holding_cell_on_the_peers_shutdown(&mut self) -> Vec<(HTLCSource, PaymentHash)> {
        $pre
        let mut dropped_outbound_htlcs: Vec<(HTLCSource, PaymentHash)> = Vec::with_capacity(self.context.holding_cell_htlc_updates.len());
        let ghost all = self.context.holding_cell_htlc_updates@; let ghost fee0 = self.context.holding_cell_update_fee; let mut __i: usize = 0; let ghost mut seen: int = 0;
        while __i < self.context.holding_cell_htlc_updates.len()
            invariant 0 <= seen <= all.len(), __i <= self.context.holding_cell_htlc_updates@.len(), self.context.holding_cell_htlc_updates@.len() - __i == all.len() - seen,
                self.context.holding_cell_htlc_updates@.take(__i as int) == not_adds(all.take(seen)), self.context.holding_cell_htlc_updates@.skip(__i as int) == all.skip(seen),
                dropped_outbound_htlcs@ == adds(all.take(seen)), self.context.holding_cell_update_fee == fee0,
            decreases all.len() - seen
        {
            proof { assert(all.take(seen + 1).drop_last() =~= all.take(seen)); assert(all.take(seen + 1) =~= all.take(seen).push(all[seen])); lemma_filter_push(all.take(seen), all[seen]);
                    assert(self.context.holding_cell_htlc_updates@[__i as int] == self.context.holding_cell_htlc_updates@.skip(__i as int)[0]); assert(all.skip(seen)[0] == all[seen]); }
            let htlc_update = &self.context.holding_cell_htlc_updates[__i];
            let __keep: bool = match htlc_update { $arms };
            let ghost before = self.context.holding_cell_htlc_updates@;
            if __keep { __i = __i + 1; proof { assert(before.take(__i as int) =~= before.take(__i as int - 1).push(before[__i as int - 1])); assert(before.skip(__i as int) =~= before.skip(__i as int - 1).skip(1)); assert(all.skip(seen + 1) =~= all.skip(seen).skip(1)); } }
            else { self.context.holding_cell_htlc_updates.remove(__i);
                proof { assert(self.context.holding_cell_htlc_updates@.take(__i as int) =~= before.take(__i as int)); assert(self.context.holding_cell_htlc_updates@.skip(__i as int) =~= before.skip(__i as int).skip(1)); assert(all.skip(seen + 1) =~= all.skip(seen).skip(1)); } }
            proof { seen = seen + 1; }
        }
        proof { assert(all.take(seen) =~= all); assert(self.context.holding_cell_htlc_updates@.take(__i as int) =~= self.context.holding_cell_htlc_updates@); }
        dropped_outbound_htlcs
    }
//@rw R16 ?
    &HTLCUpdateAwaitingACK::AddHTLC { ref payment_hash, ref source, .. } =>
//@with
    HTLCUpdateAwaitingACK::AddHTLC { payment_hash, source, .. } =>
//@ret r
//@ensures P C01,C02,C03 on-the-peers-shutdown-a-fee-update-waiting-in-the-holding-cell-is-dropped-every-htlc-waiting-to-be-added-is-handed-back-in-order-and-the-other-held-updates-stay
    final(self).context.holding_cell_update_fee is None,
    final(self).context.holding_cell_htlc_updates@ == not_adds(old(self).context.holding_cell_htlc_updates@),
    r@ == adds(old(self).context.holding_cell_htlc_updates@),
//@mutant fee_update_in_the_holding_cell_survives_the_peers_shutdown
    self.context.holding_cell_update_fee = None; let mut dropped_outbound_htlcs
//@with
    let mut dropped_outbound_htlcs
//@end
//@extract lightning/src/ln/channel.rs :: impl FundedChannel :: fn get_shutdown
//@slice R15
    let shutdown = msgs::Shutdown { channel_id: self.context.channel_id, scriptpubkey: self.get_closing_scriptpubkey(), }; $pre:straight let mut dropped_outbound_htlcs = Vec::with_capacity(self.context.holding_cell_htlc_updates.len()); self.context.holding_cell_htlc_updates.retain(|htlc_update| match htlc_update { $arms:any }); debug_assert!(
//@with
    fn empty_the_holding_cell_on_our_shutdown(&mut self) -> Vec<(HTLCSource, PaymentHash)> {
        $pre
        let mut dropped_outbound_htlcs: Vec<(HTLCSource, PaymentHash)> = Vec::with_capacity(self.context.holding_cell_htlc_updates.len());
        let ghost all = self.context.holding_cell_htlc_updates@; let ghost fee0 = self.context.holding_cell_update_fee; let mut __i: usize = 0; let ghost mut seen: int = 0;
        while __i < self.context.holding_cell_htlc_updates.len()
            invariant 0 <= seen <= all.len(), __i <= self.context.holding_cell_htlc_updates@.len(), self.context.holding_cell_htlc_updates@.len() - __i == all.len() - seen,
                self.context.holding_cell_htlc_updates@.take(__i as int) == not_adds(all.take(seen)), self.context.holding_cell_htlc_updates@.skip(__i as int) == all.skip(seen),
                dropped_outbound_htlcs@ == adds(all.take(seen)), self.context.holding_cell_update_fee == fee0,
            decreases all.len() - seen
        {
            proof { assert(all.take(seen + 1).drop_last() =~= all.take(seen)); assert(all.take(seen + 1) =~= all.take(seen).push(all[seen])); lemma_filter_push(all.take(seen), all[seen]);
                    assert(self.context.holding_cell_htlc_updates@[__i as int] == self.context.holding_cell_htlc_updates@.skip(__i as int)[0]); assert(all.skip(seen)[0] == all[seen]); }
            let htlc_update = &self.context.holding_cell_htlc_updates[__i];
            let __keep: bool = match htlc_update { $arms };
            let ghost before = self.context.holding_cell_htlc_updates@;
            if __keep { __i = __i + 1; proof { assert(before.take(__i as int) =~= before.take(__i as int - 1).push(before[__i as int - 1])); assert(before.skip(__i as int) =~= before.skip(__i as int - 1).skip(1)); assert(all.skip(seen + 1) =~= all.skip(seen).skip(1)); } }
            else { self.context.holding_cell_htlc_updates.remove(__i);
                proof { assert(self.context.holding_cell_htlc_updates@.take(__i as int) =~= before.take(__i as int)); assert(self.context.holding_cell_htlc_updates@.skip(__i as int) =~= before.skip(__i as int).skip(1)); assert(all.skip(seen + 1) =~= all.skip(seen).skip(1)); } }
            proof { seen = seen + 1; }
        }
        proof { assert(all.take(seen) =~= all); assert(self.context.holding_cell_htlc_updates@.take(__i as int) =~= self.context.holding_cell_htlc_updates@); }
        dropped_outbound_htlcs
    }
//@rw R16 ?
    &HTLCUpdateAwaitingACK::AddHTLC { ref payment_hash, ref source, .. } =>
//@with
    HTLCUpdateAwaitingACK::AddHTLC { payment_hash, source, .. } =>
//@ret r
//@ensures P C01,C02,C03 on-our-own-shutdown-a-fee-update-waiting-in-the-holding-cell-is-dropped-every-htlc-waiting-to-be-added-is-handed-back-in-order-and-the-other-held-updates-stay
    final(self).context.holding_cell_update_fee is None,
    final(self).context.holding_cell_htlc_updates@ == not_adds(old(self).context.holding_cell_htlc_updates@),
    r@ == adds(old(self).context.holding_cell_htlc_updates@),
//@mutant fee_update_in_the_holding_cell_survives_our_shutdown
    self.context.holding_cell_update_fee = None; let mut dropped_outbound_htlcs
//@with
    let mut dropped_outbound_htlcs
//@end
}
}
fn main() {}
