//! unit: u17
//! properties: C17
//! note: the per-message acceptance tests of the network graph and its staleness pruning: a channel_update / node_announcement replaces stored information only with a strictly newer timestamp, an update above the channel's capacity (or above 21e6 BTC, or for another chain) is refused, and pruning drops exactly the directions older than two weeks and the channels left without a current direction
//! trusted: R15 (deep slice): add_channel_between_nodes: the match on the channel map entry, verbatim; the map is an environment type whose entry API carries the IndexedMap/BTreeMap contract, written with Verus' mutable-reference prophecy (the entry lends the slot of the key); remove_channel_in_nodes records what it unlinks (R10: the write guard `nodes` is written as the reference it derefs to); the node-counter bookkeeping after the match is not sliced
//! trusted: R15 (deep slices): NetworkGraph::update_channel_internal, update_node_from_announcement_intern and remove_stale_channels_and_tracking_with_time work on IndexedMaps behind RwLocks with signature checks through secp256k1; the unit extracts, on every run and verbatim, (a) the body of the closure check_update_latest, (b) the body of the closure check_msg_sanity (its two calls of check_update_latest get the message as an explicit argument), (c) the chain-hash test and the MAX_VALUE_MSAT test at the top of update_channel_internal, (d) the timestamp test of the node announcement, (e) the per-channel body of the pruning loop (`scids_to_remove.insert(*scid)` becomes setting a flag); (f) pre_channel_announcement_validation_check with the map lookup replaced by its result as a parameter (R5); (g) verify_channel_announcement / verify_node_announcement whole, with the function-local macros expanded by rule (R8): `secp_verify_sig!(ctx, m, s, k, _)` -> `match ctx.verify_ecdsa(m, s, k) { Ok(_) => {}, Err(_) => return Err(..) }` and `get_pubkey_from_node_id!(n, _)` -> the external_body pubkey_from_node_id(n) with `?`-style early return, `hash_to_message!(message_sha256d_hash(..))` -> an uninterpreted hash of the contents; verify_ecdsa is external_body over the uninterpreted sig_valid; (h) the choice of the signing node of a channel_update (`.as_slice()` dropped, R5); (i) the replace-or-refuse test of add_channel_between_nodes; (j) the recently-removed test of update_channel_from_unsigned_announcement_intern (the two tracking maps are stubs with a ghost key set); map lookups, storing the new information, removing channels from the node table and the order-independence of the whole graph are dropped and not claimed
//! trusted: env: ChannelInfo {one_to_two, two_to_one, capacity_sats, announcement_received_time}, ChannelUpdateInfo {last_update}, UnsignedChannelUpdate {chain_hash, timestamp, channel_flags, htlc_maximum_msat}, NodeAnnouncementInfo {last_update} are field skeletons; ChainHash is an opaque identity; LightningError loses its text and action (R8)
//! trusted: R15 (deep slices, k): node_failed_permanent: the expression choosing the other end of each of the failed node's channels and the predicate of the `retain` on that neighbour's channel list, verbatim as functions (ChannelEnds is a two-field skeleton of ChannelInfo); removing the node, its channels and emptied neighbours from the maps and recording the removals are dropped and not claimed
//! trusted: R15 (deep slices): remove_stale_channels_and_tracking_with_time: the two early returns with the cut-off expression, and the body of the closure should_keep_tracking (taken for the std configuration, R2), verbatim
//! trusted: assume_specification for core::cmp::max / core::cmp::min (std definitions): present in every unit so that a change that introduces them is verified instead of being rejected by the tool
//! trusted: failed_for_good: NetworkGraph::channel_failed_permanent_with_time is extracted whole; R5: `self.channels.write().unwrap()` / `self.nodes.write().unwrap()` / `self.removed_channels.lock().unwrap()` are the fields themselves (one caller, no other thread), remove_channel_in_nodes is a recorder of (scid, channel)
//! trusted: unlink: R15 (deep slice of the function-local macro remove_from_node! in remove_channel_in_nodes_callback): the block run for a node found in the map, verbatim as a function of that node's entry; R6e: `V.retain(|c| scid != *c)` is the wrapper retain_other_channels with std's meaning (the elements other than scid, in order); the entry is a by-value skeleton, the caller's remove_node closure a recorder; the panic for an unknown node is outside
use vstd::prelude::*;
verus! {
use core::cmp;
pub assume_specification<T: core::cmp::Ord>[core::cmp::max::<T>](a: T, b: T) -> (r: T)
    ensures T::obeys_cmp_spec() ==> r == (if b.cmp_spec(&a) == core::cmp::Ordering::Less { a } else { b });
pub assume_specification<T: core::cmp::Ord>[core::cmp::min::<T>](a: T, b: T) -> (r: T)
    ensures T::obeys_cmp_spec() ==> r == (if b.cmp_spec(&a) == core::cmp::Ordering::Less { b } else { a });
use vstd::std_specs::cmp::*;
#[derive(Clone, Copy)] pub struct ChainHash(pub u64);
impl PartialEqSpecImpl for ChainHash { open spec fn obeys_eq_spec() -> bool { true } open spec fn eq_spec(&self, other: &ChainHash) -> bool { self.0 == other.0 } }
impl PartialEq for ChainHash { fn eq(&self, o: &ChainHash) -> (r: bool) { self.0 == o.0 } }
pub struct LightningError { pub err: (), pub action: () }
pub struct ChannelUpdateInfo { pub last_update: u32 }
pub struct ChannelInfo { pub one_to_two: Option<ChannelUpdateInfo>, pub two_to_one: Option<ChannelUpdateInfo>, pub capacity_sats: Option<u64>, pub announcement_received_time: u64 }
pub struct UnsignedChannelUpdate { pub chain_hash: ChainHash, pub timestamp: u32, pub channel_flags: u8, pub htlc_maximum_msat: u64 }
pub struct NodeAnnouncementInfo { pub lu: u32 }
impl NodeAnnouncementInfo { #[verifier::external_body] pub fn last_update(&self) -> (r: u32) ensures r == self.lu { unimplemented!() } }
pub struct UnsignedNodeAnnouncement { pub timestamp: u32 }
pub struct NetworkGraph { pub chain_hash: ChainHash }
//@const lightning/src/ln/msgs.rs MAX_VALUE_MSAT
//@const lightning/src/routing/gossip.rs STALE_CHANNEL_UPDATE_AGE_LIMIT_SECS

// (a) a stored direction is replaced only by a strictly newer update
//@extract lightning/src/routing/gossip.rs :: impl NetworkGraph :: fn update_channel_internal
//@strip msgs
//@slice R15
    let check_update_latest = |target: &Option<ChannelUpdateInfo>| -> Result<(), LightningError> { $b:any };
//@with
    fn check_update_latest(msg: &UnsignedChannelUpdate, target: &Option<ChannelUpdateInfo>) -> Result<(), LightningError> { $b }
//@rw R8 *
    LightningError { err: $e, action: $a, }
//@with
    LightningError { err: (), action: () }
//@ret r
//@ensures P C17 a-channel-update-never-replaces-information-with-an-older-or-equal-timestamp
    r is Ok <==> (*target is None || target->Some_0.last_update < msg.timestamp),
//@mutant equal_timestamp_replaces
    existing_chan_info.last_update == msg.timestamp
//@with
    false
//@end

// (b) capacity and direction
//@extract lightning/src/routing/gossip.rs :: impl NetworkGraph :: fn update_channel_internal
//@strip msgs
//@slice R15
    let check_msg_sanity = |channel: &ChannelInfo| -> Result<(), LightningError> { $b:any };
//@with
    fn check_msg_sanity(msg: &UnsignedChannelUpdate, channel: &ChannelInfo) -> Result<(), LightningError> { $b }
//@rw R8 *
    LightningError { err: $e, action: $a }
//@with
    LightningError { err: (), action: () }
//@rw R5 *
    check_update_latest(
//@with
    check_update_latest(msg,
//@ret r
//@ensures P C17 an-update-with-an-htlc-maximum-above-the-channels-capacity-is-refused-and-the-timestamp-test-is-applied-to-the-direction-the-update-names
    r is Ok ==> (channel.capacity_sats is Some ==> channel.capacity_sats->Some_0 <= MAX_VALUE_MSAT / 1000 && msg.htlc_maximum_msat as int <= channel.capacity_sats->Some_0 as int * 1000),
    r is Ok ==> (if msg.channel_flags & 1 == 1 { channel.two_to_one is None || channel.two_to_one->Some_0.last_update < msg.timestamp }
                 else { channel.one_to_two is None || channel.one_to_two->Some_0.last_update < msg.timestamp }),
//@mutant htlc_maximum_compared_in_sats
    msg.htlc_maximum_msat > capacity_sats * 1000
//@with
    msg.htlc_maximum_msat / 1000 > capacity_sats * 1000
//@mutant timestamp_checked_against_the_other_direction
    if msg.channel_flags & 1 == 1 { check_update_latest(&channel.two_to_one) } else { check_update_latest(&channel.one_to_two) }
//@with
    if msg.channel_flags & 1 == 1 { check_update_latest(&channel.one_to_two) } else { check_update_latest(&channel.two_to_one) }
//@end

impl NetworkGraph {
// (c) wrong chain / impossible amounts
//@extract lightning/src/routing/gossip.rs :: impl NetworkGraph :: fn update_channel_internal
//@strip msgs
//@slice R15
    let chan_enabled = $ce; if $chain:cond { return Err($e1); } $time:any if $maxv:cond { return Err($e2); } let check_update_latest
//@with
    fn update_pre_checks(&self, msg: &UnsignedChannelUpdate) -> Result<(), LightningError> {
        if $chain { return Err(LightningError { err: (), action: () }); }
        if $maxv { return Err(LightningError { err: (), action: () }); }
        Ok(())
    }
//@ret r
//@ensures P C17 updates-for-another-chain-or-with-an-impossible-htlc-maximum-are-refused
    r is Ok <==> (msg.chain_hash == self.chain_hash && msg.htlc_maximum_msat <= MAX_VALUE_MSAT),
//@mutant wrong_chain_accepted
    msg.chain_hash != self.chain_hash
//@with
    false
//@end
}

// (d) node announcements
//@extract lightning/src/routing/gossip.rs :: impl NetworkGraph :: fn update_node_from_announcement_intern
//@strip msgs
//@slice R15
    if let Some(node_info) = node.announcement_info.as_ref() { $b:any } let should_relay
//@with
    fn node_announcement_is_newer(announcement_info: &Option<NodeAnnouncementInfo>, msg: &UnsignedNodeAnnouncement) -> Result<(), LightningError> {
        if let Some(node_info) = announcement_info.as_ref() { $b }
        Ok(())
    }
//@rw R8 *
    LightningError { err: $e, action: $a, }
//@with
    LightningError { err: (), action: () }
//@ret r
//@ensures P C17 a-node-announcement-never-replaces-information-with-an-older-or-equal-timestamp
    r is Ok <==> (*announcement_info is None || announcement_info->Some_0.lu < msg.timestamp),
//@mutant older_node_announcement_replaces
    node_info.last_update() > msg.timestamp
//@with
    false
//@end

// (e) pruning of one channel
//@extract lightning/src/routing/gossip.rs :: impl NetworkGraph :: fn remove_stale_channels_and_tracking_with_time
//@slice R15
    for (scid, info) in channels.unordered_iter_mut() { $b:any }
//@with
    fn prune_one_channel(info: &mut ChannelInfo, min_time_unix: u32) -> bool {
        let mut __remove = false;
        $b
        __remove
    }
//@rw R5
    scids_to_remove.insert(*scid);
//@with
    __remove = true;
//@ret r
//@ensures P C17 pruning-drops-exactly-the-directions-older-than-the-limit-and-removes-a-channel-only-when-a-direction-is-missing-and-its-announcement-is-older-too
    final(info).one_to_two == (if old(info).one_to_two is Some && old(info).one_to_two->Some_0.last_update < min_time_unix { None::<ChannelUpdateInfo> } else { old(info).one_to_two }),
    final(info).two_to_one == (if old(info).two_to_one is Some && old(info).two_to_one->Some_0.last_update < min_time_unix { None::<ChannelUpdateInfo> } else { old(info).two_to_one }),
    r <==> ((final(info).one_to_two is None || final(info).two_to_one is None) && old(info).announcement_received_time < min_time_unix as u64),
    final(info).capacity_sats == old(info).capacity_sats, final(info).announcement_received_time == old(info).announcement_received_time,
//@mutant channel_with_one_current_direction_kept_forever
    if info.one_to_two.is_none() || info.two_to_one.is_none() {
//@with
    if info.one_to_two.is_none() && info.two_to_one.is_none() {
//@mutant fresh_direction_dropped
    info.two_to_one.as_ref().unwrap().last_update < min_time_unix
//@with
    info.two_to_one.as_ref().unwrap().last_update <= min_time_unix
//@end

// (f) channel announcements: trivially bogus ones and duplicates of what we already know are refused before any signature check
#[derive(Clone, Copy)] pub struct NodeId(pub u64);
impl PartialEqSpecImpl for NodeId { open spec fn obeys_eq_spec() -> bool { true } open spec fn eq_spec(&self, other: &NodeId) -> bool { self.0 == other.0 } }
impl PartialEq for NodeId { fn eq(&self, o: &NodeId) -> (r: bool) { self.0 == o.0 } }
impl PartialOrdSpecImpl for NodeId {
    open spec fn obeys_partial_cmp_spec() -> bool { true }
    open spec fn partial_cmp_spec(&self, other: &NodeId) -> Option<core::cmp::Ordering> {
        if self.0 < other.0 { Some(core::cmp::Ordering::Less) } else if self.0 == other.0 { Some(core::cmp::Ordering::Equal) } else { Some(core::cmp::Ordering::Greater) } }
}
impl PartialOrd for NodeId { #[verifier::external_body] fn partial_cmp(&self, o: &NodeId) -> (r: Option<core::cmp::Ordering>) { self.0.partial_cmp(&o.0) } }
pub struct UnsignedChannelAnnouncement { pub chain_hash: ChainHash, pub short_channel_id: u64, pub node_id_1: NodeId, pub node_id_2: NodeId, pub bitcoin_key_1: NodeId, pub bitcoin_key_2: NodeId }
pub struct AnnChannelInfo { pub node_one: NodeId, pub node_two: NodeId, pub capacity_sats: Option<u64> }
pub struct UtxoLookupStub {}
impl NetworkGraph {
//@extract lightning/src/routing/gossip.rs :: impl NetworkGraph :: fn pre_channel_announcement_validation_check
//@strip msgs
//@rw R15
    fn pre_channel_announcement_validation_check<U: UtxoLookup>($params:any) -> $ret { $tests:any let channels = self.channels.read().unwrap(); if let Some(chan) = channels.get(&msg.short_channel_id) { $dup:any } Ok(()) }
//@with
    fn pre_channel_announcement_validation_check(&self, msg: &UnsignedChannelAnnouncement, known: Option<&AnnChannelInfo>, utxo_lookup: &Option<UtxoLookupStub>) -> Result<(), LightningError> {
        $tests
        if let Some(chan) = known { $dup }
        Ok(())
    }
//@rw R8 *
    LightningError { err: $e, action: $a, }
//@with
    LightningError { err: (), action: () }
//@ret r
//@ensures P C17 bogus-channel-announcements-and-announcements-for-a-channel-already-known-are-refused-the-first-accepted-one-wins
    r is Ok ==> msg.node_id_1.0 < msg.node_id_2.0 && msg.bitcoin_key_1 != msg.bitcoin_key_2 && msg.chain_hash == self.chain_hash,
    r is Ok && known is Some && known->Some_0.capacity_sats is Some ==> !(msg.node_id_1 == known->Some_0.node_one && msg.node_id_2 == known->Some_0.node_two),
    r is Ok && known is Some && known->Some_0.capacity_sats is None ==> *utxo_lookup is Some,
    (msg.node_id_1.0 < msg.node_id_2.0 && msg.bitcoin_key_1 != msg.bitcoin_key_2 && msg.chain_hash == self.chain_hash && known is None) ==> r is Ok,
    // and nothing else is refused here: an announcement for a known, chain-validated id between a DIFFERENT pair of nodes (a reorg can put another channel at the same id) goes on to be looked up again, and one for a channel stored without a capacity goes on whenever the chain can be consulted
    (msg.node_id_1.0 < msg.node_id_2.0 && msg.bitcoin_key_1 != msg.bitcoin_key_2 && msg.chain_hash == self.chain_hash && known is Some) ==>
        (r is Ok <==> (if known->Some_0.capacity_sats is Some { !(msg.node_id_1 == known->Some_0.node_one && msg.node_id_2 == known->Some_0.node_two) } else { *utxo_lookup is Some })),
//@mutant duplicate_of_a_validated_channel_reprocessed
    if msg.node_id_1 == chan.node_one && msg.node_id_2 == chan.node_two {
//@with
    if msg.node_id_1 == chan.node_one && msg.node_id_2 == chan.node_one {
//@mutant channel_between_other_nodes_at_a_known_id_dropped_as_a_duplicate
    if msg.node_id_1 == chan.node_one && msg.node_id_2 == chan.node_two {
//@with
    if msg.node_id_1 == chan.node_one || msg.node_id_2 == chan.node_two {
//@mutant announcement_for_another_chain_accepted
    if msg.chain_hash != self.chain_hash {
//@with
    if false {
//@end
}

// (g) signatures: every signature of an announcement is checked against the key it belongs to (crypto uninterpreted)
#[derive(Clone, Copy)] pub struct Signature(pub u64);
#[derive(Clone, Copy)] pub struct PublicKey(pub u64);
#[derive(Clone, Copy)] pub struct Message(pub u64);
pub uninterp spec fn sig_valid(m: Message, s: Signature, k: PublicKey) -> bool;
// the secp256k1 point encoded by a NodeId, if it is one
pub uninterp spec fn key_of(n: NodeId) -> Option<PublicKey>;
pub uninterp spec fn ann_hash(c: UnsignedChannelAnnouncement) -> Message;
pub uninterp spec fn node_ann_hash(c: UnsignedNodeAnnouncementS) -> Message;
pub struct Secp256k1 {}
impl Secp256k1 {
    #[verifier::external_body] pub fn verify_ecdsa(&self, m: &Message, s: &Signature, k: &PublicKey) -> (r: Result<(), ()>) ensures r is Ok <==> sig_valid(*m, *s, *k) { unimplemented!() }
}
#[verifier::external_body] pub fn pubkey_from_node_id(n: &NodeId) -> (r: Result<PublicKey, ()>) ensures r is Ok <==> key_of(*n) is Some, r is Ok ==> r->Ok_0 == key_of(*n)->Some_0 { unimplemented!() }
#[verifier::external_body] pub fn channel_announcement_hash(c: &UnsignedChannelAnnouncement) -> (r: Message) ensures r == ann_hash(*c) { unimplemented!() }
#[verifier::external_body] pub fn node_announcement_hash(c: &UnsignedNodeAnnouncementS) -> (r: Message) ensures r == node_ann_hash(*c) { unimplemented!() }
pub struct ChannelAnnouncement { pub node_signature_1: Signature, pub node_signature_2: Signature, pub bitcoin_signature_1: Signature, pub bitcoin_signature_2: Signature, pub contents: UnsignedChannelAnnouncement }
pub struct UnsignedNodeAnnouncementS { pub node_id: NodeId, pub timestamp: u32 }
pub struct NodeAnnouncement { pub signature: Signature, pub contents: UnsignedNodeAnnouncementS }
//@extract lightning/src/routing/gossip.rs :: fn verify_channel_announcement
//@rw R5
    fn verify_channel_announcement<C: Verification>( msg: &ChannelAnnouncement, secp_ctx: &Secp256k1<C>, )
//@with
    fn verify_channel_announcement( msg: &ChannelAnnouncement, secp_ctx: &Secp256k1, )
//@rw R8
    hash_to_message!(&message_sha256d_hash(&msg.contents)[..])
//@with
    channel_announcement_hash(&msg.contents)
//@rw R8 *
    get_pubkey_from_node_id!($n, $t)
//@with
    match pubkey_from_node_id(&$n) { Ok(k) => k, Err(_) => { return Err(LightningError { err: (), action: () }); } }
//@rw R8 *
    secp_verify_sig!($ctx, $m, $s, $k, $t);
//@with
    match $ctx.verify_ecdsa($m, $s, $k) { Ok(_) => {}, Err(_) => { return Err(LightningError { err: (), action: () }); } }
//@ret r
//@ensures P C17 a-channel-announcement-is-authentic-only-if-each-of-its-four-signatures-verifies-against-the-key-it-is-announced-for
    r is Ok <==> (key_of(msg.contents.node_id_1) is Some && key_of(msg.contents.node_id_2) is Some && key_of(msg.contents.bitcoin_key_1) is Some && key_of(msg.contents.bitcoin_key_2) is Some
        && sig_valid(ann_hash(msg.contents), msg.node_signature_1, key_of(msg.contents.node_id_1)->Some_0)
        && sig_valid(ann_hash(msg.contents), msg.node_signature_2, key_of(msg.contents.node_id_2)->Some_0)
        && sig_valid(ann_hash(msg.contents), msg.bitcoin_signature_1, key_of(msg.contents.bitcoin_key_1)->Some_0)
        && sig_valid(ann_hash(msg.contents), msg.bitcoin_signature_2, key_of(msg.contents.bitcoin_key_2)->Some_0)),
//@mutant second_bitcoin_signature_not_checked_against_its_key
    secp_verify_sig!(secp_ctx, &msg_hash, &msg.bitcoin_signature_2, &btc_b, "channel_announcement");
//@with
    secp_verify_sig!(secp_ctx, &msg_hash, &msg.bitcoin_signature_1, &btc_a, "channel_announcement");
//@end
//@extract lightning/src/routing/gossip.rs :: fn verify_node_announcement
//@rw R5
    fn verify_node_announcement<C: Verification>( msg: &NodeAnnouncement, secp_ctx: &Secp256k1<C>, )
//@with
    fn verify_node_announcement( msg: &NodeAnnouncement, secp_ctx: &Secp256k1, )
//@rw R8
    hash_to_message!(&message_sha256d_hash(&msg.contents)[..])
//@with
    node_announcement_hash(&msg.contents)
//@rw R8 *
    &get_pubkey_from_node_id!($n, $t)
//@with
    &(match pubkey_from_node_id(&$n) { Ok(k) => k, Err(_) => { return Err(LightningError { err: (), action: () }); } })
//@rw R8 *
    secp_verify_sig!($ctx, $m, $s, $k, $t);
//@with
    match $ctx.verify_ecdsa($m, $s, $k) { Ok(_) => {}, Err(_) => { return Err(LightningError { err: (), action: () }); } }
//@ret r
//@ensures P C17 a-node-announcement-is-authentic-only-if-its-signature-verifies-against-the-announced-node-id
    r is Ok <==> (key_of(msg.contents.node_id) is Some && sig_valid(node_ann_hash(msg.contents), msg.signature, key_of(msg.contents.node_id)->Some_0)),
//@end

// (h) which node must have signed a channel_update: the node the direction bit names
pub struct UpdChannelInfo { pub node_one: NodeId, pub node_two: NodeId }
//@extract lightning/src/routing/gossip.rs :: impl NetworkGraph :: fn update_channel_internal
//@strip msgs
//@slice R15
    Some(channel) => { check_msg_sanity(channel)?; let node_id = $choice; if sig.is_some() {
//@with
    fn signer_of_channel_update<'a>(msg: &UnsignedChannelUpdate, channel: &'a UpdChannelInfo) -> &'a NodeId { $choice }
//@rw R5 *
    .as_slice()
//@with
    
//@rw R5
    channel.node_two
//@with
    &channel.node_two
//@rw R5
    channel.node_one
//@with
    &channel.node_one
//@ret r
//@ensures P C17 a-channel-update-must-be-signed-by-the-node-whose-direction-it-updates
    *r == (if msg.channel_flags & 1 == 1 { channel.node_two } else { channel.node_one }),
//@mutant update_verified_against_the_other_nodes_key
    if msg.channel_flags & 1 == 1 { channel.node_two.as_slice() } else { channel.node_one.as_slice() }
//@with
    if msg.channel_flags & 1 == 1 { channel.node_one.as_slice() } else { channel.node_two.as_slice() }
//@end

// (i) an announcement for a channel we already hold replaces it only when the chain lookup vouched for it; otherwise the first one wins
pub struct Amount {}
//@extract lightning/src/routing/gossip.rs :: impl NetworkGraph :: fn add_channel_between_nodes
//@slice R15
    IndexedMapEntry::Occupied(mut entry) => { if $c:cond { $rep:any } else { return Err($e); } },
//@with
    fn known_channel_is_replaced(utxo_value: Option<Amount>) -> bool { $c }
//@ret r
//@ensures P C17 a-second-announcement-replaces-a-known-channel-only-with-a-fresh-on-chain-confirmation-of-its-funding-output
    r == (utxo_value is Some),
//@mutant unverified_duplicate_replaces_the_known_channel
    utxo_value.is_some()
//@with
    utxo_value.is_none()
//@end

// (j) channels and nodes reported permanently failed stay out of the graph while their removal is being tracked
pub struct TrackedSet<K> { pub s: Ghost<Set<K>> }
impl<K> TrackedSet<K> { #[verifier::external_body] pub fn contains_key(&self, k: &K) -> (r: bool) ensures r == self.s@.contains(*k) { unimplemented!() } }
//@extract lightning/src/routing/gossip.rs :: impl NetworkGraph :: fn update_channel_from_unsigned_announcement_intern
//@strip msgs
//@slice R15
    let removed_channels = self.removed_channels.lock().unwrap(); let removed_nodes = self.removed_nodes.lock().unwrap(); if $c:cond { return Err($e); }
//@with
    fn announcement_names_nothing_removed(msg: &UnsignedChannelAnnouncement, removed_channels: &TrackedSet<u64>, removed_nodes: &TrackedSet<NodeId>) -> Result<(), LightningError> {
        if $c { return Err(LightningError { err: (), action: () }); }
        Ok(())
    }
//@ret r
//@ensures P C17 an-announcement-naming-a-channel-or-either-node-that-was-reported-permanently-failed-is-refused-while-the-removal-is-tracked
    r is Ok <==> (!removed_channels.s@.contains(msg.short_channel_id) && !removed_nodes.s@.contains(msg.node_id_1) && !removed_nodes.s@.contains(msg.node_id_2)),
//@mutant second_node_not_looked_up_among_the_removed_nodes
    || removed_nodes.contains_key(&msg.node_id_2)
//@with
    || removed_nodes.contains_key(&msg.node_id_1)
//@end

// (k) a node reported permanently failed takes its channels with it; each neighbour loses exactly that channel
pub struct ChannelEnds { pub node_one: NodeId, pub node_two: NodeId }
//@extract lightning/src/routing/gossip.rs :: impl NetworkGraph :: fn node_failed_permanent
//@slice R15
    let other_node_id = $e:seq; if let IndexedMapEntry::Occupied(mut other_node_entry) =
//@with
    fn other_end_of_a_failed_nodes_channel(node_id: NodeId, chan_info: &ChannelEnds) -> NodeId { $e }
//@ret r
//@ensures P C17 the-neighbour-updated-when-a-failed-nodes-channel-is-removed-is-the-channels-other-end
    (node_id == chan_info.node_one ==> r == chan_info.node_two) && (node_id == chan_info.node_two && node_id != chan_info.node_one ==> r == chan_info.node_one),
//@mutant neighbour_is_the_failed_node_itself
    if node_id == chan_info.node_one { chan_info.node_two } else { chan_info.node_one }
//@with
    if node_id == chan_info.node_one { chan_info.node_one } else { chan_info.node_two }
//@end
//@extract lightning/src/routing/gossip.rs :: impl NetworkGraph :: fn node_failed_permanent
//@slice R15
    other_node_entry.get_mut().channels.retain(|chan_id| $p:cond);
//@with
    fn neighbour_keeps_channel(scid: &u64, chan_id: &u64) -> bool { $p }
//@ret r
//@ensures P C17 the-neighbour-of-a-failed-node-loses-exactly-the-channel-it-shared-with-it
    r == (*scid != *chan_id),
//@end
// ---- add_channel_between_nodes: an already known channel is replaced only by an announcement that was checked against the chain ----
pub mod replacement_rule {
use vstd::prelude::*;
pub struct LightningError { pub err: (), pub action: () }
pub struct Amount { pub sat: u64 }
pub struct ChanInfo { pub id: u64 }
pub struct OccupiedEntry<'a> { pub slot: &'a mut ChanInfo }
pub struct VacantEntry<'a> { pub slot: &'a mut Option<ChanInfo> }
impl<'a> OccupiedEntry<'a> {
    // the entry keeps lending the same slot (its final value is unchanged by these calls)
    #[verifier::external_body] pub fn get(&mut self) -> (r: &ChanInfo) ensures *r == *old(self).slot, *final(self).slot == *old(self).slot, *final(final(self).slot) == *final(old(self).slot) { unimplemented!() }
    #[verifier::external_body] pub fn get_mut(&mut self) -> (r: &mut ChanInfo) ensures *r == *old(self).slot, *final(self).slot == *final(r), *final(final(self).slot) == *final(old(self).slot) { unimplemented!() }
    #[verifier::external_body] pub fn into_mut(self) -> (r: &'a mut ChanInfo) ensures *r == *old(self.slot), *final(self.slot) == *final(r) { unimplemented!() }
}
impl<'a> VacantEntry<'a> { #[verifier::external_body] pub fn insert(self, v: ChanInfo) -> (r: &'a mut ChanInfo) ensures *r == v, *final(self.slot) == Some(*final(r)) { unimplemented!() } }
pub enum IndexedMapEntry<'a> { Occupied(OccupiedEntry<'a>), Vacant(VacantEntry<'a>) }
pub struct ChannelsMap { pub m: Ghost<Map<u64, ChanInfo>> }
impl ChannelsMap {
    #[verifier::external_body] pub fn entry<'a>(&'a mut self, k: u64) -> (e: IndexedMapEntry<'a>)
        ensures e is Occupied <==> old(self).m@.contains_key(k),
            e matches IndexedMapEntry::Occupied(o) ==> *o.slot == old(self).m@[k] && final(self).m@ == old(self).m@.insert(k, *final(o.slot)),
            e matches IndexedMapEntry::Vacant(v) ==> *v.slot is None && final(self).m@ == (match *final(v.slot) { Some(x) => old(self).m@.insert(k, x), None => old(self).m@ }),
    { unimplemented!() }
}
pub struct NodesMap { pub unlinked: Ghost<Seq<(u64, u64)>> }
pub struct Graph {}
impl Graph {
    // removes the channel from the channel lists of its two nodes; recorded as (scid, channel id)
    #[verifier::external_body] pub fn remove_channel_in_nodes(&self, nodes: &mut NodesMap, chan: &&ChanInfo, short_channel_id: u64)
        ensures final(nodes).unlinked@ == old(nodes).unlinked@.push((short_channel_id, chan.id)) { unimplemented!() }
//@extract lightning/src/routing/gossip.rs :: impl NetworkGraph :: fn add_channel_between_nodes
//@slice R15
    let channel_info = match channels.entry(short_channel_id) { $arms:any }; let mut node_counter_id
//@with
    fn store_announced_channel(&self, channels: &mut ChannelsMap, nodes: &mut NodesMap, short_channel_id: u64, channel_info: ChanInfo, utxo_value: Option<Amount>) -> Result<(), LightningError> {
        let ghost new_info = channel_info;
        let channel_info = match channels.entry(short_channel_id) { $arms };
        proof { assert(*channel_info == new_info); }
        Ok(()) }
//@rw R8 *
    LightningError { err: $e:seq, action: $a:seq, }
//@with
    LightningError { err: (), action: () }
//@rw R10
    self.remove_channel_in_nodes(&mut nodes,
//@with
    self.remove_channel_in_nodes(nodes,
//@ret r
//@ensures P C17 a-channel-already-in-the-graph-is-replaced-only-by-an-announcement-checked-against-the-chain-and-then-unlinked-from-its-old-nodes-first-otherwise-the-duplicate-is-refused-and-nothing-changes
    !old(channels).m@.contains_key(short_channel_id) ==> r is Ok && final(channels).m@ == old(channels).m@.insert(short_channel_id, channel_info) && final(nodes).unlinked@ == old(nodes).unlinked@,
    old(channels).m@.contains_key(short_channel_id) && utxo_value is Some ==> r is Ok && final(channels).m@ == old(channels).m@.insert(short_channel_id, channel_info)
        && final(nodes).unlinked@ == old(nodes).unlinked@.push((short_channel_id, old(channels).m@[short_channel_id].id)),
    old(channels).m@.contains_key(short_channel_id) && utxo_value is None ==> r is Err && final(channels).m@ == old(channels).m@ && final(nodes).unlinked@ == old(nodes).unlinked@,
//@mutant unverified_duplicate_replaces_the_stored_channel
    if utxo_value.is_some() {
//@with
    if utxo_value.is_none() {
//@end
}
}

// ---- a channel reported as failed for good (a payment failure said so) leaves the graph, is remembered as removed, and is unlinked from its two nodes ----
pub mod failed_for_good {
use vstd::prelude::*;
#[derive(Clone, Copy)] pub struct ChanInfo { pub id: u64 }
pub struct ChannelsMap { pub m: Ghost<Map<u64, ChanInfo>> }
impl ChannelsMap { #[verifier::external_body] pub fn remove(&mut self, k: &u64) -> (r: Option<ChanInfo>)
    ensures r == (if old(self).m@.contains_key(*k) { Some(old(self).m@[*k]) } else { None::<ChanInfo> }), final(self).m@ == old(self).m@.remove(*k) { unimplemented!() } }
pub struct RemovedChannels { pub m: Ghost<Map<u64, Option<u64>>> }
impl RemovedChannels { #[verifier::external_body] pub fn insert(&mut self, k: u64, v: Option<u64>) -> (r: Option<Option<u64>>) ensures final(self).m@ == old(self).m@.insert(k, v) { unimplemented!() } }
pub struct NodesMap { pub unlinked: Ghost<Seq<(u64, u64)>> }
// R5: the three lock-protected maps of the graph are fields of a skeleton handed out by value-preserving accessors (one caller: no other thread)
pub struct Graph { pub channels: ChannelsMap, pub nodes: NodesMap, pub removed_channels: RemovedChannels }
#[verifier::external_body] pub fn remove_channel_in_nodes(nodes: &mut NodesMap, chan: &ChanInfo, short_channel_id: u64)
    ensures final(nodes).unlinked@ == old(nodes).unlinked@.push((short_channel_id, chan.id)) { unimplemented!() }
impl Graph {
//@extract lightning/src/routing/gossip.rs :: impl NetworkGraph :: fn channel_failed_permanent_with_time
//@rw R5
    fn channel_failed_permanent_with_time( &self,
//@with
    fn channel_failed_permanent_with_time( &mut self,
//@rw R5
    let mut channels = self.channels.write().unwrap();
//@with
    let channels = &mut self.channels;
//@rw R5 ?
    let mut nodes = self.nodes.write().unwrap();
//@with
    let nodes = &mut self.nodes;
//@rw R5 ?
    self.removed_channels.lock().unwrap()
//@with
    self.removed_channels
//@rw R5 ?
    self.remove_channel_in_nodes(&mut nodes,
//@with
    remove_channel_in_nodes(nodes,
//@ensures P C17 a-channel-reported-as-failed-for-good-is-removed-remembered-as-removed-and-unlinked-from-its-nodes-and-an-unknown-one-changes-nothing
    old(self).channels.m@.contains_key(short_channel_id) ==> final(self).channels.m@ == old(self).channels.m@.remove(short_channel_id)
        && final(self).removed_channels.m@ == old(self).removed_channels.m@.insert(short_channel_id, current_time_unix)
        && final(self).nodes.unlinked@ == old(self).nodes.unlinked@.push((short_channel_id, old(self).channels.m@[short_channel_id].id)),
    !old(self).channels.m@.contains_key(short_channel_id) ==> final(self).channels.m@ == old(self).channels.m@ && final(self).removed_channels.m@ == old(self).removed_channels.m@ && final(self).nodes.unlinked@ == old(self).nodes.unlinked@,
//@mutant failed_channel_not_remembered_as_removed
    self.removed_channels.lock().unwrap().insert(short_channel_id, current_time_unix);
//@with
    
//@mutant failed_channel_left_in_its_nodes_channel_lists
    self.remove_channel_in_nodes(&mut nodes, &chan, short_channel_id);
//@with
    
//@end
}
}

// ---- remove_channel_in_nodes_callback: a removed channel disappears from a node's channel list, and a node left without channels is removed with it ----
pub mod unlink {
use vstd::prelude::*;
pub struct NodeInfo { pub channels: Vec<u64>, pub node_counter: u32 }
pub struct OccupiedEntry { pub node: NodeInfo }
impl OccupiedEntry {
    pub fn get(&self) -> (r: &NodeInfo) ensures *r == self.node { &self.node }
    pub fn get_mut(&mut self) -> (r: &mut NodeInfo) ensures *r == old(self).node, final(self).node == *final(r) { &mut self.node }
}
pub struct Counters { pub v: Vec<u32> }
impl Counters { #[verifier::external_body] pub fn push(&mut self, c: u32) ensures final(self).v@ == old(self).v@.push(c) { unimplemented!() } }
// the caller's `remove_node` closure: takes the entry out of the map (recorded)
pub struct RemoveNode { pub removed: Ghost<Seq<NodeInfo>> }
impl RemoveNode { #[verifier::external_body] pub fn call(&mut self, e: OccupiedEntry) ensures final(self).removed@ == old(self).removed@.push(e.node) { unimplemented!() } }
pub open spec fn without(s: Seq<u64>, scid: u64) -> Seq<u64> { s.filter(|c: u64| c != scid) }
//@extract lightning/src/routing/gossip.rs :: impl NetworkGraph :: fn remove_channel_in_nodes_callback
//@metavars
//@slice R15
    macro_rules! remove_from_node { ($node_id: expr) => { if let IndexedMapEntry::Occupied(mut entry) = nodes.entry($node_id) { $body:any } else { $p:any } }; }
//@with
    fn unlink_channel_from_one_of_its_nodes(entry_: OccupiedEntry, short_channel_id: u64, removed_node_counters: &mut Counters, remove_node: &mut RemoveNode) -> Option<OccupiedEntry> {
        let mut entry = entry_;
        $body
        Some(entry) }
//@rw R6e
    entry.get_mut().channels.retain(|chan_id| short_channel_id != *chan_id);
//@with
    retain_other_channels(&mut entry.get_mut().channels, short_channel_id);
//@rw R5
    self.removed_node_counters.lock().unwrap().push(
//@with
    removed_node_counters.push(
//@rw R5
    remove_node(entry);
//@with
    remove_node.call(entry); return None;
//@ret r
//@ensures P C17 a-removed-channel-leaves-the-channel-list-of-its-node-and-a-node-left-without-channels-is-removed-with-its-counter-recorded
    ({ let rest = without(entry_.node.channels@, short_channel_id);
       &&& rest.len() > 0 ==> r is Some && r->Some_0.node.channels@ == rest && r->Some_0.node.node_counter == entry_.node.node_counter
              && final(remove_node).removed@ == old(remove_node).removed@ && final(removed_node_counters).v@ == old(removed_node_counters).v@
       &&& rest.len() == 0 ==> r is None && final(removed_node_counters).v@ == old(removed_node_counters).v@.push(entry_.node.node_counter)
              && final(remove_node).removed@.len() == old(remove_node).removed@.len() + 1 && final(remove_node).removed@.last().node_counter == entry_.node.node_counter }),
//@mutant node_without_channels_stays_in_the_graph
    if entry.get().channels.is_empty() {
//@with
    if false && entry.get().channels.is_empty() {
//@end
// std: Vec::retain keeps the elements for which the closure answers true, in order
#[verifier::external_body] pub fn retain_other_channels(v: &mut Vec<u64>, scid: u64) ensures final(v)@ == without(old(v)@, scid) { unimplemented!() }
}

// ---- staleness pruning: the cut-off time, and how long removed entries are remembered ----
//@const lightning/src/routing/gossip.rs REMOVED_ENTRIES_TRACKING_AGE_LIMIT_SECS
//@extract lightning/src/routing/gossip.rs :: impl NetworkGraph :: fn remove_stale_channels_and_tracking_with_time
//@slice R15
    if $late:cond { return; } if $early:cond { return; } let min_time_unix: u32 = $cut:seq;
//@with
    fn cutoff_for_stale_updates(current_time_unix: u64) -> Option<u32> { if $late { return None; } if $early { return None; } let min_time_unix: u32 = $cut; Some(min_time_unix) }
//@ret r
//@ensures P C17 updates-older-than-the-staleness-limit-counted-back-from-now-are-stale-and-nothing-is-pruned-when-the-clock-is-out-of-the-range-timestamps-can-express
    r == (if current_time_unix > u32::MAX as u64 || current_time_unix < STALE_CHANNEL_UPDATE_AGE_LIMIT_SECS { None::<u32> } else { Some((current_time_unix - STALE_CHANNEL_UPDATE_AGE_LIMIT_SECS) as u32) }),
//@mutant cutoff_taken_from_the_tracking_window
    (current_time_unix - STALE_CHANNEL_UPDATE_AGE_LIMIT_SECS) as u32
//@with
    (current_time_unix - REMOVED_ENTRIES_TRACKING_AGE_LIMIT_SECS) as u32
//@end
//@extract lightning/src/routing/gossip.rs :: impl NetworkGraph :: fn remove_stale_channels_and_tracking_with_time
//@slice R15
    let should_keep_tracking = |time: &mut Option<u64>| { $body:any };
//@with
    fn removed_entry_is_still_remembered(time: &mut Option<u64>, current_time_unix: u64) -> bool { $body }
//@ret r
//@ensures P C17 a-removed-channel-or-node-stays-refused-for-the-whole-tracking-window-after-its-removal-and-is-forgotten-afterwards
    r == (*old(time) is Some && (if current_time_unix >= (*old(time))->Some_0 { current_time_unix - (*old(time))->Some_0 } else { 0 }) < REMOVED_ENTRIES_TRACKING_AGE_LIMIT_SECS),
    *final(time) == *old(time),
//@mutant removed_entries_forgotten_at_once
    current_time_unix.saturating_sub(*time) < REMOVED_ENTRIES_TRACKING_AGE_LIMIT_SECS
//@with
    current_time_unix.saturating_sub(*time) > REMOVED_ENTRIES_TRACKING_AGE_LIMIT_SECS
//@end
}
fn main() {}
