//! unit: u16i
//! properties: C16
//! note: which channel and which two nodes a candidate hop stands for (the data a Route's hops are written from): DirectedChannelInfo::{new, source, target} - the source of a channel traversed from node one is node one and its target node two, the other way round otherwise, and the dense node counters follow the same rule - and CandidateRouteHop::{short_channel_id, globally_unique_short_channel_id, source, target, src_node_counter, target_node_counter}: a public hop names the graph channel it was built from and that direction's endpoints, a private hop the hint's channel from the hint's source to the node the hint was given for, our own channel the id payments are sent with (only an announced one has a globally unique id), a blinded path has no channel id and no target (it ends inside the path). A hop that named the other endpoint, or a channel it is not, gives a route whose hops do not connect
//! trusted: R5: the candidate structs are skeletons with the fields these accessors read, references written as owned values (`*hop.payer_node_id` -> the value, `hop.hint.src_node_id.into()` / `hop.details.counterparty.node_id.into()`: PublicKey -> NodeId conversion as an uninterpreted injective function); ChannelDetails::get_outbound_payment_scid external_body (uninterpreted projection); lifetimes dropped
//! trusted: assume_specification for core::cmp::max / core::cmp::min (std definitions): present in every unit so that a change that introduces them is verified instead of being rejected by the tool
use vstd::prelude::*;
verus! {
use vstd::std_specs::cmp::*;
use core::cmp;
pub assume_specification<T: core::cmp::Ord>[core::cmp::max::<T>](a: T, b: T) -> (r: T)
    ensures T::obeys_cmp_spec() ==> r == (if b.cmp_spec(&a) == core::cmp::Ordering::Less { a } else { b });
pub assume_specification<T: core::cmp::Ord>[core::cmp::min::<T>](a: T, b: T) -> (r: T)
    ensures T::obeys_cmp_spec() ==> r == (if b.cmp_spec(&a) == core::cmp::Ordering::Less { b } else { a });
#[derive(Clone, Copy, PartialEq, Eq)] pub struct NodeId(pub u64);
#[derive(Clone, Copy, PartialEq, Eq)] pub struct PublicKey(pub u64);
pub uninterp spec fn node_id_of(k: PublicKey) -> NodeId;
impl PublicKey { #[verifier::external_body] pub fn into(self) -> (r: NodeId) ensures r == node_id_of(self) { unimplemented!() } }
pub struct ChannelInfo { pub node_one: NodeId, pub node_two: NodeId, pub node_one_counter: u32, pub node_two_counter: u32, pub capacity_sats: Option<u64> }
pub struct ChannelUpdateInfo { pub htlc_maximum_msat: u64 }
pub struct DirectedChannelInfo { pub channel: ChannelInfo, pub direction: ChannelUpdateInfo, pub from_node_one: bool, pub source_counter: u32, pub target_counter: u32 }
pub open spec fn directed_wf(d: DirectedChannelInfo) -> bool {
    d.source_counter == (if d.from_node_one { d.channel.node_one_counter } else { d.channel.node_two_counter }) && d.target_counter == (if d.from_node_one { d.channel.node_two_counter } else { d.channel.node_one_counter }) }
impl DirectedChannelInfo {
//@extract lightning/src/routing/gossip.rs :: impl DirectedChannelInfo :: fn new
//@rw R5
    channel: &'a ChannelInfo, direction: &'a ChannelUpdateInfo, from_node_one: bool,
//@with
    channel: ChannelInfo, direction: ChannelUpdateInfo, from_node_one: bool,
//@ret r
//@ensures P C16 a-directed-channel-carries-the-counters-of-the-node-it-is-traversed-from-and-of-the-node-it-is-traversed-to
    r.channel == channel && r.direction == direction && r.from_node_one == from_node_one && directed_wf(r),
//@mutant counters_of_a_directed_channel_exchanged
    (channel.node_one_counter, channel.node_two_counter) } else {
//@with
    (channel.node_two_counter, channel.node_one_counter) } else {
//@end
//@extract lightning/src/routing/gossip.rs :: impl DirectedChannelInfo :: fn source
//@rw R5
    &'a NodeId
//@with
    &NodeId
//@ret r
//@ensures P C16 the-source-of-a-channel-traversed-from-node-one-is-node-one
    *r == (if self.from_node_one { self.channel.node_one } else { self.channel.node_two }),
//@end
//@extract lightning/src/routing/gossip.rs :: impl DirectedChannelInfo :: fn target
//@rw R5
    &'a NodeId
//@with
    &NodeId
//@ret r
//@ensures P C16 the-target-of-a-channel-traversed-from-node-one-is-node-two
    *r == (if self.from_node_one { self.channel.node_two } else { self.channel.node_one }),
//@mutant target_of_a_directed_channel_is_its_source
    if self.from_node_one { &self.channel.node_two } else { &self.channel.node_one }
//@with
    if self.from_node_one { &self.channel.node_one } else { &self.channel.node_two }
//@end
//@extract lightning/src/routing/gossip.rs :: impl DirectedChannelInfo :: fn source_counter
//@ret r
//@ensures A
    r == self.source_counter
//@end
//@extract lightning/src/routing/gossip.rs :: impl DirectedChannelInfo :: fn target_counter
//@ret r
//@ensures A
    r == self.target_counter
//@end
}
pub struct Counterparty { pub node_id: PublicKey }
pub struct ChannelDetails { pub short_channel_id: Option<u64>, pub outbound_scid_alias: Option<u64>, pub inbound_scid_alias: Option<u64>, pub is_announced: bool, pub counterparty: Counterparty }
pub uninterp spec fn outbound_payment_scid(d: ChannelDetails) -> Option<u64>;
impl ChannelDetails { #[verifier::external_body] pub fn get_outbound_payment_scid(&self) -> (r: Option<u64>) ensures r == outbound_payment_scid(*self) { unimplemented!() } }
pub struct RouteHintHop { pub src_node_id: PublicKey, pub short_channel_id: u64 }
pub struct FirstHopCandidate { pub details: ChannelDetails, pub payer_node_id: NodeId, pub payer_node_counter: u32, pub target_node_counter: u32 }
pub struct PublicHopCandidate { pub info: DirectedChannelInfo, pub short_channel_id: u64 }
pub struct PrivateHopCandidate { pub hint: RouteHintHop, pub target_node_id: NodeId, pub source_node_counter: u32, pub target_node_counter: u32 }
pub struct BlindedPathCandidate { pub source_node_id: NodeId, pub hint_idx: usize, pub source_node_counter: u32 }
pub struct OneHopBlindedPathCandidate { pub source_node_id: NodeId, pub hint_idx: usize, pub source_node_counter: u32 }
pub enum CandidateRouteHop { FirstHop(FirstHopCandidate), PublicHop(PublicHopCandidate), PrivateHop(PrivateHopCandidate), Blinded(BlindedPathCandidate), OneHopBlinded(OneHopBlindedPathCandidate) }
impl CandidateRouteHop {
//@extract lightning/src/routing/router.rs :: impl CandidateRouteHop :: fn short_channel_id
//@ret r
//@ensures P C16 the-channel-a-hop-is-sent-over-is-the-one-the-candidate-was-built-from
    r == (match *self { CandidateRouteHop::FirstHop(h) => outbound_payment_scid(h.details), CandidateRouteHop::PublicHop(h) => Some(h.short_channel_id), CandidateRouteHop::PrivateHop(h) => Some(h.hint.short_channel_id),
        CandidateRouteHop::Blinded(_) => None, CandidateRouteHop::OneHopBlinded(_) => None }),
//@end
//@extract lightning/src/routing/router.rs :: impl CandidateRouteHop :: fn globally_unique_short_channel_id
//@ret r
//@ensures P C16 only-announced-channels-have-an-id-that-means-the-same-to-every-node
    r == (match *self { CandidateRouteHop::FirstHop(h) => if h.details.is_announced { h.details.short_channel_id } else { None }, CandidateRouteHop::PublicHop(h) => Some(h.short_channel_id),
        CandidateRouteHop::PrivateHop(_) => None, CandidateRouteHop::Blinded(_) => None, CandidateRouteHop::OneHopBlinded(_) => None }),
//@mutant unannounced_first_hop_reported_globally_unique
    if hop.details.is_announced { hop.details.short_channel_id } else { None }
//@with
    hop.details.short_channel_id
//@end
//@extract lightning/src/routing/router.rs :: impl CandidateRouteHop :: fn src_node_counter
//@ret r
//@ensures P C16 the-dense-index-of-a-hops-source-is-that-of-the-node-the-hop-starts-at
    r == (match *self { CandidateRouteHop::FirstHop(h) => h.payer_node_counter, CandidateRouteHop::PublicHop(h) => h.info.source_counter, CandidateRouteHop::PrivateHop(h) => h.source_node_counter,
        CandidateRouteHop::Blinded(h) => h.source_node_counter, CandidateRouteHop::OneHopBlinded(h) => h.source_node_counter }),
//@end
//@extract lightning/src/routing/router.rs :: impl CandidateRouteHop :: fn target_node_counter
//@ret r
//@ensures P C16 the-dense-index-of-a-hops-target-is-that-of-the-node-the-hop-ends-at-and-a-blinded-path-has-none
    r == (match *self { CandidateRouteHop::FirstHop(h) => Some(h.target_node_counter), CandidateRouteHop::PublicHop(h) => Some(h.info.target_counter), CandidateRouteHop::PrivateHop(h) => Some(h.target_node_counter),
        CandidateRouteHop::Blinded(_) => None, CandidateRouteHop::OneHopBlinded(_) => None }),
//@mutant public_hop_target_index_is_its_source
    CandidateRouteHop::PublicHop(hop) => Some(hop.info.target_counter()),
//@with
    CandidateRouteHop::PublicHop(hop) => Some(hop.info.source_counter()),
//@end
//@extract lightning/src/routing/router.rs :: impl CandidateRouteHop :: fn source
//@rw R5
    *hop.payer_node_id
//@with
    hop.payer_node_id
//@rw * R5
    *hop.source_node_id
//@with
    hop.source_node_id
//@ret r
//@ensures P C16 a-hop-starts-at-the-payer-the-traversed-channels-source-the-hints-source-or-the-introduction-node
    r == (match *self { CandidateRouteHop::FirstHop(h) => h.payer_node_id, CandidateRouteHop::PublicHop(h) => (if h.info.from_node_one { h.info.channel.node_one } else { h.info.channel.node_two }),
        CandidateRouteHop::PrivateHop(h) => node_id_of(h.hint.src_node_id), CandidateRouteHop::Blinded(h) => h.source_node_id, CandidateRouteHop::OneHopBlinded(h) => h.source_node_id }),
//@end
//@extract lightning/src/routing/router.rs :: impl CandidateRouteHop :: fn target
//@rw R5
    *hop.target_node_id
//@with
    hop.target_node_id
//@ret r
//@ensures P C16 a-hop-ends-at-our-counterparty-the-traversed-channels-target-or-the-node-the-hint-was-given-for-and-a-blinded-path-names-no-target
    r == (match *self { CandidateRouteHop::FirstHop(h) => Some(node_id_of(h.details.counterparty.node_id)), CandidateRouteHop::PublicHop(h) => Some(if h.info.from_node_one { h.info.channel.node_two } else { h.info.channel.node_one }),
        CandidateRouteHop::PrivateHop(h) => Some(h.target_node_id), CandidateRouteHop::Blinded(_) => None, CandidateRouteHop::OneHopBlinded(_) => None }),
//@mutant public_hop_ends_where_it_starts
    CandidateRouteHop::PublicHop(hop) => Some(*hop.info.target()),
//@with
    CandidateRouteHop::PublicHop(hop) => Some(*hop.info.source()),
//@end
}
}
fn main() {}
