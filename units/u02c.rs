//! unit: u02c
//! properties: C02 C01 C09
//! note: FundedChannel::get_update_fulfill_htlc (whole function): claiming an inbound HTLC with a preimage either changes nothing (the HTLC is unknown, already removed, or its claim already waits in the holding cell: DuplicateClaim, the monitor-update id is left as it was) or produces exactly one ChannelMonitorUpdate, numbered one above the last, whose single step hands THIS preimage to the monitor, and records the claim in the channel: in the HTLC's state when a commitment can be generated now, otherwise as one ClaimHTLC in the holding cell (and says so: update_blocked)
//! trusted: R5: Self skeleton {context: {channel_state, pending_inbound_htlcs, holding_cell_htlc_updates, latest_monitor_update_id, channel id}}; ChannelState is a two-variant skeleton (ChannelReady / other) whose can_generate_new_commitment() answers an uninterpreted bit of the state; InboundHTLCState, InboundHTLCRemovalReason, HTLCUpdateAwaitingACK and UpdateFulfillFetch are extracted; payload types (resolutions, onion packets, sources, attribution data, claim details) are opaque
//! trusted: R6: `for (idx, htlc) in V.iter().enumerate() { B }` and `for x in V.iter() { B }` are index loops carrying B verbatim; R16: `match htlc.state { .. V(ref x) .. }` is `match &htlc.state { .. V(x) .. }`, `if let &P = reason` is `if let P = reason`, `match x { &V { f, .. } => .. }` on a reference is written under default binding modes (f is then a reference: `htlc_id_arg == htlc_id` is written `htlc_id_arg == *htlc_id`); R7: the or-pattern arm is one arm per alternative; R8: the hash of the preimage is the uninterpreted sha256_of; R11: panic! is unreachable!()
//! note: FundedChannel::fail_htlc (whole function, E instantiated with a failure whose three conversions are uninterpreted): a failure is refused, leaving the channel as it was, for an HTLC that is unknown or already removed, and on the holding-cell path when a claim or a failure for it already waits there; otherwise it is recorded exactly once - as the HTLC's removal with the message to send, or as one entry of the holding cell - and never touches the monitor-update id
//! assume: fail_htlc: HTLC ids are unique among the pending inbound HTLCs; force_holding_cell is set whenever no commitment can be generated; the HTLC is Committed or already removed (LDK's debug_assert!s)
//! assume: the caller's obligations that LDK states as panic! / debug_assert!: the channel is in ChannelReady; the preimage hashes to the HTLC's payment hash; an HTLC that is claimed is Committed or was already removed by a claim (never one that was failed, never one not yet fully committed), and no failure for it waits in the holding cell
//! trusted: assume_specification for core::cmp::max / core::cmp::min (std definitions): present in every unit so that a change that introduces them is verified instead of being rejected by the tool
use vstd::prelude::*;
verus! {
use vstd::std_specs::cmp::*;
use core::cmp;
pub assume_specification<T: core::cmp::Ord>[core::cmp::max::<T>](a: T, b: T) -> (r: T)
    ensures T::obeys_cmp_spec() ==> r == (if b.cmp_spec(&a) == core::cmp::Ordering::Less { a } else { b });
pub assume_specification<T: core::cmp::Ord>[core::cmp::min::<T>](a: T, b: T) -> (r: T)
    ensures T::obeys_cmp_spec() ==> r == (if b.cmp_spec(&a) == core::cmp::Ordering::Less { b } else { a });
pub struct InboundHTLCResolution {} pub struct InboundUpdateAdd {} pub struct OnionErrorPacket {} pub struct OnionPacket {} pub struct HTLCSource {} pub struct PublicKey {}
pub struct AttributionData { pub id: u64 }
pub struct PaymentClaimDetails { pub id: u64 }
#[derive(Copy)] pub struct PaymentPreimage(pub [u8; 32]);
impl Clone for PaymentPreimage { #[verifier::external_body] fn clone(&self) -> (r: Self) ensures r == *self { unimplemented!() } }
#[derive(Clone, Copy, Debug)] pub struct PaymentHash(pub [u8; 32]);
impl vstd::std_specs::cmp::PartialEqSpecImpl for PaymentHash { open spec fn obeys_eq_spec() -> bool { true } open spec fn eq_spec(&self, other: &PaymentHash) -> bool { *self == *other } }
impl PartialEq for PaymentHash { #[verifier::external_body] fn eq(&self, o: &PaymentHash) -> (r: bool) { self.0 == o.0 } }
pub uninterp spec fn sha256_of(p: PaymentPreimage) -> PaymentHash;
#[verifier::external_body] pub fn hash_of_preimage(p: &PaymentPreimage) -> (r: PaymentHash) ensures r == sha256_of(*p) { unimplemented!() }
#[derive(Clone, Copy)] pub struct ChannelId { pub id: u64 }
//@extract lightning/src/ln/channel.rs :: enum InboundHTLCRemovalReason
//@strip msgs
//@end
//@extract lightning/src/ln/channel.rs :: enum InboundHTLCState
//@end
//@extract lightning/src/ln/channel.rs :: enum HTLCUpdateAwaitingACK
//@strip msgs
//@end
pub struct InboundHTLCOutput { pub htlc_id: u64, pub amount_msat: u64, pub cltv_expiry: u32, pub payment_hash: PaymentHash, pub state: InboundHTLCState }
pub enum ChannelMonitorUpdateStep { PaymentPreimage { payment_preimage: PaymentPreimage, payment_info: Option<PaymentClaimDetails> }, Other }
pub struct ChannelMonitorUpdate { pub update_id: u64, pub updates: Vec<ChannelMonitorUpdateStep>, pub channel_id: Option<ChannelId> }
//@extract lightning/src/ln/channel.rs :: enum UpdateFulfillFetch
//@end
pub struct Flags { pub can_commit: bool }
pub enum ChannelState { ChannelReady(Flags), Other(Flags) }
impl ChannelState {
    pub open spec fn can_commit(self) -> bool { match self { ChannelState::ChannelReady(f) => f.can_commit, ChannelState::Other(f) => f.can_commit } }
    #[verifier::external_body] pub fn can_generate_new_commitment(&self) -> (r: bool) ensures r == self.can_commit() { unimplemented!() }
}
pub struct Ctx { pub channel_state: ChannelState, pub pending_inbound_htlcs: Vec<InboundHTLCOutput>, pub holding_cell_htlc_updates: Vec<HTLCUpdateAwaitingACK>, pub latest_monitor_update_id: u64, pub id: ChannelId }
impl Ctx { #[verifier::external_body] pub fn channel_id(&self) -> (r: ChannelId) ensures r == self.id { unimplemented!() } }
pub trait Logger {}
pub struct FundedChannel { pub context: Ctx }
// the inbound HTLC with this id, if the channel has one (ids are unique: the first match is the one)
pub open spec fn index_of(v: Seq<InboundHTLCOutput>, id: u64) -> int decreases v.len() {
    if v.len() == 0 { -1 } else if index_of(v.drop_last(), id) >= 0 { index_of(v.drop_last(), id) } else if v.last().htlc_id == id { v.len() - 1 } else { -1 }
}
pub proof fn lemma_index_of(v: Seq<InboundHTLCOutput>, id: u64, k: int)
    requires 0 <= k < v.len(), v[k].htlc_id == id, forall|j: int| 0 <= j < k ==> (#[trigger] v[j]).htlc_id != id
    ensures index_of(v, id) == k
    decreases v.len()
{
    if v.len() - 1 == k { lemma_index_none(v.drop_last(), id); } else { lemma_index_of(v.drop_last(), id, k); }
}
pub proof fn lemma_index_none(v: Seq<InboundHTLCOutput>, id: u64)
    requires forall|j: int| 0 <= j < v.len() ==> (#[trigger] v[j]).htlc_id != id
    ensures index_of(v, id) == -1
    decreases v.len()
{ if v.len() > 0 { lemma_index_none(v.drop_last(), id); } }
pub open spec fn claim_waits_in_holding_cell(h: Seq<HTLCUpdateAwaitingACK>, id: u64) -> bool {
    exists|k: int| 0 <= k < h.len() && (#[trigger] h[k] matches HTLCUpdateAwaitingACK::ClaimHTLC { htlc_id, .. } && htlc_id == id)
}
pub open spec fn failure_waits_in_holding_cell(h: Seq<HTLCUpdateAwaitingACK>, id: u64) -> bool {
    exists|k: int| 0 <= k < h.len() && ((#[trigger] h[k] matches HTLCUpdateAwaitingACK::FailHTLC { htlc_id, .. } && htlc_id == id) || (h[k] matches HTLCUpdateAwaitingACK::FailMalformedHTLC { htlc_id, .. } && htlc_id == id))
}
pub open spec fn is_the_preimage_update(u: ChannelMonitorUpdate, id: u64, p: PaymentPreimage, info: Option<PaymentClaimDetails>, chan: ChannelId) -> bool {
    u.update_id == id && u.channel_id == Some(chan) && u.updates@.len() == 1 && u.updates@[0] == (ChannelMonitorUpdateStep::PaymentPreimage { payment_preimage: p, payment_info: info })
}
pub open spec fn same_channel(a: FundedChannel, b: FundedChannel) -> bool {
    a.context.channel_state == b.context.channel_state && a.context.pending_inbound_htlcs@ == b.context.pending_inbound_htlcs@
        && a.context.holding_cell_htlc_updates@ == b.context.holding_cell_htlc_updates@ && a.context.latest_monitor_update_id == b.context.latest_monitor_update_id && a.context.id == b.context.id
}
// what LDK's panic! / debug_assert!s demand of the caller
pub open spec fn may_be_claimed(c: FundedChannel, id: u64, p: PaymentPreimage) -> bool {
    let v = c.context.pending_inbound_htlcs@; let k = index_of(v, id);
    &&& c.context.channel_state is ChannelReady
    &&& k >= 0 ==> v[k].payment_hash == sha256_of(p) && (v[k].state is Committed || v[k].state matches InboundHTLCState::LocalRemoved(InboundHTLCRemovalReason::Fulfill { .. }))
    &&& !failure_waits_in_holding_cell(c.context.holding_cell_htlc_updates@, id)
}
impl FundedChannel {
//@extract lightning/src/ln/channel.rs :: impl FundedChannel :: fn get_update_fulfill_htlc
//@r7
//@rw R6
    for (idx, htlc) in self.context.pending_inbound_htlcs.iter().enumerate() { $body:any }
//@with
    let mut idx: usize = 0;
    while idx < self.context.pending_inbound_htlcs.len()
        invariant_except_break
            pending_idx == usize::MAX, htlc_value_msat == 0,
            forall|j: int| 0 <= j < idx ==> (#[trigger] self.context.pending_inbound_htlcs@[j]).htlc_id != htlc_id_arg,
        invariant
            *self == *old(self), idx <= self.context.pending_inbound_htlcs@.len(), may_be_claimed(*old(self), htlc_id_arg, payment_preimage_arg),
        ensures
            *self == *old(self),
            pending_idx == usize::MAX ==> forall|j: int| 0 <= j < self.context.pending_inbound_htlcs@.len() ==> (#[trigger] self.context.pending_inbound_htlcs@[j]).htlc_id != htlc_id_arg,
            pending_idx != usize::MAX ==> pending_idx < self.context.pending_inbound_htlcs@.len() && self.context.pending_inbound_htlcs@[pending_idx as int].htlc_id == htlc_id_arg
                && (forall|j: int| 0 <= j < pending_idx ==> (#[trigger] self.context.pending_inbound_htlcs@[j]).htlc_id != htlc_id_arg)
                && self.context.pending_inbound_htlcs@[pending_idx as int].state is Committed && htlc_value_msat == self.context.pending_inbound_htlcs@[pending_idx as int].amount_msat,
        decreases self.context.pending_inbound_htlcs@.len() - idx
    {
        let htlc = &self.context.pending_inbound_htlcs[idx];
        proof { if htlc.htlc_id == htlc_id_arg { lemma_index_of(self.context.pending_inbound_htlcs@, htlc_id_arg, idx as int); } }
        $body
        idx = idx + 1;
    }
    proof {
        if pending_idx == usize::MAX { lemma_index_none(self.context.pending_inbound_htlcs@, htlc_id_arg); }
        else { lemma_index_of(self.context.pending_inbound_htlcs@, htlc_id_arg, pending_idx as int); }
    }
//@rw R6
    for pending_update in self.context.holding_cell_htlc_updates.iter() { $body:any }
//@with
    let mut __k: usize = 0;
    while __k < self.context.holding_cell_htlc_updates.len()
        invariant
            __k <= self.context.holding_cell_htlc_updates@.len(), self.context.holding_cell_htlc_updates@ == old(self).context.holding_cell_htlc_updates@,
            self.context.pending_inbound_htlcs@ == old(self).context.pending_inbound_htlcs@, self.context.channel_state == old(self).context.channel_state, self.context.id == old(self).context.id,
            self.context.latest_monitor_update_id == old(self).context.latest_monitor_update_id + 1,
            !failure_waits_in_holding_cell(old(self).context.holding_cell_htlc_updates@, htlc_id_arg),
            !old(self).context.channel_state.can_commit(),
            pending_idx as int == index_of(old(self).context.pending_inbound_htlcs@, htlc_id_arg), 0 <= pending_idx < old(self).context.pending_inbound_htlcs@.len(),
            old(self).context.pending_inbound_htlcs@[pending_idx as int].state is Committed, htlc_value_msat == old(self).context.pending_inbound_htlcs@[pending_idx as int].amount_msat,
            is_the_preimage_update(monitor_update, (old(self).context.latest_monitor_update_id + 1) as u64, payment_preimage_arg, payment_info, old(self).context.id),
            forall|j: int| 0 <= j < __k ==> !(#[trigger] self.context.holding_cell_htlc_updates@[j] matches HTLCUpdateAwaitingACK::ClaimHTLC { htlc_id, .. } && htlc_id == htlc_id_arg),
        decreases self.context.holding_cell_htlc_updates@.len() - __k
    {
        let pending_update = &self.context.holding_cell_htlc_updates[__k];
        proof {
            let h = old(self).context.holding_cell_htlc_updates@;
            if h[__k as int] matches HTLCUpdateAwaitingACK::ClaimHTLC { htlc_id, .. } && htlc_id == htlc_id_arg { assert(claim_waits_in_holding_cell(h, htlc_id_arg)); }
            if (h[__k as int] matches HTLCUpdateAwaitingACK::FailHTLC { htlc_id, .. } && htlc_id == htlc_id_arg) || (h[__k as int] matches HTLCUpdateAwaitingACK::FailMalformedHTLC { htlc_id, .. } && htlc_id == htlc_id_arg) { assert(failure_waits_in_holding_cell(h, htlc_id_arg)); }
        }
        $body
        __k = __k + 1;
    }
//@rw R8
    PaymentHash(Sha256::hash(&payment_preimage_arg.0[..]).to_byte_array())
//@with
    hash_of_preimage(&payment_preimage_arg)
//@rw R16
    match htlc.state { InboundHTLCState::Committed { .. } => {}, InboundHTLCState::LocalRemoved(ref reason) => {
//@with
    match &htlc.state { InboundHTLCState::Committed { .. } => {}, InboundHTLCState::LocalRemoved(reason) => {
//@rw R16
    if let &InboundHTLCRemovalReason::Fulfill { .. } = reason {
//@with
    if let InboundHTLCRemovalReason::Fulfill { .. } = reason {
//@rw R16
    &HTLCUpdateAwaitingACK::ClaimHTLC { htlc_id, .. } => { if htlc_id_arg == htlc_id {
//@with
    HTLCUpdateAwaitingACK::ClaimHTLC { htlc_id, .. } => { if htlc_id_arg == *htlc_id {
//@rw R16
    &HTLCUpdateAwaitingACK::FailHTLC { htlc_id, .. } => { if htlc_id_arg == htlc_id {
//@with
    HTLCUpdateAwaitingACK::FailHTLC { htlc_id, .. } => { if htlc_id_arg == *htlc_id {
//@rw R16
    &HTLCUpdateAwaitingACK::FailMalformedHTLC { htlc_id, .. } => { if htlc_id_arg == htlc_id {
//@with
    HTLCUpdateAwaitingACK::FailMalformedHTLC { htlc_id, .. } => { if htlc_id_arg == *htlc_id {
//@ret r
//@requires
    may_be_claimed(*old(self), htlc_id_arg, payment_preimage_arg),
    old(self).context.latest_monitor_update_id < u64::MAX,
//@ensures P C02,C01,C09 a-claim-either-changes-nothing-or-hands-exactly-this-preimage-to-the-monitor-in-one-update-numbered-one-above-the-last-and-records-the-claim-in-the-channel
    ({ let v = old(self).context.pending_inbound_htlcs@; let k = index_of(v, htlc_id_arg);
       let dup = k < 0 || !(v[k].state is Committed) || (!old(self).context.channel_state.can_commit() && claim_waits_in_holding_cell(old(self).context.holding_cell_htlc_updates@, htlc_id_arg));
       &&& dup ==> r is DuplicateClaim && same_channel(*final(self), *old(self))
       &&& !dup ==> (r matches UpdateFulfillFetch::NewClaim { monitor_update, htlc_value_msat, update_blocked }
             && is_the_preimage_update(monitor_update, (old(self).context.latest_monitor_update_id + 1) as u64, payment_preimage_arg, payment_info, old(self).context.id)
             && htlc_value_msat == v[k].amount_msat
             && update_blocked == !old(self).context.channel_state.can_commit()
             && final(self).context.latest_monitor_update_id == old(self).context.latest_monitor_update_id + 1
             && final(self).context.channel_state == old(self).context.channel_state
             && (old(self).context.channel_state.can_commit() ==> final(self).context.holding_cell_htlc_updates@ == old(self).context.holding_cell_htlc_updates@
                    && final(self).context.pending_inbound_htlcs@ =~= v.update(k, InboundHTLCOutput { state: InboundHTLCState::LocalRemoved(InboundHTLCRemovalReason::Fulfill { preimage: payment_preimage_arg, attribution_data }), ..v[k] }))
             && (!old(self).context.channel_state.can_commit() ==> final(self).context.pending_inbound_htlcs@ == v
                    && final(self).context.holding_cell_htlc_updates@ =~= old(self).context.holding_cell_htlc_updates@.push(HTLCUpdateAwaitingACK::ClaimHTLC { payment_preimage: payment_preimage_arg, htlc_id: htlc_id_arg, attribution_data }))) }),
//@mutant monitor_update_id_stays_advanced_after_a_duplicate_claim
    self.context.latest_monitor_update_id -= 1; return UpdateFulfillFetch::DuplicateClaim {};
//@with
    return UpdateFulfillFetch::DuplicateClaim {};
//@mutant claim_held_in_the_holding_cell_reported_as_not_blocked
    attribution_data, }); return UpdateFulfillFetch::NewClaim { monitor_update, htlc_value_msat, update_blocked: true, };
//@with
    attribution_data, }); return UpdateFulfillFetch::NewClaim { monitor_update, htlc_value_msat, update_blocked: false, };
//@mutant preimage_of_another_claim_handed_to_the_monitor
    payment_preimage: payment_preimage_arg.clone(), payment_info, }],
//@with
    payment_preimage: PaymentPreimage([0u8; 32]), payment_info, }],
//@mutant htlc_marked_claimed_while_no_commitment_can_be_generated
    if !self.context.channel_state.can_generate_new_commitment() {
//@with
    if false && !self.context.channel_state.can_generate_new_commitment() {
//@mutant amount_claimed_taken_from_the_wrong_htlc
    htlc_value_msat = htlc.amount_msat;
//@with
    htlc_value_msat = htlc.htlc_id;
//@end
}

// ---- FundedChannel::fail_htlc (whole function): failing an inbound HTLC ----
pub enum ChannelError { Ignore(u8), Close(u8) }
pub struct FailContents { pub id: u64 }
pub struct FailMessage { pub htlc_id: u64, pub channel_id: ChannelId, pub contents: u64 }
pub uninterp spec fn held_failure(c: FailContents, htlc_id: u64) -> HTLCUpdateAwaitingACK;
pub uninterp spec fn removed_state(c: FailContents) -> InboundHTLCState;
impl Clone for FailContents { #[verifier::external_body] fn clone(&self) -> (r: Self) ensures r == *self { unimplemented!() } }
impl FailContents {
    // FailHTLCContents: the three conversions of a failure (a plain or a malformed one)
    #[verifier::external_body] pub fn to_htlc_update_awaiting_ack(self, htlc_id: u64) -> (r: HTLCUpdateAwaitingACK)
        ensures r == held_failure(self, htlc_id), (r matches HTLCUpdateAwaitingACK::FailHTLC { htlc_id: i, .. } && i == htlc_id) || (r matches HTLCUpdateAwaitingACK::FailMalformedHTLC { htlc_id: i, .. } && i == htlc_id) { unimplemented!() }
    #[verifier::external_body] pub fn to_inbound_htlc_state(self) -> (r: InboundHTLCState) ensures r == removed_state(self), r is LocalRemoved { unimplemented!() }
    #[verifier::external_body] pub fn to_message(self, htlc_id: u64, channel_id: ChannelId) -> (r: FailMessage) ensures r == (FailMessage { htlc_id, channel_id, contents: self.id }) { unimplemented!() }
}
pub open spec fn unique_ids(v: Seq<InboundHTLCOutput>) -> bool { forall|i: int, j: int| 0 <= i < j < v.len() ==> (#[trigger] v[i]).htlc_id != (#[trigger] v[j]).htlc_id }
impl FundedChannel {
//@extract lightning/src/ln/channel.rs :: impl FundedChannel :: fn fail_htlc
//@r7
//@rw R5
    fn fail_htlc<L: Logger, E: FailHTLCContents + Clone>( &mut self, htlc_id_arg: u64, err_contents: E, mut force_holding_cell: bool, logger: &L ) -> Result<Option<E::Message>, ChannelError> {
//@with
    fn fail_htlc<L: Logger>( &mut self, htlc_id_arg: u64, err_contents: FailContents, force_holding_cell_: bool, logger: &L ) -> Result<Option<FailMessage>, ChannelError> {
        let mut force_holding_cell = force_holding_cell_;
//@rw R6
    for (idx, htlc) in self.context.pending_inbound_htlcs.iter().enumerate() { $body:any }
//@with
    let mut idx: usize = 0;
    while idx < self.context.pending_inbound_htlcs.len()
        invariant
            *self == *old(self), idx <= self.context.pending_inbound_htlcs@.len(), unique_ids(old(self).context.pending_inbound_htlcs@),
            forall|j: int| 0 <= j < old(self).context.pending_inbound_htlcs@.len() && (#[trigger] old(self).context.pending_inbound_htlcs@[j]).htlc_id == htlc_id_arg
                ==> old(self).context.pending_inbound_htlcs@[j].state is Committed || old(self).context.pending_inbound_htlcs@[j].state is LocalRemoved,
            pending_idx == usize::MAX ==> forall|j: int| 0 <= j < idx ==> (#[trigger] self.context.pending_inbound_htlcs@[j]).htlc_id != htlc_id_arg,
            pending_idx != usize::MAX ==> pending_idx < idx && self.context.pending_inbound_htlcs@[pending_idx as int].htlc_id == htlc_id_arg && self.context.pending_inbound_htlcs@[pending_idx as int].state is Committed,
        decreases self.context.pending_inbound_htlcs@.len() - idx
    {
        let htlc = &self.context.pending_inbound_htlcs[idx];
        proof { if htlc.htlc_id == htlc_id_arg { if pending_idx == usize::MAX { lemma_index_of(self.context.pending_inbound_htlcs@, htlc_id_arg, idx as int); } } }
        $body
        idx = idx + 1;
    }
    proof {
        if pending_idx == usize::MAX { lemma_index_none(self.context.pending_inbound_htlcs@, htlc_id_arg); }
        else { assert forall|j: int| 0 <= j < pending_idx implies (#[trigger] self.context.pending_inbound_htlcs@[j]).htlc_id != htlc_id_arg by {}
               lemma_index_of(self.context.pending_inbound_htlcs@, htlc_id_arg, pending_idx as int); }
    }
//@rw R6
    for pending_update in self.context.holding_cell_htlc_updates.iter() { $body:any }
//@with
    let mut __k: usize = 0;
    while __k < self.context.holding_cell_htlc_updates.len()
        invariant
            __k <= self.context.holding_cell_htlc_updates@.len(), *self == *old(self), force_holding_cell_,
            forall|j: int| 0 <= j < __k ==> !(#[trigger] self.context.holding_cell_htlc_updates@[j] matches HTLCUpdateAwaitingACK::ClaimHTLC { htlc_id, .. } && htlc_id == htlc_id_arg)
                && !(self.context.holding_cell_htlc_updates@[j] matches HTLCUpdateAwaitingACK::FailHTLC { htlc_id, .. } && htlc_id == htlc_id_arg)
                && !(self.context.holding_cell_htlc_updates@[j] matches HTLCUpdateAwaitingACK::FailMalformedHTLC { htlc_id, .. } && htlc_id == htlc_id_arg),
        decreases self.context.holding_cell_htlc_updates@.len() - __k
    {
        let pending_update = &self.context.holding_cell_htlc_updates[__k];
        proof {
            let h = old(self).context.holding_cell_htlc_updates@;
            if h[__k as int] matches HTLCUpdateAwaitingACK::ClaimHTLC { htlc_id, .. } && htlc_id == htlc_id_arg { assert(claim_waits_in_holding_cell(h, htlc_id_arg)); }
            if (h[__k as int] matches HTLCUpdateAwaitingACK::FailHTLC { htlc_id, .. } && htlc_id == htlc_id_arg) || (h[__k as int] matches HTLCUpdateAwaitingACK::FailMalformedHTLC { htlc_id, .. } && htlc_id == htlc_id_arg) { assert(failure_waits_in_holding_cell(h, htlc_id_arg)); }
        }
        $body
        __k = __k + 1;
    }
//@rw R8 *
    ChannelError::Ignore(format!($m:any))
//@with
    ChannelError::Ignore(0)
//@rw R16
    &HTLCUpdateAwaitingACK::ClaimHTLC { htlc_id, .. } => { if htlc_id_arg == htlc_id {
//@with
    HTLCUpdateAwaitingACK::ClaimHTLC { htlc_id, .. } => { if htlc_id_arg == *htlc_id {
//@rw R16
    &HTLCUpdateAwaitingACK::FailHTLC { htlc_id, .. } => { if htlc_id_arg == htlc_id {
//@with
    HTLCUpdateAwaitingACK::FailHTLC { htlc_id, .. } => { if htlc_id_arg == *htlc_id {
//@rw R16
    &HTLCUpdateAwaitingACK::FailMalformedHTLC { htlc_id, .. } => { if htlc_id_arg == htlc_id {
//@with
    HTLCUpdateAwaitingACK::FailMalformedHTLC { htlc_id, .. } => { if htlc_id_arg == *htlc_id {
//@ret r
//@requires
    old(self).context.channel_state is ChannelReady, unique_ids(old(self).context.pending_inbound_htlcs@),
    !old(self).context.channel_state.can_commit() ==> force_holding_cell_,
    forall|j: int| 0 <= j < old(self).context.pending_inbound_htlcs@.len() && (#[trigger] old(self).context.pending_inbound_htlcs@[j]).htlc_id == htlc_id_arg
        ==> old(self).context.pending_inbound_htlcs@[j].state is Committed || old(self).context.pending_inbound_htlcs@[j].state is LocalRemoved,
//@ensures P C02,C01 a-failure-is-refused-for-an-htlc-that-is-unknown-already-resolved-or-has-a-claim-or-failure-waiting-and-otherwise-recorded-exactly-once
    ({ let v = old(self).context.pending_inbound_htlcs@; let h = old(self).context.holding_cell_htlc_updates@; let k = index_of(v, htlc_id_arg);
       let refused = k < 0 || !(v[k].state is Committed) || (force_holding_cell_ && (claim_waits_in_holding_cell(h, htlc_id_arg) || failure_waits_in_holding_cell(h, htlc_id_arg)));
       &&& refused ==> r is Err && same_channel(*final(self), *old(self))
       &&& !refused && force_holding_cell_ ==> r == Ok::<Option<FailMessage>, ChannelError>(None) && final(self).context.pending_inbound_htlcs@ == v
             && final(self).context.holding_cell_htlc_updates@ =~= h.push(held_failure(err_contents, htlc_id_arg))
       &&& !refused && !force_holding_cell_ ==> r == Ok::<Option<FailMessage>, ChannelError>(Some(FailMessage { htlc_id: htlc_id_arg, channel_id: old(self).context.id, contents: err_contents.id }))
             && final(self).context.holding_cell_htlc_updates@ == h
             && final(self).context.pending_inbound_htlcs@ =~= v.update(k, InboundHTLCOutput { state: removed_state(err_contents), ..v[k] })
       &&& final(self).context.latest_monitor_update_id == old(self).context.latest_monitor_update_id && final(self).context.channel_state == old(self).context.channel_state }),
//@mutant failure_queued_for_an_htlc_whose_claim_waits_in_the_holding_cell
    return Err(ChannelError::Ignore(format!("HTLC {} was already claimed!", htlc_id)));
//@with
    
//@mutant already_resolved_htlc_failed_again
    InboundHTLCState::LocalRemoved(_) => { return Err(
//@with
    InboundHTLCState::LocalRemoved(_) if false => { return Err(
//@end
}
}
fn main() {}
