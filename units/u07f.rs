//! unit: u07f
//! properties: C07 C08 C11 C02
//! note: also run for C02: the code it constrains lies inside mechanisms those properties name (a change made there for their sake must meet these clauses too)
//! note: what becomes of an on-chain event once it is buried deep enough (channelmonitor.rs block_confirmed, "Produce actionable events from on-chain events having reached their threshold"): a timed-out HTLC is reported upstream as failed (no preimage) and recorded as resolved; a matured output of ours is announced to the user as spendable, exactly that output, once; a confirmed HTLC spend is recorded as resolved with the preimage it revealed; a confirmed funding spend is recorded as final
//! trusted: R15 (deep slice): block_confirmed: the match over one matured event, verbatim as a function of the entry (R2: taken with debug_assertions=false: the duplicate-resolution checks under #[cfg(debug_assertions)] are dropped; R6: `for funding in &self.pending_funding { .. }` is an index loop; R8: `discarded_funding.into_iter()` is passed as the vector); the monitor is a skeleton with the lists the arms push to; queue_discard_funding_event / promote_funding / no_further_updates_allowed / funding_txid are external_body without effect on those lists; which events have matured is decided by has_reached_confirmation_threshold (u11)
//! trusted: env: enum OnchainEvent, struct OnchainEventEntry, struct IrrevocablyResolvedHTLC, struct HTLCUpdate, enum MonitorEvent are extracted over skeleton field types; Event is the one-variant skeleton SpendableOutputs
//! assume: an AlternativeFundingConfirmation matures only once no further updates are allowed and for a transaction other than the current funding (LDK's own debug_assert!s), and promote_funding finds the scope of that transaction (it returns Ok; the source debug_asserts this)
//! trusted: assume_specification for core::cmp::max / core::cmp::min (std definitions): present in every unit so that a change that introduces them is verified instead of being rejected by the tool
use vstd::prelude::*;
verus! {
use vstd::std_specs::cmp::*;
use core::cmp;
use core::mem;
pub assume_specification<T: core::cmp::Ord>[core::cmp::max::<T>](a: T, b: T) -> (r: T)
    ensures T::obeys_cmp_spec() ==> r == (if b.cmp_spec(&a) == core::cmp::Ordering::Less { a } else { b });
pub assume_specification<T: core::cmp::Ord>[core::cmp::min::<T>](a: T, b: T) -> (r: T)
    ensures T::obeys_cmp_spec() ==> r == (if b.cmp_spec(&a) == core::cmp::Ordering::Less { b } else { a });
#[derive(Clone, Copy)] pub struct Txid(pub u64);
impl vstd::std_specs::cmp::PartialEqSpecImpl for Txid { open spec fn obeys_eq_spec() -> bool { true } open spec fn eq_spec(&self, other: &Txid) -> bool { *self == *other } }
impl PartialEq for Txid { #[verifier::external_body] fn eq(&self, o: &Txid) -> (r: bool) { unimplemented!() } }
#[derive(Clone, Copy)] pub struct BlockHash(pub u64);
#[derive(Clone, Copy)] pub struct PaymentHash(pub [u8; 32]);
#[derive(Clone, Copy)] pub struct PaymentPreimage(pub [u8; 32]);
#[derive(Clone, Copy)] pub struct PublicKey { pub id: u64 }
#[derive(Clone, Copy)] pub struct ChannelId { pub id: u64 }
pub struct Amount { pub sat: u64 }
pub struct Transaction { pub id: u64 }
pub struct HTLCSource { pub id: u64 }
pub struct SpendableOutputDescriptor { pub id: u64 }
pub struct ClosureReason {} pub struct OutPoint {}
pub struct FundingScope { pub txid: Txid }
impl FundingScope { #[verifier::external_body] pub fn funding_txid(&self) -> (r: Txid) ensures r == self.txid { unimplemented!() } }
//@extract lightning/src/chain/channelmonitor.rs :: type CommitmentTxCounterpartyOutputInfo
//@end
//@extract lightning/src/chain/channelmonitor.rs :: enum OnchainEvent
//@end
//@extract lightning/src/chain/channelmonitor.rs :: struct OnchainEventEntry
//@end
//@extract lightning/src/chain/channelmonitor.rs :: struct IrrevocablyResolvedHTLC
//@end
//@extract lightning/src/chain/channelmonitor.rs :: struct HTLCUpdate
//@end
//@extract lightning/src/chain/channelmonitor.rs :: enum MonitorEvent
//@end
pub enum Event { SpendableOutputs { outputs: Vec<SpendableOutputDescriptor>, channel_id: Option<ChannelId>, counterparty_node_id: Option<PublicKey> } }
pub struct WatchMap {}
impl WatchMap { #[verifier::external_body] pub fn remove(&mut self, k: &Txid) { unimplemented!() } }
pub struct LoggerStub {}
pub struct Monitor {
    pub pending_monitor_events: Vec<MonitorEvent>, pub htlcs_resolved_on_chain: Vec<IrrevocablyResolvedHTLC>, pub pending_events: Vec<Event>, pub spendable_txids_confirmed: Vec<Txid>,
    pub funding_spend_confirmed: Option<Txid>, pub confirmed_commitment_tx_counterparty_output: CommitmentTxCounterpartyOutputInfo, pub alternative_funding_confirmed: Option<(Txid, u32)>,
    pub pending_funding: Vec<FundingScope>, pub outputs_to_watch: WatchMap, pub funding: FundingScope, pub chan: ChannelId, pub counterparty_node_id: PublicKey, pub closed: bool, pub promoted: Ghost<Option<Txid>>,
}
pub open spec fn lists_unchanged_except(a: &Monitor, b: &Monitor, events: bool, resolved: bool, user: bool) -> bool {
    (events || a.pending_monitor_events@ == b.pending_monitor_events@) && (resolved || a.htlcs_resolved_on_chain@ == b.htlcs_resolved_on_chain@)
    && (user || (a.pending_events@ == b.pending_events@ && a.spendable_txids_confirmed@ == b.spendable_txids_confirmed@))
}
impl Monitor {
    #[verifier::external_body] pub fn channel_id(&self) -> (r: ChannelId) ensures r == self.chan { unimplemented!() }
    #[verifier::external_body] pub fn no_further_updates_allowed(&self) -> (r: bool) ensures r == self.closed { unimplemented!() }
    #[verifier::external_body] pub fn queue_discard_funding_event(&mut self, discarded: Vec<FundingScope>)
        ensures lists_unchanged_except(old(self), final(self), false, false, false), final(self).funding_spend_confirmed == old(self).funding_spend_confirmed,
            final(self).confirmed_commitment_tx_counterparty_output == old(self).confirmed_commitment_tx_counterparty_output, final(self).promoted == old(self).promoted { unimplemented!() }
    #[verifier::external_body] pub fn promote_funding(&mut self, new_funding_txid: Txid) -> (r: Result<(), ()>)
        ensures lists_unchanged_except(old(self), final(self), false, false, false), final(self).funding_spend_confirmed == old(self).funding_spend_confirmed, final(self).promoted@ == Some(new_funding_txid), r is Ok { unimplemented!() }
//@extract lightning/src/chain/channelmonitor.rs :: impl ChannelMonitorImpl :: fn block_confirmed
//@cfg debug_assertions=false
//@slice R15
    for entry in onchain_events_reaching_threshold_conf { match entry.event { $arms:any } } if self.no_further_updates_allowed() {
//@with
    fn act_on_matured_event(&mut self, entry: OnchainEventEntry, logger: &LoggerStub) { match entry.event { $arms } }
//@rw R8
    self.queue_discard_funding_event(discarded_funding.into_iter());
//@with
    self.queue_discard_funding_event(discarded_funding);
//@rw R6
    for funding in &self.pending_funding { self.outputs_to_watch.remove(&funding.funding_txid()); }
//@with
    { let mut __i: usize = 0; let ghost __m = *self;
      while __i < self.pending_funding.len()
          invariant __i <= self.pending_funding@.len(), self.pending_funding == __m.pending_funding, lists_unchanged_except(&__m, self, false, false, false), self.funding_spend_confirmed == __m.funding_spend_confirmed,
              self.confirmed_commitment_tx_counterparty_output == __m.confirmed_commitment_tx_counterparty_output, self.promoted == __m.promoted
          decreases self.pending_funding@.len() - __i
      { let __t = self.pending_funding[__i].funding_txid(); self.outputs_to_watch.remove(&__t); __i = __i + 1; } }
//@requires
    entry.event is AlternativeFundingConfirmation ==> old(self).closed && old(self).funding.txid != entry.txid,
//@ensures P C07,C08,C11 a-buried-on-chain-event-has-exactly-its-own-effect-an-htlc-time-out-is-reported-upstream-without-preimage-a-matured-output-is-announced-as-spendable-once-an-htlc-spend-is-recorded-with-its-preimage
    match entry.event {
        OnchainEvent::HTLCUpdate { source, payment_hash, htlc_value_satoshis, commitment_tx_output_idx } =>
            final(self).pending_monitor_events@ == old(self).pending_monitor_events@.push(MonitorEvent::HTLCEvent(HTLCUpdate { payment_hash, payment_preimage: None, source, htlc_value_satoshis }))
            && final(self).htlcs_resolved_on_chain@ == old(self).htlcs_resolved_on_chain@.push(IrrevocablyResolvedHTLC { commitment_tx_output_idx, resolving_txid: Some(entry.txid), resolving_tx: entry.transaction, payment_preimage: None })
            && lists_unchanged_except(old(self), final(self), true, true, false),
        OnchainEvent::MaturingOutput { descriptor } =>
            final(self).pending_events@.len() == old(self).pending_events@.len() + 1
            && (final(self).pending_events@.last() matches Event::SpendableOutputs { outputs, channel_id, counterparty_node_id } && outputs@ =~= seq![descriptor] && channel_id == Some(old(self).chan) && counterparty_node_id == Some(old(self).counterparty_node_id))
            && final(self).pending_events@.drop_last() == old(self).pending_events@
            && final(self).spendable_txids_confirmed@ == old(self).spendable_txids_confirmed@.push(entry.txid)
            && lists_unchanged_except(old(self), final(self), false, false, true),
        OnchainEvent::HTLCSpendConfirmation { commitment_tx_output_idx, preimage, .. } =>
            final(self).htlcs_resolved_on_chain@ == old(self).htlcs_resolved_on_chain@.push(IrrevocablyResolvedHTLC { commitment_tx_output_idx: Some(commitment_tx_output_idx), resolving_txid: Some(entry.txid), resolving_tx: entry.transaction, payment_preimage: preimage })
            && lists_unchanged_except(old(self), final(self), false, true, false),
        OnchainEvent::FundingSpendConfirmation { commitment_tx_to_counterparty_output, .. } =>
            final(self).funding_spend_confirmed == Some(entry.txid) && final(self).confirmed_commitment_tx_counterparty_output == commitment_tx_to_counterparty_output
            && lists_unchanged_except(old(self), final(self), false, false, false),
        OnchainEvent::AlternativeFundingConfirmation { } => final(self).promoted@ == Some(entry.txid) && lists_unchanged_except(old(self), final(self), false, false, false),
    },
//@mutant resolving_transaction_of_a_timed_out_htlc_forgotten
    resolving_tx: entry.transaction, payment_preimage: None, }); }, OnchainEvent::MaturingOutput
//@with
    resolving_tx: None, payment_preimage: None, }); }, OnchainEvent::MaturingOutput
//@mutant matured_output_not_announced
    self.spendable_txids_confirmed.push(entry.txid);
//@with
    self.spendable_txids_confirmed.push(entry.txid); self.pending_events.pop();
//@end
}
}
fn main() {}
