//! unit: u18
//! properties: C18
//! note: invoice amount field: InvoiceBuilder::amount_milli_satoshis (msat -> raw amount + largest SI prefix) and RawBolt11Invoice::amount_pico_btc (back to pico-BTC)
//! trusted: static_slice_of: external_body wrapper for a function-local static array (its elements are taken from the source initialiser); R5: `mut self` receiver renamed (method checked as a free function); R5: InvoiceBuilder<D,H,T,C,S,M> / RawBolt11Invoice / RawHrp are self skeletons with the fields the bodies read; CreationError reduced to the variant used; R6: `.iter().find(|p| C).expect(..)` rewritten into an index loop carrying the closure body verbatim (the loop proves the expect cannot fail); R8: `.as_ref().map_or(D, |si| F)` -> match on the option (definition of Option::map_or)
//! trusted: assume_specification for core::cmp::max / core::cmp::min (std definitions): present in every unit so that a change that introduces them is verified instead of being rejected by the tool
use vstd::prelude::*;
verus! {
use vstd::std_specs::cmp::*;
use core::cmp;
pub assume_specification<T: core::cmp::Ord>[core::cmp::max::<T>](a: T, b: T) -> (r: T)
    ensures T::obeys_cmp_spec() ==> r == (if b.cmp_spec(&a) == core::cmp::Ordering::Less { a } else { b });
pub assume_specification<T: core::cmp::Ord>[core::cmp::min::<T>](a: T, b: T) -> (r: T)
    ensures T::obeys_cmp_spec() ==> r == (if b.cmp_spec(&a) == core::cmp::Ordering::Less { b } else { a });
//@extract lightning-invoice/src/lib.rs :: enum SiPrefix
//@derive Clone Copy
//@end
pub enum CreationError { InvalidAmount, Other }
pub open spec fn mult(s: SiPrefix) -> int {
    match s { SiPrefix::Milli => 1_000_000_000, SiPrefix::Micro => 1_000_000, SiPrefix::Nano => 1_000, SiPrefix::Pico => 1 }
}
impl SiPrefix {
//@extract lightning-invoice/src/lib.rs :: impl SiPrefix :: fn multiplier
//@ret r
//@ensures A
    r as int == mult(*self)
//@end
//@extract lightning-invoice/src/lib.rs :: impl SiPrefix :: fn values_desc
//@ret r
//@ensures A prefixes-listed-largest-multiplier-first
    r@ == seq![SiPrefix::Milli, SiPrefix::Micro, SiPrefix::Nano, SiPrefix::Pico]
//@rw R8
    use SiPrefix::*; static VALUES: [SiPrefix; 4] = [$a:ident, $b:ident, $c:ident, $d:ident]; &VALUES
//@with
    static_slice_of([SiPrefix::$a, SiPrefix::$b, SiPrefix::$c, SiPrefix::$d])
//@end
}
// R8 wrapper: a function-local `static` array borrowed for 'static (Verus has no function-local statics)
#[verifier::external_body]
fn static_slice_of(v: [SiPrefix; 4]) -> (r: &'static [SiPrefix]) ensures r@ == v@ { Box::leak(Box::new(v)) }
pub struct InvoiceBuilder { pub amount: Option<u64>, pub si_prefix: Option<SiPrefix>, pub error: Option<CreationError> }
// R5: `mut self` by value is not supported by Verus: the method is checked as a free function with the receiver renamed
//@extract lightning-invoice/src/lib.rs :: impl InvoiceBuilder :: fn amount_milli_satoshis
//@rw R5
    mut self
//@with
    mut this: InvoiceBuilder
//@rw * R5
    self
//@with
    this
//@rw R5
    -> Self
//@with
    -> InvoiceBuilder
//@ret r
//@ensures P C18 amount-is-stored-as-raw-amount-times-the-largest-SI-prefix-that-divides-and-overflow-is-refused
    amount_msat as int * 10 > u64::MAX ==> r.error == Some(CreationError::InvalidAmount) && r.amount == this.amount && r.si_prefix == this.si_prefix,
    amount_msat as int * 10 <= u64::MAX ==> r.error == this.error && r.amount is Some && r.si_prefix is Some
        && r.amount->Some_0 as int * mult(r.si_prefix->Some_0) == amount_msat as int * 10
        // largest prefix that divides
        && (forall|p: SiPrefix| #[trigger] mult(p) > mult(r.si_prefix->Some_0) ==> (amount_msat as int * 10) % mult(p) != 0),
//@rw R6
    SiPrefix::values_desc().iter().find(|$p:ident| $c).expect($m)
//@with
    { // R6: .iter().find(|$p| C).expect(..)
        let __s = SiPrefix::values_desc(); let mut __i: usize = 0; let mut __found: Option<&SiPrefix> = None;
        while __i < __s.len()
            invariant_except_break __found is None,
            invariant __i <= __s.len(), __s@ == seq![SiPrefix::Milli, SiPrefix::Micro, SiPrefix::Nano, SiPrefix::Pico],
                forall|k: int| 0 <= k < __i ==> (amount as int) % mult(__s@[k]) != 0,
            ensures __found is Some ==> ({ let q = *__found->Some_0; (amount as int) % mult(q) == 0 && forall|p: SiPrefix| #[trigger] mult(p) > mult(q) ==> (amount as int) % mult(p) != 0 }),
                __found is None ==> (amount as int) % 1 != 0,
            decreases __s.len() - __i
        {
            let $p = &__s[__i];
            if $c { __found = Some($p);
                proof { assert forall|p: SiPrefix| #[trigger] mult(p) > mult(__s@[__i as int]) implies (amount as int) % mult(p) != 0 by {
                    match p { SiPrefix::Milli => { assert(p == __s@[0]); }, SiPrefix::Micro => { assert(p == __s@[1]); }, SiPrefix::Nano => { assert(p == __s@[2]); }, SiPrefix::Pico => { assert(p == __s@[3]); } } } }
                break; }
            __i = __i + 1;
        }
        __found.expect($m) }
//@at before `this . amount = Some (`
    proof {
        let a = amount as int;
        match *biggest_possible_si_prefix {
            SiPrefix::Milli => { assert(a % 1_000_000_000 == 0 ==> (a / 1_000_000_000) * 1_000_000_000 == a); },
            SiPrefix::Micro => { assert(a % 1_000_000 == 0 ==> (a / 1_000_000) * 1_000_000 == a); },
            SiPrefix::Nano => { assert(a % 1_000 == 0 ==> (a / 1_000) * 1_000 == a); },
            SiPrefix::Pico => { },
        }
    }
//@mutant smallest_prefix_chosen
    amount % prefix.multiplier() == 0
//@with
    amount % prefix.multiplier() == 0 && prefix.multiplier() == 1
//@end

pub struct RawHrp { pub raw_amount: Option<u64>, pub si_prefix: Option<SiPrefix> }
pub struct RawBolt11Invoice { pub hrp: RawHrp }
impl RawBolt11Invoice {
//@extract lightning-invoice/src/lib.rs :: impl RawBolt11Invoice :: fn amount_pico_btc
//@ret r
//@ensures P C18 pico-BTC-amount-is-raw-amount-times-prefix-multiplier-None-on-overflow
    self.hrp.raw_amount is None ==> r is None,
    self.hrp.raw_amount is Some ==> ({
        let m = if self.hrp.si_prefix is Some { mult(self.hrp.si_prefix->Some_0) } else { 1_000_000_000_000int };
        let v = self.hrp.raw_amount->Some_0 as int * m;
        if v <= u64::MAX { r == Some(v as u64) } else { r is None } }),
//@rw R8
    self.hrp.si_prefix.as_ref().map_or($d, |$si:ident| $f)
//@with
    (match self.hrp.si_prefix.as_ref() { None => $d, Some($si) => $f })
//@rw R9
    .and_then(|$v:ident| $body)
//@with
    .and_then(|$v: u64| -> (o: Option<u64>)
        ensures ({ let m = if self.hrp.si_prefix is Some { mult(self.hrp.si_prefix->Some_0) } else { 1_000_000_000_000int };
                   if $v as int * m <= u64::MAX { o == Some(($v as int * m) as u64) } else { o is None } })
        $body)
//@mutant default_multiplier_wrong
    1_000_000_000_000
//@with
    1_000_000_000
//@end
}
// (P C18) the two functions are inverse: building with a msat amount and reading the pico-BTC amount back gives amount * 10
pub proof fn lemma_amount_roundtrip(amount_msat: u64, raw: u64, si: SiPrefix)
    requires amount_msat as int * 10 <= u64::MAX, raw as int * mult(si) == amount_msat as int * 10
    ensures raw as int * mult(si) <= u64::MAX, (raw as int * mult(si)) / 10 == amount_msat
{}
}
fn main() {}
