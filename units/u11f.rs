//! unit: u11f
//! properties: C11 C06 C07
//! note: which transactions of a block a monitor looks at (ChannelMonitorImpl::filter_block and spends_watched_output WHOLE): a transaction is kept exactly when ANY of its inputs spends an output the monitor watches, or ANY of its inputs spends a transaction kept earlier in the same block (a child of a commitment or HTLC transaction confirmed in the same block, whatever the position of that input: with anchors a second-stage transaction may carry its fee input first); its id is then remembered for the transactions after it. So whether a transaction arrives with its parent in one block or in a later block the monitor sees it all the same
//! trusted: spends_watched_output is extracted whole (R2: the cfg(test) witness sanity checks are not part of the production configuration; R12: `for (idx, _script_pubkey) in outputs.iter()` binds the pair by name first); filter_block: R15 deep slice of the filter closure's body verbatim as a function of the transaction and the set of ids kept so far (R6: the closure of `txdata.iter().filter(..)` runs once per transaction in block order: iterator semantics of std, not verified); env: Txid / OutPoint / TxIn / Transaction field skeletons, compute_txid() an uninterpreted id, the map of watched outputs and the set of kept ids are environment collections with the std contracts (get / contains / insert)
//! trusted: assume_specification for core::cmp::max / core::cmp::min (std definitions): present in every unit so that a change that introduces them is verified instead of being rejected by the tool
use vstd::prelude::*;
verus! {
use vstd::std_specs::cmp::*;
use core::cmp;
pub assume_specification<T: core::cmp::Ord>[core::cmp::max::<T>](a: T, b: T) -> (r: T)
    ensures T::obeys_cmp_spec() ==> r == (if b.cmp_spec(&a) == core::cmp::Ordering::Less { a } else { b });
pub assume_specification<T: core::cmp::Ord>[core::cmp::min::<T>](a: T, b: T) -> (r: T)
    ensures T::obeys_cmp_spec() ==> r == (if b.cmp_spec(&a) == core::cmp::Ordering::Less { b } else { a });
#[derive(Clone, Copy)] pub struct Txid(pub u64);
pub struct ScriptBuf {}
pub struct OutPoint { pub txid: Txid, pub vout: u32 }
pub struct TxIn { pub previous_output: OutPoint }
pub struct Transaction { pub input: Vec<TxIn>, pub id: Txid }
impl Transaction { #[verifier::external_body] pub fn compute_txid(&self) -> (r: Txid) ensures r == self.id { unimplemented!() } }
pub struct WatchMap { pub m: Ghost<Map<Txid, Seq<(u32, ScriptBuf)>>> }
impl WatchMap {
    #[verifier::external_body] pub fn get(&self, k: &Txid) -> (r: Option<&Vec<(u32, ScriptBuf)>>)
        ensures r is Some <==> self.m@.contains_key(*k), r is Some ==> r->Some_0@ == self.m@[*k] { unimplemented!() }
}
pub struct TxidSet { pub s: Ghost<Set<Txid>> }
impl TxidSet {
    #[verifier::external_body] pub fn contains(&self, k: &Txid) -> (r: bool) ensures r == self.s@.contains(*k) { unimplemented!() }
    #[verifier::external_body] pub fn insert(&mut self, k: Txid) -> (r: bool) ensures final(self).s@ == old(self).s@.insert(k) { unimplemented!() }
}
pub struct ChannelMonitorImpl { pub outputs_to_watch: WatchMap }
pub open spec fn input_watched(w: Map<Txid, Seq<(u32, ScriptBuf)>>, i: TxIn) -> bool {
    w.contains_key(i.previous_output.txid) && exists|k: int| 0 <= k < w[i.previous_output.txid].len() && (#[trigger] w[i.previous_output.txid][k]).0 == i.previous_output.vout
}
pub open spec fn spends_watched(w: Map<Txid, Seq<(u32, ScriptBuf)>>, tx: Transaction) -> bool { exists|j: int| 0 <= j < tx.input@.len() && input_watched(w, #[trigger] tx.input@[j]) }
pub open spec fn spends_kept(kept: Set<Txid>, tx: Transaction) -> bool { exists|j: int| 0 <= j < tx.input@.len() && kept.contains((#[trigger] tx.input@[j]).previous_output.txid) }
impl ChannelMonitorImpl {
    #[verifier::external_body] pub fn get_outputs_to_watch(&self) -> (r: &WatchMap) ensures r == &self.outputs_to_watch { unimplemented!() }
//@extract lightning/src/chain/channelmonitor.rs :: impl ChannelMonitorImpl :: fn spends_watched_output
//@rw R12
    (idx, _script_pubkey) in outputs.iter() {
//@with
    __o in outputs.iter() { let idx = &__o.0; let _script_pubkey = &__o.1;
//@ret r
//@ensures P C11,C06,C07 a-transaction-spends-a-watched-output-exactly-when-one-of-its-inputs-whichever-names-a-watched-transaction-and-one-of-its-watched-output-indices
    r == spends_watched(self.outputs_to_watch.m@, *tx),
//@loop 1 iter=it
    invariant it.seq().len() == tx.input@.len(), forall|k: int| 0 <= k < tx.input@.len() ==> *it.seq()[k] == tx.input@[k],
        forall|j: int| 0 <= j < it.index@ ==> !input_watched(self.outputs_to_watch.m@, #[trigger] tx.input@[j]),
//@loop 2 iter=it2
    invariant it2.seq().len() == outputs@.len(), forall|k: int| 0 <= k < outputs@.len() ==> *it2.seq()[k] == outputs@[k],
        outputs@ == self.outputs_to_watch.m@[input.previous_output.txid], self.outputs_to_watch.m@.contains_key(input.previous_output.txid),
        *input == tx.input@[it.index@], 0 <= it.index@ < tx.input@.len(),
        forall|k: int| 0 <= k < it2.index@ ==> (#[trigger] outputs@[k]).0 != input.previous_output.vout,
//@mutant only_the_first_watched_output_of_a_transaction_is_compared
    if *idx == input.previous_output.vout {
//@with
    if *idx == input.previous_output.vout && *idx == 0 {
//@end
//@extract lightning/src/chain/channelmonitor.rs :: impl ChannelMonitorImpl :: fn filter_block
//@slice R15
    txdata.iter().filter(|&&(_, tx)| { $body:any }).map(
//@with
    fn transaction_is_kept(&self, tx: &Transaction, matched_txn: &mut TxidSet) -> bool { $body }
//@ret r
//@ensures P C11,C06,C07 a-transaction-of-a-block-is-kept-exactly-when-any-input-spends-a-watched-output-or-a-transaction-kept-earlier-in-the-block-and-its-id-is-then-remembered
    r == (spends_watched(self.outputs_to_watch.m@, *tx) || spends_kept(old(matched_txn).s@, *tx)),
    final(matched_txn).s@ == (if r { old(matched_txn).s@.insert(tx.id) } else { old(matched_txn).s@ }),
//@loop 1 iter=it
    invariant it.seq().len() == tx.input@.len(), forall|k: int| 0 <= k < tx.input@.len() ==> *it.seq()[k] == tx.input@[k], matched_txn.s@ == old(matched_txn).s@,
        matches ==> spends_watched(self.outputs_to_watch.m@, *tx) || spends_kept(matched_txn.s@, *tx),
        !matches ==> !spends_watched(self.outputs_to_watch.m@, *tx) && forall|j: int| 0 <= j < it.index@ ==> !matched_txn.s@.contains((#[trigger] tx.input@[j]).previous_output.txid),
    ensures matched_txn.s@ == old(matched_txn).s@, matches == (spends_watched(self.outputs_to_watch.m@, *tx) || spends_kept(matched_txn.s@, *tx)),
//@mutant kept_transaction_not_remembered_for_its_children
    matched_txn.insert(tx.compute_txid());
//@with

//@mutant only_the_first_input_may_spend_a_transaction_kept_earlier
    if matched_txn.contains(&input.previous_output.txid) { matches = true; }
//@with
    if matched_txn.contains(&input.previous_output.txid) { matches = true; } break;
//@end
}
}
fn main() {}
