//! unit: u18l
//! properties: C18
//! note: (and the signature: `impl FromBase32 for Bolt11InvoiceSignature`, whole: exactly 104 symbols, 64 bytes of signature followed by the recovery id) BOLT-11 fixed-length fields (lightning-invoice de.rs, the parsers of payment hash `p`, payment secret `s`, description hash `h` and payee key `n`, whole): a p, s or h field is read only with a data length of exactly 52 symbols and an n field only with 53 - BOLT 11: "a reader MUST skip over ... a p, h, s or n field that does not have data_length 52, 52, 52 or 53" - so a field of any other length is answered with one of the errors parse_tagged_parts (u18h) turns into "unknown field, kept verbatim", never with a value and never by refusing the invoice; with the right length the 32 (33) bytes the symbols decode to are the value, and LDK's `expect("length was checked before")` on the hash conversion cannot fail
//! trusted: R5: `<[u8; N]>::from_base32(X)` is an external_body stub: an uninterpreted function of the symbols that returns N bytes or refuses (the 5-to-8 bit regrouping is the Kani harness's business); sha256::Hash::from_slice REQUIRES 32 bytes (it fails otherwise: the `expect` of the source); PublicKey::from_slice any function of its bytes; the `?` on a secp error is the error's conversion (opaque)
//! trusted: assume_specification for core::cmp::max / core::cmp::min (std definitions): present in every unit so that a change that introduces them is verified instead of being rejected by the tool
use vstd::prelude::*;
verus! {
use vstd::std_specs::cmp::*;
use core::cmp;
pub assume_specification<T: core::cmp::Ord>[core::cmp::max::<T>](a: T, b: T) -> (r: T)
    ensures T::obeys_cmp_spec() ==> r == (if b.cmp_spec(&a) == core::cmp::Ordering::Less { a } else { b });
pub assume_specification<T: core::cmp::Ord>[core::cmp::min::<T>](a: T, b: T) -> (r: T)
    ensures T::obeys_cmp_spec() ==> r == (if b.cmp_spec(&a) == core::cmp::Ordering::Less { b } else { a });
pub struct Fe32(pub u8);
pub enum Bolt11ParseError { Skip, InvalidSliceLength(usize, usize, &'static str), Bech32Error(u8), Other(u8) }
pub open spec fn skip_kind(e: Bolt11ParseError) -> bool { e is Skip || e is InvalidSliceLength || e is Bech32Error }   // what parse_tagged_parts keeps as an unknown field
pub uninterp spec fn bytes32(f: Seq<Fe32>) -> Option<Seq<u8>>;
pub uninterp spec fn bytes33(f: Seq<Fe32>) -> Option<Seq<u8>>;
#[verifier::external_body] pub fn arr32_from_base32(data: &[Fe32]) -> (r: Result<[u8; 32], Bolt11ParseError>) ensures (r is Ok) == (bytes32(data@) is Some), r is Ok ==> Some(r->Ok_0@) == bytes32(data@) { unimplemented!() }
#[verifier::external_body] pub fn arr33_from_base32(data: &[Fe32]) -> (r: Result<[u8; 33], Bolt11ParseError>) ensures (r is Ok) == (bytes33(data@) is Some), r is Ok ==> Some(r->Ok_0@) == bytes33(data@) { unimplemented!() }
pub struct PaymentSecret(pub [u8; 32]);
pub struct PaymentHash(pub [u8; 32]);
pub struct HashValue { pub bytes: Ghost<Seq<u8>> }
pub mod sha256 { pub struct Hash {} }
impl sha256::Hash { #[verifier::external_body] pub fn from_slice(s: &[u8; 32]) -> (r: Result<HashValue, ()>) ensures r is Ok && r->Ok_0.bytes@ == s@ { unimplemented!() } }
pub struct Sha256(pub HashValue);
pub struct PublicKey { pub bytes: Ghost<Seq<u8>> }
impl PublicKey { #[verifier::external_body] pub fn from_slice(s: &[u8; 33]) -> (r: Result<PublicKey, Bolt11ParseError>) ensures r is Ok ==> r->Ok_0.bytes@ == s@ { unimplemented!() }
    pub fn into(self) -> (r: PayeePubKey) ensures r.0 == self { PayeePubKey(self) } }
pub struct PayeePubKey(pub PublicKey);
impl PaymentSecret {
//@extract lightning-invoice/src/de.rs :: impl FromBase32 for PaymentSecret :: fn from_base32
//@rw R5
    <[u8; 32]>::from_base32(field_data)
//@with
    arr32_from_base32(field_data)
//@rw R5
    Result<Self, Self::Err>
//@with
    Result<Self, Bolt11ParseError>
//@ret r
//@ensures P C18 a-payment-secret-field-is-read-only-with-52-symbols-any-other-length-is-skipped
    r is Ok ==> field_data@.len() == 52 && Some(r->Ok_0.0@) == bytes32(field_data@),
    field_data@.len() != 52 ==> r is Err && skip_kind(r->Err_0),
//@end
}
impl PaymentHash {
//@extract lightning-invoice/src/de.rs :: impl FromBase32 for PaymentHash :: fn from_base32
//@rw R5
    <[u8; 32]>::from_base32(field_data)
//@with
    arr32_from_base32(field_data)
//@rw R5
    Result<Self, Self::Err>
//@with
    Result<Self, Bolt11ParseError>
//@ret r
//@ensures P C18 a-payment-hash-field-is-read-only-with-52-symbols-any-other-length-is-skipped
    r is Ok ==> field_data@.len() == 52 && Some(r->Ok_0.0@) == bytes32(field_data@),
    field_data@.len() != 52 ==> r is Err && skip_kind(r->Err_0),
//@mutant payment_hash_of_any_length_read
    if field_data.len() != 52 {
//@with
    if field_data.len() > 52 {
//@end
}
impl Sha256 {
//@extract lightning-invoice/src/de.rs :: impl FromBase32 for Sha256 :: fn from_base32
//@rw R5
    sha256::Hash::from_slice(&<[u8; 32]>::from_base32(field_data)?)
//@with
    sha256::Hash::from_slice(&arr32_from_base32(field_data)?)
//@ret r
//@ensures P C18 a-description-hash-field-is-read-only-with-52-symbols-any-other-length-is-skipped
    r is Ok ==> field_data@.len() == 52 && Some(r->Ok_0.0.bytes@) == bytes32(field_data@),
    field_data@.len() != 52 ==> r is Err && skip_kind(r->Err_0),
//@end
}
impl PayeePubKey {
//@extract lightning-invoice/src/de.rs :: impl FromBase32 for PayeePubKey :: fn from_base32
//@rw R5
    <[u8; 33]>::from_base32(field_data)
//@with
    arr33_from_base32(field_data)
//@ret r
//@ensures P C18 a-payee-key-field-is-read-only-with-53-symbols-any-other-length-is-skipped
    r is Ok ==> field_data@.len() == 53 && Some(r->Ok_0.0.bytes@) == bytes33(field_data@),
    field_data@.len() != 53 ==> r is Err && skip_kind(r->Err_0),
//@mutant payee_key_read_with_the_hash_fields_length
    if field_data.len() != 53 {
//@with
    if field_data.len() != 52 {
//@end
}
// the signature field: 104 symbols = 65 bytes, the first 64 the compact signature, the last the recovery id
pub uninterp spec fn bytes65(f: Seq<Fe32>) -> Option<Seq<u8>>;
#[verifier::external_body] pub fn arr65_from_base32(data: &[Fe32]) -> (r: Result<[u8; 65], Bolt11ParseError>) ensures (r is Ok) == (bytes65(data@) is Some), r is Ok ==> Some(r->Ok_0@) == bytes65(data@) { unimplemented!() }
pub struct RecoveryId { pub v: Ghost<int> }
impl RecoveryId { #[verifier::external_body] pub fn from_i32(id: i32) -> (r: Result<RecoveryId, Bolt11ParseError>) ensures r is Ok ==> r->Ok_0.v@ == id as int { unimplemented!() } }
pub struct RecoverableSignature { pub sig: Ghost<Seq<u8>>, pub rid: Ghost<int> }
impl RecoverableSignature { #[verifier::external_body] pub fn from_compact(data: &[u8], recid: RecoveryId) -> (r: Result<RecoverableSignature, Bolt11ParseError>) ensures r is Ok ==> r->Ok_0.sig@ == data@ && r->Ok_0.rid@ == recid.v@ { unimplemented!() } }
pub struct Bolt11InvoiceSignature(pub RecoverableSignature);
impl Bolt11InvoiceSignature {
//@extract lightning-invoice/src/de.rs :: impl FromBase32 for Bolt11InvoiceSignature :: fn from_base32
//@rw R5
    <[u8; 65]>::from_base32(signature)
//@with
    arr65_from_base32(signature)
//@rw R5
    Result<Self, Self::Err>
//@with
    Result<Self, Bolt11ParseError>
//@rw R5
    &recoverable_signature_bytes[0..64]
//@with
    vstd::slice::slice_subrange(recoverable_signature_bytes.as_slice(), 0, 64)
//@ret r
//@ensures P C18 the-signature-field-is-read-only-with-104-symbols-its-first-64-bytes-are-the-signature-and-the-65th-the-recovery-id
    r is Ok ==> signature@.len() == 104 && bytes65(signature@) is Some && r->Ok_0.0.sig@ =~= bytes65(signature@)->Some_0.subrange(0, 64) && r->Ok_0.0.rid@ == bytes65(signature@)->Some_0[64] as int,
    signature@.len() != 104 ==> r is Err,
//@mutant recovery_id_read_from_the_last_signature_byte
    RecoveryId::from_i32(recoverable_signature_bytes[64] as i32)
//@with
    RecoveryId::from_i32(recoverable_signature_bytes[63] as i32)
//@end
}
}
fn main() {}
