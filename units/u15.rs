//! unit: u15
//! properties: C15
//! note: BOLT-8 transport after the handshake: sender/receiver nonce and key-rotation state machine, lock-step lemma
//! trusted: AEAD (ChaCha20-Poly1305) and HKDF are uninterpreted spec functions with the axioms dec(k,n,ad,enc(k,n,ad,p)) == Some(p), |enc(p)| == |p|+16, |dec(c)| + 16 == |c|, unbe16(be16(x)) == x; encrypt_with_ad / encrypt_in_place_with_ad / decrypt_with_ad / decrypt_in_place_with_ad / hkdf_extract_expand_twice are external_body stubs whose contracts are those definitions
//! trusted: R8 wrappers: `&mut v[a..b]` -> vec_range_mut (slice of a Vec, frame stated), `x.to_be_bytes()` -> u16_to_be_bytes, `u16::from_be_bytes` -> u16_from_be_bytes, `&mut msg[..]` -> msg (full-range reborrow); R11: panic!(..) -> unreachable!() (obligation: unreachable)
//! plemma: C15 lemma_transport_sync: receiver state == sender state implies the receiver recovers exactly the length and the body from the sender's bytes and both states are equal again (induction step for any number of messages and key rotations)
//! assume: the handshake has finished (noise_state is Finished) and nonces are <= 1001 (invariant of the functions themselves: they rotate at 1000); message length <= 65535
//! trusted: assume_specification for core::cmp::max / core::cmp::min (std definitions): present in every unit so that a change that introduces them is verified instead of being rejected by the tool
use vstd::prelude::*;
verus! {
use vstd::std_specs::cmp::*;
use core::cmp;
pub assume_specification<T: core::cmp::Ord>[core::cmp::max::<T>](a: T, b: T) -> (r: T)
    ensures T::obeys_cmp_spec() ==> r == (if b.cmp_spec(&a) == core::cmp::Ordering::Less { a } else { b });
pub assume_specification<T: core::cmp::Ord>[core::cmp::min::<T>](a: T, b: T) -> (r: T)
    ensures T::obeys_cmp_spec() ==> r == (if b.cmp_spec(&a) == core::cmp::Ordering::Less { b } else { a });
pub struct PublicKey {} pub struct NoiseStep {} pub struct DirectionalNoiseState {} pub struct BidirectionalNoiseState {}
pub enum ErrorAction { DisconnectPeer { msg: Option<u8> } }
pub struct LightningError { pub err: String, pub action: ErrorAction }
//@const lightning/src/ln/peer_channel_encryptor.rs LN_MAX_MSG_LEN

pub uninterp spec fn aead_enc(key: [u8;32], n: u64, ad: Seq<u8>, pt: Seq<u8>) -> Seq<u8>;
pub open spec fn adv(h: Seq<u8>) -> Seq<u8> { if h.len() == 0 { Seq::<u8>::empty() } else { h } }
pub uninterp spec fn aead_dec(key: [u8;32], n: u64, ad: Seq<u8>, ct: Seq<u8>) -> Option<Seq<u8>>;
#[verifier::external_body]
pub broadcast proof fn axiom_aead_correct(key: [u8;32], n: u64, ad: Seq<u8>, pt: Seq<u8>)
    ensures #[trigger] aead_dec(key, n, ad, aead_enc(key, n, ad, pt)) == Some(pt) {}
#[verifier::external_body]
pub broadcast proof fn axiom_aead_dec_len(key: [u8;32], n: u64, ad: Seq<u8>, ct: Seq<u8>)
    ensures (#[trigger] aead_dec(key, n, ad, ct)) is Some ==> aead_dec(key, n, ad, ct)->Some_0.len() + 16 == ct.len() {}
pub uninterp spec fn kdf2(ck: [u8;32], k: [u8;32]) -> ([u8;32],[u8;32]);
pub uninterp spec fn be16(x: u16) -> [u8;2];
pub uninterp spec fn unbe16_seq(b: Seq<u8>) -> u16;
#[verifier::external_body]
pub broadcast proof fn axiom_be16(x: u16) ensures #[trigger] unbe16_seq(be16(x)@) == x {}
#[verifier::external_body]
pub broadcast proof fn axiom_aead_len(key: [u8;32], n: u64, ad: Seq<u8>, pt: Seq<u8>) ensures (#[trigger] aead_enc(key, n, ad, pt)).len() == pt.len() + 16 {}

#[verifier::external_body] pub fn u16_to_be_bytes(x: u16) -> (r: [u8; 2]) ensures r == be16(x) { x.to_be_bytes() }
#[verifier::external_body] pub fn u16_from_be_bytes(b: [u8; 2]) -> (r: u16) ensures r == unbe16_seq(b@) { u16::from_be_bytes(b) }

#[verifier::external_body]
pub fn hkdf_extract_expand_twice(salt: &[u8; 32], ikm: &[u8; 32]) -> (r: ([u8; 32], [u8; 32])) ensures r == kdf2(*salt, *ikm) { unimplemented!() }

#[verifier::external_body]
pub fn vec_range_mut<'a>(v: &'a mut Vec<u8>, start: usize, end: usize) -> (s: &'a mut [u8])
    requires start <= end <= old(v).len()
    ensures s@ == old(v)@.subrange(start as int, end as int),
            final(s)@.len() == s@.len(),
            final(v)@ == old(v)@.take(start as int) + final(s)@ + old(v)@.skip(end as int),
            final(v)@.len() == old(v)@.len(),
            final(v)@.subrange(start as int, end as int) == final(s)@,
            final(v)@.skip(end as int) == old(v)@.skip(end as int),
            final(v)@.take(start as int) == old(v)@.take(start as int),
{ &mut v[start..end] }

// abstract one-direction cipher state
pub struct Dir { pub k: [u8;32], pub n: u64, pub ck: [u8;32] }
pub open spec fn rotate(d: Dir) -> Dir { if d.n >= 1000 { let (ck2, k2) = kdf2(d.ck, d.k); Dir { k: k2, n: 0, ck: ck2 } } else { d } }
pub open spec fn wire(d: Dir, m: Seq<u8>) -> Seq<u8> {
    let r = rotate(d);
    aead_enc(r.k, r.n, Seq::<u8>::empty(), be16(m.len() as u16)@) + aead_enc(r.k, (r.n + 1) as u64, Seq::<u8>::empty(), m)
}
pub open spec fn wire_hdr(d: Dir, len: int) -> Seq<u8> { let r = rotate(d); aead_enc(r.k, r.n, Seq::<u8>::empty(), be16(len as u16)@) }
pub open spec fn wire_body(d: Dir, m: Seq<u8>) -> Seq<u8> { let r = rotate(d); aead_enc(r.k, (r.n + 1) as u64, Seq::<u8>::empty(), m) }
pub open spec fn after_msg(d: Dir) -> Dir { let r = rotate(d); Dir { k: r.k, n: (r.n + 2) as u64, ck: r.ck } }
pub open spec fn after_hdr(d: Dir) -> Dir { let r = rotate(d); Dir { k: r.k, n: (r.n + 1) as u64, ck: r.ck } }


//@extract lightning/src/ln/peer_channel_encryptor.rs :: enum NoiseState
//@end
//@extract lightning/src/ln/peer_channel_encryptor.rs :: struct PeerChannelEncryptor
//@end
impl PeerChannelEncryptor {
    pub open spec fn send_dir(&self) -> Dir { Dir { k: self.noise_state->sk, n: self.noise_state->sn, ck: self.noise_state->sck } }
    pub open spec fn recv_dir(&self) -> Dir { Dir { k: self.noise_state->rk, n: self.noise_state->rn, ck: self.noise_state->rck } }
}


impl PeerChannelEncryptor {
    #[verifier::external_body]
	fn encrypt_with_ad(res: &mut [u8], n: u64, key: &[u8; 32], h: &[u8], plaintext: &[u8])
        requires old(res).len() == plaintext.len() + 16
        ensures final(res)@ == aead_enc(*key, n, adv(h@), plaintext@)
    { unimplemented!() }
    #[verifier::external_body]
	fn encrypt_in_place_with_ad(res: &mut Vec<u8>, offset: usize, n: u64, key: &[u8; 32], h: &[u8])
        requires offset <= old(res).len()
        ensures final(res)@ == old(res)@.take(offset as int) + aead_enc(*key, n, adv(h@), old(res)@.skip(offset as int)),
            final(res)@.take(offset as int) == old(res)@.take(offset as int),
            final(res)@.skip(offset as int) == aead_enc(*key, n, adv(h@), old(res)@.skip(offset as int))
    { unimplemented!() }
    #[verifier::external_body]
	fn decrypt_with_ad(res: &mut [u8], n: u64, key: &[u8; 32], h: &[u8], cyphertext: &[u8]) -> (r: Result<(), LightningError>)
        requires cyphertext.len() == old(res).len() + 16
        ensures final(res).len() == old(res).len(),
            r is Ok <==> aead_dec(*key, n, adv(h@), cyphertext@) is Some,
            r is Ok ==> final(res)@ == aead_dec(*key, n, adv(h@), cyphertext@)->Some_0
    { unimplemented!() }
    #[verifier::external_body]
	fn decrypt_in_place_with_ad(inout: &mut [u8], n: u64, key: &[u8; 32], h: &[u8]) -> (r: Result<(), LightningError>)
        requires old(inout).len() >= 16
        ensures final(inout).len() == old(inout).len(),
            r is Ok <==> aead_dec(*key, n, adv(h@), old(inout)@) is Some,
            r is Ok ==> final(inout)@.take(old(inout).len() - 16) == aead_dec(*key, n, adv(h@), old(inout)@)->Some_0
    { unimplemented!() }


//@extract lightning/src/ln/peer_channel_encryptor.rs :: impl PeerChannelEncryptor :: fn encrypt_message_with_header_0s
//@ret r
//@requires
    old(msgbuf).len() >= 18, old(msgbuf).len() - 18 <= LN_MAX_MSG_LEN,
    old(self).noise_state is Finished,
    old(self).noise_state->sn <= 1001,
//@ensures P C15 sender-emits-enc-header-then-enc-body-under-consecutive-nonces-rotating-at-1000
    r is Ok,
    final(self).noise_state is Finished,
    final(self).send_dir() == after_msg(old(self).send_dir()),
    final(self).recv_dir() == old(self).recv_dir(),            // frame
    final(msgbuf)@.take(18) == wire_hdr(old(self).send_dir(), old(msgbuf)@.len() - 18),
    final(msgbuf)@.skip(18) == wire_body(old(self).send_dir(), old(msgbuf)@.skip(18)),
//@at body_start
    broadcast use axiom_aead_len;
//@rw ? R8
    &mut $v:ident[$a..$b]
//@with
    vec_range_mut($v, $a, $b)
//@rw ? R8
    &($x).to_be_bytes()
//@with
    &u16_to_be_bytes($x)
//@mutant nonce_reused_for_body
    *sn += 1; Self::encrypt_in_place_with_ad
//@with
    Self::encrypt_in_place_with_ad
//@mutant rotation_threshold_changed
    if *sn >= 1000 {
//@with
    if *sn > 1000 {
//@end

//@extract lightning/src/ln/peer_channel_encryptor.rs :: impl PeerChannelEncryptor :: fn decrypt_length_header
//@ret r
//@requires
    msg.len() == 16 + 2, old(self).noise_state is Finished, old(self).noise_state->rn <= 1001,
//@ensures P C15 receiver-decrypts-header-under-the-same-rotation-rule
    final(self).noise_state is Finished,
    final(self).send_dir() == old(self).send_dir(),
    r is Ok ==> final(self).recv_dir() == after_hdr(old(self).recv_dir()),
    r is Ok <==> aead_dec(rotate(old(self).recv_dir()).k, rotate(old(self).recv_dir()).n, Seq::<u8>::empty(), msg@) is Some,
    r is Ok ==> ({ let pt = aead_dec(rotate(old(self).recv_dir()).k, rotate(old(self).recv_dir()).n, Seq::<u8>::empty(), msg@)->Some_0;
                   pt.len() == 2 && r->Ok_0 == unbe16_seq(pt) }),
//@at body_start
    broadcast use axiom_be16, axiom_aead_dec_len;
//@rw ? R8
    u16::from_be_bytes($x)
//@with
    u16_from_be_bytes($x)
//@rw ? R11
    panic!($m)
//@with
    unreachable!()
//@mutant receiver_rotates_late
    if *rn >= 1000 {
//@with
    if *rn >= 1002 {
//@end

//@extract lightning/src/ln/peer_channel_encryptor.rs :: impl PeerChannelEncryptor :: fn decrypt_message
//@ret r
//@requires
    old(msg).len() >= 16, old(msg).len() <= LN_MAX_MSG_LEN + 16, old(self).noise_state is Finished, old(self).noise_state->rn <= 1001,
//@ensures P C15 receiver-decrypts-body-under-the-next-nonce
    final(self).noise_state is Finished,
    final(self).send_dir() == old(self).send_dir(),
    r is Ok ==> final(self).recv_dir() == (Dir { n: (old(self).recv_dir().n + 1) as u64, ..old(self).recv_dir() }),
    r is Ok <==> aead_dec(old(self).recv_dir().k, old(self).recv_dir().n, Seq::<u8>::empty(), old(msg)@) is Some,
    r is Ok ==> final(msg)@.take(old(msg).len() - 16) == aead_dec(old(self).recv_dir().k, old(self).recv_dir().n, Seq::<u8>::empty(), old(msg)@)->Some_0,
//@rw ? R8
    &mut msg[..]
//@with
    msg
//@rw ? R11
    panic!($m)
//@with
    unreachable!()
//@mutant body_nonce_not_advanced
    *rn += 1;
//@with
    *rn += 0;
//@end
}

// (P) lock-step: if the receiver's receiving state equals the sender's sending state, then from the bytes the sender
// produces the receiver recovers exactly the length and the body, and both states are equal again afterwards.
pub proof fn lemma_transport_sync(s: Dir, m: Seq<u8>)
    requires m.len() <= 65535
    ensures ({
        let w = wire(s, m);
        let r0 = rotate(s);
        &&& aead_dec(r0.k, r0.n, Seq::<u8>::empty(), w.take(18)) == Some(be16(m.len() as u16)@)
        &&& unbe16_seq(be16(m.len() as u16)@) == m.len()
        &&& aead_dec(after_hdr(s).k, after_hdr(s).n, Seq::<u8>::empty(), w.skip(18)) == Some(m)
        &&& (Dir { n: (after_hdr(s).n + 1) as u64, ..after_hdr(s) }) == after_msg(s)
    })
{
    broadcast use axiom_aead_len, axiom_aead_correct, axiom_be16;
    let r0 = rotate(s);
    let a = aead_enc(r0.k, r0.n, Seq::<u8>::empty(), be16(m.len() as u16)@);
    let b = aead_enc(r0.k, (r0.n + 1) as u64, Seq::<u8>::empty(), m);
    assert(be16(m.len() as u16)@.len() == 2);
    assert(a.len() == 18);
    assert((a + b).take(18) =~= a);
    assert((a + b).skip(18) =~= b);
}

}
fn main() {}
