//! unit: u18j
//! properties: C18
//! note: BOLT-11 route hints (lightning-invoice de.rs, `impl FromBase32 for PrivateRoute`, whole): the field's bytes are cut into hops of exactly 51 bytes - refused when the length is not a multiple of 51 - and hop k is read from chunk k at the offsets the writer uses (ser.rs: 33 bytes node id, 8 bytes short channel id, 4 bytes base fee, 4 bytes proportional fee, 2 bytes CLTV delta, all big-endian): no byte is skipped or read into two fields, the hops keep their order, the two limits BOLT 11 cannot carry are absent, and none of the slice conversions can fail (LDK's three `expect("slice too big?")` and the copy into the 8-byte array are obligations here)
//! trusted: R5: `&X[a..b]` / `&X[a..]` are vstd's slice_subrange; `Vec::<u8>::from_base32` is an uninterpreted function of the symbols (its own contract: the 5-to-8 bit regrouping, is the Kani harness's); `uN::from_be_bytes(X[a..b].try_into().expect(..))` is an external_body helper that REQUIRES b - a = N/8 within the slice (the panic condition of the source) and returns the uninterpreted big-endian value of those bytes, likewise the copy_from_slice into the 8-byte array; PublicKey::from_slice is any function of its 33 bytes (an invalid point refuses the invoice)
//! trusted: assume_specification for core::cmp::max / core::cmp::min (std definitions): present in every unit so that a change that introduces them is verified instead of being rejected by the tool
use vstd::prelude::*;
verus! {
use vstd::std_specs::cmp::*;
use vstd::slice::*;
use core::cmp;
pub assume_specification<T: core::cmp::Ord>[core::cmp::max::<T>](a: T, b: T) -> (r: T)
    ensures T::obeys_cmp_spec() ==> r == (if b.cmp_spec(&a) == core::cmp::Ordering::Less { a } else { b });
pub assume_specification<T: core::cmp::Ord>[core::cmp::min::<T>](a: T, b: T) -> (r: T)
    ensures T::obeys_cmp_spec() ==> r == (if b.cmp_spec(&a) == core::cmp::Ordering::Less { b } else { a });
pub struct Fe32(pub u8);
pub enum Bolt11ParseError { UnexpectedEndOfTaggedFields, Other(u8) }
pub uninterp spec fn be(s: Seq<u8>) -> nat;
pub uninterp spec fn key_of(s: Seq<u8>) -> Option<u64>;
#[derive(Clone, Copy, PartialEq, Eq)] pub struct PublicKey(pub u64);
impl PublicKey { #[verifier::external_body] pub fn from_slice(data: &[u8]) -> (r: Result<PublicKey, Bolt11ParseError>) ensures (r is Ok) == (key_of(data@) is Some), r is Ok ==> Some(r->Ok_0.0) == key_of(data@) { unimplemented!() } }
pub uninterp spec fn decoded(f: Seq<Fe32>) -> Seq<u8>;
#[verifier::external_body] pub fn bytes_from_base32(field_data: &[Fe32]) -> (r: Result<Vec<u8>, Bolt11ParseError>) ensures r is Ok ==> r->Ok_0@ == decoded(field_data@) { unimplemented!() }
#[verifier::external_body] pub fn arr8_of(s: &[u8], a: usize, b: usize) -> (r: [u8; 8]) requires a <= b <= s@.len(), b - a == 8 ensures r@ == s@.subrange(a as int, b as int) { unimplemented!() }
#[verifier::external_body] pub fn be_u64(a: [u8; 8]) -> (r: u64) ensures r as nat == be(a@) { unimplemented!() }
#[verifier::external_body] pub fn be_u32_of(s: &[u8], a: usize, b: usize) -> (r: u32) requires a <= b <= s@.len(), b - a == 4 ensures r as nat == be(s@.subrange(a as int, b as int)) { unimplemented!() }
#[verifier::external_body] pub fn be_u16_of(s: &[u8], a: usize, b: usize) -> (r: u16) requires a <= b <= s@.len(), b - a == 2 ensures r as nat == be(s@.subrange(a as int, b as int)) { unimplemented!() }
#[derive(Clone, Copy, PartialEq, Eq)] pub struct RoutingFees { pub base_msat: u32, pub proportional_millionths: u32 }
pub struct RouteHintHop { pub src_node_id: PublicKey, pub short_channel_id: u64, pub fees: RoutingFees, pub cltv_expiry_delta: u16, pub htlc_minimum_msat: Option<u64>, pub htlc_maximum_msat: Option<u64> }
pub struct RouteHint(pub Vec<RouteHintHop>);
pub struct PrivateRoute(pub RouteHint);
pub open spec fn hop_of(c: Seq<u8>, h: RouteHintHop) -> bool {
    Some(h.src_node_id.0) == key_of(c.subrange(0, 33)) && h.short_channel_id as nat == be(c.subrange(33, 41)) && h.fees.base_msat as nat == be(c.subrange(41, 45))
    && h.fees.proportional_millionths as nat == be(c.subrange(45, 49)) && h.cltv_expiry_delta as nat == be(c.subrange(49, 51)) && h.htlc_minimum_msat is None && h.htlc_maximum_msat is None }
pub open spec fn hops_of(all: Seq<u8>, hops: Seq<RouteHintHop>) -> bool { all.len() == 51 * hops.len() && forall|k: int| 0 <= k < hops.len() ==> hop_of(all.subrange(51 * k, 51 * k + 51), #[trigger] hops[k]) }
//@extract lightning-invoice/src/de.rs :: impl FromBase32 for PrivateRoute :: fn from_base32
//@rw R5
    Vec::<u8>::from_base32(field_data)?
//@with
    bytes_from_base32(field_data)?
//@rw R8
    let mut channel_id: [u8; 8] = Default::default(); channel_id.copy_from_slice(&hop_bytes[$a:seq..$b:seq]);
//@with
    let channel_id = arr8_of(hop_bytes, $a, $b);
//@rw R8
    u64::from_be_bytes(channel_id)
//@with
    be_u64(channel_id)
//@rw * R8
    u32::from_be_bytes( hop_bytes[$a:seq..$b:seq].try_into().expect("slice too big?"), )
//@with
    be_u32_of(hop_bytes, $a, $b)
//@rw * R8
    u16::from_be_bytes( hop_bytes[$a:seq..$b:seq].try_into().expect("slice too big?"), )
//@with
    be_u16_of(hop_bytes, $a, $b)
//@rw * R5
    &hop_bytes[$a:seq..$b:seq]
//@with
    slice_subrange(hop_bytes, $a, $b)
//@rw * R5
    &bytes[$a:seq..$b:seq]
//@with
    slice_subrange(bytes, $a, $b)
//@rw * R5
    &bytes[$a:seq..]
//@with
    slice_subrange(bytes, $a, bytes.len())
//@at before_loop 1
    let ghost all = bytes@;
    proof { assert(all.subrange(0, all.len() as int) =~= all); }
//@loop 1
    invariant bytes@.len() % 51 == 0, all.len() % 51 == 0, bytes@.len() <= all.len(), 51 * route_hops@.len() + bytes@.len() == all.len(), bytes@ =~= all.subrange(all.len() - bytes@.len(), all.len() as int),
        forall|k: int| 0 <= k < route_hops@.len() ==> hop_of(all.subrange(51 * k, 51 * k + 51), #[trigger] route_hops@[k]),
    decreases bytes@.len()
//@at loop_body_start 1
    let ghost b_in = bytes@; let ghost n_in = route_hops@.len() as int;
    proof { assert(b_in.len() >= 51); }
//@at loop_body_end 1
    proof {
        assert(hop_bytes@ =~= all.subrange(51 * n_in, 51 * n_in + 51));
        assert(bytes@ =~= all.subrange(all.len() - bytes@.len(), all.len() as int));
    }
//@at after_loop 1
    proof { assert(bytes@.len() == 0); assert(hops_of(all, route_hops@)); }
//@ret r
//@ensures P C18 the-hops-of-a-route-hint-are-read-one-per-51-bytes-in-order-each-field-from-the-bytes-the-writer-puts-it-in-and-any-other-length-is-refused
    r is Ok ==> hops_of(decoded(field_data@), r->Ok_0.0.0@),
//@mutant proportional_fee_read_from_the_base_fee_bytes
    hop_bytes[45..49]
//@with
    hop_bytes[41..45]
//@mutant route_hint_of_any_length_accepted
    if bytes.len() % 51 != 0 {
//@with
    if bytes.len() % 51 > 51 {
//@end
}
fn main() {}
