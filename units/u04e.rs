//! unit: u04e
//! properties: C04 C12 C10 C15
//! note: handle_claimable_htlc, the refusal exit (slice, written on the shape repaired by e5509b6, finding F6): when the HTLC that would have been the FIRST of its payment is refused, the entry created for it a few statements earlier is taken out again, so that no claimable payment without HTLCs is ever left in the map (such an entry refuses later valid parts of the payment and is written in a form the manager's reader rejects); a refused later HTLC leaves the map as it was; the refusal is reported to the caller either way (the HTLC is failed back)
//! trusted: R15 (deep slice): the `Err(())` arm of the match on check_incoming_mpp_part's result, verbatim as a function of the map, the payment hash and the flag set by the entry's or_insert_with closure; the map of claimable payments is an environment map from payment hash to the number of HTLCs held (remove with the std contract)
//! assume: on entry every other payment in the map holds at least one HTLC, and the entry of this payment hash is empty exactly when the flag says it was just created (the statements in front of the match; check_incoming_mpp_part leaves the HTLC set untouched when it refuses: proved in u04b)
//! trusted: assume_specification for core::cmp::max / core::cmp::min (std definitions): present in every unit so that a change that introduces them is verified instead of being rejected by the tool
use vstd::prelude::*;
verus! {
use vstd::std_specs::cmp::*;
use core::cmp;
pub assume_specification<T: core::cmp::Ord>[core::cmp::max::<T>](a: T, b: T) -> (r: T)
    ensures T::obeys_cmp_spec() ==> r == (if b.cmp_spec(&a) == core::cmp::Ordering::Less { a } else { b });
pub assume_specification<T: core::cmp::Ord>[core::cmp::min::<T>](a: T, b: T) -> (r: T)
    ensures T::obeys_cmp_spec() ==> r == (if b.cmp_spec(&a) == core::cmp::Ordering::Less { b } else { a });
#[derive(Clone, Copy)] pub struct PaymentHash(pub u64);
pub struct PMap { pub m: Ghost<Map<PaymentHash, nat>> }
impl PMap { #[verifier::external_body] pub fn remove(&mut self, k: &PaymentHash) -> (r: Option<u8>) ensures final(self).m@ == old(self).m@.remove(*k) { unimplemented!() } }
pub struct Payments { pub claimable_payments: PMap }
pub open spec fn none_empty(m: Map<PaymentHash, nat>) -> bool { forall|h: PaymentHash| m.contains_key(h) ==> #[trigger] m[h] > 0 }
//@extract lightning/src/ln/channelmanager.rs :: impl ChannelManager :: fn handle_claimable_htlc
//@slice R15
    Ok(false) => Ok(()), Err(()) => { $arm:any },
//@with
    fn refuse_an_htlc_of_a_claimable_payment(claimable_payments: &mut Payments, payment_hash: PaymentHash, first_claimable_htlc: bool) -> Result<(), ()> { $arm }
//@ret r
//@requires
    old(claimable_payments).claimable_payments.m@.contains_key(payment_hash),
    first_claimable_htlc == (old(claimable_payments).claimable_payments.m@[payment_hash] == 0),
    forall|h: PaymentHash| old(claimable_payments).claimable_payments.m@.contains_key(h) && h != payment_hash ==> #[trigger] old(claimable_payments).claimable_payments.m@[h] > 0,
//@ensures P C04,C12,C10,C15 a-refused-first-htlc-leaves-no-empty-claimable-payment-behind-so-none-is-ever-stored-or-serialized-and-the-refusal-is-reported
    r is Err,
    none_empty(final(claimable_payments).claimable_payments.m@),
    !first_claimable_htlc ==> final(claimable_payments).claimable_payments.m@ == old(claimable_payments).claimable_payments.m@,
    first_claimable_htlc ==> final(claimable_payments).claimable_payments.m@ == old(claimable_payments).claimable_payments.m@.remove(payment_hash),
//@mutant empty_entry_of_a_refused_first_htlc_left_behind
    claimable_payments.claimable_payments.remove(&payment_hash);
//@with

//@end
}
fn main() {}
