//! unit: u03f
//! properties: C03 C02
//! note: ChannelContext::force_shutdown, what a channel that is closed hands back besides the HTLCs of its holding cell and its unannounced commitment update (u03b): the failures it was HOLDING behind a monitor update in progress (monitor_pending_failures: HTLCs whose removal became irrevocable with the peer's revoke_and_ack). The ChannelMonitor cannot resolve those after the close - they are in neither of the counterparty's commitment transactions any more - and the channel object is dropped, so each of them is handed back (appended to dropped_outbound_htlcs with its own source and payment hash, everything already there kept) and none stays behind; otherwise the payment (or the forward's upstream HTLC) never gets its terminal failure (finding F15)
//! trusted: R15 (deep slice): the statements BETWEEN the `'htlc_iter` loop and `let monitor_update =` (none on a tree without the repair of F15: the function then has the empty body and the contract fails), verbatim; R6: `for (source, payment_hash, _) in LIST.drain(..) { .. }` is `let held = take(LIST)` (LIST left empty) followed by an index loop binding the first two components; env: HTLCSource / PaymentHash / PublicKey / ChannelId opaque copyable values, the failure reason opaque
//! trusted: assume_specification for core::cmp::max / core::cmp::min (std definitions): present in every unit so that a change that introduces them is verified instead of being rejected by the tool
use vstd::prelude::*;
verus! {
use vstd::std_specs::cmp::*;
use core::cmp;
pub assume_specification<T: core::cmp::Ord>[core::cmp::max::<T>](a: T, b: T) -> (r: T)
    ensures T::obeys_cmp_spec() ==> r == (if b.cmp_spec(&a) == core::cmp::Ordering::Less { a } else { b });
pub assume_specification<T: core::cmp::Ord>[core::cmp::min::<T>](a: T, b: T) -> (r: T)
    ensures T::obeys_cmp_spec() ==> r == (if b.cmp_spec(&a) == core::cmp::Ordering::Less { b } else { a });
#[derive(Clone, Copy)] pub struct HTLCSource(pub u64);
#[derive(Clone, Copy)] pub struct PaymentHash(pub u64);
#[derive(Clone, Copy)] pub struct PublicKey(pub u64);
#[derive(Clone, Copy)] pub struct ChannelId(pub u64);
#[derive(Clone, Copy)] pub struct HTLCFailReason(pub u64);
pub struct ChannelContext { pub monitor_pending_failures: Vec<(HTLCSource, PaymentHash, HTLCFailReason)>, pub channel_id: ChannelId }
#[verifier::external_body] pub fn take_all(v: &mut Vec<(HTLCSource, PaymentHash, HTLCFailReason)>) -> (r: Vec<(HTLCSource, PaymentHash, HTLCFailReason)>)
    ensures r@ == old(v)@, final(v)@.len() == 0 { unimplemented!() }
pub open spec fn handed_back(held: Seq<(HTLCSource, PaymentHash, HTLCFailReason)>, cp: PublicKey, ch: ChannelId) -> Seq<(HTLCSource, PaymentHash, PublicKey, ChannelId)> {
    Seq::new(held.len(), |k: int| (held[k].0, held[k].1, cp, ch)) }
impl ChannelContext {
//@extract lightning/src/ln/channel.rs :: impl ChannelContext :: fn force_shutdown
//@slice R15
    'htlc_iter: for htlc in self.pending_outbound_htlcs.iter() { $l:any } $between:any let monitor_update = if let Some(funding_txo) = funding.get_funding_txo() {
//@with
    fn hand_back_the_failures_held_behind_a_monitor_update(&mut self, dropped_outbound_htlcs: &mut Vec<(HTLCSource, PaymentHash, PublicKey, ChannelId)>, counterparty_node_id: PublicKey) { $between }
//@rw R6 ?
    for (source, payment_hash, _) in self.monitor_pending_failures.drain(..) { $b:any }
//@with
    let __held = take_all(&mut self.monitor_pending_failures);
    let ghost __d0 = dropped_outbound_htlcs@;
    let mut __k: usize = 0;
    while __k < __held.len()
        invariant __k <= __held@.len(), self.monitor_pending_failures@.len() == 0, self.channel_id == old(self).channel_id,
            dropped_outbound_htlcs@ =~= __d0 + handed_back(__held@.take(__k as int), counterparty_node_id, self.channel_id),
        decreases __held@.len() - __k
    { let source = __held[__k].0; let payment_hash = __held[__k].1;
      proof { assert(handed_back(__held@.take(__k as int + 1), counterparty_node_id, self.channel_id) =~= handed_back(__held@.take(__k as int), counterparty_node_id, self.channel_id).push((source, payment_hash, counterparty_node_id, self.channel_id))); }
      $b __k = __k + 1; }
    proof { assert(__held@.take(__k as int) =~= __held@); }
//@ensures P C03,C02 a-channel-that-is-closed-hands-back-every-failure-it-was-holding-behind-a-monitor-update-and-keeps-none
    final(dropped_outbound_htlcs)@ =~= old(dropped_outbound_htlcs)@ + handed_back(old(self).monitor_pending_failures@, counterparty_node_id, old(self).channel_id),
    final(self).monitor_pending_failures@.len() == 0,
//@mutant held_failures_dropped_with_the_channel
    for (source, payment_hash, _) in self.monitor_pending_failures.drain(..) { dropped_outbound_htlcs.push
//@with
    for (source, payment_hash, _) in self.monitor_pending_failures.drain(..) { let _ =
//@end
}
}
fn main() {}
