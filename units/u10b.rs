//! unit: u10b
//! properties: C10 C03 C05 C09 C02
//! note: also run for C02: the code it constrains lies inside mechanisms those properties name (a change made there for their sake must meet these clauses too)
//! note: restart, rebuilding outbound payments from the monitors of closed channels (channelmanager.rs from_channel_manager_data): a payment part still pending in a closed channel's monitor is put back only for a non-empty path (an empty one fails the read); a part the monitor knows the preimage for is claimed with the completion action that releases THIS monitor's payment-complete update for THIS HTLC; when the claim was a duplicate and no queued event still carries that action, the monitor is told so by a ReleasePaymentComplete update numbered right after the last id given out for the channel (remembered), queued behind the earlier background events; an HTLC the monitor reports as failed on chain is failed with OnChainTimeout and the completion update of this monitor and HTLC
//! trusted: R15 (deep slices of from_channel_manager_data): each slice carries the named statements verbatim as a function of the values in scope; the monitor is a skeleton answering its counterparty, funding outpoint and channel id; SentHTLCId::from_source is uninterpreted; the scan `pending_events.iter().any(|(_, act)| *act == compl_action)` is written as a loop with the predicate carried through a capture (R6 any), equality of completion actions through the wrapper action_eq (structural equality); the lookups of the peer state and of the channel's last update id (`.expect(..)`) are the parameter update_id
//! trusted: R15 (deep slices, second batch): the branch for a channel without a monitor, the statements that decide whether a monitor without a channel is force-closed and which id is remembered for it, the force-close update built for it, the `and_modify` closure that merges the remembered id (second occurrence); monitors and channels are skeletons answering the accessors used
//! trusted: assume_specification for core::cmp::max / core::cmp::min (std definitions): present in every unit so that a change that introduces them is verified instead of being rejected by the tool
use vstd::prelude::*;
verus! {
use vstd::std_specs::cmp::*;
use core::cmp;
pub assume_specification<T: core::cmp::Ord>[core::cmp::max::<T>](a: T, b: T) -> (r: T)
    ensures T::obeys_cmp_spec() ==> r == (if b.cmp_spec(&a) == core::cmp::Ordering::Less { a } else { b });
pub assume_specification<T: core::cmp::Ord>[core::cmp::min::<T>](a: T, b: T) -> (r: T)
    ensures T::obeys_cmp_spec() ==> r == (if b.cmp_spec(&a) == core::cmp::Ordering::Less { b } else { a });
#[derive(Clone, Copy)] pub struct ChannelId(pub [u8; 32]);
#[derive(Clone, Copy)] pub struct PublicKey(pub u64);
#[derive(Clone, Copy)] pub struct OutPoint { pub id: u64 }
#[derive(Clone, Copy)] pub struct PaymentHash(pub [u8; 32]);
#[derive(Clone, Copy)] pub struct SentHTLCId { pub of: u64 }
pub struct HTLCSource { pub id: u64 }
pub uninterp spec fn sent_id(s: HTLCSource) -> SentHTLCId;
impl SentHTLCId { #[verifier::external_body] pub fn from_source(s: &HTLCSource) -> (r: SentHTLCId) ensures r == sent_id(*s) { unimplemented!() } }
//@extract lightning/src/ln/channelmanager.rs :: struct PaymentCompleteUpdate
//@end
//@extract lightning/src/ln/channelmanager.rs :: enum EventCompletionAction
//@end
pub struct Monitor { pub counterparty: PublicKey, pub funding: OutPoint, pub chan: ChannelId }
impl Monitor {
    #[verifier::external_body] pub fn get_counterparty_node_id(&self) -> (r: PublicKey) ensures r == self.counterparty { unimplemented!() }
    #[verifier::external_body] pub fn get_funding_txo(&self) -> (r: OutPoint) ensures r == self.funding { unimplemented!() }
    #[verifier::external_body] pub fn channel_id(&self) -> (r: ChannelId) ensures r == self.chan { unimplemented!() }
}
// ---- the completion action of a claim replayed from a closed channel's monitor ----
//@extract lightning/src/ln/channelmanager.rs :: impl ChannelManager :: fn from_channel_manager_data
//@slice R15
    let update = PaymentCompleteUpdate { $f:any }; let mut compl_action = Some( $a:seq ); pending_outbounds.claim_htlc(
//@with
    fn completion_action_of_a_claim_replayed_from_a_monitor(monitor: &Monitor, htlc_id: SentHTLCId) -> Option<EventCompletionAction> {
        let update = PaymentCompleteUpdate { $f }; let mut compl_action = Some( $a ); compl_action }
//@ret r
//@ensures P C10,C03 the-event-of-a-claim-found-in-a-closed-channels-monitor-releases-the-payment-complete-update-of-that-monitor-and-that-htlc
    r == Some(EventCompletionAction::ReleasePaymentCompleteChannelMonitorUpdate(PaymentCompleteUpdate { counterparty_node_id: monitor.counterparty, channel_funding_outpoint: monitor.funding, channel_id: monitor.chan, htlc_id })),
//@mutant completion_update_addressed_to_another_channel
    channel_id: monitor.channel_id(), htlc_id, }; let mut compl_action
//@with
    channel_id: ChannelId([0; 32]), htlc_id, }; let mut compl_action
//@end
// ---- a duplicate claim: the monitor is told only if no queued event still carries the action ----
pub struct Event { pub id: u64 }
#[verifier::external_body] pub fn action_eq(a: &Option<EventCompletionAction>, b: &Option<EventCompletionAction>) -> (r: bool) ensures r == (*a == *b) { unimplemented!() }
pub enum ChannelMonitorUpdateStep { ReleasePaymentComplete { htlc: SentHTLCId }, Other { opaque: u64 } }
pub struct ChannelMonitorUpdate { pub update_id: u64, pub channel_id: Option<ChannelId>, pub updates: Vec<ChannelMonitorUpdateStep> }
pub enum BackgroundEvent { MonitorUpdateRegeneratedOnStartup { counterparty_node_id: PublicKey, funding_txo: OutPoint, channel_id: ChannelId, update: ChannelMonitorUpdate }, Other { opaque: u64 } }
//@extract lightning/src/ln/channelmanager.rs :: impl ChannelManager :: fn from_channel_manager_data
//@capture R15
    pending_events.iter().any(|(_, act)| $p:seq)
//@capture R15
    *update_id = $next:seq; pending_background_events.push( $ev:seq );
//@slice R15
    let have_action = if $has:cond { $scan:any } else { $none:seq }; if $tell:cond {
//@with
    fn tell_the_monitor_a_duplicate_claim_is_complete(pending_events: &Vec<(Event, Option<EventCompletionAction>)>, compl_action: Option<EventCompletionAction>, monitor: &Monitor, htlc_id: SentHTLCId,
        update_id: &mut u64, pending_background_events: &mut Vec<BackgroundEvent>) {
        let have_action = if $has {
            let mut found = false; let mut k: usize = 0;
            while k < pending_events.len()
                invariant 0 <= k <= pending_events@.len(), found == (exists|j: int| 0 <= j < k && #[trigger] pending_events@[j].1 == compl_action),
                decreases pending_events@.len() - k,
            { let act = &pending_events[k].1; if $p { found = true; } k += 1; }
            found
        } else { $none };
        if $tell {
            *update_id = $next; pending_background_events.push( $ev );
        }
    }
//@rw R8
    *act == compl_action
//@with
    action_eq(act, &compl_action)
//@ensures P C10,C03 a-claim-that-changed-nothing-makes-the-monitor-forget-the-htlc-only-if-no-queued-event-still-carries-the-completion-action-and-then-by-the-update-after-the-last-one-given-out-for-the-channel
    ({ let told = compl_action is Some && !(exists|j: int| 0 <= j < pending_events@.len() && #[trigger] pending_events@[j].1 == compl_action);
       let next = if *old(update_id) == u64::MAX { u64::MAX } else { (*old(update_id) + 1) as u64 };
       if told {
           *final(update_id) == next && final(pending_background_events)@.len() == old(pending_background_events)@.len() + 1
           && final(pending_background_events)@.drop_last() == old(pending_background_events)@
           && (final(pending_background_events)@.last() matches BackgroundEvent::MonitorUpdateRegeneratedOnStartup { counterparty_node_id, funding_txo, channel_id, update }
               && counterparty_node_id == monitor.counterparty && funding_txo == monitor.funding && channel_id == monitor.chan
               && update.update_id == next && update.channel_id == Some(monitor.chan) && update.updates@ =~= seq![ChannelMonitorUpdateStep::ReleasePaymentComplete { htlc: htlc_id }])
       } else { *final(update_id) == *old(update_id) && final(pending_background_events)@ == old(pending_background_events)@ } }),
//@mutant monitor_told_although_the_payment_sent_event_is_still_queued
    if !have_action && compl_action.is_some() {
//@with
    if compl_action.is_some() {
//@mutant release_update_reuses_the_last_id
    *update_id = update_id.saturating_add(1); pending_background_events.push(
//@with
    *update_id = update_id.saturating_add(0); pending_background_events.push(
//@end
// ---- an HTLC the monitor reports as failed on chain ----
pub enum LocalHTLCFailureReason { OnChainTimeout, Other }
//@extract lightning/src/ln/channelmanager.rs :: impl ChannelManager :: fn from_channel_manager_data
//@slice R15
    for (htlc_source, payment_hash) in monitor.get_onchain_failed_outbound_htlcs() { let logger = WithChannelMonitor::from(&args.logger, monitor, Some(payment_hash)); $body:straight }
//@with
    fn fail_htlc_the_monitor_saw_fail_on_chain(monitor: &Monitor, htlc_source: HTLCSource, payment_hash: PaymentHash,
        failed_htlcs: &mut Vec<(HTLCSource, PaymentHash, PublicKey, ChannelId, LocalHTLCFailureReason, Option<PaymentCompleteUpdate>)>) { $body }
//@ensures P C10,C03 an-htlc-a-closed-channels-monitor-saw-fail-on-chain-is-failed-as-an-on-chain-timeout-with-the-completion-update-of-that-monitor-and-that-htlc
    final(failed_htlcs)@ == old(failed_htlcs)@.push((htlc_source, payment_hash, monitor.counterparty, monitor.chan, LocalHTLCFailureReason::OnChainTimeout,
        Some(PaymentCompleteUpdate { counterparty_node_id: monitor.counterparty, channel_funding_outpoint: monitor.funding, channel_id: monitor.chan, htlc_id: sent_id(htlc_source) }))),
//@mutant onchain_failure_carries_no_completion_update
    completion_action, ));
//@with
    None, ));
//@end
// ---- a part still pending in a closed channel's monitor is put back ----
pub enum DecodeError { InvalidValue, Other }
pub struct Path { pub hops: Vec<u64> }
pub struct PendingOutbounds { pub log: Ghost<Seq<(u64, PaymentHash, [u8; 32], u32)>> }
pub struct PaymentId(pub u64);
impl PendingOutbounds {
    #[verifier::external_body] pub fn insert_from_monitor_on_startup(&mut self, payment_id: PaymentId, payment_hash: PaymentHash, session_priv_bytes: [u8; 32], path: &Path, best_block_height: u32, logger: &LoggerStub)
        ensures final(self).log@ == old(self).log@.push((payment_id.0, payment_hash, session_priv_bytes, best_block_height)) { unimplemented!() }
}
pub struct LoggerStub {}
pub struct BestBlock { pub height: u32 }
pub struct HTLCInCommitment { pub payment_hash: PaymentHash }
#[verifier::external_body] pub fn key_bytes(session_priv: &SecretKey) -> (r: [u8; 32]) ensures r == session_priv.bytes { unimplemented!() }
pub struct SecretKey { pub bytes: [u8; 32] }
//@extract lightning/src/ln/channelmanager.rs :: impl ChannelManager :: fn from_channel_manager_data
//@slice R15
    if path.hops.is_empty() { return Err($e:seq); } let mut session_priv_bytes = [0; 32]; session_priv_bytes[..].copy_from_slice(&session_priv[..]); pending_outbounds.insert_from_monitor_on_startup( $args:seq );
//@with
    fn put_back_a_part_pending_in_a_closed_channels_monitor(pending_outbounds: &mut PendingOutbounds, payment_id: PaymentId, session_priv: SecretKey, path: Path, htlc: &HTLCInCommitment, best_block: &BestBlock, logger: LoggerStub) -> Result<(), DecodeError> {
        if path.hops.is_empty() { return Err($e); } let session_priv_bytes = key_bytes(&session_priv); pending_outbounds.insert_from_monitor_on_startup( $args ); Ok(()) }
//@ret r
//@ensures P C10,C03 a-payment-part-still-pending-in-a-closed-channels-monitor-is-put-back-under-its-own-id-hash-and-key-and-a-part-without-a-path-fails-the-read
    path.hops@.len() == 0 ==> r is Err && final(pending_outbounds).log@ == old(pending_outbounds).log@,
    path.hops@.len() > 0 ==> r is Ok && final(pending_outbounds).log@ == old(pending_outbounds).log@.push((payment_id.0, htlc.payment_hash, session_priv.bytes, best_block.height)),
//@mutant part_put_back_under_a_zero_key
    session_priv_bytes, &path,
//@with
    [0; 32], &path,
//@end

// ---- channels and monitors that do not match ----
pub struct ChanStub { pub awaiting_initial: bool }
impl ChanStub { #[verifier::external_body] pub fn is_awaiting_initial_mon_persist(&self) -> (r: bool) ensures r == self.awaiting_initial { unimplemented!() } }
pub enum Reason { DisconnectedPeer, Other }
//@extract lightning/src/ln/channelmanager.rs :: impl ChannelManager :: fn from_channel_manager_data
//@slice R15
    } else if $await:cond { channel_closures.push_back(( events::Event::ChannelClosed { $ev:any }, None, )); } else { return Err($e:seq); }
//@with
    fn channel_without_a_monitor_is_discarded_or_refused(channel: &ChanStub) -> Result<(), DecodeError> { if $await { Ok(()) } else { return Err($e); } }
//@ret r
//@ensures P C10 a-channel-whose-monitor-is-missing-is-dropped-only-if-its-initial-monitor-was-never-persisted-so-its-funding-was-never-broadcast-and-otherwise-the-manager-is-not-loaded
    r is Ok <==> channel.awaiting_initial,
//@mutant channel_with_a_lost_monitor_silently_dropped
    } else if channel.is_awaiting_initial_mon_persist() {
//@with
    } else if !channel.is_awaiting_initial_mon_persist() {
//@end
pub struct Mon2 { pub closed: bool, pub latest: u64, pub chan: ChannelId }
impl Mon2 {
    #[verifier::external_body] pub fn no_further_updates_allowed(&self) -> (r: bool) ensures r == self.closed { unimplemented!() }
    #[verifier::external_body] pub fn get_latest_update_id(&self) -> (r: u64) ensures r == self.latest { unimplemented!() }
    #[verifier::external_body] pub fn channel_id(&self) -> (r: ChannelId) ensures r == self.chan { unimplemented!() }
}
//@extract lightning/src/ln/channelmanager.rs :: impl ChannelManager :: fn from_channel_manager_data
//@slice R15
    let mut should_queue_fc_update = false; let counterparty_node_id = monitor.get_counterparty_node_id(); if $track:cond { should_queue_fc_update = $q:seq; let mut latest_update_id = monitor.get_latest_update_id(); if should_queue_fc_update { latest_update_id = $bump:seq; } per_peer_state
//@with
    fn monitor_without_a_channel(monitor: &Mon2) -> (bool, Option<u64>) {
        let mut should_queue_fc_update = false;
        let mut tracked: Option<u64> = None;
        if $track { should_queue_fc_update = $q; let mut latest_update_id = monitor.get_latest_update_id(); if should_queue_fc_update { latest_update_id = $bump; } tracked = Some(latest_update_id); }
        (should_queue_fc_update, tracked)
    }
//@ret r
//@ensures P C10 a-monitor-the-manager-has-no-channel-for-is-force-closed-unless-it-already-is-and-the-id-remembered-for-it-is-the-one-its-next-update-will-carry-or-its-last
    r.0 == !monitor.closed,
    r.1 == (if !monitor.closed { Some(if monitor.latest == u64::MAX { u64::MAX } else { (monitor.latest + 1) as u64 }) } else if monitor.latest > 1 { Some(monitor.latest) } else { None::<u64> }),
//@mutant open_monitor_without_a_channel_left_open
    should_queue_fc_update = !monitor.no_further_updates_allowed();
//@with
    should_queue_fc_update = monitor.no_further_updates_allowed();
//@end
pub enum Step2 { ChannelForceClosed { should_broadcast: bool }, Other }
pub struct Update2 { pub update_id: u64, pub updates: Vec<Step2>, pub channel_id: Option<ChannelId> }
//@extract lightning/src/ln/channelmanager.rs :: impl ChannelManager :: fn from_channel_manager_data
//@slice R15
    let channel_id = monitor.channel_id(); let monitor_update = ChannelMonitorUpdate { $f:any };
//@with
    fn force_close_update_for_a_monitor_without_a_channel(monitor: &Mon2) -> Update2 { let channel_id = monitor.channel_id(); let monitor_update = Update2 { $f }; monitor_update }
//@rw R5
    ChannelMonitorUpdateStep::ChannelForceClosed
//@with
    Step2::ChannelForceClosed
//@ret r
//@ensures P C10,C05 the-update-that-closes-a-channel-the-manager-no-longer-knows-is-numbered-right-after-the-monitors-last-asks-for-the-broadcast-of-its-commitment-and-names-the-monitors-channel
    r.update_id == (if monitor.latest == u64::MAX { u64::MAX } else { (monitor.latest + 1) as u64 }), r.channel_id == Some(monitor.chan),
    r.updates@ =~= seq![Step2::ChannelForceClosed { should_broadcast: true }],
//@mutant forgotten_channel_closed_without_broadcasting
    should_broadcast: true,
//@with
    should_broadcast: false,
//@end
//@extract lightning/src/ln/channelmanager.rs :: impl ChannelManager :: fn from_channel_manager_data
//@slice R15 nth=2
    .and_modify(|v| *v = $e:seq)
//@with
    fn id_remembered_for_a_closed_channel(v_: u64, latest_update_id: u64) -> u64 { let v = &v_; $e }
//@ret r
//@ensures P C10,C09 the-update-id-remembered-for-a-closed-channel-never-goes-back
    r >= v_, r >= latest_update_id, r == v_ || r == latest_update_id,
//@mutant remembered_id_lowered_to_the_monitors
    cmp::max(latest_update_id, *v)) .or_insert(latest_update_id); } if !should_queue_fc_update
//@with
    cmp::min(latest_update_id, *v)) .or_insert(latest_update_id); } if !should_queue_fc_update
//@end
}
fn main() {}
