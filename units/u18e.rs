//! unit: u18e
//! properties: C18
//! note: BOLT-12 stateless metadata (offers/signer.rs): a recipient's or payer's metadata verifies only if it is the HMAC, under this node's offers key, of exactly (the IV of the message kind, the nonce carried in the metadata, every TLV record of the object in order, the domain tags, and for a payer the encrypted payment id) -- or, for derived signing keys, if the object's signing key is the key derived from that HMAC; an object built against an altered copy, or presented under another node's key material, changes the HMAC input or key
//! trusted: env: HMAC-SHA256 is uninterpreted: HmacEngine is a stub that records key and the concatenation of its inputs in ghost fields, Hmac::from_engine is hmac_sha256(key, data); fixed_time_eq is equality of byte strings; SecretKey::from_slice(hash) succeeds (a SHA256 output is a valid key, as the source's unwrap assumes), Keypair::from_secret_key / public_key / serialize give the uninterpreted pubkey_of; x_only_public_key().0.serialize() is a separate uninterpreted function of the key (it forgets the parity, so equal x-only forms do not give equal keys); ExpandedKey skeleton {offers_base_key} with hmac_for_offer re-declared; Nonce(pub [u8; 16]); TlvRecord skeleton {record_bytes}
//! plemma: C18 lemma_recipient_metadata_round_trip / lemma_payer_metadata_round_trip: the metadata derive_metadata writes (nonce ‖ HMAC, preceded by the encrypted payment id for a payer) is accepted by verify_recipient_metadata / verify_payer_metadata_inner for the same key, IV and TLV records
//! trusted: creating side: `tlv_stream: W` (a Writeable TLV stream written into the HMAC engine) is taken as TlvBytes, whose write feeds its bytes to the engine; that these bytes are the concatenation of the records the verifier iterates is assumed (definition of TlvStream); R5: `mut self` (unsupported by Verus) is taken as a by-value parameter bound to a mutable local, `self` renamed accordingly; R7: `opt.map(|id| id.to_vec()).unwrap_or_default()` is written as a match (std semantics; Verus gives closures no specification)
//! trusted: R5: `tlv_stream: impl Iterator<Item = TlvRecord<'a>>` is taken as `&Vec<TlvRecord<'a>>` (the records in iteration order) and `for record in tlv_stream` iterates it (R6); R8: slice plumbing Verus has no specification for goes through external_body wrappers with the std meaning: `&metadata[N..]` -> tail_from, `Nonce::try_from(&metadata[..Nonce::LENGTH])?` -> nonce_prefix (the first 16 bytes), `x.copy_from_slice(&metadata[..PaymentId::LENGTH])` -> copy_prefix32; R1: the four `const X: &[u8; 16] = &[b; 16];` domain tags are declared `exec const` with their value as postcondition (Verus cannot evaluate an array-repeat expression in a dual-mode const); R2: `#[cfg(fuzzing)]` statements dropped, `cfg!(fuzzing)` is false
//! trusted: assume_specification for core::cmp::max / core::cmp::min (std definitions): present in every unit so that a change that introduces them is verified instead of being rejected by the tool
use vstd::prelude::*;
verus! {
use vstd::std_specs::cmp::*;
use core::cmp;
pub assume_specification<T: core::cmp::Ord>[core::cmp::max::<T>](a: T, b: T) -> (r: T)
    ensures T::obeys_cmp_spec() ==> r == (if b.cmp_spec(&a) == core::cmp::Ordering::Less { a } else { b });
pub assume_specification<T: core::cmp::Ord>[core::cmp::min::<T>](a: T, b: T) -> (r: T)
    ensures T::obeys_cmp_spec() ==> r == (if b.cmp_spec(&a) == core::cmp::Ordering::Less { b } else { a });
pub uninterp spec fn hmac_sha256(key: [u8; 32], data: Seq<u8>) -> [u8; 32];
pub struct HmacEngine { pub key: Ghost<[u8; 32]>, pub data: Ghost<Seq<u8>> }
impl HmacEngine {
    #[verifier::external_body] pub fn new(key: &[u8; 32]) -> (r: HmacEngine) ensures r.key@ == *key, r.data@ == Seq::<u8>::empty() { unimplemented!() }
    #[verifier::external_body] pub fn input(&mut self, bytes: &[u8]) ensures final(self).key@ == old(self).key@, final(self).data@ == old(self).data@ + bytes@ { unimplemented!() }
}
pub struct Hmac { pub v: [u8; 32] }
impl Hmac {
    #[verifier::external_body] pub fn from_engine(e: HmacEngine) -> (r: Hmac) ensures r.v == hmac_sha256(e.key@, e.data@) { unimplemented!() }
    pub fn as_byte_array(&self) -> (r: &[u8; 32]) ensures *r == self.v { &self.v }
    pub fn to_byte_array(self) -> (r: [u8; 32]) ensures r == self.v { self.v }
}
#[verifier::external_body] pub fn fixed_time_eq(a: &[u8], b: &[u8]) -> (r: bool) ensures r == (a@ == b@) { unimplemented!() }
pub struct Secp256k1 {}
pub struct SecretKey { pub bytes: [u8; 32] }
#[derive(Debug)] pub struct SecpError {}
impl SecretKey { #[verifier::external_body] pub fn from_slice(b: &[u8; 32]) -> (r: Result<SecretKey, SecpError>) ensures r is Ok, r->Ok_0.bytes == *b { unimplemented!() } }
#[derive(Clone, Copy)] pub struct PublicKey { pub id: u64 }
pub uninterp spec fn pubkey_of(secret: [u8; 32]) -> u64;
pub uninterp spec fn ser(p: u64) -> Seq<u8>;
// the x-only form of a key forgets its parity: two keys (a point and its negation) share it, so it is a separate uninterpreted function of the key
pub uninterp spec fn ser_xonly(p: u64) -> Seq<u8>;
pub struct XOnlyPublicKey { pub of: u64 }
pub enum Parity { Even, Odd }
impl XOnlyPublicKey { #[verifier::external_body] pub fn serialize(&self) -> (r: [u8; 32]) ensures r@ == ser_xonly(self.of) { unimplemented!() } }
impl PublicKey {
    #[verifier::external_body] pub fn serialize(&self) -> (r: [u8; 33]) ensures r@ == ser(self.id) { unimplemented!() }
    #[verifier::external_body] pub fn x_only_public_key(&self) -> (r: (XOnlyPublicKey, Parity)) ensures r.0.of == self.id { unimplemented!() }
}
pub struct Keypair { pub secret: [u8; 32] }
impl Keypair {
    #[verifier::external_body] pub fn from_secret_key(ctx: &Secp256k1, k: &SecretKey) -> (r: Keypair) ensures r.secret == k.bytes { unimplemented!() }
    #[verifier::external_body] pub fn public_key(&self) -> (r: PublicKey) ensures r.id == pubkey_of(self.secret) { unimplemented!() }
    #[verifier::external_body] pub fn x_only_public_key(&self) -> (r: (XOnlyPublicKey, Parity)) ensures r.0.of == pubkey_of(self.secret) { unimplemented!() }
}
pub struct ExpandedKey { pub offers_base_key: [u8; 32] }
impl ExpandedKey { pub fn hmac_for_offer(&self) -> (r: HmacEngine) ensures r.key@ == self.offers_base_key, r.data@ == Seq::<u8>::empty() { HmacEngine::new(&self.offers_base_key) } }
pub struct Nonce(pub [u8; 16]);
impl Nonce { pub const LENGTH: usize = 16; }
pub struct PaymentId(pub [u8; 32]);
impl PaymentId { pub const LENGTH: usize = 32; }
pub struct Sha256 {}
impl Sha256 { pub const LEN: usize = 32; }
pub struct TlvRecord<'a> { pub record_bytes: &'a [u8] }
//@const lightning/src/ln/inbound_payment.rs IV_LEN
//@extract lightning/src/offers/signer.rs :: const DERIVED_METADATA_HMAC_INPUT
//@rw R1
    const $n:ident: &[u8; 16] = &[$b:lit; 16];
//@with
    exec const $n: &'static [u8; 16] ensures $n@ =~= Seq::new(16, |i: int| $b as u8) { &[$b; 16] }
//@end
//@extract lightning/src/offers/signer.rs :: const DERIVED_METADATA_AND_KEYS_HMAC_INPUT
//@rw R1
    const $n:ident: &[u8; 16] = &[$b:lit; 16];
//@with
    exec const $n: &'static [u8; 16] ensures $n@ =~= Seq::new(16, |i: int| $b as u8) { &[$b; 16] }
//@end
//@extract lightning/src/offers/signer.rs :: const WITHOUT_ENCRYPTED_PAYMENT_ID_HMAC_INPUT
//@rw R1
    const $n:ident: &[u8; 16] = &[$b:lit; 16];
//@with
    exec const $n: &'static [u8; 16] ensures $n@ =~= Seq::new(16, |i: int| $b as u8) { &[$b; 16] }
//@end
//@extract lightning/src/offers/signer.rs :: const WITH_ENCRYPTED_PAYMENT_ID_HMAC_INPUT
//@rw R1
    const $n:ident: &[u8; 16] = &[$b:lit; 16];
//@with
    exec const $n: &'static [u8; 16] ensures $n@ =~= Seq::new(16, |i: int| $b as u8) { &[$b; 16] }
//@end
#[verifier::external_body] pub fn tail_from(s: &[u8], n: usize) -> (r: &[u8]) requires n <= s@.len() ensures r@ == s@.subrange(n as int, s@.len() as int) { unimplemented!() }
#[verifier::external_body] pub fn nonce_prefix(s: &[u8]) -> (r: Result<Nonce, ()>) requires s@.len() >= 16 ensures r is Ok, r->Ok_0.0@ == s@.subrange(0, 16) { unimplemented!() }
#[verifier::external_body] pub fn copy_prefix32(dst: &mut [u8; 32], s: &[u8]) requires s@.len() >= 32 ensures final(dst)@ == s@.subrange(0, 32) { unimplemented!() }
pub open spec fn records(s: Seq<TlvRecord>) -> Seq<u8> decreases s.len() { if s.len() == 0 { Seq::empty() } else { records(s.drop_last()) + s.last().record_bytes@ } }
pub proof fn lemma_records_take(s: Seq<TlvRecord>, k: int) requires 0 <= k < s.len() ensures records(s.take(k + 1)) == records(s.take(k)) + s[k].record_bytes@
{ assert(s.take(k + 1).drop_last() =~= s.take(k)); }
// what the HMAC of a message's metadata covers (left-associated, in feeding order)
pub open spec fn message_hmac_input(metadata: Seq<u8>, iv: Seq<u8>, tlvs: Seq<TlvRecord>) -> Seq<u8> {
    (((Seq::<u8>::empty() + iv) + metadata.subrange(0, 16)) + records(tlvs)) + (if metadata.len() == 16 { Seq::new(16, |i: int| 2u8) } else { Seq::new(16, |i: int| 1u8) })
}
// verify_metadata's verdict for a metadata tail (nonce, or nonce + hmac) against the HMAC computed over the object
pub open spec fn metadata_accepts(metadata: Seq<u8>, hmac: [u8; 32], signing_pubkey: u64) -> bool {
    if metadata.len() == 16 { ser(signing_pubkey) == ser(pubkey_of(hmac)) } else { metadata.len() == 48 && metadata.subrange(16, 48) == hmac@ }
}

//@extract lightning/src/offers/signer.rs :: fn verify_metadata
//@rw R5
    <T: secp256k1::Signing>( metadata: &[u8], hmac: Hmac<Sha256>, signing_pubkey: PublicKey, secp_ctx: &Secp256k1<T>, )
//@with
    ( metadata: &[u8], hmac: Hmac, signing_pubkey: PublicKey, secp_ctx: &Secp256k1, )
//@rw R8
    &metadata[Nonce::LENGTH..]
//@with
    tail_from(metadata, Nonce::LENGTH)
//@ret r
//@ensures P C18 metadata-verifies-only-if-it-carries-the-hmac-computed-over-the-object-or-the-objects-signing-key-is-the-key-derived-from-that-hmac
    r is Ok <==> metadata_accepts(metadata@, hmac.v, signing_pubkey.id),
    r is Ok ==> (r->Ok_0 is Some <==> metadata@.len() == 16),
    r is Ok && r->Ok_0 is Some ==> r->Ok_0->Some_0.secret == hmac.v,
//@mutant hmac_compared_only_when_the_length_is_wrong
    metadata.len() == Nonce::LENGTH + Sha256::LEN &&
//@with
    metadata.len() != Nonce::LENGTH + Sha256::LEN ||
//@end
//@extract lightning/src/offers/signer.rs :: fn hmac_for_message
//@rw R5
    tlv_stream: impl core::iter::Iterator<Item = TlvRecord<'a>>,
//@with
    tlv_stream: &Vec<TlvRecord<'a>>,
//@rw R5
    -> Result<HmacEngine<Sha256>, ()>
//@with
    -> Result<HmacEngine, ()>
//@rw R2
    !cfg!(fuzzing)
//@with
    true
//@rw R8
    Nonce::try_from(&metadata[..Nonce::LENGTH])?
//@with
    nonce_prefix(metadata)?
//@rw R8
    Nonce::try_from(&[42; Nonce::LENGTH][..]).unwrap()
//@with
    Nonce([42; 16])
//@rw R6
    in tlv_stream {
//@with
    in tlv_stream.iter() {
//@ret r
//@ensures P C18 the-hmac-of-a-message-covers-the-iv-the-nonce-every-tlv-record-in-order-and-the-domain-tag-under-this-nodes-offers-key
    r is Ok <==> metadata@.len() >= 16,
    r is Ok ==> r->Ok_0.key@ == expanded_key.offers_base_key && r->Ok_0.data@ =~= message_hmac_input(metadata@, iv_bytes@, tlv_stream@),
//@loop 1 iter=it
    invariant it.seq().len() == tlv_stream@.len(), forall|k: int| 0 <= k < tlv_stream@.len() ==> *it.seq()[k] == tlv_stream@[k],
        hmac.key@ == expanded_key.offers_base_key, metadata@.len() >= 16,
        hmac.data@ =~= ((Seq::<u8>::empty() + iv_bytes@) + metadata@.subrange(0, 16)) + records(tlv_stream@.take(it.index@ as int)),
//@at loop_body_start 1
    proof { lemma_records_take(tlv_stream@, it.index@ as int); }
//@at after_loop 1
    proof {
        assert(tlv_stream@.take(tlv_stream@.len() as int) =~= tlv_stream@);
    }
//@mutant records_left_out_of_the_hmac
    hmac.input(record.record_bytes);
//@with
    
//@end
//@extract lightning/src/offers/signer.rs :: fn verify_recipient_metadata
//@rw R5
    <'a, T: secp256k1::Signing>( metadata: &[u8], expanded_key: &ExpandedKey, iv_bytes: &[u8; IV_LEN], signing_pubkey: PublicKey, tlv_stream: impl core::iter::Iterator<Item = TlvRecord<'a>>, secp_ctx: &Secp256k1<T>, )
//@with
    <'a>( metadata: &[u8], expanded_key: &ExpandedKey, iv_bytes: &[u8; IV_LEN], signing_pubkey: PublicKey, tlv_stream: &Vec<TlvRecord<'a>>, secp_ctx: &Secp256k1, )
//@ret r
//@ensures P C18 recipient-metadata-verifies-only-against-the-hmac-of-this-very-object-under-this-nodes-key
    r is Ok <==> metadata@.len() >= 16 && metadata_accepts(metadata@,
        hmac_sha256(expanded_key.offers_base_key, message_hmac_input(metadata@, iv_bytes@, tlv_stream@) + Seq::new(16, |i: int| 3u8)), signing_pubkey.id),
//@end
//@extract lightning/src/offers/signer.rs :: fn verify_payer_metadata_inner
//@rw R5
    <'a, T: secp256k1::Signing>( metadata: &[u8], expanded_key: &ExpandedKey, iv_bytes: &[u8; IV_LEN], signing_pubkey: PublicKey, tlv_stream: impl core::iter::Iterator<Item = TlvRecord<'a>>, secp_ctx: &Secp256k1<T>, )
//@with
    <'a>( metadata: &[u8], expanded_key: &ExpandedKey, iv_bytes: &[u8; IV_LEN], signing_pubkey: PublicKey, tlv_stream: &Vec<TlvRecord<'a>>, secp_ctx: &Secp256k1, )
//@rw R8
    encrypted_payment_id.copy_from_slice(&metadata[..PaymentId::LENGTH]);
//@with
    copy_prefix32(&mut encrypted_payment_id, metadata);
//@rw * R8
    &metadata[PaymentId::LENGTH..]
//@with
    tail_from(metadata, PaymentId::LENGTH)
//@ret r
//@ensures P C18 payer-metadata-verifies-only-against-the-hmac-of-this-very-object-and-its-encrypted-payment-id-under-this-nodes-key
    r is Ok <==> metadata@.len() >= 48 && metadata_accepts(metadata@.subrange(32, metadata@.len() as int),
        hmac_sha256(expanded_key.offers_base_key, (message_hmac_input(metadata@.subrange(32, metadata@.len() as int), iv_bytes@, tlv_stream@) + Seq::new(16, |i: int| 4u8)) + metadata@.subrange(0, 32)), signing_pubkey.id),
//@mutant payment_id_left_out_of_the_hmac
    hmac.input(&encrypted_payment_id);
//@with
    
//@end

// ---- the creating side: MetadataMaterial ---------------------------------------------------------------------
// the serialized TLV stream a builder hands over; assumed to be the concatenation of the records the verifier iterates
pub struct TlvBytes { pub bytes: Vec<u8> }
impl TlvBytes { #[verifier::external_body] pub fn write(&self, h: &mut HmacEngine) -> (r: Result<(), SecpError>)
    ensures r is Ok, final(h).key@ == old(h).key@, final(h).data@ == old(h).data@ + self.bytes@ { unimplemented!() } }
impl Nonce { pub fn as_slice(&self) -> (r: &[u8]) ensures r@ == self.0@ { &self.0 } }
#[verifier::external_body] pub fn arr32_to_vec(a: [u8; 32]) -> (r: Vec<u8>) ensures r@ == a@ { unimplemented!() }
pub struct MetadataMaterial { pub nonce: Nonce, pub hmac: HmacEngine, pub encrypted_payment_id: Option<[u8; 32]> }
pub open spec fn tag(b: u8) -> Seq<u8> { Seq::new(16, |i: int| b) }
pub open spec fn id_tail(id: Option<[u8; 32]>) -> Seq<u8> { match id { None => tag(3), Some(e) => tag(4) + e@ } }
pub open spec fn id_prefix(id: Option<[u8; 32]>) -> Seq<u8> { match id { None => Seq::empty(), Some(e) => e@ } }
// what the creating side feeds the HMAC
pub open spec fn created_hmac_input(iv: Seq<u8>, nonce: Seq<u8>, tlv_bytes: Seq<u8>, kind: u8, id: Option<[u8; 32]>) -> Seq<u8> {
    ((((Seq::<u8>::empty() + iv) + nonce) + tlv_bytes) + tag(kind)) + id_tail(id)
}
impl MetadataMaterial {
//@extract lightning/src/offers/signer.rs :: impl MetadataMaterial :: fn maybe_include_encrypted_payment_id
//@ensures A
    final(self).hmac.key@ == old(self).hmac.key@, final(self).nonce == old(self).nonce, final(self).encrypted_payment_id == old(self).encrypted_payment_id,
    final(self).hmac.data@ =~= old(self).hmac.data@ + id_tail(old(self).encrypted_payment_id),
//@end
//@extract lightning/src/offers/signer.rs :: impl MetadataMaterial :: fn derive_metadata
//@rw R5
    fn derive_metadata<W: Writeable>(mut self, iv_bytes: &[u8; IV_LEN], tlv_stream: W)
//@with
    fn derive_metadata(this_: MetadataMaterial, iv_bytes: &[u8; IV_LEN], tlv_stream: &TlvBytes)
//@rw * R5
    self
//@with
    this
//@at body_start
    let mut this = this_;
//@rw R7
    $s:ident.encrypted_payment_id.map(|id| id.to_vec()).unwrap_or_default()
//@with
    match $s.encrypted_payment_id { Some(id) => arr32_to_vec(id), None => Vec::new() }
//@ret r
//@requires
    this_.hmac.data@ == Seq::<u8>::empty(),
//@ensures P C18 the-metadata-a-builder-writes-is-the-nonce-and-the-hmac-of-exactly-what-the-verifier-recomputes
    r@ =~= (id_prefix(this_.encrypted_payment_id) + this_.nonce.0@) + hmac_sha256(this_.hmac.key@, created_hmac_input(iv_bytes@, this_.nonce.0@, tlv_stream.bytes@, 1, this_.encrypted_payment_id))@,
//@mutant builder_uses_the_tag_of_the_derived_key_kind
    .hmac.input(DERIVED_METADATA_HMAC_INPUT);
//@with
    .hmac.input(DERIVED_METADATA_AND_KEYS_HMAC_INPUT);
//@end
//@extract lightning/src/offers/signer.rs :: impl MetadataMaterial :: fn derive_metadata_and_keys
//@rw R5
    fn derive_metadata_and_keys<W: Writeable, T: secp256k1::Signing>( mut self, iv_bytes: &[u8; IV_LEN], tlv_stream: W, secp_ctx: &Secp256k1<T>, )
//@with
    fn derive_metadata_and_keys( this_: MetadataMaterial, iv_bytes: &[u8; IV_LEN], tlv_stream: &TlvBytes, secp_ctx: &Secp256k1, )
//@rw * R5
    self
//@with
    this
//@at body_start
    let mut this = this_;
//@rw R7
    $s:ident.encrypted_payment_id.map(|id| id.to_vec()).unwrap_or_default()
//@with
    match $s.encrypted_payment_id { Some(id) => arr32_to_vec(id), None => Vec::new() }
//@ret r
//@requires
    this_.hmac.data@ == Seq::<u8>::empty(),
//@ensures P C18 the-signing-key-a-builder-derives-is-the-key-of-the-hmac-of-exactly-what-the-verifier-recomputes
    r.0@ =~= id_prefix(this_.encrypted_payment_id) + this_.nonce.0@,
    r.1.secret == hmac_sha256(this_.hmac.key@, created_hmac_input(iv_bytes@, this_.nonce.0@, tlv_stream.bytes@, 2, this_.encrypted_payment_id)),
//@end
}
// round trip: what derive_metadata writes for an offer (no payment id) is accepted by verify_recipient_metadata for the same
// key, IV and TLV records; for a payer (payment id) by verify_payer_metadata_inner
pub proof fn lemma_recipient_metadata_round_trip(key: [u8; 32], iv: Seq<u8>, nonce: Seq<u8>, tlvs: Seq<TlvRecord>, pk: u64)
    requires nonce.len() == 16
    ensures ({
        let h = hmac_sha256(key, created_hmac_input(iv, nonce, records(tlvs), 1, None));
        let md = (Seq::<u8>::empty() + nonce) + h@;
        md.len() >= 16 && metadata_accepts(md, hmac_sha256(key, message_hmac_input(md, iv, tlvs) + tag(3)), pk)
    })
{
    let h = hmac_sha256(key, created_hmac_input(iv, nonce, records(tlvs), 1, None));
    let md = (Seq::<u8>::empty() + nonce) + h@;
    assert(md.subrange(0, 16) =~= nonce);
    assert(md.subrange(16, 48) =~= h@);
    assert(message_hmac_input(md, iv, tlvs) + tag(3) =~= created_hmac_input(iv, nonce, records(tlvs), 1, None));
}
pub proof fn lemma_payer_metadata_round_trip(key: [u8; 32], iv: Seq<u8>, nonce: Seq<u8>, tlvs: Seq<TlvRecord>, id: [u8; 32], pk: u64)
    requires nonce.len() == 16
    ensures ({
        let h = hmac_sha256(key, created_hmac_input(iv, nonce, records(tlvs), 1, Some(id)));
        let md = (id@ + nonce) + h@;
        md.len() >= 48 && metadata_accepts(md.subrange(32, md.len() as int),
            hmac_sha256(key, (message_hmac_input(md.subrange(32, md.len() as int), iv, tlvs) + tag(4)) + md.subrange(0, 32)), pk)
    })
{
    let h = hmac_sha256(key, created_hmac_input(iv, nonce, records(tlvs), 1, Some(id)));
    let md = (id@ + nonce) + h@;
    let t = md.subrange(32, md.len() as int);
    assert(t =~= nonce + h@);
    assert(t.subrange(0, 16) =~= nonce);
    assert(t.subrange(16, 48) =~= h@);
    assert(md.subrange(0, 32) =~= id@);
    assert((message_hmac_input(t, iv, tlvs) + tag(4)) + md.subrange(0, 32) =~= created_hmac_input(iv, nonce, records(tlvs), 1, Some(id)));
}
}
fn main() {}
