//! unit: u01p
//! properties: C01 C05 C15
//! note: convert_channel_err_internal (channelmanager.rs, whole function): of the errors a channel can answer a message with, only ChannelError::Close closes the channel - the close routine runs exactly once, with the error's own reason and text, and the channel is reported as to be dropped; every other error (Warn, WarnAndDisconnect, Ignore, Abort, SendError) is passed on unchanged, runs no close routine and keeps the channel
//! note: MsgHandleErrInternal::from_chan_no_close (whole function): the action attached to an error that keeps the channel is the one its kind names (Warn: a warning is sent, the connection stays; WarnAndDisconnect: the connection is dropped with that warning; Ignore / Abort: nothing is said; Close / SendError: an error message), for this channel and with the error's own text
//! trusted: R15 (deep slice): ChannelManager::handle_error: the if/else that chooses the message event queued for the peer, verbatim as a function of the internal error
//! trusted: told_to_the_peer: ChannelError re-declared with the source's variants (AbortReason a Copy skeleton whose into_tx_abort_msg / to_string are uninterpreted), ErrorAction extracted; R7: the or-pattern arm is one arm per alternative; String::clone has the std meaning (vstd)
//! trusted: R5: the generic `Close: FnOnce(ClosureReason, &str) -> (..)` is instantiated with a recorder object (`close(reason, &msg)` is written `close.call(reason, &msg)`: a call through FnOnce, once); MsgHandleErrInternal::from_chan_no_close / from_finish_shutdown are recorders of their arguments; ChannelError is extracted (AbortReason, ClosureReason opaque); ShutdownResult, ChannelUpdate, NodeId opaque
//! trusted: assume_specification for core::cmp::max / core::cmp::min (std definitions): present in every unit so that a change that introduces them is verified instead of being rejected by the tool
use vstd::prelude::*;
verus! {
use vstd::std_specs::cmp::*;
use core::cmp;
pub assume_specification<T: core::cmp::Ord>[core::cmp::max::<T>](a: T, b: T) -> (r: T)
    ensures T::obeys_cmp_spec() ==> r == (if b.cmp_spec(&a) == core::cmp::Ordering::Less { a } else { b });
pub assume_specification<T: core::cmp::Ord>[core::cmp::min::<T>](a: T, b: T) -> (r: T)
    ensures T::obeys_cmp_spec() ==> r == (if b.cmp_spec(&a) == core::cmp::Ordering::Less { b } else { a });
pub struct AbortReason { pub id: u64 }
pub struct ClosureReason { pub id: u64 }
#[derive(Clone, Copy)] pub struct ChannelId { pub id: u64 }
pub struct ShutdownResult { pub id: u64 }
pub struct ChannelUpdate {} pub struct NodeId {}
//@extract lightning/src/ln/channel.rs :: enum ChannelError
//@end
pub struct CloseRoutine { pub ran_for: Ghost<Seq<(ClosureReason, Seq<char>)>> }
pub uninterp spec fn shutdown_of(reason: ClosureReason, msg: Seq<char>) -> ShutdownResult;
impl CloseRoutine {
    #[verifier::external_body] pub fn call(&mut self, reason: ClosureReason, msg: &str) -> (r: (ShutdownResult, Option<(ChannelUpdate, NodeId, NodeId)>))
        ensures final(self).ran_for@ == old(self).ran_for@.push((reason, msg@)), r.0 == shutdown_of(reason, msg@) { unimplemented!() }
}
pub enum MsgHandleErrInternal { NoClose { err: ChannelError, chan_id: ChannelId }, FinishShutdown { msg: String, chan_id: ChannelId, finish: ShutdownResult } }
impl MsgHandleErrInternal {
    #[verifier::external_body] pub fn from_chan_no_close(err: ChannelError, chan_id: ChannelId) -> (r: Self) ensures r == (MsgHandleErrInternal::NoClose { err, chan_id }) { unimplemented!() }
    #[verifier::external_body] pub fn from_finish_shutdown(msg: String, chan_id: ChannelId, finish: ShutdownResult, chan_update: Option<(ChannelUpdate, NodeId, NodeId)>) -> (r: Self)
        ensures r == (MsgHandleErrInternal::FinishShutdown { msg, chan_id, finish }) { unimplemented!() }
}
//@extract lightning/src/ln/channelmanager.rs :: fn convert_channel_err_internal
//@strip msgs
//@rw R5
    fn convert_channel_err_internal< Close: FnOnce(ClosureReason, &str) -> (ShutdownResult, Option<(ChannelUpdate, NodeId, NodeId)>), >( err: ChannelError, chan_id: ChannelId, close: Close, ) -> (bool, MsgHandleErrInternal) {
//@with
    fn convert_channel_err_internal(err: ChannelError, chan_id: ChannelId, close: &mut CloseRoutine) -> (bool, MsgHandleErrInternal) {
//@rw R5
    close(reason, &msg)
//@with
    close.call(reason, &msg)
//@ret r
//@ensures P C01,C05 only-an-error-that-says-close-closes-the-channel-and-it-does-so-once-with-its-own-reason-every-other-error-keeps-the-channel
    err matches ChannelError::Close((msg, reason)) ==> r.0 && final(close).ran_for@ == old(close).ran_for@.push((reason, msg@))
        && r.1 == (MsgHandleErrInternal::FinishShutdown { msg, chan_id, finish: shutdown_of(reason, msg@) }),
    !(err is Close) ==> !r.0 && final(close).ran_for@ == old(close).ran_for@ && r.1 == (MsgHandleErrInternal::NoClose { err, chan_id }),
//@mutant a_warning_closes_the_channel
    ChannelError::Warn(msg) => { (false,
//@with
    ChannelError::Warn(msg) => { (true,
//@mutant disconnecting_warning_passed_on_as_a_plain_warning
    MsgHandleErrInternal::from_chan_no_close(ChannelError::WarnAndDisconnect(msg), chan_id),
//@with
    MsgHandleErrInternal::from_chan_no_close(ChannelError::Warn(msg), chan_id),
//@end

// ---- MsgHandleErrInternal::from_chan_no_close (whole): what the peer is told for an error that does not close the channel ----
pub mod told_to_the_peer {
use vstd::prelude::*;
use super::{ChannelId, ClosureReason};
pub struct TxAbort { pub id: u64 }
#[derive(Copy)] pub struct AbortReason { pub id: u64 }
impl Clone for AbortReason { #[verifier::external_body] fn clone(&self) -> (r: Self) ensures r == *self { unimplemented!() } }
pub uninterp spec fn abort_msg_of(r: AbortReason, c: ChannelId) -> TxAbort;
pub uninterp spec fn abort_text(r: AbortReason) -> Seq<char>;
impl AbortReason {
    #[verifier::external_body] pub fn into_tx_abort_msg(self, channel_id: ChannelId) -> (r: TxAbort) ensures r == abort_msg_of(self, channel_id) { unimplemented!() }
    #[verifier::external_body] pub fn to_string(&self) -> (r: String) ensures r@ == abort_text(*self) { unimplemented!() }
}
pub enum ChannelError { Ignore(String), Warn(String), WarnAndDisconnect(String), Abort(AbortReason), Close((String, ClosureReason)), SendError(String) }
pub enum Level { Warn, Other }
pub struct WarningMessage { pub channel_id: ChannelId, pub data: String }
pub struct ErrorMessage { pub channel_id: ChannelId, pub data: String }
//@extract lightning/src/ln/msgs.rs :: enum ErrorAction
//@end
pub mod logger { pub use super::Level; }
pub struct LightningError { pub err: String, pub action: ErrorAction }
pub struct ShutdownResult {}
pub struct MsgHandleErrInternal { pub err: LightningError, pub closes_channel: bool, pub shutdown_finish: Option<ShutdownResult>, pub tx_abort: Option<TxAbort> }
pub open spec fn text_of(e: ChannelError) -> Seq<char> {
    match e { ChannelError::Ignore(m) => m@, ChannelError::Warn(m) => m@, ChannelError::WarnAndDisconnect(m) => m@, ChannelError::Abort(r) => abort_text(r), ChannelError::Close((m, _)) => m@, ChannelError::SendError(m) => m@ }
}
impl MsgHandleErrInternal {
//@extract lightning/src/ln/channelmanager.rs :: impl MsgHandleErrInternal :: fn from_chan_no_close
//@strip msgs
//@r7
//@ret r
//@ensures P C01,C15 an-error-that-does-not-close-the-channel-tells-the-peer-exactly-what-its-kind-says-a-warning-is-sent-a-disconnecting-warning-drops-the-connection-an-ignored-one-says-nothing
    !r.closes_channel, r.shutdown_finish is None, r.err.err@ == text_of(err),
    r.tx_abort == (match err { ChannelError::Abort(reason) => Some(abort_msg_of(reason, channel_id)), _ => None }),
    match err {
        ChannelError::Warn(m) => r.err.action matches ErrorAction::SendWarningMessage { msg, .. } && msg.channel_id == channel_id && msg.data@ == m@,
        ChannelError::WarnAndDisconnect(m) => r.err.action matches ErrorAction::DisconnectPeerWithWarning { msg } && msg.channel_id == channel_id && msg.data@ == m@,
        ChannelError::Ignore(_) => r.err.action is IgnoreError,
        ChannelError::Abort(_) => r.err.action is IgnoreError,
        ChannelError::Close((m, _)) => r.err.action matches ErrorAction::SendErrorMessage { msg } && msg.channel_id == channel_id && msg.data@ == m@,
        ChannelError::SendError(m) => r.err.action matches ErrorAction::SendErrorMessage { msg } && msg.channel_id == channel_id && msg.data@ == m@,
    },
//@mutant a_plain_warning_drops_the_connection
    ChannelError::Warn(msg) => LightningError { err: msg.clone(), action: msgs::ErrorAction::SendWarningMessage { msg: msgs::WarningMessage { channel_id, data: msg }, log_level: Level::Warn, }, },
//@with
    ChannelError::Warn(msg) => LightningError { err: msg.clone(), action: msgs::ErrorAction::DisconnectPeerWithWarning { msg: msgs::WarningMessage { channel_id, data: msg }, }, },
//@end
}
// ---- ChannelManager::handle_error: what is queued for the peer ----
#[derive(Clone, Copy)] pub struct PublicKey { pub id: u64 }
impl Clone for ErrorAction { #[verifier::external_body] fn clone(&self) -> (r: Self) ensures r == *self { unimplemented!() } }
pub enum MessageSendEvent { SendTxAbort { node_id: PublicKey, msg: TxAbort }, HandleError { node_id: PublicKey, action: ErrorAction } }
//@extract lightning/src/ln/channelmanager.rs :: impl ChannelManager :: fn handle_error<A>
//@strip msgs
//@slice R15
    if let ErrorAction::IgnoreError = err_internal.err.action { $ign:any } else { $other:any } let mut holding_cell_res = None;
//@with
    fn event_queued_for_the_peer(err_internal: MsgHandleErrInternal, counterparty_node_id: PublicKey) -> Option<MessageSendEvent> {
        let mut msg_event = None;
        if let ErrorAction::IgnoreError = err_internal.err.action { $ign } else { $other }
        msg_event }
//@ret r
//@ensures P C01,C15 whatever-an-error-asks-for-is-handed-to-the-peer-handler-as-it-is-and-an-ignored-error-sends-at-most-the-tx-abort-it-carries
    err_internal.err.action is IgnoreError ==> r == (match err_internal.tx_abort { Some(t) => Some(MessageSendEvent::SendTxAbort { node_id: counterparty_node_id, msg: t }), None => None }),
    !(err_internal.err.action is IgnoreError) ==> r == Some(MessageSendEvent::HandleError { node_id: counterparty_node_id, action: err_internal.err.action }),
//@mutant every_error_handed_on_as_one_to_ignore
    action: err_internal.err.action.clone(), });
//@with
    action: msgs::ErrorAction::IgnoreError, });
//@end
}
}
fn main() {}
