//! unit: u01p
//! properties: C01 C05
//! note: convert_channel_err_internal (channelmanager.rs, whole function): of the errors a channel can answer a message with, only ChannelError::Close closes the channel - the close routine runs exactly once, with the error's own reason and text, and the channel is reported as to be dropped; every other error (Warn, WarnAndDisconnect, Ignore, Abort, SendError) is passed on unchanged, runs no close routine and keeps the channel
//! trusted: R5: the generic `Close: FnOnce(ClosureReason, &str) -> (..)` is instantiated with a recorder object (`close(reason, &msg)` is written `close.call(reason, &msg)`: a call through FnOnce, once); MsgHandleErrInternal::from_chan_no_close / from_finish_shutdown are recorders of their arguments; ChannelError is extracted (AbortReason, ClosureReason opaque); ShutdownResult, ChannelUpdate, NodeId opaque
//! trusted: assume_specification for core::cmp::max / core::cmp::min (std definitions): present in every unit so that a change that introduces them is verified instead of being rejected by the tool
use vstd::prelude::*;
verus! {
use vstd::std_specs::cmp::*;
use core::cmp;
pub assume_specification<T: core::cmp::Ord>[core::cmp::max::<T>](a: T, b: T) -> (r: T)
    ensures T::obeys_cmp_spec() ==> r == (if b.cmp_spec(&a) == core::cmp::Ordering::Less { a } else { b });
pub assume_specification<T: core::cmp::Ord>[core::cmp::min::<T>](a: T, b: T) -> (r: T)
    ensures T::obeys_cmp_spec() ==> r == (if b.cmp_spec(&a) == core::cmp::Ordering::Less { b } else { a });
pub struct AbortReason { pub id: u64 }
pub struct ClosureReason { pub id: u64 }
#[derive(Clone, Copy)] pub struct ChannelId { pub id: u64 }
pub struct ShutdownResult { pub id: u64 }
pub struct ChannelUpdate {} pub struct NodeId {}
//@extract lightning/src/ln/channel.rs :: enum ChannelError
//@end
pub struct CloseRoutine { pub ran_for: Ghost<Seq<(ClosureReason, Seq<char>)>> }
pub uninterp spec fn shutdown_of(reason: ClosureReason, msg: Seq<char>) -> ShutdownResult;
impl CloseRoutine {
    #[verifier::external_body] pub fn call(&mut self, reason: ClosureReason, msg: &str) -> (r: (ShutdownResult, Option<(ChannelUpdate, NodeId, NodeId)>))
        ensures final(self).ran_for@ == old(self).ran_for@.push((reason, msg@)), r.0 == shutdown_of(reason, msg@) { unimplemented!() }
}
pub enum MsgHandleErrInternal { NoClose { err: ChannelError, chan_id: ChannelId }, FinishShutdown { msg: String, chan_id: ChannelId, finish: ShutdownResult } }
impl MsgHandleErrInternal {
    #[verifier::external_body] pub fn from_chan_no_close(err: ChannelError, chan_id: ChannelId) -> (r: Self) ensures r == (MsgHandleErrInternal::NoClose { err, chan_id }) { unimplemented!() }
    #[verifier::external_body] pub fn from_finish_shutdown(msg: String, chan_id: ChannelId, finish: ShutdownResult, chan_update: Option<(ChannelUpdate, NodeId, NodeId)>) -> (r: Self)
        ensures r == (MsgHandleErrInternal::FinishShutdown { msg, chan_id, finish }) { unimplemented!() }
}
//@extract lightning/src/ln/channelmanager.rs :: fn convert_channel_err_internal
//@strip msgs
//@rw R5
    fn convert_channel_err_internal< Close: FnOnce(ClosureReason, &str) -> (ShutdownResult, Option<(ChannelUpdate, NodeId, NodeId)>), >( err: ChannelError, chan_id: ChannelId, close: Close, ) -> (bool, MsgHandleErrInternal) {
//@with
    fn convert_channel_err_internal(err: ChannelError, chan_id: ChannelId, close: &mut CloseRoutine) -> (bool, MsgHandleErrInternal) {
//@rw R5
    close(reason, &msg)
//@with
    close.call(reason, &msg)
//@ret r
//@ensures P C01,C05 only-an-error-that-says-close-closes-the-channel-and-it-does-so-once-with-its-own-reason-every-other-error-keeps-the-channel
    err matches ChannelError::Close((msg, reason)) ==> r.0 && final(close).ran_for@ == old(close).ran_for@.push((reason, msg@))
        && r.1 == (MsgHandleErrInternal::FinishShutdown { msg, chan_id, finish: shutdown_of(reason, msg@) }),
    !(err is Close) ==> !r.0 && final(close).ran_for@ == old(close).ran_for@ && r.1 == (MsgHandleErrInternal::NoClose { err, chan_id }),
//@mutant a_warning_closes_the_channel
    ChannelError::Warn(msg) => { (false,
//@with
    ChannelError::Warn(msg) => { (true,
//@mutant disconnecting_warning_passed_on_as_a_plain_warning
    MsgHandleErrInternal::from_chan_no_close(ChannelError::WarnAndDisconnect(msg), chan_id),
//@with
    MsgHandleErrInternal::from_chan_no_close(ChannelError::Warn(msg), chan_id),
//@end
}
fn main() {}
