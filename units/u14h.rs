//! unit: u14h
//! properties: C14
//! note: the layout of a failure packet a node originates (onion_utils.rs build_unencrypted_failure_packet, the length arithmetic): after the 32-byte HMAC come the failure length (2 bytes), the failure itself (2 bytes of code and the data), the pad length (2 bytes) and the padding; the padding brings failure + pad up to the minimum packet length, and is empty when the failure is longer than that - so every failure whose message fits has the SAME total length, 36 bytes more than the minimum (a shorter packet would tell every hop on the way back how close to the erring node it is), and a longer one is never truncated; both lengths fit the two bytes they are written in
//! trusted: R15 (deep slice): the three statements computing failure_len, pad_len and total_len, verbatim as a function of the data length and the minimum; the writes that follow them (u16 big-endian lengths, the zero fill by `resize`) and the HMAC over everything after the first 32 bytes are not sliced; DEFAULT_MIN_FAILURE_PACKET_LEN folded from the source
//! assume: failure data of at most 65 000 bytes and a minimum length of at most 65 535 (a failure travels in an update_fail_htlc of at most 65 535 bytes: LDK's debug assertion at the end of the function)
//! trusted: assume_specification for core::cmp::max / core::cmp::min (std definitions): present in every unit so that a change that introduces them is verified instead of being rejected by the tool
use vstd::prelude::*;
verus! {
use vstd::std_specs::cmp::*;
use core::cmp;
pub assume_specification<T: core::cmp::Ord>[core::cmp::max::<T>](a: T, b: T) -> (r: T)
    ensures T::obeys_cmp_spec() ==> r == (if b.cmp_spec(&a) == core::cmp::Ordering::Less { a } else { b });
pub assume_specification<T: core::cmp::Ord>[core::cmp::min::<T>](a: T, b: T) -> (r: T)
    ensures T::obeys_cmp_spec() ==> r == (if b.cmp_spec(&a) == core::cmp::Ordering::Less { b } else { a });
//@const lightning/src/ln/onion_utils.rs DEFAULT_MIN_FAILURE_PACKET_LEN
pub struct Data { pub n: usize }
impl Data { pub fn len(&self) -> (r: usize) ensures r == self.n { self.n } }
//@extract lightning/src/ln/onion_utils.rs :: fn build_unencrypted_failure_packet
//@slice R15
    let failure_len = $a:seq; let pad_len = $b:seq; let total_len = $c:seq;
//@with
    fn lengths_of_a_failure_packet(failure_data: &Data, min_packet_len: usize) -> (usize, usize, usize) { let failure_len = $a; let pad_len = $b; let total_len = $c; (failure_len, pad_len, total_len) }
//@ret r
//@requires
    failure_data.n <= 65000, min_packet_len <= 65535,
//@ensures P C14 a-failure-packet-is-hmac-failure-length-failure-pad-length-and-padding-up-to-the-minimum-so-that-every-short-failure-has-the-same-total-length
    r.0 == 2 + failure_data.n,
    r.1 == (if min_packet_len >= r.0 { min_packet_len - r.0 } else { 0 }),
    r.2 == 32 + 2 + r.0 + 2 + r.1,
    r.0 <= min_packet_len ==> r.2 == 36 + min_packet_len,
    r.0 > min_packet_len ==> r.2 == 36 + r.0,
    r.0 <= 0xffff && r.1 <= 0xffff,
//@mutant padding_computed_from_the_data_without_the_failure_code
    min_packet_len.saturating_sub(failure_len)
//@with
    min_packet_len.saturating_sub(failure_data.len())
//@end
pub proof fn lemma_default_minimum_is_bolt4() ensures DEFAULT_MIN_FAILURE_PACKET_LEN == 256 {}
}
fn main() {}
