//! unit: u13f
//! properties: C13
//! note: tx_add_input's `prevtx` (msgs.rs, impl LengthReadable for TxAddInput, slice of the prevtx branch): the u16 length in front of the previous transaction frames EXACTLY one transaction - a message whose declared length covers more bytes than the transaction's encoding is refused (BadLengthDescriptor), never accepted with the surplus dropped, so that an accepted message re-encodes (the writer puts the transaction's exact serialized length) to the bytes it was read from; a zero length reads as no transaction
//! trusted: R15 (deep slice): the `let prevtx = if prevtx_len > 0 { .. } else { None };` statement with the branch verbatim; R8: `Readable::read(&mut tx_reader)` of the annotated type Transaction is written `Transaction::read(&mut tx_reader)`; env: FixedLengthReader is its two counters (bytes_read, total_bytes) without the inner reader; `bytes_remain` is extracted from ser.rs, `new` is its one-line constructor restated without the reference, `eat_remaining` (copy to a sink) is a stub with its meaning (on success everything up to total_bytes was consumed) so that a change that calls it is verified; Transaction::read is any reader through a FixedLengthReader: on success it consumed the encoding of the transaction it returns, within the limit
//! trusted: assume_specification for core::cmp::max / core::cmp::min (std definitions): present in every unit so that a change that introduces them is verified instead of being rejected by the tool
use vstd::prelude::*;
verus! {
use vstd::std_specs::cmp::*;
use core::cmp;
pub assume_specification<T: core::cmp::Ord>[core::cmp::max::<T>](a: T, b: T) -> (r: T)
    ensures T::obeys_cmp_spec() ==> r == (if b.cmp_spec(&a) == core::cmp::Ordering::Less { a } else { b });
pub assume_specification<T: core::cmp::Ord>[core::cmp::min::<T>](a: T, b: T) -> (r: T)
    ensures T::obeys_cmp_spec() ==> r == (if b.cmp_spec(&a) == core::cmp::Ordering::Less { b } else { a });
pub enum DecodeError { ShortRead, BadLengthDescriptor, InvalidValue, Io }
pub struct Rd {}
pub struct Transaction { pub id: u64 }
pub uninterp spec fn encoded_len(t: Transaction) -> nat;
pub struct FixedLengthReader { pub bytes_read: u64, pub total_bytes: u64 }
impl FixedLengthReader {
    pub fn new(read: &mut Rd, total_bytes: u64) -> (r: Self) ensures r.bytes_read == 0, r.total_bytes == total_bytes { Self { bytes_read: 0, total_bytes } }
//@extract lightning/src/util/ser.rs :: impl FixedLengthReader :: fn bytes_remain
//@ret r
//@ensures A bytes-remain-when-fewer-than-the-declared-length-were-consumed
    r == (old(self).bytes_read != old(self).total_bytes), *final(self) == *old(self),
//@end
    #[verifier::external_body] pub fn eat_remaining(&mut self) -> (r: Result<(), DecodeError>)
        ensures final(self).total_bytes == old(self).total_bytes, r is Ok ==> final(self).bytes_read == final(self).total_bytes, final(self).bytes_read >= old(self).bytes_read { unimplemented!() }
}
impl Transaction {
    #[verifier::external_body] pub fn read(r: &mut FixedLengthReader) -> (res: Result<Transaction, DecodeError>)
        requires old(r).bytes_read <= old(r).total_bytes
        ensures final(r).total_bytes == old(r).total_bytes, final(r).bytes_read <= final(r).total_bytes,
            res is Ok ==> final(r).bytes_read == old(r).bytes_read + encoded_len(res->Ok_0) { unimplemented!() }
}
//@extract lightning/src/ln/msgs.rs :: impl LengthReadable for TxAddInput :: fn read_from_fixed_length_buffer
//@slice R15
    let prevtx = if prevtx_len > 0 { $body:any } else { None };
//@with
    fn read_the_previous_transaction(r: &mut Rd, prevtx_len: u16) -> Result<Option<Transaction>, DecodeError> { let prevtx = if prevtx_len > 0 { $body } else { None }; Ok(prevtx) }
//@rw R8 ?
    Readable::read(&mut tx_reader)
//@with
    Transaction::read(&mut tx_reader)
//@ret res
//@ensures P C13 the-length-in-front-of-the-previous-transaction-frames-exactly-one-transaction-surplus-bytes-are-refused-and-zero-is-no-transaction
    res is Ok && prevtx_len > 0 ==> res->Ok_0 is Some && encoded_len(res->Ok_0->Some_0) == prevtx_len as nat,
    res is Ok && prevtx_len == 0 ==> res->Ok_0 is None,
//@mutant surplus_bytes_after_the_previous_transaction_dropped
    if tx_reader.bytes_remain() { return Err(DecodeError::BadLengthDescriptor); }
//@with
    tx_reader.eat_remaining()?;
//@mutant previous_transaction_length_not_checked
    if tx_reader.bytes_remain() { return Err(DecodeError::BadLengthDescriptor); }
//@with

//@end
}
fn main() {}
