//! unit: u18o
//! properties: C18
//! note: BOLT-11 field sizes, what the builder-side bounds guarantee the writer (lightning-invoice): a tagged field's data length is written in two base-32 symbols, so it must stay below 1024 symbols - the writer ASSERTS it (u18n). bytes_size_to_base32_size (whole) is the number of 5-bit symbols N bytes take, rounded up; Description::new and the builder's payment metadata accept at most 639 bytes and PrivateRoute::new at most 12 hops of 51 bytes, and the lemmas show that these are exactly the bounds under which the assertion holds (639 bytes are 1023 symbols, 640 would be 1024; 12 hops are 980 symbols, 13 would be 1061), so that every description and route hint a builder accepts can be written and parses back
//! trusted: R5: String is its length (Description::new reads nothing else), UntrustedString opaque; RouteHint is its list of hops (opaque elements); MAX_TAGGED_FIELD_DATA_BYTES folded from the source
//! plemma: C18 lemma_description_bound_is_the_largest_that_fits: 639 bytes fit a tagged field, 640 do not
//! plemma: C18 lemma_route_hint_bound_is_the_largest_that_fits: 12 hops fit a tagged field, 13 do not
//! trusted: assume_specification for core::cmp::max / core::cmp::min (std definitions): present in every unit so that a change that introduces them is verified instead of being rejected by the tool
use vstd::prelude::*;
verus! {
use vstd::std_specs::cmp::*;
use core::cmp;
pub assume_specification<T: core::cmp::Ord>[core::cmp::max::<T>](a: T, b: T) -> (r: T)
    ensures T::obeys_cmp_spec() ==> r == (if b.cmp_spec(&a) == core::cmp::Ordering::Less { a } else { b });
pub assume_specification<T: core::cmp::Ord>[core::cmp::min::<T>](a: T, b: T) -> (r: T)
    ensures T::obeys_cmp_spec() ==> r == (if b.cmp_spec(&a) == core::cmp::Ordering::Less { b } else { a });
//@const lightning-invoice/src/lib.rs MAX_TAGGED_FIELD_DATA_BYTES
pub open spec fn symbols(bytes: int) -> int { (bytes * 8 + 4) / 5 }
//@extract lightning-invoice/src/ser.rs :: fn bytes_size_to_base32_size
//@ret r
//@requires
    byte_size <= 0x1000_0000,
//@ensures P C18 the-length-of-a-byte-string-in-5-bit-symbols-is-its-bit-length-divided-by-five-rounded-up
    r as int == symbols(byte_size as int),
//@end
pub struct Str { pub n: usize }
impl Str { pub fn len(&self) -> (r: usize) ensures r == self.n { self.n } }
pub struct UntrustedString(pub Str);
pub enum CreationError { DescriptionTooLong, RouteTooLong }
pub struct Description(pub UntrustedString);
impl Description {
//@extract lightning-invoice/src/lib.rs :: impl Description :: fn new
//@rw R5
    description: String
//@with
    description: Str
//@ret r
//@ensures P C18 a-description-is-accepted-exactly-up-to-639-bytes
    r is Ok <==> description.n <= 639,
    r is Ok ==> symbols(description.n as int) < 1024,
//@mutant description_of_640_bytes_accepted
    if description.len() > MAX_TAGGED_FIELD_DATA_BYTES {
//@with
    if description.len() > MAX_TAGGED_FIELD_DATA_BYTES + 1 {
//@end
}
pub struct Hop {}
pub struct RouteHint(pub Vec<Hop>);
pub struct PrivateRoute(pub RouteHint);
impl PrivateRoute {
//@extract lightning-invoice/src/lib.rs :: impl PrivateRoute :: fn new
//@ret r
//@ensures P C18 a-route-hint-is-accepted-exactly-up-to-twelve-hops
    r is Ok <==> hops.0@.len() <= 12,
    r is Ok ==> symbols(51 * (hops.0@.len() as int)) < 1024,
//@mutant route_hint_of_thirteen_hops_accepted
    if hops.0.len() <= 12 {
//@with
    if hops.0.len() <= 13 {
//@end
}
//@extract lightning-invoice/src/lib.rs :: impl InvoiceBuilder :: fn optional_payment_metadata
//@slice R15
    if $c:cond { self.error = Some(CreationError::PaymentMetadataTooLong); } else {
//@with
    fn payment_metadata_is_too_long_for_a_field(payment_metadata: &Vec<u8>) -> bool { $c }
//@ret r
//@ensures P C18 payment-metadata-is-refused-exactly-above-639-bytes
    r == (payment_metadata@.len() > 639),
    !r ==> symbols(payment_metadata@.len() as int) < 1024,
//@end
pub proof fn lemma_description_bound_is_the_largest_that_fits() ensures symbols(639int) == 1023, symbols(640int) == 1024, MAX_TAGGED_FIELD_DATA_BYTES == 639 {}
pub proof fn lemma_route_hint_bound_is_the_largest_that_fits() ensures symbols(612int) == 980, symbols(663int) == 1061, 51 * 12 == 612int, 51 * 13 == 663int {}
}
fn main() {}
