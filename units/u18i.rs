//! unit: u18i
//! properties: C18
//! note: (and the parsers of the two integer fields, expiry and final CLTV delta, whole: the big-endian base-32 number of the field's symbols, refused when it does not fit 64 bits) BOLT-11 expiry field (lightning-invoice ExpiryTime, all four functions whole): the field carries whole seconds only, so an expiry built from a Duration DROPS the sub-second part when it is built - not when it is encoded - and the invoice the builder hands back shows the same expiry (expiry_time, expires_at, would_expire, equality) as the one parsed from its string: from_duration(d) is from_seconds(d's whole seconds), from_seconds(s) has no sub-second part, and as_seconds is what the encoder writes
//! trusted: parse_u64_be (a macro-generated fold over checked_mul / checked_add) is an external_body stub with its meaning (the big-endian base-32 value, None exactly when it exceeds u64); R8: `OPTION.map(ExpiryTime::from_seconds)` is written as a match
//! trusted: R5: core::time::Duration is a skeleton {secs, nanos} with from_secs (nanos = 0) and as_secs with the std meaning
//! trusted: assume_specification for core::cmp::max / core::cmp::min (std definitions): present in every unit so that a change that introduces them is verified instead of being rejected by the tool
use vstd::prelude::*;
verus! {
use vstd::std_specs::cmp::*;
use core::cmp;
pub assume_specification<T: core::cmp::Ord>[core::cmp::max::<T>](a: T, b: T) -> (r: T)
    ensures T::obeys_cmp_spec() ==> r == (if b.cmp_spec(&a) == core::cmp::Ordering::Less { a } else { b });
pub assume_specification<T: core::cmp::Ord>[core::cmp::min::<T>](a: T, b: T) -> (r: T)
    ensures T::obeys_cmp_spec() ==> r == (if b.cmp_spec(&a) == core::cmp::Ordering::Less { b } else { a });
#[derive(Clone, Copy, PartialEq, Eq)] pub struct Duration { pub secs: u64, pub nanos: u32 }
impl Duration {
    pub fn from_secs(secs: u64) -> (r: Duration) ensures r == (Duration { secs, nanos: 0 }) { Duration { secs, nanos: 0 } }
    pub fn as_secs(&self) -> (r: u64) ensures r == self.secs { self.secs }
}
pub struct ExpiryTime(pub Duration);
impl ExpiryTime {
//@extract lightning-invoice/src/lib.rs :: impl ExpiryTime :: fn from_seconds
//@ret r
//@ensures P C18 an-expiry-built-from-seconds-has-no-sub-second-part
    r.0 == (Duration { secs: seconds, nanos: 0 }),
//@end
//@extract lightning-invoice/src/lib.rs :: impl ExpiryTime :: fn from_duration
//@ret r
//@ensures P C18 an-expiry-built-from-a-duration-keeps-its-whole-seconds-only-as-the-encoded-field-does
    r.0 == (Duration { secs: duration.secs, nanos: 0 }),
//@mutant sub_second_part_kept_in_the_built_invoice
    Self::from_seconds(duration.as_secs())
//@with
    ExpiryTime(duration)
//@end
//@extract lightning-invoice/src/lib.rs :: impl ExpiryTime :: fn as_seconds
//@ret r
//@ensures P C18 the-seconds-the-encoder-writes-are-the-expirys-whole-seconds
    r == self.0.secs,
//@end
//@extract lightning-invoice/src/lib.rs :: impl ExpiryTime :: fn as_duration
//@ret r
//@ensures A
    *r == self.0
//@end
}
// the two integer fields (expiry `x`, final CLTV delta `c`): big-endian base 32 of however many symbols the field has; a value that does not fit 64 bits refuses the invoice
pub struct Fe32(pub u8);
pub enum Bolt11ParseError { IntegerOverflowError, Other(u8) }
pub uninterp spec fn be32(f: Seq<Fe32>) -> nat;
#[verifier::external_body] pub fn parse_u64_be(digits: &[Fe32]) -> (r: Option<u64>) ensures (r is Some) == (be32(digits@) <= u64::MAX), r is Some ==> r->Some_0 as nat == be32(digits@) { unimplemented!() }
impl ExpiryTime {
//@extract lightning-invoice/src/de.rs :: impl FromBase32 for ExpiryTime :: fn from_base32
//@rw R8
    parse_u64_be(field_data).map(ExpiryTime::from_seconds)
//@with
    (match parse_u64_be(field_data) { Some(__s) => Some(ExpiryTime::from_seconds(__s)), None => None })
//@ret r
//@ensures P C18 the-expiry-field-is-the-big-endian-base-32-number-of-its-symbols-in-whole-seconds-and-an-overflowing-one-is-refused
    (r is Ok) == (be32(field_data@) <= u64::MAX),
    r is Ok ==> r->Ok_0.0.secs as nat == be32(field_data@) && r->Ok_0.0.nanos == 0,
//@end
}
pub struct MinFinalCltvExpiryDelta(pub u64);
impl MinFinalCltvExpiryDelta {
//@extract lightning-invoice/src/de.rs :: impl FromBase32 for MinFinalCltvExpiryDelta :: fn from_base32
//@ret r
//@ensures P C18 the-final-cltv-delta-field-is-the-big-endian-base-32-number-of-its-symbols-and-an-overflowing-one-is-refused
    (r is Ok) == (be32(field_data@) <= u64::MAX),
    r is Ok ==> r->Ok_0.0 as nat == be32(field_data@),
//@end
}
}
fn main() {}
