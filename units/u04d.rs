//! unit: u04d
//! properties: C04
//! note: inbound_payment::verify: what the node reads out of the authenticated 16 bytes of a payment secret -- the minimum amount is the first 8 bytes without the three method bits, the expiry is the last 8 bytes, or the last 6 when the first two of them carry a custom final CLTV delta -- so the amount and expiry tests (u04b) run on exactly the numbers create() packed (the Kani harness h_info_bytes proves that construct_info_bytes is the inverse of this byte layout)
//! trusted: R15 (deep slices): verify: (a) the statements that copy the decrypted info bytes into the amount and expiry buffers and clear the method bits (between the decryption and the HMAC test), (b) the match that, for the two custom-CLTV methods, reads the delta and clears the two bytes it occupies, and the two conversions to numbers, verbatim as one function of (info_bytes, payment_type_res); the HMAC authentication (unit u04c), the metadata decryption and the final amount / expiry tests (unit u04b) are the rest of verify
//! trusted: R8: std byte-array plumbing Verus has no specification for is routed through external_body wrappers with the std meaning: `dst.copy_from_slice(&src[..N])` / `(&src[N..])` -> copy_prefix / copy_suffix (dst becomes the first N / the remaining bytes of src), `u64::from_be_bytes(x.into())` / `u64::from_be_bytes(x.try_into().unwrap())` -> be64 (big-endian value, as the uninterpreted be64_spec of the 8 bytes: the contract is stated on the byte sequences, no arithmetic is trusted); min_final_cltv_expiry_delta_from_info is external_body (its value is checked by h_info_bytes on the real function)
//! trusted: assume_specification for core::cmp::max / core::cmp::min (std definitions): present in every unit so that a change that introduces them is verified instead of being rejected by the tool
use vstd::prelude::*;
verus! {
use vstd::std_specs::cmp::*;
use core::cmp;
pub assume_specification<T: core::cmp::Ord>[core::cmp::max::<T>](a: T, b: T) -> (r: T)
    ensures T::obeys_cmp_spec() ==> r == (if b.cmp_spec(&a) == core::cmp::Ordering::Less { a } else { b });
pub assume_specification<T: core::cmp::Ord>[core::cmp::min::<T>](a: T, b: T) -> (r: T)
    ensures T::obeys_cmp_spec() ==> r == (if b.cmp_spec(&a) == core::cmp::Ordering::Less { b } else { a });
//@const lightning/src/ln/inbound_payment.rs INFO_LEN AMT_MSAT_LEN
pub enum Method { LdkPaymentHash, UserPaymentHash, LdkPaymentHashCustomFinalCltv, UserPaymentHashCustomFinalCltv, SpontaneousPayment }
pub uninterp spec fn be64_spec(b: Seq<u8>) -> u64;
pub uninterp spec fn delta_spec(b: Seq<u8>) -> u16;
#[verifier::external_body] pub fn copy_prefix(dst: &mut [u8; 8], src: &[u8; 16], n: usize)
    requires n == 8 ensures final(dst)@ == src@.subrange(0, 8) { unimplemented!() }
#[verifier::external_body] pub fn copy_suffix(dst: &mut [u8; 8], src: &[u8; 16], n: usize)
    requires n == 8 ensures final(dst)@ == src@.subrange(8, 16) { unimplemented!() }
#[verifier::external_body] pub fn be64(b: [u8; 8]) -> (r: u64) ensures r == be64_spec(b@) { unimplemented!() }
#[verifier::external_body] pub fn min_final_cltv_expiry_delta_from_info(bytes: [u8; 16]) -> (r: u16) ensures r == delta_spec(bytes@) { unimplemented!() }
pub open spec fn custom_cltv(m: Result<Method, u8>) -> bool { m is Ok && (m->Ok_0 is UserPaymentHashCustomFinalCltv || m->Ok_0 is LdkPaymentHashCustomFinalCltv) }
// the byte layout of the authenticated metadata (BOLT-independent, LDK's own): [ 3 method bits | 61 bits amount ][ 8 bytes expiry, or 2 bytes delta + 6 bytes expiry ]
pub open spec fn amount_bytes(info: Seq<u8>) -> Seq<u8> { info.subrange(0, 8).update(0, info[0] & 0b0001_1111u8) }
pub open spec fn expiry_bytes_of(info: Seq<u8>, custom: bool) -> Seq<u8> { if custom { info.subrange(8, 16).update(0, 0u8).update(1, 0u8) } else { info.subrange(8, 16) } }

//@extract lightning/src/ln/inbound_payment.rs :: fn verify
//@capture R15
    let mut amt_msat_bytes = [0; AMT_MSAT_LEN]; $decode1:straight let mut min_final_cltv_expiry_delta = None;
//@slice R15
    match payment_type_res { Ok(Method::UserPaymentHashCustomFinalCltv) | Ok(Method::LdkPaymentHashCustomFinalCltv) => { $custom:any }, _ => {}, } let min_amt_msat: u64 = $amt:seq; let expiry = $exp:seq; if payment_data.total_msat < min_amt_msat {
//@with
    fn decoded_amount_expiry_delta(info_bytes: [u8; 16], payment_type_res: Result<Method, u8>) -> (u64, u64, Option<u16>) {
        let mut amt_msat_bytes = [0; AMT_MSAT_LEN];
        $decode1
        let mut min_final_cltv_expiry_delta = None;
        match payment_type_res { Ok(Method::UserPaymentHashCustomFinalCltv) | Ok(Method::LdkPaymentHashCustomFinalCltv) => { $custom }, _ => {}, }
        proof {
            assert(forall|x: u8| #[trigger] (x & 0u8) == 0u8) by (bit_vector);
            assert(expiry_bytes@ =~= expiry_bytes_of(info_bytes@, custom_cltv(payment_type_res)));
            assert(amt_msat_bytes@ =~= amount_bytes(info_bytes@));
        }
        let min_amt_msat: u64 = $amt;
        let expiry = $exp;
        (min_amt_msat, expiry, min_final_cltv_expiry_delta)
    }
//@rw R8
    amt_msat_bytes.copy_from_slice(&info_bytes[..AMT_MSAT_LEN]);
//@with
    copy_prefix(&mut amt_msat_bytes, &info_bytes, AMT_MSAT_LEN);
//@rw R8
    expiry_bytes.copy_from_slice(&info_bytes[AMT_MSAT_LEN..]);
//@with
    copy_suffix(&mut expiry_bytes, &info_bytes, AMT_MSAT_LEN);
//@rw R8
    u64::from_be_bytes(amt_msat_bytes.into())
//@with
    be64(amt_msat_bytes)
//@rw R8
    u64::from_be_bytes(expiry_bytes.try_into().unwrap())
//@with
    be64(expiry_bytes)
//@ret r
//@ensures P C04 the-amount-and-expiry-tested-are-the-ones-packed-into-the-authenticated-bytes-and-an-expired-secret-of-any-method-stays-expired
    r.0 == be64_spec(amount_bytes(info_bytes@)),
    r.1 == be64_spec(expiry_bytes_of(info_bytes@, custom_cltv(payment_type_res))),
    r.2 == (if custom_cltv(payment_type_res) { Some(delta_spec(info_bytes@)) } else { None::<u16> }),
//@mutant high_byte_of_the_delta_left_in_the_expiry
    expiry_bytes[0] &= 0;
//@with
    expiry_bytes[1] &= 0;
//@mutant method_bits_left_in_the_amount
    amt_msat_bytes[0] &= 0b00011111;
//@with
    amt_msat_bytes[0] &= 0b00111111;
//@end
}
fn main() {}
