//! unit: u05d
//! properties: C05 C10 C11 C19
//! note: ChainMonitor::update_monitor_with_chain_data: whether a monitor is written to the persister after it was shown a block is decided on the claims it has AFTER processing that block (the block in which it goes on chain itself - signs and broadcasts its commitment - is always written), besides the periodic write every 5th / 50th height of its partition; a persister that fails unrecoverably fails the call
//! trusted: R15 (deep slice): the statements from taking the monitor to the test in front of the write, verbatim as a function; R5: `process(monitor, txdata)` and `.has_pending_claims()` are given a ghost clock (processing a block advances it; has_pending_claims answers the uninterpreted pending_at(monitor, clock)): the monitor is shared and changes through interior mutability, the clock is what makes "before" and "after" distinguishable in a contract; the logger line is dropped; R8: `u32::from_be_bytes([a, b, c, d])` -> be32_of (uninterpreted); R9: closure headers get parameter types and ensures
//! trusted: assume_specification for Option::is_some_and (std definition); assume_specification for core::cmp::max / core::cmp::min (std definitions): present in every unit so that a change that introduces them is verified instead of being rejected by the tool
use vstd::prelude::*;
verus! {
use vstd::std_specs::cmp::*;
use core::cmp;
pub assume_specification<T: core::cmp::Ord>[core::cmp::max::<T>](a: T, b: T) -> (r: T)
    ensures T::obeys_cmp_spec() ==> r == (if b.cmp_spec(&a) == core::cmp::Ordering::Less { a } else { b });
pub assume_specification<T: core::cmp::Ord>[core::cmp::min::<T>](a: T, b: T) -> (r: T)
    ensures T::obeys_cmp_spec() ==> r == (if b.cmp_spec(&a) == core::cmp::Ordering::Less { b } else { a });
pub assume_specification<T, F: FnOnce(T) -> bool>[Option::<T>::is_some_and](o: Option<T>, f: F) -> (r: bool)
    requires o is Some ==> f.requires((o->Some_0,)),
    ensures o is None ==> !r, o is Some ==> f.ensures((o->Some_0,), r);
pub struct ChannelId(pub [u8; 32]);
pub struct TransactionData { pub id: u64 }
pub struct TransactionOutputs { pub id: u64 }
pub struct Clock { pub t: Ghost<int> }
pub struct Monitor { pub id: u64 }
pub uninterp spec fn pending_at(m: Monitor, t: int) -> bool;
pub uninterp spec fn be32_spec(a: u8, b: u8, c: u8, d: u8) -> u32;
#[verifier::external_body] pub fn be32_of(a: u8, b: u8, c: u8, d: u8) -> (r: u32) ensures r == be32_spec(a, b, c, d) { u32::from_be_bytes([a, b, c, d]) }
impl Monitor {
    #[verifier::external_body] pub fn has_pending_claims(&self, clock: &Clock) -> (r: bool) ensures r == pending_at(*self, clock.t@) { unimplemented!() }
}
#[verifier::external_body] pub fn process(monitor: &Monitor, txdata: &TransactionData, clock: &mut Clock) -> (r: Vec<TransactionOutputs>) ensures final(clock).t@ == old(clock).t@ + 1 { unimplemented!() }
pub struct MonitorHolder { pub monitor: Monitor }
//@extract lightning/src/chain/chainmonitor.rs :: impl ChainMonitor :: fn update_monitor_with_chain_data
//@slice R15
    let monitor = &monitor_state.monitor; $body:straight if $persist:cond { let _pending_monitor_updates = monitor_state.pending_monitor_updates.lock().unwrap();
//@with
    fn monitor_is_written_after_being_shown_chain_data(monitor_state: &MonitorHolder, txdata: &TransactionData, best_height: Option<u32>, channel_id: &ChannelId, channel_count: usize, clock: &mut Clock) -> bool {
        let monitor = &monitor_state.monitor; $body if $persist { true } else { false } }
//@rw R5
    let logger = WithChannelMonitor::from(&self.logger, &monitor, None);
//@with

//@rw R5
    process(monitor, txdata)
//@with
    process(monitor, txdata, clock)
//@rw * R5
    .has_pending_claims()
//@with
    .has_pending_claims(clock)
//@rw R8
    u32::from_be_bytes([ $a:seq, $b:seq, $c:seq, $d:seq, ])
//@with
    be32_of($a, $b, $c, $d)
//@rw R9
    |channel_id: &ChannelId| {
//@with
    |channel_id: &ChannelId| -> (o: Option<u32>) ensures o == (match best_height { Some(h) => Some(be32_spec(channel_id.0[0], channel_id.0[1], channel_id.0[2], channel_id.0[3]).wrapping_add(h)), None => None::<u32> }) {
//@rw R9
    |height| channel_id_u32.wrapping_add(height)
//@with
    |height: u32| -> (w: u32) ensures w == channel_id_u32.wrapping_add(height) { channel_id_u32.wrapping_add(height) }
//@rw R9
    |key| key % partition_factor == 0
//@with
    |key: u32| -> (b: bool) ensures b == (key % (partition_factor as u32) == 0) { key % partition_factor == 0 }
//@ret r
//@ensures P C05,C10,C11 a-monitor-that-has-claims-pending-after-processing-a-block-is-written-to-the-persister-for-that-block-whatever-its-periodic-schedule-says
    final(clock).t@ == old(clock).t@ + 1,
    pending_at(monitor_state.monitor, old(clock).t@ + 1) ==> r,
    !pending_at(monitor_state.monitor, old(clock).t@ + 1) ==> r == (best_height is Some && be32_spec(channel_id.0[0], channel_id.0[1], channel_id.0[2], channel_id.0[3]).wrapping_add(best_height->Some_0) % (if channel_count < 15 { 5u32 } else { 50u32 }) == 0),
//@mutant pending_claims_looked_at_before_the_block_is_processed
    let mut txn_outputs = process(monitor, txdata); $mid:any let has_pending_claims = monitor_state.monitor.has_pending_claims();
//@with
    let has_pending_claims = monitor_state.monitor.has_pending_claims(); let mut txn_outputs = process(monitor, txdata); $mid
//@mutant periodic_write_skipped_for_small_nodes
    let partition_factor = if channel_count < 15 { 5 } else { 50 };
//@with
    let partition_factor = if channel_count < 15 { 50 } else { 50 };
//@end
// ---- an unrecoverable persister failure fails the call ----
//@extract lightning/src/chain/mod.rs :: enum ChannelMonitorUpdateStatus
//@end
//@extract lightning/src/chain/chainmonitor.rs :: impl ChainMonitor :: fn update_monitor_with_chain_data
//@slice R15
    match self.persister.update_persisted_channel(monitor.persistence_key(), None, monitor) { $arms:any }
//@with
    fn chain_sync_write_result(status: ChannelMonitorUpdateStatus) -> Result<(), ()> { match status { $arms } Ok(()) }
//@rw R3
    { log_trace!($x:any) }
//@with
    { }
//@ret r
//@ensures P C10,C19 a-chain-sync-write-the-persister-fails-unrecoverably-fails-the-notification-an-in-progress-one-does-not
    r is Err <==> status is UnrecoverableError,
//@mutant unrecoverable_chain_sync_write_ignored
    ChannelMonitorUpdateStatus::UnrecoverableError => { return Err(()); },
//@with
    ChannelMonitorUpdateStatus::UnrecoverableError => { },
//@end
}
fn main() {}
