//! unit: u18k
//! properties: C18
//! note: BOLT-11 tagged fields, which parser a field's tag selects (lightning-invoice de.rs `impl FromBase32 for TaggedField`, whole, with the tag constants module of lib.rs extracted): a field shorter than its three header symbols is refused; the tag symbol alone selects the field's meaning, by BOLT 11's table (p=1 payment hash, d=13 description, n=19 payee key, h=23 description hash, x=6 expiry, c=24 final CLTV delta, f=9 fallback, r=3 route hint, s=16 payment secret, m=27 metadata, 9=5 features); the parser of that meaning is handed exactly the symbols after the three header symbols; a parser's refusal is the field's refusal; any other tag is skipped (BOLT 11: "a reader MUST skip over unknown fields") - it is never read as one of the known fields
//! trusted: R5: `&field[3..]` is vstd's slice_subrange; Fe32 is its 5-bit value with to_u8; the eleven field parsers are external_body stubs: any function of the symbols they are given, the value they return remembers those symbols (ghost) so that "handed exactly the symbols after the header" can be stated; `Vec::<u8>::from_base32` likewise
//! trusted: assume_specification for core::cmp::max / core::cmp::min (std definitions): present in every unit so that a change that introduces them is verified instead of being rejected by the tool
use vstd::prelude::*;
verus! {
use vstd::std_specs::cmp::*;
use vstd::slice::*;
use core::cmp;
pub assume_specification<T: core::cmp::Ord>[core::cmp::max::<T>](a: T, b: T) -> (r: T)
    ensures T::obeys_cmp_spec() ==> r == (if b.cmp_spec(&a) == core::cmp::Ordering::Less { a } else { b });
pub assume_specification<T: core::cmp::Ord>[core::cmp::min::<T>](a: T, b: T) -> (r: T)
    ensures T::obeys_cmp_spec() ==> r == (if b.cmp_spec(&a) == core::cmp::Ordering::Less { b } else { a });
//@extract lightning-invoice/src/lib.rs :: mod constants
//@mutant expiry_and_final_cltv_tags_exchanged
    pub const TAG_EXPIRY_TIME: u8 = 6; pub const TAG_MIN_FINAL_CLTV_EXPIRY_DELTA: u8 = 24;
//@with
    pub const TAG_EXPIRY_TIME: u8 = 24; pub const TAG_MIN_FINAL_CLTV_EXPIRY_DELTA: u8 = 6;
//@end
#[derive(Clone, Copy)] pub struct Fe32(pub u8);
impl Fe32 { pub fn to_u8(self) -> (r: u8) ensures r == self.0 { self.0 } }
pub enum Bolt11ParseError { UnexpectedEndOfTaggedFields, Skip, Other(u8) }
pub struct Parsed { pub from: Ghost<Seq<Fe32>> }
macro_rules! field_parser { ($t:ident) => { verus! {
    pub struct $t(pub Parsed);
    impl $t { #[verifier::external_body] pub fn from_base32(field_data: &[Fe32]) -> (r: Result<$t, Bolt11ParseError>) ensures r is Ok ==> r->Ok_0.0.from@ == field_data@ { unimplemented!() } }
} } }
field_parser!(PaymentHash); field_parser!(Description); field_parser!(PayeePubKey); field_parser!(Sha256); field_parser!(ExpiryTime); field_parser!(MinFinalCltvExpiryDelta);
field_parser!(Fallback); field_parser!(PrivateRoute); field_parser!(PaymentSecret); field_parser!(Bolt11InvoiceFeatures); field_parser!(Bytes);
pub enum TaggedField { PaymentHash(PaymentHash), Description(Description), PayeePubKey(PayeePubKey), DescriptionHash(Sha256), ExpiryTime(ExpiryTime), MinFinalCltvExpiryDelta(MinFinalCltvExpiryDelta),
    Fallback(Fallback), PrivateRoute(PrivateRoute), PaymentSecret(PaymentSecret), PaymentMetadata(Bytes), Features(Bolt11InvoiceFeatures) }
pub open spec fn parsed_from(t: TaggedField) -> Seq<Fe32> { match t { TaggedField::PaymentHash(x) => x.0.from@, TaggedField::Description(x) => x.0.from@, TaggedField::PayeePubKey(x) => x.0.from@, TaggedField::DescriptionHash(x) => x.0.from@,
    TaggedField::ExpiryTime(x) => x.0.from@, TaggedField::MinFinalCltvExpiryDelta(x) => x.0.from@, TaggedField::Fallback(x) => x.0.from@, TaggedField::PrivateRoute(x) => x.0.from@, TaggedField::PaymentSecret(x) => x.0.from@,
    TaggedField::PaymentMetadata(x) => x.0.from@, TaggedField::Features(x) => x.0.from@ } }
// BOLT 11, "Tagged Fields"
pub open spec fn tag_of(t: TaggedField) -> u8 { match t { TaggedField::PaymentHash(_) => 1, TaggedField::Description(_) => 13, TaggedField::PayeePubKey(_) => 19, TaggedField::DescriptionHash(_) => 23, TaggedField::ExpiryTime(_) => 6,
    TaggedField::MinFinalCltvExpiryDelta(_) => 24, TaggedField::Fallback(_) => 9, TaggedField::PrivateRoute(_) => 3, TaggedField::PaymentSecret(_) => 16, TaggedField::PaymentMetadata(_) => 27, TaggedField::Features(_) => 5 } }
pub open spec fn known_tag(t: u8) -> bool { t == 1 || t == 13 || t == 19 || t == 23 || t == 6 || t == 24 || t == 9 || t == 3 || t == 16 || t == 27 || t == 5 }
//@extract lightning-invoice/src/de.rs :: impl FromBase32 for TaggedField :: fn from_base32
//@rw R5
    &field[3..]
//@with
    slice_subrange(field, 3, field.len())
//@rw R5
    Vec::<u8>::from_base32(field_data)
//@with
    Bytes::from_base32(field_data)
//@ret r
//@ensures P C18 the-tag-symbol-alone-selects-a-fields-meaning-by-the-bolt11-table-its-parser-gets-exactly-the-symbols-after-the-header-and-unknown-tags-are-skipped
    field@.len() < 3 ==> r is Err,
    r is Ok ==> field@.len() >= 3 && tag_of(r->Ok_0) == field@[0].0 && parsed_from(r->Ok_0) =~= field@.subrange(3, field@.len() as int),
    field@.len() >= 3 && !known_tag(field@[0].0) ==> r is Err && r->Err_0 is Skip,
//@mutant description_hash_read_for_the_description_tag
    constants::TAG_DESCRIPTION => {
//@with
    constants::TAG_DESCRIPTION_HASH => {
//@end
}
fn main() {}
