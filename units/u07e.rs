//! unit: u07e
//! properties: C07 C02 C11
//! note: a preimage learned after the channel went on chain is used on the commitment that actually confirmed (channelmonitor.rs provide_payment_preimage): whichever of the counterparty's current commitment, the counterparty's previous commitment, our current commitment or our previous commitment spent the funding output, the claim requests for THAT transaction are handed to the claim handler -- once -- and nothing is handed over when no known commitment confirmed
//! trusted: R15 (deep slice): provide_payment_preimage from the function-local macro claim_htlcs! to the end of the function, verbatim (the macro definition is part of the slice); the bookkeeping of payment_preimages and the search for the confirmed funding spend in front of it are dropped and not claimed
//! trusted: R5: the monitor is a skeleton {counterparty_commitment_txn_on_chain, broadcasted_holder_revokable_script, onchain_tx_handler, best_block, destination_script}; funding_spent (`get_confirmed_funding_scope!(self)`, a borrow of a field) is a separate parameter; get_counterparty_output_claims_for_preimage / get_broadcasted_holder_claims return uninterpreted request lists identified by their arguments (their contents: u07c); OnchainTxHandler::update_claims_view_from_requests records what it is given in a ghost log (its own behaviour: u07b); hash maps answer from ghost maps
//! assume: the commitment number of a counterparty commitment that confirmed is tracked (LDK's debug_assert!(false) in the else branches)
//! trusted: assume_specification for core::cmp::max / core::cmp::min (std definitions): present in every unit so that a change that introduces them is verified instead of being rejected by the tool
use vstd::prelude::*;
verus! {
use vstd::std_specs::cmp::*;
use core::cmp;
pub assume_specification<T: core::cmp::Ord>[core::cmp::max::<T>](a: T, b: T) -> (r: T)
    ensures T::obeys_cmp_spec() ==> r == (if b.cmp_spec(&a) == core::cmp::Ordering::Less { a } else { b });
pub assume_specification<T: core::cmp::Ord>[core::cmp::min::<T>](a: T, b: T) -> (r: T)
    ensures T::obeys_cmp_spec() ==> r == (if b.cmp_spec(&a) == core::cmp::Ordering::Less { b } else { a });
#[derive(Clone, Copy)] pub struct Txid(pub u64);
impl vstd::std_specs::cmp::PartialEqSpecImpl for Txid { open spec fn obeys_eq_spec() -> bool { true } open spec fn eq_spec(&self, other: &Txid) -> bool { *self == *other } }
impl PartialEq for Txid { #[verifier::external_body] fn eq(&self, o: &Txid) -> (r: bool) { unimplemented!() } }
#[derive(Clone, Copy)] pub struct PaymentPreimage(pub [u8; 32]);
pub struct Broadcaster {} pub struct FeeEst {} pub struct LoggerStub {} pub struct Script {} pub struct ScriptBuf {}
pub enum ConfirmationTarget { A, B }
pub struct HtlcList { pub id: u64 }
pub struct NumberMap { pub m: Ghost<Map<Txid, u64>> }
impl NumberMap { #[verifier::external_body] pub fn get(&self, k: &Txid) -> (r: Option<&u64>) ensures r is Some <==> self.m@.contains_key(*k), r is Some ==> *r->Some_0 == self.m@[*k] { unimplemented!() } }
pub struct OutpointsMap { pub m: Ghost<Map<Txid, HtlcList>> }
impl OutpointsMap { #[verifier::external_body] pub fn get(&self, k: &Txid) -> (r: Option<&HtlcList>) ensures r is Some <==> self.m@.contains_key(*k), r is Some ==> *r->Some_0 == self.m@[*k] { unimplemented!() } }
pub struct Trusted { pub id: Txid }
impl Trusted { #[verifier::external_body] pub fn txid(&self) -> (r: Txid) ensures r == self.id { unimplemented!() } }
pub struct HolderCommitmentTransaction { pub id: Txid }
impl HolderCommitmentTransaction { #[verifier::external_body] pub fn trust(&self) -> (r: Trusted) ensures r.id == self.id { unimplemented!() } }
pub struct FundingScope { pub current_counterparty_commitment_txid: Option<Txid>, pub prev_counterparty_commitment_txid: Option<Txid>, pub counterparty_claimable_outpoints: OutpointsMap,
    pub current_holder_commitment_tx: HolderCommitmentTransaction, pub prev_holder_commitment_tx: Option<HolderCommitmentTransaction> }
// what a list of claim requests was generated for
pub enum Claims { CounterpartyHtlcs { preimage: PaymentPreimage, commitment_number: u64, txid: Txid, htlcs_known: bool, confirmed_height: Option<u32> }, HolderHtlcs { commitment: Txid, height: u32 } }
pub struct Requests { pub of: Claims }
pub struct Given { pub requests: Claims, pub conf_height: u32, pub cur_height: u32 }
pub struct OnchainTxHandler { pub given: Ghost<Seq<Given>> }
impl OnchainTxHandler {
    #[verifier::external_body] pub fn update_claims_view_from_requests(&mut self, requests: Requests, conf_height: u32, cur_height: u32, broadcaster: &Broadcaster, conf_target: ConfirmationTarget, destination_script: &ScriptBuf, fee_estimator: &FeeEst, logger: &LoggerStub)
        ensures final(self).given@ == old(self).given@.push(Given { requests: requests.of, conf_height, cur_height }) { unimplemented!() }
}
//@const lightning/src/chain/channelmonitor.rs ANTI_REORG_DELAY
pub struct BestBlock { pub height: u32 }
pub enum OnchainEvent { FundingSpendConfirmation { on_local_output_csv: Option<u16> }, Other { id: u64 } }
pub struct EventEntry { pub txid: Txid, pub height: u32, pub event: OnchainEvent }
pub struct Extra {}
pub struct Monitor { pub counterparty_commitment_txn_on_chain: NumberMap, pub broadcasted_holder_revokable_script: Option<Script>, pub onchain_tx_handler: OnchainTxHandler, pub best_block: BestBlock, pub destination_script: ScriptBuf }
pub open spec fn to_claim(m: &Monitor, f: &FundingScope, confirmed: Txid, confirmed_height: Option<u32>, preimage: PaymentPreimage) -> Option<Claims> {
    if f.current_counterparty_commitment_txid == Some(confirmed) || f.prev_counterparty_commitment_txid == Some(confirmed) {
        Some(Claims::CounterpartyHtlcs { preimage, commitment_number: m.counterparty_commitment_txn_on_chain.m@[confirmed], txid: confirmed, htlcs_known: f.counterparty_claimable_outpoints.m@.contains_key(confirmed), confirmed_height })
    } else if m.broadcasted_holder_revokable_script is Some && (f.current_holder_commitment_tx.id == confirmed || (f.prev_holder_commitment_tx is Some && f.prev_holder_commitment_tx->Some_0.id == confirmed)) {
        Some(Claims::HolderHtlcs { commitment: confirmed, height: m.best_block.height })
    } else { None }
}
impl Monitor {
    #[verifier::external_body] pub fn get_counterparty_output_claims_for_preimage(&self, preimage: PaymentPreimage, funding_spent: &FundingScope, commitment_number: u64, commitment_txid: Txid, per_commitment_option: Option<&HtlcList>, confirmation_height: Option<u32>) -> (r: Requests)
        ensures r.of == (Claims::CounterpartyHtlcs { preimage, commitment_number, txid: commitment_txid, htlcs_known: per_commitment_option is Some, confirmed_height: confirmation_height }) { unimplemented!() }
    #[verifier::external_body] pub fn get_broadcasted_holder_claims(&self, funding: &FundingScope, holder_tx: &HolderCommitmentTransaction, conf_height: u32) -> (r: (Requests, Extra))
        ensures r.0.of == (Claims::HolderHtlcs { commitment: holder_tx.id, height: conf_height }) { unimplemented!() }
    #[verifier::external_body] pub fn closure_conf_target(&self) -> (r: ConfirmationTarget) { unimplemented!() }
//@extract lightning/src/chain/channelmonitor.rs :: impl ChannelMonitorImpl :: fn provide_payment_preimage
//@slice R15
    let funding_spent = get_confirmed_funding_scope!(self); macro_rules! claim_htlcs { $m:any } $rest:any }
//@with
    fn claim_with_a_newly_learned_preimage(&mut self, funding_spent: &FundingScope, confirmed_spend_txid: Txid, confirmed_spend_height: Option<u32>, payment_preimage: &PaymentPreimage, broadcaster: &Broadcaster, fee_estimator: &FeeEst, logger: &LoggerStub) {
        macro_rules! claim_htlcs { $m }
        $rest
    }
//@requires
    (funding_spent.current_counterparty_commitment_txid == Some(confirmed_spend_txid) || funding_spent.prev_counterparty_commitment_txid == Some(confirmed_spend_txid)) ==> old(self).counterparty_commitment_txn_on_chain.m@.contains_key(confirmed_spend_txid),
//@ensures P C07,C02 a-preimage-learned-after-the-close-is-used-on-exactly-the-commitment-that-confirmed-counterparty-current-or-previous-or-ours-current-or-previous
    final(self).onchain_tx_handler.given@ == (match to_claim(old(self), funding_spent, confirmed_spend_txid, confirmed_spend_height, *payment_preimage) {
        Some(c) => old(self).onchain_tx_handler.given@.push(Given { requests: c, conf_height: old(self).best_block.height, cur_height: old(self).best_block.height }),
        None => old(self).onchain_tx_handler.given@ }),
//@mutant previous_counterparty_commitment_and_ours_never_reached
    return; } } if let Some(txid) = funding_spent.prev_counterparty_commitment_txid {
//@with
    } return; } if let Some(txid) = funding_spent.prev_counterparty_commitment_txid {
//@end
// (finding F12) the height since which the outputs claimed with a late preimage exist, when the funding spend is already final: the spend has at least ANTI_REORG_DELAY confirmations, so it confirmed at most that many blocks (less one) below the tip; it is never left unset (which would record the TIP as the creation height of the claimed outputs, and a reorg of the tip alone would then drop the claim)
//@extract lightning/src/chain/channelmonitor.rs :: impl ChannelMonitorImpl :: fn provide_payment_preimage
//@slice R15
    let confirmed_spend_info = self.funding_spend_confirmed .map(|txid| $body:seq) .or_else(
//@with
    fn where_a_final_funding_spend_is_taken_to_have_confirmed(&self, txid: Txid) -> (Txid, Option<u32>) { $body }
//@ret r
//@ensures P C11,C07 outputs-claimed-with-a-preimage-learned-after-the-funding-spend-became-final-are-recorded-as-existing-since-a-height-the-spend-had-certainly-confirmed-by-never-since-the-tip
    r.0 == txid, r.1 is Some,
    self.best_block.height >= ANTI_REORG_DELAY - 1 ==> r.1->Some_0 as int <= self.best_block.height - (ANTI_REORG_DELAY - 1),
    self.best_block.height < ANTI_REORG_DELAY - 1 ==> r.1->Some_0 == 0,
//@mutant final_spend_recorded_without_a_height
    (txid, Some(latest_conf_height))
//@with
    (txid, None)
//@end
// and when the funding spend still waits for its depth, it is the height recorded with that spend (not the tip, which may be several blocks above it: a reorg of those blocks alone would drop the claim)
//@extract lightning/src/chain/channelmonitor.rs :: impl ChannelMonitorImpl :: fn provide_payment_preimage
//@slice R15
    self.onchain_events_awaiting_threshold_conf.iter().find_map(|event| match event.event { $arms:any })
//@with
    fn where_a_pending_funding_spend_is_taken_to_have_confirmed(&self, event: &EventEntry) -> Option<(Txid, Option<u32>)> { match event.event { $arms } }
//@ret r
//@ensures P C11,C07 outputs-claimed-with-a-preimage-learned-while-the-funding-spend-waits-for-its-depth-are-recorded-as-existing-since-the-height-that-spend-confirmed-at
    r == (if event.event is FundingSpendConfirmation { Some((event.txid, Some(event.height))) } else { None::<(Txid, Option<u32>)> }),
//@mutant pending_spend_recorded_at_the_tip
    Some((event.txid, Some(event.height)))
//@with
    Some((event.txid, Some(self.best_block.height)))
//@end
}
}
fn main() {}
