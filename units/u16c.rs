//! unit: u16c
//! properties: C16 C02
//! note: blinded_path::payment::compute_aggregated_base_prop_fee: the aggregated (base, proportional) fee of a sequence of hops is never below the fee those hops charge when composed hop by hop with compute_fees' rounding (any number of hops)
//! trusted: R5: the generic `I: DoubleEndedIterator<Item = RoutingFees>` parameter is instantiated as a slice of RoutingFees; R6: `for fees in hops_fees.rev()` rewritten into an index loop from the last element to the first (definition of rev() on a double-ended iterator), body verbatim
//! plemma: C16 lemma_aggregate_covers_composition: need(hops, 0, v) <= v + B + floor(v*P/1e6) for the aggregated (B, P): a payer (or the router's bottleneck computation, unit u16b) that adds the aggregated fee covers every hop's own fee
//! trusted: assume_specification for core::cmp::max / core::cmp::min (std definitions): present in every unit so that a change that introduces them is verified instead of being rejected by the tool
use vstd::prelude::*;
verus! {
use vstd::std_specs::cmp::*;
use core::cmp;
pub assume_specification<T: core::cmp::Ord>[core::cmp::max::<T>](a: T, b: T) -> (r: T)
    ensures T::obeys_cmp_spec() ==> r == (if b.cmp_spec(&a) == core::cmp::Ordering::Less { a } else { b });
pub assume_specification<T: core::cmp::Ord>[core::cmp::min::<T>](a: T, b: T) -> (r: T)
    ensures T::obeys_cmp_spec() ==> r == (if b.cmp_spec(&a) == core::cmp::Ordering::Less { b } else { a });
//@extract lightning-types/src/routing.rs :: struct RoutingFees
//@derive Clone Copy
//@end
pub open spec fn fees_spec(amt: int, f: RoutingFees) -> int { f.base_msat as int + amt * (f.proportional_millionths as int) / 1_000_000 }
pub open spec fn ceil_div_m(a: int) -> int { (a + 999_999) / 1_000_000 }
pub open spec fn step(bp: (int, int), f: RoutingFees) -> (int, int) {
    (ceil_div_m(bp.0 * (1_000_000 + f.proportional_millionths as int)) + f.base_msat as int,
     ceil_div_m((bp.1 + 1_000_000) * (f.proportional_millionths as int + 1_000_000)) - 1_000_000)
}
// aggregated fee of hops k.. (the loop processes the hops from the last to the first)
pub open spec fn agg(s: Seq<RoutingFees>, k: int) -> (int, int) decreases s.len() - k {
    if k >= s.len() { (0, 0) } else { step(agg(s, k + 1), s[k]) }
}
// what must enter hop k for the final recipient to get v, composing each hop's own fee (floor, as compute_fees)
pub open spec fn need(s: Seq<RoutingFees>, k: int, v: int) -> int decreases s.len() - k {
    if k >= s.len() { v } else { need(s, k + 1, v) + fees_spec(need(s, k + 1, v), s[k]) }
}
pub proof fn lemma_agg_nonneg(s: Seq<RoutingFees>, k: int)
    requires 0 <= k
    ensures agg(s, k).0 >= 0, agg(s, k).1 >= 0
    decreases s.len() - k
{
    if k < s.len() {
        lemma_agg_nonneg(s, k + 1);
        let (b0, p0) = agg(s, k + 1);
        let p = s[k].proportional_millionths as int;
        assert(b0 * (1_000_000 + p) >= 0) by (nonlinear_arith) requires b0 >= 0, p >= 0;
        assert((p0 + 1_000_000) * (p + 1_000_000) >= 1_000_000 * 1_000_000) by (nonlinear_arith) requires p0 >= 0, p >= 0;
    }
}
// (P) the aggregated fee covers the composition of the hops' own fees
pub proof fn lemma_aggregate_covers_composition(s: Seq<RoutingFees>, k: int, v: int)
    requires 0 <= k <= s.len(), v >= 0
    ensures need(s, k, v) >= v,
        1_000_000 * need(s, k, v) <= 1_000_000 * v + 1_000_000 * agg(s, k).0 + v * agg(s, k).1,
        need(s, k, v) <= v + agg(s, k).0 + (v * agg(s, k).1) / 1_000_000,
    decreases s.len() - k
{
    lemma_agg_nonneg(s, k);
    if k < s.len() {
        lemma_aggregate_covers_composition(s, k + 1, v);
        lemma_agg_nonneg(s, k + 1);
        let (b0, p0) = agg(s, k + 1);
        let (b1, p1) = agg(s, k);
        let y = need(s, k + 1, v);
        let n = need(s, k, v);
        let b = s[k].base_msat as int; let p = s[k].proportional_millionths as int;
        let m = 1_000_000int;
        let r = m * v + m * b0 + v * p0;           // IH: m*y <= r
        assert(y * p >= 0) by (nonlinear_arith) requires y >= 0, p >= 0;
        assert(n == y + b + (y * p) / m);
        assert(m * ((y * p) / m) <= y * p) by (nonlinear_arith) requires y * p >= 0, m == 1_000_000;
        // m*n <= y*(m+p) + m*b
        assert(m * n <= y * (m + p) + m * b) by (nonlinear_arith)
            requires n == y + b + (y * p) / m, m * ((y * p) / m) <= y * p, m == 1_000_000;
        // m*m*n <= r*(m+p) + m*m*b
        assert(m * y * (m + p) <= r * (m + p)) by (nonlinear_arith) requires m * y <= r, m + p > 0;
        assert(m * (m * n) <= r * (m + p) + m * m * b) by (nonlinear_arith)
            requires m * n <= y * (m + p) + m * b, m * y * (m + p) <= r * (m + p), m == 1_000_000;
        // the step's rounding: m*b1 >= b0*(m+p) + m*b  and  m*(p1+m) >= (p0+m)*(p+m)
        let x0 = b0 * (m + p);
        assert(x0 >= 0) by (nonlinear_arith) requires b0 >= 0, m + p >= 0, x0 == b0 * (m + p);
        assert(m * ((x0 + 999_999) / m) >= x0) by (nonlinear_arith) requires x0 >= 0, m == 1_000_000;
        assert(m * b1 >= x0 + m * b) by (nonlinear_arith) requires b1 == (x0 + 999_999) / m + b, m * ((x0 + 999_999) / m) >= x0, m == 1_000_000;
        let x1 = (p0 + m) * (p + m);
        assert(x1 >= 0) by (nonlinear_arith) requires p0 >= 0, p >= 0, m == 1_000_000, x1 == (p0 + m) * (p + m);
        assert(m * ((x1 + 999_999) / m) >= x1) by (nonlinear_arith) requires x1 >= 0, m == 1_000_000;
        assert(m * (p1 + m) >= x1) by (nonlinear_arith) requires p1 == (x1 + 999_999) / m - m, m * ((x1 + 999_999) / m) >= x1, m == 1_000_000;
        // m * (m*v + m*b1 + v*p1) >= (m+p)*r + m*m*b
        assert(v * (m * (p1 + m)) >= v * x1) by (nonlinear_arith) requires v >= 0, m * (p1 + m) >= x1;
        assert(v * x1 == (m + p) * (v * (p0 + m))) by (nonlinear_arith) requires x1 == (p0 + m) * (p + m);
        assert(m * (m * v + m * b1 + v * p1) >= (m + p) * r + m * m * b) by (nonlinear_arith)
            requires v * (m * (p1 + m)) >= v * x1, v * x1 == (m + p) * (v * (p0 + m)), m * b1 >= x0 + m * b, x0 == b0 * (m + p), r == m * v + m * b0 + v * p0, m == 1_000_000;
        assert(m * n <= m * v + m * b1 + v * p1) by (nonlinear_arith)
            requires m * (m * n) <= r * (m + p) + m * m * b, m * (m * v + m * b1 + v * p1) >= (m + p) * r + m * m * b, m == 1_000_000;
        assert(fees_spec(y, s[k]) >= 0);
    }
    let (bb, pp) = agg(s, k);
    let nn = need(s, k, v);
    assert(v * pp >= 0) by (nonlinear_arith) requires v >= 0, pp >= 0;
    assert(nn <= v + bb + (v * pp) / 1_000_000) by (nonlinear_arith)
        requires 1_000_000 * nn <= 1_000_000 * v + 1_000_000 * bb + v * pp, v * pp >= 0;
}

//@extract lightning/src/blinded_path/payment.rs :: fn compute_aggregated_base_prop_fee
//@rw R5
    <I>(hops_fees: I)
//@with
    (hops_fees: &[RoutingFees])
//@rw R5
    where I: DoubleEndedIterator<Item = RoutingFees>,
//@with
//@rw R6
    for $f:ident in hops_fees.rev() { $body:any }
//@with
    let mut __i: usize = hops_fees.len();
    while __i > 0
        invariant __i <= hops_fees.len(), (curr_base_fee as int, curr_prop_mil as int) == agg(hops_fees@, __i as int),
        decreases __i
    {
        __i = __i - 1;
        let $f = hops_fees[__i];
        proof { lemma_agg_nonneg(hops_fees@, __i as int + 1); }
        let ghost b0 = curr_base_fee as int; let ghost p0 = curr_prop_mil as int;
        $body
        proof {
            let pm = $f.proportional_millionths as int;
            assert(agg(hops_fees@, __i as int) == step((b0, p0), hops_fees@[__i as int]));
            assert((pm + 1_000_000) * (p0 + 1_000_000) == (p0 + 1_000_000) * (pm + 1_000_000)) by (nonlinear_arith);
            assert(b0 * (1_000_000 + pm) >= 0) by (nonlinear_arith) requires b0 >= 0, pm >= 0;
        }
    }
//@ret r
//@ensures P C16 aggregated-fee-is-the-fold-of-the-rounded-up-composition-steps
    r is Ok ==> (r->Ok_0.0 as int, r->Ok_0.1 as int) == agg(hops_fees@, 0),
    hops_fees@.len() == 0 ==> r is Ok,   // no hops, nothing to overflow (used by u16b: an overflow names a hop that exists)
//@rw nth=1 R9
    .and_then(|$f:ident| $b)
//@with
    .and_then(|$f: u64| -> (o: Option<u64>) ensures o == (if $f as int + 999_999 <= u64::MAX { Some(($f + 999_999) as u64) } else { None::<u64> }) { $b })
//@rw nth=1 R9
    .map(|$f:ident| $b)
//@with
    .map(|$f: u64| -> (o: u64) ensures o == $f / 1_000_000 { $b })
//@rw nth=1 R9
    .and_then(|$f:ident| $b)
//@with
    .and_then(|$f: u64| -> (o: Option<u64>) ensures o == (if $f as int + next_base_fee as int <= u64::MAX { Some(($f + next_base_fee) as u64) } else { None::<u64> }) { $b })
//@rw nth=1 R9
    .and_then(|$f1:ident| next_prop_mil.checked_add(1_000_000).and_then(|$f2:ident| $b2))
//@with
    .and_then(|$f1: u64| -> (o: Option<u64>) ensures o == (if (next_prop_mil as int + 1_000_000) * ($f1 as int) <= u64::MAX { Some(((next_prop_mil as int + 1_000_000) * ($f1 as int)) as u64) } else { None::<u64> })
        { next_prop_mil.checked_add(1_000_000).and_then(|$f2: u64| -> (o2: Option<u64>) ensures o2 == (if $f2 as int * $f1 as int <= u64::MAX { Some(($f2 * $f1) as u64) } else { None::<u64> }) { $b2 }) })
//@rw nth=1 R9
    .and_then(|$f:ident| $b)
//@with
    .and_then(|$f: u64| -> (o: Option<u64>) ensures o == (if $f as int + 999_999 <= u64::MAX { Some(($f + 999_999) as u64) } else { None::<u64> }) { $b })
//@rw nth=1 R9
    .map(|$f:ident| $b)
//@with
    .map(|$f: u64| -> (o: u64) ensures o == $f / 1_000_000 { $b })
//@rw nth=1 R9
    .and_then(|$f:ident| $b)
//@with
    .and_then(|$f: u64| -> (o: Option<u64>) ensures o == (if $f >= 1_000_000 { Some(($f - 1_000_000) as u64) } else { None::<u64> }) { $b })
//@mutant base_fee_rounded_down
    .and_then(|f| f.checked_add(1_000_000 - 1)) .map(|f| f / 1_000_000) .and_then(|f| f.checked_add(next_base_fee))
//@with
    .and_then(|f| f.checked_add(0)) .map(|f| f / 1_000_000) .and_then(|f| f.checked_add(next_base_fee))
//@end
}
fn main() {}
