//! unit: u02e
//! properties: C02 C14 C03 C10
//! note: failing an HTLC backwards (channelmanager.rs): get_htlc_forward_failure whole (an HTLC that came in over a blinded path is failed without revealing anything: from the introduction node with an invalid_onion_blinding error built by us, from a blinded node as malformed with a zeroed hash; any other HTLC carries the given error encrypted for the inbound hop, wrapped a second time for a trampoline or phantom hop; always for THIS htlc id), the forwarded-HTLC arm of fail_htlc_backwards_internal (the failure is queued under the inbound channel's scid alias, behind the failures already queued there, and the event names the inbound channel), the duplicate-failure rule of its outbound-payment arm (the monitor's payment-complete update is released at once only if the payment took no notice of the failure and no queued event still carries that action)
//! trusted: R5/R8: HTLCFailReason is a skeleton whose get_encrypted_failure_packet answers the uninterpreted encrypted(reason, inbound secret, secondary secret); HTLCFailReason::reason(code, data) records its arguments; `vec![0; 32]` -> zero_vec(32); `a.or(*b)` on Option<[u8; 32]> through the wrapper opt_or (std definition)
//! trusted: R15 (deep slices): fail_htlc_backwards_internal: the body of the closure push_forward_htlcs_failure (entry API of the forward_htlcs map as an environment type with the std contracts, mutable-reference prophecy), the statements of the PreviousHopData arm (the closure is the recorder queue_failure; pending_events.lock().unwrap().push_back -> queue_event), the have_action / handle_post_event_actions statements of the OutboundRoute arm (R6 any as a loop; action equality structural)
//! trusted: assume_specification for core::cmp::max / core::cmp::min (std definitions): present in every unit so that a change that introduces them is verified instead of being rejected by the tool
use vstd::prelude::*;
verus! {
use vstd::std_specs::cmp::*;
use core::cmp;
pub assume_specification<T: core::cmp::Ord>[core::cmp::max::<T>](a: T, b: T) -> (r: T)
    ensures T::obeys_cmp_spec() ==> r == (if b.cmp_spec(&a) == core::cmp::Ordering::Less { a } else { b });
pub assume_specification<T: core::cmp::Ord>[core::cmp::min::<T>](a: T, b: T) -> (r: T)
    ensures T::obeys_cmp_spec() ==> r == (if b.cmp_spec(&a) == core::cmp::Ordering::Less { b } else { a });
pub enum BlindedFailure { FromIntroductionNode, FromBlindedNode }
#[derive(Clone, Copy)] pub enum LocalHTLCFailureReason { InvalidOnionBlinding, Other(u16) }
pub uninterp spec fn code_of(r: LocalHTLCFailureReason) -> u16;
impl LocalHTLCFailureReason { #[verifier::external_body] pub fn failure_code(&self) -> (r: u16) ensures r == code_of(*self) { unimplemented!() } }
pub struct OnionErrorPacket { pub id: u64 }
pub struct HTLCFailReason { pub reason: LocalHTLCFailureReason, pub data: Seq<u8> }
pub uninterp spec fn encrypted(reason: HTLCFailReason, inbound: [u8; 32], secondary: Option<[u8; 32]>) -> OnionErrorPacket;
impl HTLCFailReason {
    #[verifier::external_body] pub fn reason(r: LocalHTLCFailureReason, data: Vec<u8>) -> (x: HTLCFailReason) ensures x.reason == r, x.data == data@ { unimplemented!() }
    #[verifier::external_body] pub fn get_encrypted_failure_packet(&self, inbound: &[u8; 32], secondary: &Option<[u8; 32]>) -> (p: OnionErrorPacket) ensures p == encrypted(*self, *inbound, *secondary) { unimplemented!() }
}
pub open spec fn zeros(n: int) -> Seq<u8> { Seq::new(n as nat, |i: int| 0u8) }
pub open spec fn zeros32() -> Seq<u8> { zeros(32) }
pub open spec fn blinded_reason() -> HTLCFailReason { HTLCFailReason { reason: LocalHTLCFailureReason::InvalidOnionBlinding, data: zeros(32) } }
#[verifier::external_body] pub fn zero_vec(n: usize) -> (v: Vec<u8>) ensures v@ == zeros(n as int) { vec![0u8; n] }
#[verifier::external_body] pub fn zero_arr32() -> (a: [u8; 32]) ensures a@ == zeros(32) { [0u8; 32] }
#[verifier::external_body] pub fn opt_or(a: &Option<[u8; 32]>, b: Option<[u8; 32]>) -> (r: Option<[u8; 32]>) ensures r == (if *a is Some { *a } else { b }) { a.or(b) }
pub enum HTLCForwardInfo { FailHTLC { htlc_id: u64, err_packet: OnionErrorPacket }, FailMalformedHTLC { htlc_id: u64, failure_code: u16, sha256_of_onion: [u8; 32] }, AddHTLC { id: u64 } }
//@extract lightning/src/ln/channelmanager.rs :: fn get_htlc_forward_failure
//@rw R8
    $a:ident.or(*$b:ident)
//@with
    opt_or($a, *$b)
//@rw R8
    vec![0; 32]
//@with
    zero_vec(32)
//@rw R8
    sha256_of_onion: [0; 32],
//@with
    sha256_of_onion: zero_arr32(),
//@ret r
//@ensures P C02,C14,C03 an-htlc-is-failed-back-under-its-own-id-with-the-given-error-encrypted-for-the-hop-it-came-from-and-one-that-came-through-a-blinded-path-reveals-nothing-but-invalid-onion-blinding
    ({ let secondary = if *trampoline_shared_secret is Some { *trampoline_shared_secret } else { *phantom_shared_secret };
       match *blinded_failure {
         None => r == (HTLCForwardInfo::FailHTLC { htlc_id, err_packet: encrypted(*onion_error, *incoming_packet_shared_secret, secondary) }),
         Some(BlindedFailure::FromBlindedNode) => r matches HTLCForwardInfo::FailMalformedHTLC { htlc_id: h, failure_code, sha256_of_onion } && h == htlc_id && failure_code == code_of(LocalHTLCFailureReason::InvalidOnionBlinding) && sha256_of_onion@ == zeros32(),
         Some(BlindedFailure::FromIntroductionNode) => r matches HTLCForwardInfo::FailHTLC { htlc_id: h, err_packet } && h == htlc_id
             && err_packet == encrypted(blinded_reason(), *incoming_packet_shared_secret, secondary),
       } }),
//@mutant downstream_error_passed_on_from_inside_a_blinded_path
    Some(BlindedFailure::FromIntroductionNode) => { let blinded_onion_error = HTLCFailReason::reason(LocalHTLCFailureReason::InvalidOnionBlinding, vec![0; 32]); let err_packet = blinded_onion_error.get_encrypted_failure_packet(
//@with
    Some(BlindedFailure::FromIntroductionNode) => { let blinded_onion_error = HTLCFailReason::reason(LocalHTLCFailureReason::InvalidOnionBlinding, vec![0; 32]); let err_packet = onion_error.get_encrypted_failure_packet(
//@mutant phantom_secret_takes_precedence_over_the_trampoline_secret
    trampoline_shared_secret.or(*phantom_shared_secret)
//@with
    phantom_shared_secret.or(*trampoline_shared_secret)
//@end

// ---- the queue of failures per inbound channel (forward_htlcs) ----
pub struct FwdMap { pub m: Ghost<Map<u64, Seq<HTLCForwardInfo>>> }
pub enum Entry<'a> { Occupied(OccupiedEntry<'a>), Vacant(VacantEntry<'a>) }
pub struct OccupiedEntry<'a> { pub slot: &'a mut Vec<HTLCForwardInfo> }
pub struct VacantEntry<'a> { pub slot: &'a mut Option<Vec<HTLCForwardInfo>> }
impl<'a> OccupiedEntry<'a> { #[verifier::external_body] pub fn get_mut(&mut self) -> (r: &mut Vec<HTLCForwardInfo>) ensures *r == *old(self).slot, *final(self).slot == *final(r), *final(final(self).slot) == *final(old(self).slot) { unimplemented!() } }
impl<'a> VacantEntry<'a> { #[verifier::external_body] pub fn insert(self, v: Vec<HTLCForwardInfo>) ensures *final(self.slot) == Some(v) { unimplemented!() } }
pub open spec fn listed(m: Map<u64, Seq<HTLCForwardInfo>>, k: u64) -> Seq<HTLCForwardInfo> { if m.contains_key(k) { m[k] } else { Seq::empty() } }
impl FwdMap {
    #[verifier::external_body] pub fn entry<'a>(&'a mut self, k: u64) -> (e: Entry<'a>)
        ensures old(self).m@.contains_key(k) ==> (e matches Entry::Occupied(o) && o.slot@ == old(self).m@[k] && final(self).m@ == old(self).m@.insert(k, final(o.slot)@)),
            !old(self).m@.contains_key(k) ==> (e matches Entry::Vacant(v) && *v.slot is None && final(self).m@ == (match *final(v.slot) { Some(x) => old(self).m@.insert(k, x@), None => old(self).m@ })),
    { unimplemented!() }
}
//@extract lightning/src/ln/channelmanager.rs :: impl ChannelManager :: fn fail_htlc_backwards_internal
//@slice R15
    let push_forward_htlcs_failure = |prev_outbound_scid_alias: u64, failure: HTLCForwardInfo| { let mut forward_htlcs = self.forward_htlcs.lock().unwrap(); $body:any };
//@with
    fn queue_a_failure_for_the_inbound_channel(forward_htlcs: &mut FwdMap, prev_outbound_scid_alias: u64, failure: HTLCForwardInfo) { $body }
//@rw R5
    hash_map::Entry::Occupied
//@with
    Entry::Occupied
//@rw R5
    hash_map::Entry::Vacant
//@with
    Entry::Vacant
//@ensures P C02,C03 a-failure-to-relay-is-queued-under-the-channel-the-htlc-came-in-on-behind-those-already-queued-there-and-no-other-queue-changes
    final(forward_htlcs).m@ =~~= old(forward_htlcs).m@.insert(prev_outbound_scid_alias, listed(old(forward_htlcs).m@, prev_outbound_scid_alias).push(failure)),
//@mutant failures_already_queued_for_the_channel_replaced
    entry.get_mut().push(failure);
//@with
    *entry.get_mut() = vec![failure];
//@end
// ---- the forwarded-HTLC arm ----
#[derive(Clone, Copy)] pub struct ChannelId(pub u64);
pub struct HTLCPreviousHopData { pub prev_outbound_scid_alias: u64, pub htlc_id: u64, pub incoming_packet_shared_secret: [u8; 32], pub phantom_shared_secret: Option<[u8; 32]>, pub trampoline_shared_secret: Option<[u8; 32]>,
    pub blinded_failure: Option<BlindedFailure>, pub channel_id: ChannelId }
pub enum FailureType { Forward, Receive }
pub struct FailedEvent { pub prev_channel_ids: Vec<ChannelId>, pub failure_type: FailureType, pub reason: LocalHTLCFailureReason }
pub struct Mgr { pub queued: Ghost<Seq<(u64, HTLCForwardInfo)>>, pub events: Ghost<Seq<FailedEvent>> }
impl Mgr {
    #[verifier::external_body] pub fn queue_failure(&mut self, scid: u64, f: HTLCForwardInfo) ensures final(self).queued@ == old(self).queued@.push((scid, f)), final(self).events@ == old(self).events@ { unimplemented!() }
    #[verifier::external_body] pub fn queue_event(&mut self, e: FailedEvent) ensures final(self).events@ == old(self).events@.push(e), final(self).queued@ == old(self).queued@ { unimplemented!() }
//@extract lightning/src/ln/channelmanager.rs :: impl ChannelManager :: fn fail_htlc_backwards_internal
//@slice R15
    push_forward_htlcs_failure( *prev_outbound_scid_alias, get_htlc_forward_failure( $args:seq ), ); let mut pending_events = self.pending_events.lock().unwrap(); pending_events.push_back(( events::Event::HTLCHandlingFailed { prev_channel_ids: $ids:seq, failure_type, failure_reason: $fr:seq, }, None, )); }, HTLCSource::TrampolineForward
//@with
    fn fail_a_forwarded_htlc_backwards(&mut self, hop: &HTLCPreviousHopData, onion_error: &HTLCFailReason, failure_type: FailureType) {
        let HTLCPreviousHopData { prev_outbound_scid_alias, htlc_id, incoming_packet_shared_secret, phantom_shared_secret, trampoline_shared_secret, blinded_failure, channel_id } = hop;
        self.queue_failure( *prev_outbound_scid_alias, get_htlc_forward_failure( $args ), );
        self.queue_event(FailedEvent { prev_channel_ids: $ids, failure_type, reason: onion_error.reason });
    }
//@ensures P C02,C03 the-htlc-is-failed-on-the-channel-it-came-in-on-under-its-own-id-with-its-own-secrets-and-the-event-names-that-channel
    final(self).queued@.len() == old(self).queued@.len() + 1 && final(self).queued@.drop_last() =~= old(self).queued@ && final(self).queued@.last().0 == hop.prev_outbound_scid_alias,
    hop.blinded_failure is None ==> final(self).queued@.last().1 == (HTLCForwardInfo::FailHTLC { htlc_id: hop.htlc_id,
        err_packet: encrypted(*onion_error, hop.incoming_packet_shared_secret, if hop.trampoline_shared_secret is Some { hop.trampoline_shared_secret } else { hop.phantom_shared_secret }) }),
    final(self).events@.len() == old(self).events@.len() + 1 && final(self).events@.last().prev_channel_ids@ =~= seq![hop.channel_id],
//@mutant failure_built_with_the_phantom_and_trampoline_secrets_swapped
    trampoline_shared_secret, phantom_shared_secret, *htlc_id,
//@with
    phantom_shared_secret, trampoline_shared_secret, *htlc_id,
//@end
}

// ---- a failure the payment took no notice of (a duplicate): the monitor's payment-complete update is released at once unless a queued event still carries it ----
pub struct Update { pub id: u64 }
pub enum EventCompletionAction { ReleasePaymentCompleteChannelMonitorUpdate(Update), Other(u64) }
pub struct Ev { pub id: u64 }
#[verifier::external_body] pub fn same_action(a: Option<&EventCompletionAction>, b: Option<&EventCompletionAction>) -> (r: bool)
    ensures r == (match (a, b) { (Some(x), Some(y)) => *x == *y, (None, None) => true, _ => false }) { unimplemented!() }
//@extract lightning/src/ln/channelmanager.rs :: impl ChannelManager :: fn fail_htlc_backwards_internal
//@slice R15
    if let Some(update) = from_monitor_update_completion { let action = $act:seq; let have_action = { let pending_events = self.pending_events.lock().unwrap(); pending_events.iter().any(|(_, act)| $p:seq) }; if $c:cond { self.handle_post_event_actions([action]); } }
//@with
    fn release_for_a_failure_the_payment_took_no_notice_of(pending_events: &Vec<(Ev, Option<EventCompletionAction>)>, from_monitor_update_completion: Option<Update>) -> Option<EventCompletionAction> {
        if let Some(update) = from_monitor_update_completion {
            let action = $act;
            let have_action = {
                let mut found = false; let mut k: usize = 0;
                while k < pending_events.len()
                    invariant 0 <= k <= pending_events@.len(), found == (exists|j: int| 0 <= j < k && #[trigger] pending_events@[j].1 == Some(action)),
                    decreases pending_events@.len() - k,
                { let act = &pending_events[k].1; if $p { found = true; } k += 1; }
                found };
            if $c { return Some(action); }
        }
        None
    }
//@rw R8
    act.as_ref() == Some(&action)
//@with
    same_action(act.as_ref(), Some(&action))
//@ret r
//@ensures P C03,C10 the-payment-complete-update-of-a-failure-that-changed-nothing-is-released-at-once-exactly-when-no-queued-event-still-carries-that-release
    from_monitor_update_completion is None ==> r is None,
    from_monitor_update_completion is Some ==> ({ let a = EventCompletionAction::ReleasePaymentCompleteChannelMonitorUpdate(from_monitor_update_completion->Some_0);
        r == (if exists|j: int| 0 <= j < pending_events@.len() && #[trigger] pending_events@[j].1 == Some(a) { None::<EventCompletionAction> } else { Some(a) }) }),
//@mutant release_run_although_a_queued_event_will_run_it_again
    if !have_action {
//@with
    if have_action || !have_action {
//@end
}
fn main() {}
