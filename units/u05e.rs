//! unit: u05e
//! properties: C05 C07
//! note: which holder commitment the monitor's claim machinery holds and signs (onchaintx.rs / package.rs): provide_latest_holder_tx WHOLE - the new commitment becomes the current one and the one it replaces becomes the previous one (the only two the handler can sign), nothing else moves; update_after_renegotiated_funding_locked WHOLE - after a splice locks, current / previous commitment, channel parameters and channel value are exactly the ones handed in; HolderFundingOutput::build WHOLE - a funding claim carries the commitment and parameters it was built from, the funding script and amount of THOSE parameters; get_maybe_signed_commitment_tx (slice) - the commitment handed to the signer is the claim's own with its own parameters, and only a claim read from an old serialization (without one) falls back to the handler's CURRENT commitment and parameters, never the previous one
//! trusted: the three small functions are extracted whole; env: HolderCommitmentTransaction / ChannelTransactionParameters opaque values (make_funding_redeemscript / channel_value_satoshis / channel_type_features are uninterpreted projections of the parameters); OnchainTxHandler a four-field skeleton; R15 (deep slice) for get_maybe_signed_commitment_tx: the two `let` statements choosing parameters and commitment, verbatim; the signer call itself and add_holder_sig are not modelled
//! trusted: assume_specification for core::mem::replace (std definition)
//! trusted: assume_specification for core::cmp::max / core::cmp::min (std definitions): present in every unit so that a change that introduces them is verified instead of being rejected by the tool
use vstd::prelude::*;
verus! {
use vstd::std_specs::cmp::*;
use core::cmp;
use core::mem::replace;
pub assume_specification<T: core::cmp::Ord>[core::cmp::max::<T>](a: T, b: T) -> (r: T)
    ensures T::obeys_cmp_spec() ==> r == (if b.cmp_spec(&a) == core::cmp::Ordering::Less { a } else { b });
pub assume_specification<T: core::cmp::Ord>[core::cmp::min::<T>](a: T, b: T) -> (r: T)
    ensures T::obeys_cmp_spec() ==> r == (if b.cmp_spec(&a) == core::cmp::Ordering::Less { b } else { a });
pub assume_specification<T>[core::mem::replace::<T>](dest: &mut T, src: T) -> (r: T)
    ensures r == *old(dest), *final(dest) == src;
pub struct HolderCommitmentTransaction { pub id: u64 }
pub struct ScriptBuf { pub id: u64 }
#[derive(Copy)] pub struct ChannelTypeFeatures { pub id: u64 }
pub struct ChannelTransactionParameters { pub id: u64, pub channel_value_satoshis: u64, pub channel_type_features: ChannelTypeFeatures }
pub uninterp spec fn funding_script_of(p: ChannelTransactionParameters) -> ScriptBuf;
impl ChannelTransactionParameters { #[verifier::external_body] pub fn make_funding_redeemscript(&self) -> (r: ScriptBuf) ensures r == funding_script_of(*self) { unimplemented!() } }
impl Clone for ChannelTypeFeatures { #[verifier::external_body] fn clone(&self) -> (r: Self) ensures r == *self { unimplemented!() } }
pub struct OnchainTxHandler { pub channel_value_satoshis: u64, pub channel_transaction_parameters: ChannelTransactionParameters, pub holder_commitment: HolderCommitmentTransaction, pub prev_holder_commitment: Option<HolderCommitmentTransaction>, pub other: u64 }
impl OnchainTxHandler {
//@extract lightning/src/chain/onchaintx.rs :: impl OnchainTxHandler :: fn provide_latest_holder_tx
//@ensures P C05,C07 a-new-holder-commitment-becomes-the-current-one-and-the-one-it-replaces-the-previous-one-nothing-else-moves
    final(self).holder_commitment == tx, final(self).prev_holder_commitment == Some(old(self).holder_commitment),
    final(self).channel_value_satoshis == old(self).channel_value_satoshis, final(self).channel_transaction_parameters == old(self).channel_transaction_parameters, final(self).other == old(self).other,
//@mutant previous_commitment_forgotten_when_a_new_one_arrives
    self.prev_holder_commitment = Some(replace(&mut self.holder_commitment, tx));
//@with
    self.holder_commitment = tx;
//@end
//@extract lightning/src/chain/onchaintx.rs :: impl OnchainTxHandler :: fn update_after_renegotiated_funding_locked
//@ensures P C05,C07 after-a-renegotiated-funding-locks-the-handler-holds-exactly-the-commitments-parameters-and-value-handed-in
    final(self).holder_commitment == current, final(self).prev_holder_commitment == prev,
    final(self).channel_transaction_parameters == channel_parameters, final(self).channel_value_satoshis == channel_parameters.channel_value_satoshis, final(self).other == old(self).other,
//@mutant channel_value_of_the_old_funding_kept
    self.channel_value_satoshis = channel_parameters.channel_value_satoshis;
//@with

//@end
    #[verifier::external_body] pub fn channel_parameters(&self) -> (r: &ChannelTransactionParameters) ensures *r == self.channel_transaction_parameters { unimplemented!() }
    #[verifier::external_body] pub fn current_holder_commitment_tx(&self) -> (r: &HolderCommitmentTransaction) ensures *r == self.holder_commitment { unimplemented!() }
}
//@extract lightning/src/chain/package.rs :: struct HolderFundingOutput
//@end
impl HolderFundingOutput {
//@extract lightning/src/chain/package.rs :: impl HolderFundingOutput :: fn build
//@ret r
//@ensures P C05,C07 a-funding-claim-carries-the-commitment-and-parameters-it-was-built-from-and-the-funding-script-and-amount-of-those-parameters
    r.commitment_tx == Some(commitment_tx), r.channel_parameters == Some(channel_parameters),
    r.funding_redeemscript == funding_script_of(channel_parameters), r.funding_amount_sats == Some(channel_parameters.channel_value_satoshis), r.channel_type_features == channel_parameters.channel_type_features,
//@end
//@extract lightning/src/chain/package.rs :: impl HolderFundingOutput :: fn get_maybe_signed_commitment_tx
//@slice R15
    let channel_parameters = $p:seq; let commitment_tx = $c:seq; let maybe_signed_tx =
//@with
    fn what_is_handed_to_the_signer<'a>(&'a self, onchain_tx_handler: &'a OnchainTxHandler) -> (&'a ChannelTransactionParameters, &'a HolderCommitmentTransaction) {
        let channel_parameters = $p; let commitment_tx = $c; (channel_parameters, commitment_tx) }
//@ret r
//@ensures P C05,C07 the-commitment-signed-for-a-funding-claim-is-the-claims-own-with-its-own-parameters-and-only-a-claim-without-one-falls-back-to-the-handlers-current-commitment-never-the-previous-one
    *r.1 == (if self.commitment_tx is Some { self.commitment_tx->Some_0 } else { onchain_tx_handler.holder_commitment }),
    *r.0 == (if self.channel_parameters is Some { self.channel_parameters->Some_0 } else { onchain_tx_handler.channel_transaction_parameters }),
//@end
}
}
fn main() {}
