//! unit: u12f
//! properties: C12 C10
//! note: hand-written TLV suffixes (FundedChannel, ChannelMonitor, the scorer's ChannelLiquidity): a record type that carries the same-named value on both sides carries it on both sides - the writer puts under type N the field the reader takes from type N (a writer that puts another value of the same type under N round-trips in every test whose two values happen to be equal, and silently exchanges or loses state otherwise)
//! trusted: R21 (TLV tables): from every `write_tlv_fields!` / `encode_tlv_stream!` (writer) and `read_tlv_fields!` / `decode_tlv_stream!` (reader) invocation of a function the extractor takes the records as "TYPE:NAME" (NAME: the record's expression without `self.`, `&`, `*`; the last segment of a plain field path), in source order, restricted to the listed records (`only=`: the records whose value has the same name on both sides on the pinned tree - 34 of 52 for the channel, 20 of 24 for the monitor, 5 of 8 for the scorer; records under another name on one side - `_opt` temporaries, computed values - are outside); the lemmas state that the two lists agree
//! plemma: C12 lemma_channel_tlv_records_carry_the_same_fields_on_both_sides: FundedChannel write / read (the seventeen records whose value is held in a differently named local on one side - the reader's `.._opt` options, the writer's `chan_type` / `serialized_holder_..` temporaries, `_has_0reserve`, `holding_cell_accountable` - are listed under the field's name by `alias=`)
//! plemma: C12 lemma_monitor_tlv_records_carry_the_same_fields_on_both_sides: write_chanmon_internal / ChannelMonitor read (records 25, 39 and 41 under the writer's names by `alias=`: the reader's locals are `payment_preimages_with_info`, `best_block_previous_blocks`, `current_funding_contribution`)
//! plemma: C12 lemma_scorer_tlv_records_carry_the_same_fields_on_both_sides: ChannelLiquidity write / read
//! plemma: C12 lemma_claimable_htlc_tlv_records_carry_the_same_fields_on_both_sides: write_claimable_htlc / (ClaimableHTLC, u64)::read: the part's previous hop, sender-intended value, total received, expiry, keysend preimage and skimmed fee travel under the same record type on both sides (the received value and the payment total are read under other names and are not in the table)
//! plemma: C12 lemma_manager_tlv_records_carry_the_same_fields_on_both_sides: ChannelManager::write / ChannelManagerData::read (16 of 18 records; six of them under names that differ on the two sides - the reader's `pending_intercepted_htlcs_legacy`, `received_network_pubkey`, `claimable_htlc_purposes`, `amountless_claimable_htlc_onion_fields`, `decode_update_add_htlcs_legacy`, `best_block_previous_blocks` and the writer's `decode_update_add_htlcs_opt` are listed under one canonical name each by `alias=`; records 8 and 21 are written from computed expressions and are not in the table)
//! trusted: assume_specification for core::cmp::max / core::cmp::min (std definitions): present in every unit so that a change that introduces them is verified instead of being rejected by the tool
use vstd::prelude::*;
verus! {
use vstd::std_specs::cmp::*;
use core::cmp;
pub assume_specification<T: core::cmp::Ord>[core::cmp::max::<T>](a: T, b: T) -> (r: T)
    ensures T::obeys_cmp_spec() ==> r == (if b.cmp_spec(&a) == core::cmp::Ordering::Less { a } else { b });
pub assume_specification<T: core::cmp::Ord>[core::cmp::min::<T>](a: T, b: T) -> (r: T)
    ensures T::obeys_cmp_spec() ==> r == (if b.cmp_spec(&a) == core::cmp::Ordering::Less { b } else { a });
//@extract lightning/src/ln/channel.rs :: impl Writeable for FundedChannel :: fn write
//@fields tlvwrite channel_tlvs_written only=0:announcement_sigs,1:minimum_depth,3:counterparty_selected_channel_reserve_satoshis,5:config,7:shutdown_scriptpubkey,8:blocked_monitor_updates,9:target_closing_feerate_sats_per_kw,10:monitor_pending_update_adds,11:monitor_pending_finalized_fulfills,12:monitor_pending_tx_signatures,13:channel_creation_height,15:preimages,17:announcement_sigs_state,19:latest_inbound_scid_alias,21:outbound_scid_alias,23:initial_channel_ready_event_emitted,25:user_id_high_opt,27:channel_keys_id,28:holder_max_accepted_htlcs,29:temporary_channel_id,31:channel_pending_event_emitted,38:is_batch_funding,43:malformed_htlcs,49:local_initiated_shutdown,51:is_manual_broadcast,53:funding_tx_broadcast_safe_event_emitted,55:removed_htlc_attribution_data,57:holding_cell_attribution_data,58:interactive_tx_signing_session,59:minimum_depth_override,60:historical_scids,61:fulfill_attribution_data,64:pending_splice,79:pending_outbound_accountable,2:channel_type,4:holder_selected_channel_reserve_satoshis,6:holder_max_htlc_value_in_flight_msat,35:pending_outbound_skimmed_fees,37:holding_cell_skimmed_fees,39:pending_outbound_blinding_points,41:holding_cell_blinding_points,45:holder_commitment_point_next,47:holder_commitment_point_pending_next,63:holder_commitment_point_current,67:pending_outbound_held_htlc_flags,69:holding_cell_held_htlc_flags,70:has_0reserve,71:holder_commitment_point_previous_revoked,73:holder_commitment_point_last_revoked,75:inbound_committed_update_adds,77:holding_cell_accountable_flags alias=2:chan_type>2:channel_type,4:serialized_holder_selected_reserve>4:holder_selected_channel_reserve_satoshis,6:serialized_holder_htlc_max_in_flight>6:holder_max_htlc_value_in_flight_msat
//@mutant skimmed_fees_of_pending_and_parked_htlcs_written_under_each_others_type
    (35, pending_outbound_skimmed_fees, optional_vec),
//@with
    (35, holding_cell_skimmed_fees, optional_vec),
//@mutant attribution_lists_of_inbound_and_outbound_htlcs_written_under_each_others_type
    (55, removed_htlc_attribution_data, optional_vec),
//@with
    (55, fulfill_attribution_data, optional_vec),
//@end
//@extract lightning/src/ln/channel.rs :: impl ReadableArgs<(&'a ES, &'b SP, &'c ChannelTypeFeatures)> for FundedChannel<SP> :: fn read
//@fields tlvread channel_tlvs_read only=0:announcement_sigs,1:minimum_depth,3:counterparty_selected_channel_reserve_satoshis,5:config,7:shutdown_scriptpubkey,8:blocked_monitor_updates,9:target_closing_feerate_sats_per_kw,10:monitor_pending_update_adds,11:monitor_pending_finalized_fulfills,12:monitor_pending_tx_signatures,13:channel_creation_height,15:preimages,17:announcement_sigs_state,19:latest_inbound_scid_alias,21:outbound_scid_alias,23:initial_channel_ready_event_emitted,25:user_id_high_opt,27:channel_keys_id,28:holder_max_accepted_htlcs,29:temporary_channel_id,31:channel_pending_event_emitted,38:is_batch_funding,43:malformed_htlcs,49:local_initiated_shutdown,51:is_manual_broadcast,53:funding_tx_broadcast_safe_event_emitted,55:removed_htlc_attribution_data,57:holding_cell_attribution_data,58:interactive_tx_signing_session,59:minimum_depth_override,60:historical_scids,61:fulfill_attribution_data,64:pending_splice,79:pending_outbound_accountable,2:channel_type,4:holder_selected_channel_reserve_satoshis,6:holder_max_htlc_value_in_flight_msat,35:pending_outbound_skimmed_fees,37:holding_cell_skimmed_fees,39:pending_outbound_blinding_points,41:holding_cell_blinding_points,45:holder_commitment_point_next,47:holder_commitment_point_pending_next,63:holder_commitment_point_current,67:pending_outbound_held_htlc_flags,69:holding_cell_held_htlc_flags,70:has_0reserve,71:holder_commitment_point_previous_revoked,73:holder_commitment_point_last_revoked,75:inbound_committed_update_adds,77:holding_cell_accountable_flags alias=70:_has_0reserve>70:has_0reserve,77:holding_cell_accountable>77:holding_cell_accountable_flags,35:pending_outbound_skimmed_fees_opt>35:pending_outbound_skimmed_fees,37:holding_cell_skimmed_fees_opt>37:holding_cell_skimmed_fees,39:pending_outbound_blinding_points_opt>39:pending_outbound_blinding_points,41:holding_cell_blinding_points_opt>41:holding_cell_blinding_points,45:holder_commitment_point_next_opt>45:holder_commitment_point_next,47:holder_commitment_point_pending_next_opt>47:holder_commitment_point_pending_next,63:holder_commitment_point_current_opt>63:holder_commitment_point_current,67:pending_outbound_held_htlc_flags_opt>67:pending_outbound_held_htlc_flags,69:holding_cell_held_htlc_flags_opt>69:holding_cell_held_htlc_flags,71:holder_commitment_point_previous_revoked_opt>71:holder_commitment_point_previous_revoked,73:holder_commitment_point_last_revoked_opt>73:holder_commitment_point_last_revoked,75:inbound_committed_update_adds_opt>75:inbound_committed_update_adds
//@end
pub proof fn lemma_channel_tlv_records_carry_the_same_fields_on_both_sides() ensures channel_tlvs_written() =~= channel_tlvs_read() {}
//@extract lightning/src/chain/channelmonitor.rs :: fn write_chanmon_internal
//@fields tlvwrite monitor_tlvs_written only=1:funding_spend_confirmed,3:htlcs_resolved_on_chain,5:pending_monitor_events,7:funding_spend_seen,9:counterparty_node_id,11:confirmed_commitment_tx_counterparty_output,13:spendable_txids_confirmed,15:counterparty_fulfilled_htlcs,17:initial_counterparty_commitment_info,19:channel_id,21:balances_empty_height,23:holder_pays_commitment_tx_fee,27:first_negotiated_funding_txo,29:initial_counterparty_commitment_tx,31:channel_parameters,32:pending_funding,33:htlcs_resolved_to_user,34:alternative_funding_confirmed,35:is_manual_broadcast,37:funding_seen_onchain,25:payment_preimages,39:previous_blocks,41:contribution
//@end
//@extract lightning/src/chain/channelmonitor.rs :: impl ReadableArgs for Option :: fn read
//@fields tlvread monitor_tlvs_read only=1:funding_spend_confirmed,3:htlcs_resolved_on_chain,5:pending_monitor_events,7:funding_spend_seen,9:counterparty_node_id,11:confirmed_commitment_tx_counterparty_output,13:spendable_txids_confirmed,15:counterparty_fulfilled_htlcs,17:initial_counterparty_commitment_info,19:channel_id,21:balances_empty_height,23:holder_pays_commitment_tx_fee,27:first_negotiated_funding_txo,29:initial_counterparty_commitment_tx,31:channel_parameters,32:pending_funding,33:htlcs_resolved_to_user,34:alternative_funding_confirmed,35:is_manual_broadcast,37:funding_seen_onchain,25:payment_preimages,39:previous_blocks,41:contribution alias=25:payment_preimages_with_info>25:payment_preimages,39:best_block_previous_blocks>39:previous_blocks,41:current_funding_contribution>41:contribution
//@end
pub proof fn lemma_monitor_tlv_records_carry_the_same_fields_on_both_sides() ensures monitor_tlvs_written() =~= monitor_tlvs_read() {}
//@extract lightning/src/routing/scoring.rs :: impl Writeable for ChannelLiquidity :: fn write
//@fields tlvwrite scorer_tlvs_written only=0:min_liquidity_offset_msat,2:max_liquidity_offset_msat,4:last_updated,9:offset_history_last_updated,11:last_datapoint_time
//@mutant last_datapoint_time_written_as_the_time_the_history_was_updated
    (9, self.offset_history_last_updated, required),
//@with
    (9, self.last_datapoint_time, required),
//@end
//@extract lightning/src/routing/scoring.rs :: impl Readable for ChannelLiquidity :: fn read
//@fields tlvread scorer_tlvs_read only=0:min_liquidity_offset_msat,2:max_liquidity_offset_msat,4:last_updated,9:offset_history_last_updated,11:last_datapoint_time
//@end
pub proof fn lemma_scorer_tlv_records_carry_the_same_fields_on_both_sides() ensures scorer_tlvs_written() =~= scorer_tlvs_read() {}
//@extract lightning/src/ln/channelmanager.rs :: impl Writeable for ChannelManager :: fn write
//@fields tlvwrite manager_tlvs_written only=1:pending_outbound_payments_no_retry,3:pending_outbound_payments,4:pending_claiming_payments,6:monitor_update_blocked_actions_per_peer,7:fake_scid_rand_bytes,10:legacy_in_flight_monitor_updates,11:probing_cookie_secret,15:inbound_payment_id_secret,17:in_flight_monitor_updates,19:peer_storage_dir,2:pending_intercepted_htlcs,5:our_network_pubkey,9:htlc_purposes,13:htlc_onion_fields,14:decode_update_add_htlcs,23:previous_blocks alias=14:decode_update_add_htlcs_opt>14:decode_update_add_htlcs,23:best_block.read().unwrap().previous_blocks>23:previous_blocks
//@mutant held_update_adds_written_under_the_intercepted_htlcs_record
    (2, pending_intercepted_htlcs, option),
//@with
    (2, decode_update_add_htlcs_opt, option),
//@mutant legacy_in_flight_updates_written_under_the_type_of_the_current_ones
    (17, in_flight_monitor_updates, option),
//@with
    (17, legacy_in_flight_monitor_updates, option),
//@end
//@extract lightning/src/ln/channelmanager.rs :: impl ReadableArgs<ChannelManagerDataReadArgs<'a, ES, SP, L>> for ChannelManagerData<SP> :: fn read
//@fields tlvread manager_tlvs_read only=1:pending_outbound_payments_no_retry,3:pending_outbound_payments,4:pending_claiming_payments,6:monitor_update_blocked_actions_per_peer,7:fake_scid_rand_bytes,10:legacy_in_flight_monitor_updates,11:probing_cookie_secret,15:inbound_payment_id_secret,17:in_flight_monitor_updates,19:peer_storage_dir,2:pending_intercepted_htlcs,5:our_network_pubkey,9:htlc_purposes,13:htlc_onion_fields,14:decode_update_add_htlcs,23:previous_blocks alias=2:pending_intercepted_htlcs_legacy>2:pending_intercepted_htlcs,5:received_network_pubkey>5:our_network_pubkey,9:claimable_htlc_purposes>9:htlc_purposes,13:amountless_claimable_htlc_onion_fields>13:htlc_onion_fields,14:decode_update_add_htlcs_legacy>14:decode_update_add_htlcs,23:best_block_previous_blocks>23:previous_blocks
//@end
pub proof fn lemma_manager_tlv_records_carry_the_same_fields_on_both_sides() ensures manager_tlvs_written() =~= manager_tlvs_read() {}
//@extract lightning/src/ln/channelmanager.rs :: fn write_claimable_htlc
//@fields tlvwrite claimable_htlc_tlvs_written only=0:prev_hop,3:sender_intended_value,5:total_value_received,6:cltv_expiry,8:keysend_preimage,10:counterparty_skimmed_fee_msat
//@mutant received_value_written_as_the_sender_intended_one
    (3, htlc.mpp_part.sender_intended_value, required),
//@with
    (3, htlc.mpp_part.value, required),
//@end
//@extract lightning/src/ln/channelmanager.rs :: impl Readable for (ClaimableHTLC, u64) :: fn read
//@fields tlvread claimable_htlc_tlvs_read only=0:prev_hop,3:sender_intended_value,5:total_value_received,6:cltv_expiry,8:keysend_preimage,10:counterparty_skimmed_fee_msat
//@end
pub proof fn lemma_claimable_htlc_tlv_records_carry_the_same_fields_on_both_sides() ensures claimable_htlc_tlvs_written() =~= claimable_htlc_tlvs_read() {}
}
fn main() {}
