//! unit: u15c
//! properties: C15
//! note: Noise handshake acts (peer_channel_encryptor.rs outbound_noise_act / inbound_noise_act / hkdf): an act is accepted only with version 0, a valid key and an authentication tag made under the key both sides derive, and the side that accepts the act the other side produced ends with the same handshake hash, chaining key and temporary key (so the transport keys derived from them agree, or the peer is disconnected)
//! trusted: env: cryptography is uninterpreted: SHA256 (engine stub recording the concatenation of its inputs), ECDH (ecdh(point, secret), with the Diffie-Hellman symmetry ecdh(pt(a), b) == ecdh(pt(b), a) as an axiom), HKDF (hkdf_extract_expand_twice -> two uninterpreted halves), ChaCha20-Poly1305 with empty plaintext (encrypt_with_ad writes the uninterpreted tag(key, n, ad); decrypt_with_ad succeeds iff the received bytes are that tag); PublicKey::from_slice succeeds iff the bytes are the serialization of a key (ser is injective: axiom); NodeSigner::ecdh is the ECDH with the node's secret; LightningError keeps its `action` (the message string is dropped, R10); decrypt_with_ad's error is the source's "Bad MAC" DisconnectPeer (stub postcondition); process_act_three: the actions of its two own refusals are sliced
//! trusted: R8: slice plumbing goes through external_body wrappers with the std meaning: `&act[1..34]` / `&act[34..]` -> sub(act, a, b), `res[1..34].copy_from_slice(x)` / `&mut res[34..]` as the tag destination -> put(res, at, x) / tag_into(res, ..); `x.serialize()[..]` is the 33-byte serialization; R10: `.map_err(|_| E)?` gets an explicit closure signature
//! assume: acts are 50 bytes (the source asserts it)
//! trusted: assume_specification for core::cmp::max / core::cmp::min (std definitions): present in every unit so that a change that introduces them is verified instead of being rejected by the tool
use vstd::prelude::*;
verus! {
use vstd::std_specs::cmp::*;
use core::cmp;
pub assume_specification<T: core::cmp::Ord>[core::cmp::max::<T>](a: T, b: T) -> (r: T)
    ensures T::obeys_cmp_spec() ==> r == (if b.cmp_spec(&a) == core::cmp::Ordering::Less { a } else { b });
pub assume_specification<T: core::cmp::Ord>[core::cmp::min::<T>](a: T, b: T) -> (r: T)
    ensures T::obeys_cmp_spec() ==> r == (if b.cmp_spec(&a) == core::cmp::Ordering::Less { b } else { a });
pub struct Secp256k1 {}
pub struct SecretKey { pub id: u64 }
#[derive(Clone, Copy)] pub struct PublicKey { pub id: u64 }
pub enum ErrorAction { DisconnectPeer { msg: Option<u8> }, IgnoreError, IgnoreAndLog(u8), IgnoreDuplicateGossip, SendErrorMessage { msg: u8 }, SendWarningMessage { msg: u8, log_level: u8 }, DisconnectPeerWithWarning { msg: u8 } }
pub struct LightningError { pub action: ErrorAction }
pub uninterp spec fn pt(k: u64) -> u64;
pub uninterp spec fn ser(p: u64) -> Seq<u8>;
pub uninterp spec fn ecdh(point: u64, secret: u64) -> [u8; 32];
pub uninterp spec fn sha256_spec(b: Seq<u8>) -> [u8; 32];
pub uninterp spec fn hkdf1(ck: [u8; 32], ss: [u8; 32]) -> [u8; 32];
pub uninterp spec fn hkdf2(ck: [u8; 32], ss: [u8; 32]) -> [u8; 32];
pub uninterp spec fn aead_tag(key: [u8; 32], n: u64, ad: Seq<u8>) -> Seq<u8>;
#[verifier::external_body] pub proof fn axiom_dh_symmetry(a: u64, b: u64) ensures ecdh(pt(a), b) == ecdh(pt(b), a) {}
#[verifier::external_body] pub proof fn axiom_ser_injective(p: u64, q: u64) ensures ser(p) == ser(q) ==> p == q {}
#[verifier::external_body] pub proof fn axiom_ser_len(p: u64) ensures ser(p).len() == 33 {}
#[verifier::external_body] pub proof fn axiom_tag_len(key: [u8; 32], n: u64, ad: Seq<u8>) ensures aead_tag(key, n, ad).len() == 16 {}
impl PublicKey {
    #[verifier::external_body] pub fn from_secret_key(ctx: &Secp256k1, k: &SecretKey) -> (r: PublicKey) ensures r.id == pt(k.id) { unimplemented!() }
    #[verifier::external_body] pub fn serialize(&self) -> (r: [u8; 33]) ensures r@ == ser(self.id) { unimplemented!() }
    #[verifier::external_body] pub fn from_slice(b: &[u8]) -> (r: Result<PublicKey, ()>) ensures r is Ok ==> ser(r->Ok_0.id) == b@, (exists|p: u64| ser(p) == b@) ==> r is Ok { unimplemented!() }
}
pub struct SharedSecret { pub v: [u8; 32] }
impl SharedSecret {
    #[verifier::external_body] pub fn new(p: &PublicKey, k: &SecretKey) -> (r: SharedSecret) ensures r.v == ecdh(p.id, k.id) { unimplemented!() }
    pub fn as_ref(&self) -> (r: &[u8; 32]) ensures *r == self.v { &self.v }
}
pub struct Sha256Engine { pub data: Ghost<Seq<u8>> }
impl Sha256Engine { #[verifier::external_body] pub fn input(&mut self, bytes: &[u8]) ensures final(self).data@ == old(self).data@ + bytes@ { unimplemented!() } }
pub struct Sha256 { pub v: [u8; 32] }
impl Sha256 {
    #[verifier::external_body] pub fn engine() -> (r: Sha256Engine) ensures r.data@ == Seq::<u8>::empty() { unimplemented!() }
    #[verifier::external_body] pub fn from_engine(e: Sha256Engine) -> (r: Sha256) ensures r.v == sha256_spec(e.data@) { unimplemented!() }
    pub fn to_byte_array(self) -> (r: [u8; 32]) ensures r == self.v { self.v }
}
#[verifier::external_body] pub fn hkdf_extract_expand_twice(salt: &[u8; 32], ikm: &[u8; 32]) -> (r: ([u8; 32], [u8; 32])) ensures r.0 == hkdf1(*salt, *ikm), r.1 == hkdf2(*salt, *ikm) { unimplemented!() }
pub enum Recipient { Node, PhantomNode }
pub struct NodeSignerStub { pub secret: u64 }
impl NodeSignerStub { #[verifier::external_body] pub fn ecdh(&self, r: Recipient, p: &PublicKey, tweak: Option<()>) -> (o: Result<SharedSecret, ()>) ensures o is Ok ==> o->Ok_0.v == ecdh(p.id, self.secret) { unimplemented!() } }
pub enum NoiseSecretKey<'a, 'b> { InMemory(&'a SecretKey), NodeSigner(&'b NodeSignerStub) }
pub open spec fn secret_of(k: NoiseSecretKey) -> u64 { match k { NoiseSecretKey::InMemory(s) => s.id, NoiseSecretKey::NodeSigner(n) => n.secret } }
pub struct BidirectionalNoiseState { pub h: [u8; 32], pub ck: [u8; 32] }
#[verifier::external_body] pub fn sub(s: &[u8], a: usize, b: usize) -> (r: &[u8]) requires a <= b <= s@.len() ensures r@ == s@.subrange(a as int, b as int) { unimplemented!() }
#[verifier::external_body] pub fn put(res: &mut [u8; 50], at: usize, x: &[u8]) requires at + x@.len() <= 50 ensures final(res)@ == old(res)@.subrange(0, at as int) + x@ + old(res)@.subrange(at + x@.len(), 50) { unimplemented!() }
pub struct PeerChannelEncryptor {}
impl PeerChannelEncryptor {
    // encrypt_with_ad / decrypt_with_ad with an empty plaintext, as the acts use them (res is the 16-byte tag slot / empty)
    #[verifier::external_body] pub fn encrypt_tag_into(res: &mut [u8; 50], at: usize, n: u64, key: &[u8; 32], h: &[u8; 32])
        requires at == 34 ensures final(res)@ == old(res)@.subrange(0, 34) + aead_tag(*key, n, h@) { unimplemented!() }
    #[verifier::external_body] pub fn decrypt_with_ad(res: &mut [u8; 0], n: u64, key: &[u8; 32], h: &[u8; 32], cyphertext: &[u8]) -> (r: Result<(), LightningError>)
        ensures r is Ok <==> cyphertext@ == aead_tag(*key, n, h@), r is Err ==> r->Err_0.action is DisconnectPeer { unimplemented!() }
//@extract lightning/src/ln/peer_channel_encryptor.rs :: impl PeerChannelEncryptor :: fn hkdf
//@ret r
//@ensures A
    final(state).ck == hkdf1(old(state).ck, ss.v), r == hkdf2(old(state).ck, ss.v), final(state).h == old(state).h,
//@end
}
// the handshake transcript after a key and then the tag of an act have been mixed in
pub open spec fn h_key(h: [u8; 32], key: u64) -> [u8; 32] { sha256_spec((Seq::<u8>::empty() + h@) + ser(key)) }
pub open spec fn h_tag(h: [u8; 32], tag: Seq<u8>) -> [u8; 32] { sha256_spec((Seq::<u8>::empty() + h@) + tag) }
impl PeerChannelEncryptor {
//@extract lightning/src/ln/peer_channel_encryptor.rs :: impl PeerChannelEncryptor :: fn outbound_noise_act
//@rw R5
    <T: secp256k1::Signing>( secp_ctx: &Secp256k1<T>,
//@with
    ( secp_ctx: &Secp256k1,
//@rw * R8
    &our_pub.serialize()[..]
//@with
    &our_pub.serialize()
//@rw R8
    res[1..34].copy_from_slice(&our_pub.serialize());
//@with
    put(&mut res, 1, &our_pub.serialize());
//@rw R8
    PeerChannelEncryptor::encrypt_with_ad(&mut res[34..], 0, &temp_k, &state.h, &[0; 0]);
//@with
    PeerChannelEncryptor::encrypt_tag_into(&mut res, 34, 0, &temp_k, &state.h);
//@rw R8
    sha.input(&res[34..]);
//@with
    sha.input(sub(&res, 34, 50));
//@ret r
//@ensures P C15 an-act-carries-version-0-our-key-and-the-tag-under-the-key-derived-from-the-shared-secret-over-the-transcript-so-far
    r.0@ == (seq![0u8] + ser(pt(our_key.id))) + aead_tag(r.1, 0, h_key(old(state).h, pt(our_key.id))@),
    r.1 == hkdf2(old(state).ck, ecdh(their_key.id, our_key.id)),
    final(state).ck == hkdf1(old(state).ck, ecdh(their_key.id, our_key.id)),
    final(state).h == h_tag(h_key(old(state).h, pt(our_key.id)), aead_tag(r.1, 0, h_key(old(state).h, pt(our_key.id))@)),
//@at body_start
    proof { axiom_ser_len(pt(our_key.id)); axiom_tag_len(hkdf2(state.ck, ecdh(their_key.id, our_key.id)), 0, h_key(state.h, pt(our_key.id))@); }
//@at after `let mut res = [0; 50];`
    let ghost res0 = res@;
//@at before `(res, temp_k)`
    proof {
        assert(res@.subrange(34, 50) =~= aead_tag(temp_k, 0, h_key(old(state).h, pt(our_key.id))@));
        assert(res@ =~= (seq![0u8] + ser(pt(our_key.id))) + aead_tag(temp_k, 0, h_key(old(state).h, pt(our_key.id))@));
    }
//@end
//@extract lightning/src/ln/peer_channel_encryptor.rs :: impl PeerChannelEncryptor :: fn inbound_noise_act
//@rw R5
    fn inbound_noise_act<'a, 'b, NS: NodeSigner>( state: &mut BidirectionalNoiseState, act: &[u8], secret_key: NoiseSecretKey<'a, 'b, NS>, )
//@with
    fn inbound_noise_act<'a, 'b>( state: &mut BidirectionalNoiseState, act: &[u8], secret_key: NoiseSecretKey<'a, 'b>, )
//@strip msgs
//@rw * R10
    LightningError { err: $m:seq, action:
//@with
    LightningError { action:
//@rw R8
    PublicKey::from_slice(&act[1..34])
//@with
    PublicKey::from_slice(sub(act, 1, 34))
//@rw R8
    sha.input(&their_pub.serialize()[..]);
//@with
    sha.input(&their_pub.serialize());
//@rw * R8
    &act[34..]
//@with
    sub(act, 34, 50)
//@rw R10
    .map_err(|_| $e:seq)?
//@with
    .map_err(|_e: ()| -> (o: LightningError) ensures o.action is DisconnectPeer { $e })?
//@ret r
//@requires
    act@.len() == 50,
//@ensures P C15 an-act-is-accepted-only-with-version-0-a-valid-key-and-the-tag-made-under-the-key-derived-from-the-shared-secret-over-the-same-transcript
    r is Ok ==> act@[0] == 0 && ser(r->Ok_0.0.id) == act@.subrange(1, 34)
        && r->Ok_0.1 == hkdf2(old(state).ck, ecdh(r->Ok_0.0.id, secret_of(secret_key)))
        && act@.subrange(34, 50) == aead_tag(r->Ok_0.1, 0, h_key(old(state).h, r->Ok_0.0.id)@)
        && final(state).ck == hkdf1(old(state).ck, ecdh(r->Ok_0.0.id, secret_of(secret_key)))
        && final(state).h == h_tag(h_key(old(state).h, r->Ok_0.0.id), act@.subrange(34, 50)),
//@ensures P C15 every-reason-for-refusing-a-handshake-act-drops-the-connection
    r is Err ==> r->Err_0.action is DisconnectPeer,
//@mutant tag_checked_against_the_transcript_without_the_key
    PeerChannelEncryptor::decrypt_with_ad(&mut dec, 0, &temp_k, &state.h, &act[34..])?;
//@with
    PeerChannelEncryptor::decrypt_with_ad(&mut dec, 0, &temp_k, &state.ck, &act[34..])?;
//@mutant version_byte_not_checked
    if act[0] != 0 {
//@with
    if act[0] > 1 {
//@end
}
//@extract lightning/src/ln/peer_channel_encryptor.rs :: impl PeerChannelEncryptor :: fn process_act_three
//@strip msgs
//@slice R15
    if act_three[0] != 0 { return Err(LightningError { err: $m:seq, action: $a:seq, }); }
//@with
    fn action_on_unknown_act_three_version() -> ErrorAction { $a }
//@ret r
//@ensures P C15 an-act-three-with-an-unknown-version-byte-drops-the-connection
    r is DisconnectPeer,
//@end
//@extract lightning/src/ln/peer_channel_encryptor.rs :: impl PeerChannelEncryptor :: fn process_act_three
//@strip msgs
//@slice R15
    Err(_) => { return Err(LightningError { err: format!("Bad node_id from peer, {}", $x:seq), action: $a:seq, }) },
//@with
    fn action_on_bad_node_id_in_act_three() -> ErrorAction { $a }
//@ret r
//@ensures P C15 an-act-three-carrying-an-invalid-node-id-drops-the-connection
    r is DisconnectPeer,
//@end
// lock step: the responder that receives the act an initiator produced from the same transcript and chaining key accepts it and ends in
// the same state with the same temporary key (stated over the two contracts above)
pub proof fn lemma_act_accepted_in_lock_step(h: [u8; 32], ck: [u8; 32], e: u64, s: u64)
    ensures ({
        let k_out = hkdf2(ck, ecdh(pt(s), e));            // initiator: its ephemeral secret e against the responder's key pt(s)
        let k_in = hkdf2(ck, ecdh(pt(e), s));             // responder: the received key pt(e) against its own secret s
        k_out == k_in && hkdf1(ck, ecdh(pt(s), e)) == hkdf1(ck, ecdh(pt(e), s))
            && aead_tag(k_out, 0, h_key(h, pt(e))@) == aead_tag(k_in, 0, h_key(h, pt(e))@)
    })
{ axiom_dh_symmetry(s, e); }
}
fn main() {}
