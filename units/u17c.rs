//! unit: u17c
//! properties: C17
//! note: NetworkGraph::update_channel_internal, what an accepted channel_update leaves in the graph (slices of the tail): the stored ChannelUpdateInfo carries exactly the update's own policy - timestamp, CLTV delta, HTLC minimum and maximum, base and proportional fee, each in its own field - and the enabled bit computed from the flags; it is stored in the direction the update's flags name (the direction whose node signed it, u17) and the OTHER direction is left as it was; the full message is kept for relay only when its excess data is short enough, and then it is the message that was received
//! trusted: R15 (deep slices): the statements `let last_update_message = ..;`, `let new_channel_info = Some(ChannelUpdateInfo { .. });` and the `if msg.channel_flags & 1 == 1 { .. } else { .. }` that stores it, verbatim as functions of the message, the computed flag and the channel; env: UnsignedChannelUpdate / ChannelUpdateInfo / RoutingFees field skeletons, the signed message an opaque clonable value; MAX_EXCESS_BYTES_FOR_RELAY folded from the source
//! trusted: assume_specification for core::cmp::max / core::cmp::min (std definitions): present in every unit so that a change that introduces them is verified instead of being rejected by the tool
use vstd::prelude::*;
verus! {
use vstd::std_specs::cmp::*;
use core::cmp;
pub assume_specification<T: core::cmp::Ord>[core::cmp::max::<T>](a: T, b: T) -> (r: T)
    ensures T::obeys_cmp_spec() ==> r == (if b.cmp_spec(&a) == core::cmp::Ordering::Less { a } else { b });
pub assume_specification<T: core::cmp::Ord>[core::cmp::min::<T>](a: T, b: T) -> (r: T)
    ensures T::obeys_cmp_spec() ==> r == (if b.cmp_spec(&a) == core::cmp::Ordering::Less { b } else { a });
//@const lightning/src/routing/gossip.rs MAX_EXCESS_BYTES_FOR_RELAY
#[derive(Copy, PartialEq, Eq)] pub struct ChannelUpdate { pub id: u64 }
impl Clone for ChannelUpdate { fn clone(&self) -> (r: Self) ensures r == *self { *self } }
#[verifier::external_body] pub fn cloned_opt(o: Option<&ChannelUpdate>) -> (r: Option<ChannelUpdate>) ensures r == (match o { Some(m) => Some(*m), None => None }) { unimplemented!() }
#[derive(Clone, Copy, PartialEq, Eq)] pub struct RoutingFees { pub base_msat: u32, pub proportional_millionths: u32 }
pub struct UnsignedChannelUpdate { pub short_channel_id: u64, pub timestamp: u32, pub message_flags: u8, pub channel_flags: u8, pub cltv_expiry_delta: u16, pub htlc_minimum_msat: u64, pub htlc_maximum_msat: u64, pub fee_base_msat: u32, pub fee_proportional_millionths: u32, pub excess_data: Vec<u8> }
#[derive(Clone, Copy, PartialEq, Eq)] pub struct ChannelUpdateInfo { pub enabled: bool, pub last_update: u32, pub cltv_expiry_delta: u16, pub htlc_minimum_msat: u64, pub htlc_maximum_msat: u64, pub fees: RoutingFees, pub last_update_message: Option<ChannelUpdate> }
pub struct ChannelInfo { pub one_to_two: Option<ChannelUpdateInfo>, pub two_to_one: Option<ChannelUpdateInfo>, pub node_one: u64, pub node_two: u64 }
//@extract lightning/src/routing/gossip.rs :: impl NetworkGraph :: fn update_channel_internal
//@slice R15
    let last_update_message = $e:seq; let new_channel_info = Some(ChannelUpdateInfo {
//@with
    fn message_kept_for_relay(msg: &UnsignedChannelUpdate, full_msg: Option<&ChannelUpdate>) -> Option<ChannelUpdate> { let last_update_message = $e; last_update_message }
//@rw R6 ?
    full_msg.cloned()
//@with
    cloned_opt(full_msg)
//@ret r
//@ensures P C17 the-update-is-kept-for-relay-as-received-unless-its-excess-data-is-too-long
    r == (if msg.excess_data@.len() <= MAX_EXCESS_BYTES_FOR_RELAY { match full_msg { Some(m) => Some(*m), None => None } } else { None }),
//@end
//@extract lightning/src/routing/gossip.rs :: impl NetworkGraph :: fn update_channel_internal
//@slice R15
    let new_channel_info = Some(ChannelUpdateInfo { $f:any });
//@with
    fn policy_stored_for_an_accepted_update(msg: &UnsignedChannelUpdate, chan_enabled: bool, last_update_message: Option<ChannelUpdate>) -> Option<ChannelUpdateInfo> { let new_channel_info = Some(ChannelUpdateInfo { $f }); new_channel_info }
//@ret r
//@ensures P C17 the-policy-stored-for-a-direction-is-exactly-the-accepted-updates-own-each-value-in-its-own-field
    r == Some(ChannelUpdateInfo { enabled: chan_enabled, last_update: msg.timestamp, cltv_expiry_delta: msg.cltv_expiry_delta, htlc_minimum_msat: msg.htlc_minimum_msat, htlc_maximum_msat: msg.htlc_maximum_msat,
        fees: RoutingFees { base_msat: msg.fee_base_msat, proportional_millionths: msg.fee_proportional_millionths }, last_update_message }),
//@mutant htlc_minimum_and_maximum_stored_in_each_others_field
    htlc_minimum_msat: msg.htlc_minimum_msat, htlc_maximum_msat: msg.htlc_maximum_msat,
//@with
    htlc_minimum_msat: msg.htlc_maximum_msat, htlc_maximum_msat: msg.htlc_minimum_msat,
//@end
//@extract lightning/src/routing/gossip.rs :: impl NetworkGraph :: fn update_channel_internal
//@slice R15
    if $c:cond { channel.$x:ident = new_channel_info; } else { channel.$y:ident = new_channel_info; }
//@with
    fn store_the_policy_in_its_direction(msg: &UnsignedChannelUpdate, channel: &mut ChannelInfo, new_channel_info: Option<ChannelUpdateInfo>) { if $c { channel.$x = new_channel_info; } else { channel.$y = new_channel_info; } }
//@ensures P C17 an-accepted-update-replaces-the-policy-of-the-direction-its-flags-name-and-leaves-the-other-direction-alone
    msg.channel_flags & 1 == 1 ==> final(channel).two_to_one == new_channel_info && final(channel).one_to_two == old(channel).one_to_two,
    msg.channel_flags & 1 != 1 ==> final(channel).one_to_two == new_channel_info && final(channel).two_to_one == old(channel).two_to_one,
    final(channel).node_one == old(channel).node_one && final(channel).node_two == old(channel).node_two,
//@mutant policy_stored_in_the_other_direction
    channel.two_to_one = new_channel_info; } else { channel.one_to_two = new_channel_info; }
//@with
    channel.one_to_two = new_channel_info; } else { channel.two_to_one = new_channel_info; }
//@end
}
fn main() {}
