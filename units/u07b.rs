//! unit: u07b
//! properties: C06 C07 C11
//! note: claim aggregation in OnchainTxHandler::update_claims_view_from_requests: merging claim requests never loses or duplicates an input, whatever can_merge_with answers
//! trusted: R15 (deep slice): the aggregation loop nest of update_claims_view_from_requests verbatim as a function of the request vector; the two tests of the time-lock split are extracted as two further slices; duplicate filtering before it and claim generation after it are dropped and not claimed
//! trusted: R15 (deep slices): update_claims_view_from_matched_txn: the body of `if at_least_one_drop { .. }` (the statement that records the split request as a bump candidate and the removal of its pending claim events) and the body of the loop that reschedules requests whose timer expired, verbatim, as functions of the candidate map, the claim id and the request; the `#[cfg(debug_assertions)]` counting assertions are dropped (cfg debug_assertions=false for these two extracts); the candidate map is an environment type: insert/remove have the std contracts, the entry API is over-approximated (key present afterwards, present values unchanged, absent value unconstrained); matching confirmed inputs to requests, split_package, the ANTI_REORG_DELAY bookkeeping and generate_claim are dropped and not claimed
//! trusted: R15 (deep slices): update_claims_view_from_matched_txn: the two OnchainEventEntry constructions (the function-local macro clean_claim_request_after_safety_delay! and the ContentiousOutpoint loop), verbatim as functions of the transaction, the confirming block and the current height (Txid/BlockHash/ClaimId/PackageTemplate skeletons, compute_txid external_body)
//! trusted: R15 (deep slice): blocks_disconnected: the body of `if request.can_merge_with(&package, new_best_height + 1) { .. continue; }` in the ContentiousOutpoint arm, verbatim as a function of the request, the package put back and the candidate map (the `continue` is the return value true); PackageTemplate is the skeleton {ghost outpoints, height_timer}, can_merge_with is an uninterpreted predicate, merge_package appends the other package's outpoints when that predicate holds; R8: `pending_claim.clone()` on the tuple key is the external_body wrapper clone_key (Verus has no Clone for tuples)
//! trusted: R6: `for i in (1..requests.len()).rev() { B }` becomes a down-counting while loop over the range evaluated once (std semantics of Range/Rev), `for j in 0..i` a counting loop; `requests[j].merge_package(..)` is written `requests.get_mut(j).unwrap().merge_package(..)` (IndexMut) with its result bound to a temporary before the `if let` so that proof hints can sit between (R9, same evaluation order); PackageTemplate is a stub with a ghost input count; can_merge_with is external_body with an unconstrained answer; merge_package is external_body with the contract proved for the real function in unit u07 (Ok: inputs are concatenated; Err: self unchanged and the argument handed back) - its pkg_wf precondition is not re-established here (assumed preserved by merging)
//! trusted: assume_specification for core::cmp::max / core::cmp::min (std definitions): present in every unit so that a change that introduces them is verified instead of being rejected by the tool
use vstd::prelude::*;
verus! {
use vstd::std_specs::cmp::*;
use core::cmp;
pub assume_specification<T: core::cmp::Ord>[core::cmp::max::<T>](a: T, b: T) -> (r: T)
    ensures T::obeys_cmp_spec() ==> r == (if b.cmp_spec(&a) == core::cmp::Ordering::Less { a } else { b });
pub assume_specification<T: core::cmp::Ord>[core::cmp::min::<T>](a: T, b: T) -> (r: T)
    ensures T::obeys_cmp_spec() ==> r == (if b.cmp_spec(&a) == core::cmp::Ordering::Less { b } else { a });
pub struct PackageTemplate { pub n_inputs: Ghost<int> }
impl PackageTemplate {
    #[verifier::external_body] pub fn can_merge_with(&self, other: &PackageTemplate, cur_height: u32) -> (r: bool) { unimplemented!() }
    #[verifier::external_body] pub fn merge_package(&mut self, merge_from: PackageTemplate, cur_height: u32) -> (r: Result<(), PackageTemplate>)
        ensures r is Ok ==> final(self).n_inputs@ == old(self).n_inputs@ + merge_from.n_inputs@,
            r is Err ==> final(self).n_inputs@ == old(self).n_inputs@ && r->Err_0.n_inputs@ == merge_from.n_inputs@
    { unimplemented!() }
}
pub open spec fn total_inputs(s: Seq<PackageTemplate>) -> int decreases s.len() {
    if s.len() == 0 { 0 } else { total_inputs(s.drop_last()) + s.last().n_inputs@ }
}
pub proof fn lemma_total_remove(s: Seq<PackageTemplate>, i: int)
    requires 0 <= i < s.len()
    ensures total_inputs(s) == total_inputs(s.remove(i)) + s[i].n_inputs@
    decreases s.len()
{
    if i == s.len() - 1 { assert(s.remove(i) =~= s.drop_last()); }
    else { lemma_total_remove(s.drop_last(), i); assert(s.remove(i).drop_last() =~= s.drop_last().remove(i)); assert(s.remove(i).last() == s.last()); }
}
pub proof fn lemma_total_update(s: Seq<PackageTemplate>, j: int, p: PackageTemplate)
    requires 0 <= j < s.len()
    ensures total_inputs(s.update(j, p)) == total_inputs(s) - s[j].n_inputs@ + p.n_inputs@
    decreases s.len()
{
    if j == s.len() - 1 { assert(s.update(j, p).drop_last() =~= s.drop_last()); }
    else { lemma_total_update(s.drop_last(), j, p); assert(s.update(j, p).drop_last() =~= s.drop_last().update(j, p)); assert(s.update(j, p).last() == s.last()); }
}
pub proof fn lemma_total_insert(s: Seq<PackageTemplate>, i: int, p: PackageTemplate)
    requires 0 <= i <= s.len()
    ensures total_inputs(s.insert(i, p)) == total_inputs(s) + p.n_inputs@
{ lemma_total_remove(s.insert(i, p), i); assert(s.insert(i, p).remove(i) =~= s); }

//@extract lightning/src/chain/onchaintx.rs :: impl OnchainTxHandler :: fn update_claims_view_from_requests
//@slice R15
    for i in (1..requests.len()).rev() { for j in 0..i { $body:any } }
//@with
    fn aggregate_requests(requests: &mut Vec<PackageTemplate>, cur_height: u32) {
        let ghost total0 = total_inputs(requests@);
        let mut __i: usize = requests.len();
        while __i > 1
            invariant __i <= requests@.len() || requests@.len() == 0 || __i <= 1, __i <= old(requests)@.len(), total_inputs(requests@) == total0,
                __i > 1 ==> __i <= requests@.len(),
            decreases __i
        {
            __i = __i - 1;
            let i = __i;
            let mut j: usize = 0;
            while j < i
                invariant_except_break i < requests@.len(),
                invariant i >= 1, j <= i, total_inputs(requests@) == total0,
                ensures total_inputs(requests@) == total0, i <= requests@.len(),
                decreases i - j
            {
                $body
                j = j + 1;
            }
        }
    }
//@rw R9
    let merge = requests.remove(i);
//@with
    proof { lemma_total_remove(requests@, i as int); }
    let merge = requests.remove(i);
//@rw R9
    if let Err(rejected) = requests[j].merge_package(merge, cur_height) { $e:any } else { break; }
//@with
    let ghost __b = requests@;
    let __res = requests.get_mut(j).unwrap().merge_package(merge, cur_height);
    proof { assert(requests@ =~= __b.update(j as int, requests@[j as int])); lemma_total_update(__b, j as int, requests@[j as int]); }
    if let Err(rejected) = __res { proof { lemma_total_insert(requests@, i as int, rejected); } $e } else { break; }
//@rw R10 ?
    debug_assert!(false);
//@with
    
//@ensures P C06,C07 aggregating-claim-requests-neither-loses-nor-duplicates-an-input
    total_inputs(final(requests)@) == total_inputs(old(requests)@),
//@mutant rejected_package_dropped
    requests.insert(i, rejected);
//@with
    let _ = rejected;
//@end

// a claim whose locktime is in the future waits; everything due up to and including the current height is claimed now
//@extract lightning/src/chain/onchaintx.rs :: impl OnchainTxHandler :: fn update_claims_view_from_requests
//@slice R15
    let package_locktime = req.package_locktime(cur_height); if $c:cond { $delay:any } else { preprocessed_requests.push(req); }
//@with
    fn claim_is_delayed(package_locktime: u32, cur_height: u32) -> bool { $c }
//@ret r
//@ensures P C06,C07 a-claim-is-held-back-exactly-while-its-locktime-is-above-the-current-height
    r == (package_locktime > cur_height),
//@mutant claim_due_now_held_back
    package_locktime > cur_height
//@with
    package_locktime >= cur_height
//@end
//@extract lightning/src/chain/onchaintx.rs :: impl OnchainTxHandler :: fn update_claims_view_from_requests
//@slice R15
    let remaining_locked_packages = self.locktimed_packages.split_off(&($k));
//@with
    fn first_height_still_locked(cur_height: u32) -> u32 { $k }
//@ret r
//@requires
    cur_height < u32::MAX,
//@ensures P C06,C07 delayed-claims-are-released-as-soon-as-the-chain-reaches-their-locktime
    r == cur_height + 1,
//@end

// ---- update_claims_view_from_matched_txn: the request a replacement claim is generated from ----------
// `bump_candidates` holds a copy of every request whose claim has to be regenerated at the end of the function;
// the copy must be the request as it is now (after every outpoint a confirmed transaction spent was split off).
pub mod bump_snapshot {
use vstd::prelude::*;
pub struct ClaimId(pub [u8; 32]);
impl Clone for ClaimId { #[verifier::external_body] fn clone(&self) -> (r: Self) ensures r == *self { unimplemented!() } }
impl Copy for ClaimId {}
impl PartialEq for ClaimId { #[verifier::external_body] fn eq(&self, o: &ClaimId) -> (r: bool) { self.0 == o.0 } }
pub struct PackageTemplate { pub outpoints: Ghost<Seq<int>>, pub height_timer: u32 }
impl Clone for PackageTemplate { #[verifier::external_body] fn clone(&self) -> (r: Self) ensures r == *self { unimplemented!() } }
impl PackageTemplate {
    #[verifier::external_body] pub fn timer(&self) -> (r: u32) ensures r == self.height_timer { unimplemented!() }
}
// environment: the HashMap<ClaimId, PackageTemplate> of the source. insert has the std contract; the entry API is
// over-approximated (sound, weaker than std): after `entry(k)` the key is present, a value that was present is unchanged,
// a value that was absent is unconstrained, and or_insert / or_insert_with / or_default on the entry change nothing further.
pub struct CandidateMap { pub m: Ghost<Map<ClaimId, PackageTemplate>> }
pub struct Entry {}
impl Entry {
    #[verifier::external_body] pub fn or_insert_with<F: FnOnce() -> PackageTemplate>(self, f: F) requires f.requires(()) { unimplemented!() }
    #[verifier::external_body] pub fn or_insert(self, v: PackageTemplate) { unimplemented!() }
}
impl CandidateMap {
    #[verifier::external_body] pub fn insert(&mut self, k: ClaimId, v: PackageTemplate) -> (r: Option<PackageTemplate>)
        ensures final(self).m@ == old(self).m@.insert(k, v) { unimplemented!() }
    #[verifier::external_body] pub fn entry(&mut self, k: ClaimId) -> (e: Entry)
        ensures final(self).m@.dom() == old(self).m@.dom().insert(k),
            forall|o: ClaimId| old(self).m@.contains_key(o) ==> #[trigger] final(self).m@[o] == old(self).m@[o] { unimplemented!() }
    #[verifier::external_body] pub fn remove(&mut self, k: &ClaimId) -> (r: Option<PackageTemplate>)
        ensures final(self).m@ == old(self).m@.remove(*k) { unimplemented!() }
}
// the same map in blocks_disconnected is keyed by the claim id paired with the height the claim was first seen at
pub struct ReorgCandidateMap { pub m: Ghost<Map<(ClaimId, u32), PackageTemplate>> }
impl ReorgCandidateMap {
    #[verifier::external_body] pub fn insert(&mut self, k: (ClaimId, u32), v: PackageTemplate) -> (r: Option<PackageTemplate>)
        ensures final(self).m@ == old(self).m@.insert(k, v) { unimplemented!() }
    #[verifier::external_body] pub fn entry(&mut self, k: (ClaimId, u32)) -> (e: Entry)
        ensures final(self).m@.dom() == old(self).m@.dom().insert(k),
            forall|o: (ClaimId, u32)| old(self).m@.contains_key(o) ==> #[trigger] final(self).m@[o] == old(self).m@[o] { unimplemented!() }
}
#[verifier::external_body] pub fn clone_key(k: &(ClaimId, u32)) -> (r: (ClaimId, u32)) ensures r == *k { unimplemented!() }
pub struct MergeError {}
pub uninterp spec fn can_merge_spec(r: PackageTemplate, p: PackageTemplate, h: u32) -> bool;
impl PackageTemplate {
    #[verifier::external_body] pub fn can_merge_with(&self, other: &PackageTemplate, cur_height: u32) -> (r: bool) ensures r == can_merge_spec(*self, *other, cur_height) { unimplemented!() }
    #[verifier::external_body] pub fn merge_package(&mut self, other: PackageTemplate, cur_height: u32) -> (r: Result<(), MergeError>)
        ensures can_merge_spec(*old(self), other, cur_height) ==> r is Ok && final(self).outpoints@ == old(self).outpoints@ + other.outpoints@ && final(self).height_timer == old(self).height_timer,
            !(r is Ok) ==> *final(self) == *old(self) { unimplemented!() }
}
//@extract lightning/src/chain/onchaintx.rs :: impl OnchainTxHandler :: fn blocks_disconnected
//@slice R15
    if request.can_merge_with(&package, new_best_height + 1) { $upd:straight continue; }
//@with
    fn outpoint_put_back_by_a_reorg_rejoins_its_claim(bump_candidates: &mut ReorgCandidateMap, pending_claim: &(ClaimId, u32), request: &mut PackageTemplate, package: PackageTemplate, new_best_height: u32) -> bool {
        if request.can_merge_with(&package, new_best_height + 1) { $upd return true; } false }
//@rw R8 *
    pending_claim.clone()
//@with
    clone_key(pending_claim)
//@ret r
//@requires
    new_best_height < u32::MAX,
//@ensures P C11 after-a-reorg-put-outpoints-back-into-a-request-the-claim-is-regenerated-from-the-request-as-it-is-now
    r == can_merge_spec(*old(request), package, (new_best_height + 1) as u32),
    r ==> final(request).outpoints@ == old(request).outpoints@ + package.outpoints@
        && final(bump_candidates).m@ =~= old(bump_candidates).m@.insert(*pending_claim, *final(request)),
    !r ==> *final(request) == *old(request) && final(bump_candidates).m@ == old(bump_candidates).m@,
//@mutant snapshot_kept_from_the_first_outpoint_put_back
    bump_candidates.insert(pending_claim.clone(), request.clone());
//@with
    bump_candidates.entry(pending_claim.clone()).or_insert_with(|| request.clone());
//@mutant outpoint_put_back_is_not_merged
    assert!(request.merge_package(package, new_best_height + 1).is_ok());
//@with
    assert!(request.can_merge_with(&package, new_best_height + 1));
//@end
pub struct ClaimEvents {}
impl ClaimEvents { #[verifier::external_body] pub fn retain<F: FnMut(&(ClaimId, u8)) -> bool>(&mut self, f: F) { unimplemented!() } }
pub struct OnchainTxHandler { pub pending_claim_events: ClaimEvents }
impl OnchainTxHandler {
//@extract lightning/src/chain/onchaintx.rs :: impl OnchainTxHandler :: fn update_claims_view_from_matched_txn
//@cfg debug_assertions=false
//@slice R15
    if at_least_one_drop { $upd:straight }
//@with
    fn candidate_after_split(&mut self, bump_candidates: &mut CandidateMap, claim_id: &ClaimId, request: &mut PackageTemplate) { $upd }
//@ensures P C06,C07 after-a-confirmed-transaction-split-outpoints-off-a-request-the-claim-is-regenerated-from-the-request-as-it-is-now
    final(bump_candidates).m@ =~= old(bump_candidates).m@.insert(*claim_id, *old(request)),
    *final(request) == *old(request),
//@mutant snapshot_kept_from_the_first_split
    if at_least_one_drop { bump_candidates.insert(*claim_id, request.clone());
//@with
    if at_least_one_drop { bump_candidates.entry(*claim_id).or_insert_with(|| request.clone());
//@mutant candidate_not_recorded
    if at_least_one_drop { bump_candidates.insert(*claim_id, request.clone());
//@with
    if at_least_one_drop { 
//@end
//@extract lightning/src/chain/onchaintx.rs :: impl OnchainTxHandler :: fn update_claims_view_from_matched_txn
//@cfg debug_assertions=false
//@slice R15
    for (claim_id, request) in self.pending_claim_requests.iter() { $body:straight } if !bump_candidates.is_empty()
//@with
    fn candidate_when_timer_expired(bump_candidates: &mut CandidateMap, claim_id: &ClaimId, request: &PackageTemplate, cur_height: u32) { $body }
//@ensures P C06,C07 a-request-whose-timer-has-expired-is-regenerated-from-the-request-as-it-is-now-and-no-other-candidate-is-touched
    cur_height >= request.height_timer ==> final(bump_candidates).m@ =~= old(bump_candidates).m@.insert(*claim_id, *request),
    cur_height < request.height_timer ==> final(bump_candidates).m@ =~= old(bump_candidates).m@,
//@mutant expired_timer_not_rescheduled_at_the_timer_height
    cur_height >= request.timer()
//@with
    cur_height > request.timer()
//@end
}
}
// ---- what is remembered about a confirmed spend of outpoints we were claiming: the block that CONFIRMED it --------------------
pub mod matched_events {
use vstd::prelude::*;
#[derive(Clone, Copy)] pub struct Txid(pub u64);
#[derive(Clone, Copy)] pub struct BlockHash(pub u64);
#[derive(Clone, Copy)] pub struct ClaimId(pub u64);
pub struct PackageTemplate { pub id: u64 }
pub struct Transaction { pub id: u64 }
impl Transaction { #[verifier::external_body] pub fn compute_txid(&self) -> (r: Txid) ensures r.0 == self.id { unimplemented!() } }
pub enum OnchainEvent { Claim { claim_id: ClaimId }, ContentiousOutpoint { package: PackageTemplate } }
//@extract lightning/src/chain/onchaintx.rs :: struct OnchainEventEntry
//@end
//@extract lightning/src/chain/onchaintx.rs :: impl OnchainTxHandler :: fn update_claims_view_from_matched_txn
//@slice R15
    macro_rules! clean_claim_request_after_safety_delay { () => { let entry = $e:seq; if !self.onchain_events_awaiting_threshold_conf.contains(&entry) {
//@with
    fn claim_resolved_entry(tx: &Transaction, conf_height: u32, conf_hash: BlockHash, cur_height: u32, claim_id: &ClaimId) -> OnchainEventEntry { let entry = $e; entry }
//@ret r
//@ensures P C07,C11 a-claim-resolved-by-a-confirmed-transaction-is-remembered-under-that-transaction-and-the-block-that-confirmed-it
    r.txid.0 == tx.id, r.height == conf_height, r.block_hash == Some(conf_hash), r.event == (OnchainEvent::Claim { claim_id: *claim_id }),
//@mutant claim_resolution_dated_at_the_current_tip
    height: conf_height, block_hash: Some(conf_hash), event: OnchainEvent::Claim { claim_id: *claim_id }
//@with
    height: cur_height, block_hash: Some(conf_hash), event: OnchainEvent::Claim { claim_id: *claim_id }
//@end
//@extract lightning/src/chain/onchaintx.rs :: impl OnchainTxHandler :: fn update_claims_view_from_matched_txn
//@slice R15
    for package in claimed_outputs_material.drain(..) { let entry = $e:seq; if !self.onchain_events_awaiting_threshold_conf.contains(&entry) {
//@with
    fn contentious_outpoint_entry(tx: &Transaction, conf_height: u32, conf_hash: BlockHash, cur_height: u32, package: PackageTemplate) -> OnchainEventEntry { let entry = $e; entry }
//@ret r
//@ensures P C07,C11 outpoints-a-confirmed-transaction-took-from-a-claim-are-remembered-under-that-transaction-and-the-block-that-confirmed-it
    r.txid.0 == tx.id, r.height == conf_height, r.block_hash == Some(conf_hash), r.event == (OnchainEvent::ContentiousOutpoint { package }),
//@mutant contentious_outpoint_dated_at_the_current_tip
    height: conf_height, block_hash: Some(conf_hash), event: OnchainEvent::ContentiousOutpoint { package }
//@with
    height: cur_height, block_hash: Some(conf_hash), event: OnchainEvent::ContentiousOutpoint { package }
//@end
}
}
fn main() {}
