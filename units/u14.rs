//! unit: u14
//! properties: C14
//! note: onion_utils::shift_slice_right on slices of any length (attribution-data shifting helper)
//! trusted: none beyond Verus/Z3 (no stubs); the function is extracted verbatim
//! trusted: assume_specification for core::cmp::max / core::cmp::min (std definitions): present in every unit so that a change that introduces them is verified instead of being rejected by the tool
use vstd::prelude::*;
verus! {
use vstd::std_specs::cmp::*;
use core::cmp;
pub assume_specification<T: core::cmp::Ord>[core::cmp::max::<T>](a: T, b: T) -> (r: T)
    ensures T::obeys_cmp_spec() ==> r == (if b.cmp_spec(&a) == core::cmp::Ordering::Less { a } else { b });
pub assume_specification<T: core::cmp::Ord>[core::cmp::min::<T>](a: T, b: T) -> (r: T)
    ensures T::obeys_cmp_spec() ==> r == (if b.cmp_spec(&a) == core::cmp::Ordering::Less { b } else { a });
//@extract lightning/src/ln/onion_utils.rs :: fn shift_slice_right
//@requires
    amt <= old(arr)@.len()
//@ensures P C14 shift-moves-every-byte-amt-positions-right-and-zero-fills-the-front
    final(arr)@.len() == old(arr)@.len(),
    forall|i: int| 0 <= i < old(arr)@.len() - amt ==> final(arr)@[i + amt] == old(arr)@[i],
    forall|i: int| 0 <= i < amt ==> final(arr)@[i] == 0,
//@loop 1 iter=it
    invariant
        arr@.len() == old(arr)@.len(), amt <= arr@.len(),
        it.seq().len() == arr@.len() - amt,
        forall|j: int| 0 <= j < it.seq().len() ==> it.seq()[j] == arr@.len() - 1 - j,
        // positions already written hold the shifted value; positions not yet written are untouched
        forall|k: int| arr@.len() - it.index@ <= k < arr@.len() ==> arr@[k] == old(arr)@[k - amt],
        forall|k: int| 0 <= k < arr@.len() - it.index@ ==> arr@[k] == old(arr)@[k],
//@loop 2
    invariant
        arr@.len() == old(arr)@.len(), amt <= arr@.len(),
        forall|k: int| amt <= k < arr@.len() ==> arr@[k] == old(arr)@[k - amt],
        forall|k: int| 0 <= k < i ==> arr@[k] == 0,
//@mutant off_by_one_source
    arr[i] = arr[i - amt];
//@with
    arr[i] = arr[i - amt + if amt > 0 { 1 } else { 0 }];
//@end
}
fn main() {}
