//! unit: u16j
//! properties: C16
//! note: calculate_blinded_path_intro_points, where a blinded path whose introduction node is named compactly (a channel id and a side of that channel) is taken to start when the channel is not in the graph but is one of our own first hops: at the node on THAT side of the channel between us and the counterparty - the lesser of the two node ids for side one, the greater for side two (Direction::select_node_id, extracted) - and the first hop it is matched with is one whose outbound payment id is that channel id. A path resolved to the other end gets a route whose last clear hop does not lead to the node the blinded tail starts at
//! trusted: R15 (deep slices): the body of the closure that turns the matched first hop into the introduction node (`.map(|(cp, _)| ..)`) and the predicate that matches a first hop (`.any(|details| ..)`), verbatim; the iterator chain around them, the graph lookup tried first and the counter lookup after are not sliced; R5: NodeId is written u64 (an opaque totally ordered id: NodeId orders by its 33 bytes), references to it dereferenced; ChannelDetails::get_outbound_payment_scid an uninterpreted projection
//! trusted: assume_specification for core::cmp::max / core::cmp::min (std definitions): present in every unit so that a change that introduces them is verified instead of being rejected by the tool
use vstd::prelude::*;
verus! {
use vstd::std_specs::cmp::*;
use core::cmp;
pub assume_specification<T: core::cmp::Ord>[core::cmp::max::<T>](a: T, b: T) -> (r: T)
    ensures T::obeys_cmp_spec() ==> r == (if b.cmp_spec(&a) == core::cmp::Ordering::Less { a } else { b });
pub assume_specification<T: core::cmp::Ord>[core::cmp::min::<T>](a: T, b: T) -> (r: T)
    ensures T::obeys_cmp_spec() ==> r == (if b.cmp_spec(&a) == core::cmp::Ordering::Less { b } else { a });
//@extract lightning/src/blinded_path/mod.rs :: enum Direction
//@end
pub open spec fn side_of(d: Direction, a: u64, b: u64) -> u64 { match d { Direction::NodeOne => if a <= b { a } else { b }, Direction::NodeTwo => if a >= b { a } else { b } } }
impl Direction {
//@extract lightning/src/blinded_path/mod.rs :: impl Direction :: fn select_node_id
//@rw * R5
    NodeId
//@with
    u64
//@ret r
//@ensures P C16 side-one-of-a-channel-is-the-lesser-node-id-and-side-two-the-greater
    r == side_of(*self, node_a, node_b),
//@mutant both_sides_select_the_lesser_node
    Direction::NodeTwo => core::cmp::max(node_a, node_b),
//@with
    Direction::NodeTwo => core::cmp::min(node_a, node_b),
//@end
}
pub struct ChannelDetails { pub id: u64 }
pub uninterp spec fn outbound_payment_scid(d: ChannelDetails) -> Option<u64>;
impl ChannelDetails { #[verifier::external_body] pub fn get_outbound_payment_scid(&self) -> (r: Option<u64>) ensures r == outbound_payment_scid(*self) { unimplemented!() } }
//@extract lightning/src/routing/router.rs :: fn calculate_blinded_path_intro_points
//@slice R15
    .any(|details| Some(*scid) == details.get_outbound_payment_scid()) ).map(|(cp, _)| $e:seq) })
//@with
    fn introduction_node_named_by_a_side_of_our_first_hop(direction: &Direction, our_node_id: u64, cp: &u64) -> u64 { $e }
//@ret r
//@ensures P C16 a-blinded-path-introduced-by-a-side-of-one-of-our-first-hops-starts-at-the-node-on-that-side-us-or-the-counterparty
    r == side_of(*direction, our_node_id, *cp),
//@mutant the_side_is_ignored_and_the_counterparty_taken
    direction.select_node_id(our_node_id, *cp)
//@with
    *cp
//@end
//@extract lightning/src/routing/router.rs :: fn calculate_blinded_path_intro_points
//@slice R15
    .any(|details| $p:seq) ).map(|(cp, _)|
//@with
    fn first_hop_is_the_channel_the_path_names(scid: &u64, details: &ChannelDetails) -> bool { $p }
//@ret r
//@ensures P C16 the-first-hop-matched-with-a-compactly-named-introduction-node-is-one-whose-outbound-payment-id-is-that-channel-id
    r == (outbound_payment_scid(*details) == Some(*scid)),
//@end
}
fn main() {}
