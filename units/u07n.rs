//! unit: u07n
//! properties: C07 C11
//! note: OnchainTxHandler::abandon_claim (called when the commitment transaction whose outputs were being claimed is no longer the one on chain): the claim that is given up is the one that INCLUDES the outpoint - an aggregated package as much as a single-input one. A claim still parked until its locktime (locktimed_packages) is dropped exactly when one of its outpoints is the abandoned one, and is otherwise kept; a pending request is found by the same test. A parked aggregated claim that survived would later be broadcast (and, on an anchor channel, funded from the wallet) for outputs of a transaction that is not on chain
//! trusted: R15 (deep slices): the body of the `claims.retain(|claim| ..)` closure and the predicate of the `.find(|(_, claim)| ..)` over the pending requests, verbatim; env: PackageTemplate::outpoints() returns a list stub whose `contains` has the meaning of slice::contains over the package's outpoints (a sequence of opaque outpoint ids); the maps around them (claimable_outpoints, pending_claim_requests) are not sliced
//! trusted: assume_specification for core::cmp::max / core::cmp::min (std definitions): present in every unit so that a change that introduces them is verified instead of being rejected by the tool
use vstd::prelude::*;
verus! {
use vstd::std_specs::cmp::*;
use core::cmp;
pub assume_specification<T: core::cmp::Ord>[core::cmp::max::<T>](a: T, b: T) -> (r: T)
    ensures T::obeys_cmp_spec() ==> r == (if b.cmp_spec(&a) == core::cmp::Ordering::Less { a } else { b });
pub assume_specification<T: core::cmp::Ord>[core::cmp::min::<T>](a: T, b: T) -> (r: T)
    ensures T::obeys_cmp_spec() ==> r == (if b.cmp_spec(&a) == core::cmp::Ordering::Less { b } else { a });
pub struct BitcoinOutPoint { pub id: u64 }
pub struct OutpointList { pub s: Ghost<Seq<u64>> }
impl OutpointList {
    #[verifier::external_body] pub fn contains(&self, o: &&BitcoinOutPoint) -> (r: bool) ensures r == self.s@.contains(o.id) { unimplemented!() }
    #[verifier::external_body] pub fn len(&self) -> (r: usize) ensures r == self.s@.len() { unimplemented!() }
}
// `LIST == [outpoint]` (Vec<&OutPoint> against a one-element array: element-wise equality)
impl<'a> vstd::std_specs::cmp::PartialEqSpecImpl<[&'a BitcoinOutPoint; 1]> for OutpointList { open spec fn obeys_eq_spec() -> bool { true } open spec fn eq_spec(&self, other: &[&'a BitcoinOutPoint; 1]) -> bool { self.s@ =~= seq![other[0].id] } }
impl<'a> PartialEq<[&'a BitcoinOutPoint; 1]> for OutpointList { #[verifier::external_body] fn eq(&self, other: &[&'a BitcoinOutPoint; 1]) -> (r: bool) { unimplemented!() } }
pub struct PackageTemplate { pub outs: Ghost<Seq<u64>> }
impl PackageTemplate { #[verifier::external_body] pub fn outpoints(&self) -> (r: OutpointList) ensures r.s@ == self.outs@ { unimplemented!() } }
//@extract lightning/src/chain/onchaintx.rs :: impl OnchainTxHandler :: fn abandon_claim
//@slice R15
    claims.retain(|claim| { $body:any })
//@with
    fn parked_claim_is_kept_when_an_outpoint_is_abandoned(claim: &PackageTemplate, outpoint: &BitcoinOutPoint, found_claim_in: bool) -> (bool, bool) { let mut found_claim = found_claim_in; let __kept = { $body }; (__kept, found_claim) }
//@ret r
//@ensures P C07,C11 a-parked-claim-is-dropped-exactly-when-it-includes-the-abandoned-outpoint-however-many-other-outpoints-it-aggregates
    r.0 == !claim.outs@.contains(outpoint.id),
    r.1 == (found_claim_in || claim.outs@.contains(outpoint.id)),
//@mutant parked_claim_abandoned_only_if_the_outpoint_is_its_only_one
    let includes_outpoint = claim.outpoints().contains(&outpoint);
//@with
    let includes_outpoint = claim.outpoints() == [outpoint];
//@mutant only_single_input_parked_claims_are_abandoned
    let includes_outpoint = claim.outpoints().contains(&outpoint);
//@with
    let includes_outpoint = claim.outpoints().contains(&outpoint) && claim.outpoints().len() == 1;
//@end
//@extract lightning/src/chain/onchaintx.rs :: impl OnchainTxHandler :: fn abandon_claim
//@slice R15
    .find(|(_, claim)| $p:seq) .map(|(claim_id, _)| *claim_id)
//@with
    fn pending_request_is_the_one_to_abandon(claim: &PackageTemplate, outpoint: &BitcoinOutPoint) -> bool { $p }
//@ret r
//@ensures P C07,C11 the-pending-request-given-up-for-an-abandoned-outpoint-is-one-that-includes-it
    r == claim.outs@.contains(outpoint.id),
//@end
}
fn main() {}
